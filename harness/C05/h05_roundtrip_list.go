package httpc

import (
	"context"
	"encoding/json"
	"errors"
	"io"
	"net/http"
	"strconv"

	"github.com/gotid/god/api/httpx"
	"github.com/gotid/god/api/router"
)

// H05u: the round trip of H05r for a request struct with LIST-valued parts
// (`[]int` / `[]string` as header and form members). The client helper writes
// such a member as ONE header line / ONE query value holding the JSON text of
// the list (formatValue -> json.Marshal); the server (encoding.ParseHeaders /
// httpx.GetFormValues) hands a header or form key that has exactly one value
// to the mapper as a plain string, which lib/mapping (fillSliceFromString ->
// jsonx.UnmarshalFromString -> json.Decoder + UseNumber into a []any) reads as
// the JSON text of a list. Both ends must therefore agree on "one line of JSON
// text" for every list length, the one-element list in particular.
// Lengths 1..3: an empty (or nil) non-optional list member is refused by
// mapping.Marshal on the client, so nothing is sent.
//
// encoding/json cannot run under the engine. In the symbolic world the two call
// shapes this chain uses are replaced by a model of JSON list text:
//
//	json.Marshal([]int | []string)              -> `[e,e,...]` / `null` for a nil slice
//	json.NewDecoder(r).UseNumber().Decode(&[]any) of `[` elements `]`
//
// with elements being integer numerals (-> json.Number) or double-quoted strings
// that need no escaping; a text that does not start a list (`7`, `solo`, `"x"`,
// `{...}`, the empty text, a truncated `nul`) fails, as the real decoder does
// for a *[]any destination (syntax error, UnmarshalTypeError or EOF - the
// harness only needs "an error"); `null` leaves the destination nil without an
// error. Natively the real encoding/json runs on both sides, so every witness
// and counterexample replay cross-checks the model.

//verif:model encoding/json.Marshal => verifLMarshal
//verif:model encoding/json.NewDecoder => verifLNewDecoder
//verif:model (*encoding/json.Decoder).UseNumber => verifLUseNumber
//verif:model (*encoding/json.Decoder).Decode => verifLDecode

var verifLDecR io.Reader

func verifLNewDecoder(r io.Reader) *json.Decoder { verifLDecR = r; return new(json.Decoder) }
func verifLUseNumber(d *json.Decoder)            {}

// verifLPlain: every byte of s is one JSON writes verbatim inside a string
// (0x20..0x7e without `"` `\` `<` `>` `&`). Value-level, one fork at the caller.
func verifLPlain(s string) bool {
	ok := true
	for i := 0; i < len(s); i++ {
		c := s[i]
		ok = verifAnd(ok, c >= 0x20)
		ok = verifAnd(ok, c <= 0x7e)
		ok = verifAnd(ok, c != '"')
		ok = verifAnd(ok, c != '\\')
		ok = verifAnd(ok, c != '<')
		ok = verifAnd(ok, c != '>')
		ok = verifAnd(ok, c != '&')
	}
	return ok
}

func verifLMarshal(v any) ([]byte, error) {
	text := "["
	switch x := v.(type) {
	case []int:
		if x == nil {
			return []byte("null"), nil
		}
		for i, e := range x {
			if i > 0 {
				text += ","
			}
			text += strconv.Itoa(e)
		}
	case []string:
		if x == nil {
			return []byte("null"), nil
		}
		for i, e := range x {
			if i > 0 {
				text += ","
			}
			if !verifLPlain(e) {
				panic("verif json list model: string needs escaping")
			}
			text += `"` + e + `"`
		}
	default:
		panic("verif json list model: Marshal of something else than []int / []string")
	}
	text += "]"
	return []byte(text), nil
}

var errVerifLJSON = errors.New("verif json list model: the text is not a JSON list")

func verifLDecode(d *json.Decoder, v any) error {
	data, err := io.ReadAll(verifLDecR)
	if err != nil {
		return err
	}
	dst, ok := v.(*[]any)
	if !ok {
		panic("verif json list model: Decode into something else than *[]any")
	}
	if len(data) == 0 {
		return io.EOF
	}
	switch c := data[0]; {
	case c == '[':
	case c == ' ' || c == '\t' || c == '\r' || c == '\n':
		panic("verif json list model: leading white space is outside the model's grammar")
	case c == 'n':
		// `null`: no error, destination nil. A proper prefix of it is a truncated
		// value, any other continuation a syntax error.
		const null = "null"
		for i := 1; i < len(null); i++ {
			if i >= len(data) || data[i] != null[i] {
				return errVerifLJSON
			}
		}
		if len(data) > len(null) {
			panic("verif json list model: text after null is outside the model's grammar")
		}
		*dst = nil
		return nil
	default:
		// any other first byte starts a scalar / object / string (wrong kind for a
		// list destination: UnmarshalTypeError), or nothing at all (syntax error)
		return errVerifLJSON
	}

	// inside the list. Texts the real decoder REJECTS are rejected here too (so a
	// client that writes something else than JSON shows up as a failing parse, not
	// as a gap of the model); texts it accepts but that are not `[` ints/plain
	// strings `]` (white space, floats, escapes, nested values, true/false/null)
	// are outside the model: panic => INCONCLUSIVE.
	i := 1
	out := []any{}
	if i < len(data) && data[i] == ']' {
		*dst = out
		return nil
	}
	for {
		if i >= len(data) {
			return io.ErrUnexpectedEOF
		}
		switch c := data[i]; {
		case c == '"':
			i++
			st := i
			for i < len(data) && data[i] != '"' {
				i++
			}
			if i >= len(data) {
				return io.ErrUnexpectedEOF
			}
			ctl, esc := false, false
			for k := st; k < i; k++ {
				ctl = verifOr(ctl, data[k] < 0x20)
				esc = verifOr(esc, data[k] == '\\')
				esc = verifOr(esc, data[k] > 0x7e)
			}
			if ctl {
				return errVerifLJSON // control byte inside a string literal
			}
			if esc {
				panic("verif json list model: string with escapes / non-ASCII bytes is outside the model's grammar")
			}
			out = append(out, string(data[st:i]))
			i++
		case c == '-' || (c >= '0' && c <= '9'):
			// integer numeral: -?(0|[1-9][0-9]*)
			st := i
			if c == '-' {
				i++
			}
			d0 := i
			for i < len(data) && data[i] >= '0' && data[i] <= '9' {
				i++
			}
			if i == d0 {
				return errVerifLJSON // "-" without a digit
			}
			if i-d0 > 1 && data[d0] == '0' {
				return errVerifLJSON // a digit after a leading 0
			}
			if i < len(data) && (data[i] == '.' || data[i] == 'e' || data[i] == 'E') {
				panic("verif json list model: fraction / exponent is outside the model's grammar")
			}
			out = append(out, json.Number(string(data[st:i])))
		case c == '[' || c == '{' || c == ' ' || c == '\t' || c == '\r' || c == '\n':
			panic("verif json list model: nested value / white space is outside the model's grammar")
		case c == 't' || c == 'f' || c == 'n':
			lit := "true"
			if c == 'f' {
				lit = "false"
			} else if c == 'n' {
				lit = "null"
			}
			for k := 1; k < len(lit); k++ {
				if i+k >= len(data) || data[i+k] != lit[k] {
					return errVerifLJSON // truncated or misspelt literal
				}
			}
			panic("verif json list model: true / false / null element is outside the model's grammar")
		default:
			return errVerifLJSON // no JSON value starts with this byte (also `]` after a comma)
		}
		// after an element
		if i >= len(data) {
			return io.ErrUnexpectedEOF
		}
		switch c := data[i]; {
		case c == ',':
			i++
			continue
		case c == ']':
			// the stream decoder stops at the closing bracket; what follows is not read
			*dst = out
			return nil
		case c == ' ' || c == '\t' || c == '\r' || c == '\n':
			panic("verif json list model: white space is outside the model's grammar")
		default:
			return errVerifLJSON // neither `,` nor `]` after an array element
		}
	}
}

type verifReqL struct {
	Key  string   `path:"key"`
	Ids  []int    `header:"X-Ids"`
	Tags []string `header:"X-Tags"`
	Fi   []int    `form:"fi"`
	Fs   []string `form:"fs"`
}

type verifSrvL struct {
	ran int
	got verifReqL
	err error
}

func (s *verifSrvL) ServeHTTP(w http.ResponseWriter, r *http.Request) {
	s.ran++
	s.err = httpx.Parse(r, &s.got)
}

// verifIntList: n symbolic ints; element 0 in [-wide, wide], the others in
// [restLo, 9] (every element's sign and digit count is a fork of the decimal
// rendering, so only some elements range over both signs / several digits).
func verifIntList(name string, n, wide, restLo int) []int {
	l := make([]int, n)
	for i := 0; i < n; i++ {
		l[i] = verifInt(name + strconv.Itoa(i))
		if i == 0 {
			verifAssume(l[i] >= -wide)
			verifAssume(l[i] <= wide)
		} else {
			verifAssume(l[i] >= restLo)
			verifAssume(l[i] <= 9)
		}
	}
	return l
}

func verifLetterList(name string, n int) []string {
	l := make([]string, n)
	for i := 0; i < n; i++ {
		l[i] = verifSymStr(name+strconv.Itoa(i), 1, 'a', 'z')
	}
	return l
}

func Verif_C05_roundtrip_list() {
	// fan-out: lengths of the two header lists, 1..3 each
	c := verifCase(9)
	nIds, nTags := 1+c/3, 1+c%3
	method := http.MethodGet
	if verifChoose("method", 2) == 1 {
		method = http.MethodPost
	}
	nF := 1 + verifChoose("f.len", 3) // both form lists

	var sent verifReqL
	sent.Key = verifSymStr("key", 1, 'a', 'z')
	sent.Ids = verifIntList("ids", nIds, verifParam("nmax"), -9)
	sent.Tags = verifLetterList("tags", nTags)
	sent.Fi = verifIntList("fi", nF, 9, 0)
	sent.Fs = verifLetterList("fs", nF)

	creq, err := buildRequest(context.Background(), method, "http://host/items/:key", &sent)
	verifAssert(err == nil, "buildRequest accepts the request struct")
	if err != nil {
		return
	}
	sreq, err := verifWire(creq)
	verifAssert(err == nil, "the request target written by the client is a valid request URI")
	if err != nil {
		return
	}
	srv := &verifSrvL{}
	rt := router.NewRouter()
	verifAssert(rt.Handle(method, "/items/:key", srv) == nil, "route registered")
	rt.ServeHTTP(&verifRW{hdr: http.Header{}}, sreq)
	verifAssert(srv.ran == 1, "the request reaches the handler of /items/:key")
	if srv.ran != 1 {
		return
	}
	verifReach("list-routed")
	// which list shapes took part (tagged before the oracle, so that a failing
	// shape is reported as a violation, not also as a vacuous tag)
	if nIds == 1 || nTags == 1 {
		verifReach("one-element-list")
	}
	if nIds > 1 || nTags > 1 {
		verifReach("multi-element-list")
	}
	if nF == 1 {
		verifReach("form-one-element-list")
	}
	if nF > 1 {
		verifReach("form-multi-element-list")
	}
	verifAssert(srv.err == nil, "httpx.Parse accepts the list-valued parts the client helper sent")
	if srv.err != nil {
		return
	}
	got := srv.got
	verifAssert(got.Key == sent.Key, "path part parsed back equal")
	verifAssert(len(got.Ids) == len(sent.Ids), "[]int header part parsed back with the same length")
	verifAssert(len(got.Tags) == len(sent.Tags), "[]string header part parsed back with the same length")
	verifAssert(len(got.Fi) == len(sent.Fi), "[]int form part parsed back with the same length")
	verifAssert(len(got.Fs) == len(sent.Fs), "[]string form part parsed back with the same length")
	if len(got.Ids) != len(sent.Ids) || len(got.Tags) != len(sent.Tags) || len(got.Fi) != len(sent.Fi) || len(got.Fs) != len(sent.Fs) {
		return
	}
	for i := range sent.Ids {
		verifAssert(got.Ids[i] == sent.Ids[i], "[]int header part parsed back equal, element by element")
	}
	for i := range sent.Tags {
		verifAssert(got.Tags[i] == sent.Tags[i], "[]string header part parsed back equal, element by element")
	}
	for i := range sent.Fi {
		verifAssert(got.Fi[i] == sent.Fi[i], "[]int form part parsed back equal, element by element")
	}
	for i := range sent.Fs {
		verifAssert(got.Fs[i] == sent.Fs[i], "[]string form part parsed back equal, element by element")
	}
	verifReach("roundtrip-list")
	if sent.Ids[0] < 0 {
		verifReach("int-negative")
	}
}
