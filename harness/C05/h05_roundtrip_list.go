package httpc

import (
	"context"
	"encoding/json"
	"errors"
	"io"
	"net/http"
	"strconv"

	"github.com/gotid/god/api/httpx"
	"github.com/gotid/god/api/router"
)

// H05u: the round trip of H05r for a request struct with LIST-valued parts
// (`[]int` / `[]string` as header and form members). The client helper writes
// such a member as ONE header line / ONE query value holding the JSON text of
// the list (formatValue -> json.Marshal); the server (encoding.ParseHeaders /
// httpx.GetFormValues) hands a header or form key that has exactly one value
// to the mapper as a plain string, which lib/mapping (fillSliceFromString ->
// jsonx.UnmarshalFromString -> json.Decoder + UseNumber into a []any) reads as
// the JSON text of a list. Both ends must therefore agree on "one line of JSON
// text" for every list length, the one-element list in particular.
//
// encoding/json cannot run under the engine. In the symbolic world the two call
// shapes this chain uses are replaced by a model of JSON list text:
//
//	json.Marshal([]int | []string)              -> `[e,e,...]` / `null` for a nil slice
//	json.NewDecoder(r).UseNumber().Decode(&[]any) of `[` elements `]`
//
// with elements being integer numerals (-> json.Number) or double-quoted strings
// that need no escaping; a text that does not start a list (`7`, `solo`, `"x"`,
// `{...}`, the empty text, a truncated `nul`) fails, as the real decoder does
// for a *[]any destination (syntax error, UnmarshalTypeError or EOF - the
// harness only needs "an error"); `null` leaves the destination nil without an
// error. Natively the real encoding/json runs on both sides, so every witness
// and counterexample replay cross-checks the model.

//verif:model encoding/json.Marshal => verifLMarshal
//verif:model encoding/json.NewDecoder => verifLNewDecoder
//verif:model (*encoding/json.Decoder).UseNumber => verifLUseNumber
//verif:model (*encoding/json.Decoder).Decode => verifLDecode

var verifLDecR io.Reader

func verifLNewDecoder(r io.Reader) *json.Decoder { verifLDecR = r; return new(json.Decoder) }
func verifLUseNumber(d *json.Decoder)            {}

// verifLPlain: every byte of s is one JSON writes verbatim inside a string
// (0x20..0x7e without `"` `\` `<` `>` `&`). Value-level, one fork at the caller.
func verifLPlain(s string) bool {
	ok := true
	for i := 0; i < len(s); i++ {
		c := s[i]
		ok = verifAnd(ok, c >= 0x20)
		ok = verifAnd(ok, c <= 0x7e)
		ok = verifAnd(ok, c != '"')
		ok = verifAnd(ok, c != '\\')
		ok = verifAnd(ok, c != '<')
		ok = verifAnd(ok, c != '>')
		ok = verifAnd(ok, c != '&')
	}
	return ok
}

func verifLMarshal(v any) ([]byte, error) {
	text := "["
	switch x := v.(type) {
	case []int:
		if x == nil {
			return []byte("null"), nil
		}
		for i, e := range x {
			if i > 0 {
				text += ","
			}
			text += strconv.Itoa(e)
		}
	case []string:
		if x == nil {
			return []byte("null"), nil
		}
		for i, e := range x {
			if i > 0 {
				text += ","
			}
			if !verifLPlain(e) {
				panic("verif json list model: string needs escaping")
			}
			text += `"` + e + `"`
		}
	default:
		panic("verif json list model: Marshal of something else than []int / []string")
	}
	text += "]"
	return []byte(text), nil
}

var errVerifLJSON = errors.New("verif json list model: the text is not a JSON list")

func verifLDecode(d *json.Decoder, v any) error {
	data, err := io.ReadAll(verifLDecR)
	if err != nil {
		return err
	}
	dst, ok := v.(*[]any)
	if !ok {
		panic("verif json list model: Decode into something else than *[]any")
	}
	if len(data) == 0 {
		return io.EOF
	}
	switch c := data[0]; {
	case c == '[':
	case c == ' ' || c == '\t' || c == '\r' || c == '\n':
		panic("verif json list model: leading white space is outside the model's grammar")
	case c == 'n':
		// `null`: no error, destination nil. A proper prefix of it is a truncated
		// value, any other continuation a syntax error.
		const null = "null"
		for i := 1; i < len(null); i++ {
			if i >= len(data) || data[i] != null[i] {
				return errVerifLJSON
			}
		}
		if len(data) > len(null) {
			panic("verif json list model: text after null is outside the model's grammar")
		}
		*dst = nil
		return nil
	default:
		// any other first byte starts a scalar / object / string (wrong kind for a
		// list destination: UnmarshalTypeError), or nothing at all (syntax error)
		return errVerifLJSON
	}

	i := 1
	out := []any{}
	if i < len(data) && data[i] == ']' {
		*dst = out
		return nil
	}
	for {
		if i >= len(data) {
			panic("verif json list model: truncated list is outside the model's grammar")
		}
		st := i
		if data[i] == '"' {
			i++
			st = i
			for i < len(data) && data[i] != '"' {
				i++
			}
			if i >= len(data) {
				panic("verif json list model: unterminated string is outside the model's grammar")
			}
			s := string(data[st:i])
			if !verifLPlain(s) {
				panic("verif json list model: string with escapes is outside the model's grammar")
			}
			i++
			out = append(out, s)
		} else {
			for i < len(data) && data[i] != ',' && data[i] != ']' {
				i++
			}
			num := data[st:i]
			// integer numeral: -?(0|[1-9][0-9]*)
			k := 0
			if k < len(num) && num[k] == '-' {
				k++
			}
			good := k < len(num)
			if len(num)-k > 1 {
				good = verifAnd(good, num[k] != '0')
			}
			for ; k < len(num); k++ {
				good = verifAnd(good, num[k] >= '0')
				good = verifAnd(good, num[k] <= '9')
			}
			if !good {
				panic("verif json list model: element is neither an integer numeral nor a string")
			}
			out = append(out, json.Number(string(num)))
		}
		if i < len(data) && data[i] == ',' {
			i++
			continue
		}
		if i < len(data) && data[i] == ']' {
			// the stream decoder stops at the closing bracket; what follows is not read
			break
		}
		panic("verif json list model: text outside the model's grammar")
	}
	*dst = out
	return nil
}

type verifReqL struct {
	Key  string   `path:"key"`
	Ids  []int    `header:"X-Ids"`
	Tags []string `header:"X-Tags"`
	Fi   []int    `form:"fi"`
}

type verifSrvL struct {
	ran int
	got verifReqL
	err error
}

func (s *verifSrvL) ServeHTTP(w http.ResponseWriter, r *http.Request) {
	s.ran++
	s.err = httpx.Parse(r, &s.got)
}

func verifIntList(name string, n, lo, hi int) []int {
	l := make([]int, n)
	for i := 0; i < n; i++ {
		l[i] = verifInt(name + strconv.Itoa(i))
		verifAssume(l[i] >= lo)
		verifAssume(l[i] <= hi)
	}
	return l
}

func Verif_C05_roundtrip_list() {
	// fan-out: lengths of the two header lists, 1..3 each
	c := verifCase(9)
	nIds, nTags := 1+c/3, 1+c%3
	method := http.MethodGet
	if verifChoose("method", 2) == 1 {
		method = http.MethodPost
	}
	nFi := 1 + verifChoose("fi.len", 3)

	var sent verifReqL
	sent.Key = verifSymStr("key", 1, 'a', 'z')
	sent.Ids = verifIntList("ids", nIds, -verifParam("nmax"), verifParam("nmax"))
	sent.Tags = make([]string, nTags)
	for i := 0; i < nTags; i++ {
		sent.Tags[i] = verifSymStr("tags"+strconv.Itoa(i), 1, 'a', 'z')
	}
	sent.Fi = verifIntList("fi", nFi, 0, 9)

	creq, err := buildRequest(context.Background(), method, "http://host/items/:key", &sent)
	verifAssert(err == nil, "buildRequest accepts the request struct")
	if err != nil {
		return
	}
	sreq, err := verifWire(creq)
	verifAssert(err == nil, "the request target written by the client is a valid request URI")
	if err != nil {
		return
	}
	srv := &verifSrvL{}
	rt := router.NewRouter()
	verifAssert(rt.Handle(method, "/items/:key", srv) == nil, "route registered")
	rt.ServeHTTP(&verifRW{hdr: http.Header{}}, sreq)
	verifAssert(srv.ran == 1, "the request reaches the handler of /items/:key")
	if srv.ran != 1 {
		return
	}
	verifReach("list-routed")
	verifAssert(srv.err == nil, "httpx.Parse accepts the list-valued parts the client helper sent")
	if srv.err != nil {
		return
	}
	got := srv.got
	verifAssert(got.Key == sent.Key, "path part parsed back equal")
	verifAssert(len(got.Ids) == len(sent.Ids), "[]int header part parsed back with the same length")
	verifAssert(len(got.Tags) == len(sent.Tags), "[]string header part parsed back with the same length")
	verifAssert(len(got.Fi) == len(sent.Fi), "[]int form part parsed back with the same length")
	if len(got.Ids) != len(sent.Ids) || len(got.Tags) != len(sent.Tags) || len(got.Fi) != len(sent.Fi) {
		return
	}
	for i := range sent.Ids {
		verifAssert(got.Ids[i] == sent.Ids[i], "[]int header part parsed back equal, element by element")
	}
	for i := range sent.Tags {
		verifAssert(got.Tags[i] == sent.Tags[i], "[]string header part parsed back equal, element by element")
	}
	for i := range sent.Fi {
		verifAssert(got.Fi[i] == sent.Fi[i], "[]int form part parsed back equal, element by element")
	}
	verifReach("roundtrip-list")
	if nIds == 1 || nTags == 1 || nFi == 1 {
		verifReach("one-element-list")
	}
	if nIds > 1 || nTags > 1 || nFi > 1 {
		verifReach("multi-element-list")
	}
	if sent.Ids[0] < 0 {
		verifReach("int-negative")
	}
}
