package mapping

import (
	"encoding/json"
)

// Shared by H05p (h05_adversarial.go) and H05y (h05_jsonyaml.go): ONE symbolic
// description of a document value (verifPVal) from which the harnesses build
//   - the generic tree the JSON decoder (UseNumber) delivers:   jsonTree  (field v)
//   - the generic tree yaml.v2 delivers for the same content:   yamlTree()
//   - the JSON text and the YAML text of that content:          jsonText() / yamlText()
// The texts are what the native replay feeds to the real parsers.

// ---- the symbolic description of a document value ----

const (
	vkInt  = iota // integer numeral            i = its value, text = its text
	vkFrac        // numeral D.D                m = the two digits as an integer (value m/10)
	vkExp         // numeral DeD                i = D * 10^D
	vkStr         // string of symbolic bytes   s
	vkText        // string holding a concrete JSON text (verifPTexts)
	vkBool        // b
	vkNil
	vkList   // elems
	vkObj    // ent == nil: {}; else {"x": *ent}
	vkFloatC // concrete float literal: text, f = its float64 value (what yaml.v2 delivers)
	vkBig    // concrete integer literal >= 2^63: text, u (yaml.v2: uint64) or f (yaml.v2: float64 when > 2^64-1)
	vkAbsent // the key is not in the document at all
)

var verifPKindName = []string{"integer", "fraction", "exponent", "string", "json-text", "bool", "null", "list", "object", "float", "big-integer", "absent"}

type verifPVal struct {
	kind  int
	v     any
	i     int64
	m     int64
	mag   int64 // |m|
	neg   bool
	text  string
	s     string
	b     bool
	elems []verifPVal
	ent   *verifPVal
	f     float64
	u     uint64
	isF   bool // vkBig delivered by yaml.v2 as float64
}

func verifPDigit(c byte) {
	verifAssume(c >= '0')
	verifAssume(c <= '9')
}

// integer numeral as a JSON parser delivers it: -?(0|[1-9][0-9]*)
func verifPIntNum(name string, maxDigits int, signed bool) verifPVal {
	n := verifChoose(name+".digits", maxDigits) + 1
	neg := signed && verifChoose(name+".neg", 2) == 1
	ds := verifStringN(name, n)
	var val int64
	for i := 0; i < n; i++ {
		verifPDigit(ds[i])
		val = val*10 + int64(ds[i]-'0')
	}
	if n > 1 {
		verifAssume(ds[0] != '0')
	}
	if neg {
		ds, val = "-"+ds, -val
	}
	return verifPVal{kind: vkInt, v: json.Number(ds), i: val, text: ds}
}

func verifPFracNum(name string) verifPVal {
	ds := verifStringN(name, 2)
	verifPDigit(ds[0])
	verifPDigit(ds[1])
	neg := verifChoose(name+".neg", 2) == 1
	var m int64
	for i := 0; i < 2; i++ {
		m = m*10 + int64(ds[i]-'0')
	}
	text := ds[:1] + "." + ds[1:]
	if neg {
		return verifPVal{kind: vkFrac, v: json.Number("-" + text), m: -m, mag: m, neg: true, text: "-" + text}
	}
	return verifPVal{kind: vkFrac, v: json.Number(text), m: m, mag: m, text: text}
}

func verifPExpNum(name string) verifPVal {
	ds := verifStringN(name, 2)
	verifPDigit(ds[0])
	verifAssume(ds[1] >= '0')
	verifAssume(ds[1] <= '3')
	e := int(ds[1] - '0')
	p := verifIte(e == 0, 1, verifIte(e == 1, 10, verifIte(e == 2, 100, 1000)))
	text := ds[:1] + "e" + ds[1:]
	return verifPVal{kind: vkExp, v: json.Number(text), i: int64(ds[0]-'0') * int64(p), text: text}
}

func verifPStr(name string, n int) verifPVal {
	s := verifStringN(name, n)
	return verifPVal{kind: vkStr, v: s, s: s}
}

func verifPBool(name string) verifPVal {
	b := verifChoose(name, 2) == 1
	return verifPVal{kind: vkBool, v: b, b: b}
}

// a list element / object entry: a scalar of any kind
func verifPElem(name string, digits int) verifPVal {
	switch verifChoose(name+".kind", 4) {
	case 0:
		return verifPIntNum(name, digits, true)
	case 1:
		return verifPStr(name+".s", 1)
	case 2:
		return verifPBool(name + ".b")
	}
	return verifPVal{kind: vkNil}
}

func verifPList(es ...verifPVal) verifPVal {
	l := make([]any, len(es))
	for i := range es {
		l[i] = es[i].v
	}
	return verifPVal{kind: vkList, v: l, elems: es}
}

func verifPObj(e *verifPVal) verifPVal {
	m := map[string]any{}
	if e != nil {
		m["x"] = e.v
	}
	return verifPVal{kind: vkObj, v: m, ent: e}
}


// ---- the same content as yaml.v2 delivers it, and as text ----

// yamlTree: ints are Go int (yaml.v2: the narrowest of int, int64, uint64,
// float64 that holds the literal), floats float64, maps map[interface{}]interface{}.
func (d verifPVal) yamlTree() any {
	switch d.kind {
	case vkInt:
		return int(d.i)
	case vkFloatC:
		return d.f
	case vkBig:
		if d.isF {
			return d.f
		}
		return d.u
	case vkStr, vkText:
		return d.s
	case vkBool:
		return d.b
	case vkNil:
		return nil
	case vkList:
		l := make([]interface{}, len(d.elems))
		for i := range d.elems {
			l[i] = d.elems[i].yamlTree()
		}
		return l
	case vkObj:
		m := map[interface{}]interface{}{}
		if d.ent != nil {
			m["x"] = d.ent.yamlTree()
		}
		return m
	}
	panic("verif docgen: kind has no YAML tree")
}

// jsonText: compact JSON. Strings are written between double quotes verbatim
// (the harness keeps their bytes in 0x20..0x7e without '"' and '\\').
func (d verifPVal) jsonText() string {
	switch d.kind {
	case vkInt, vkFrac, vkExp, vkFloatC, vkBig:
		return d.text
	case vkStr, vkText:
		return `"` + d.s + `"`
	case vkBool:
		if d.b {
			return "true"
		}
		return "false"
	case vkNil:
		return "null"
	case vkList:
		t := "["
		for i := range d.elems {
			if i > 0 {
				t += ","
			}
			t += d.elems[i].jsonText()
		}
		return t + "]"
	case vkObj:
		if d.ent == nil {
			return "{}"
		}
		return `{"x":` + d.ent.jsonText() + "}"
	}
	panic("verif docgen: kind has no JSON text")
}

// yamlFlow: the value in YAML flow style (scalars: plain numbers / true / false /
// null, double-quoted strings; lists [a, b]; objects {x: v}).
func (d verifPVal) yamlFlow() string {
	switch d.kind {
	case vkList:
		t := "["
		for i := range d.elems {
			if i > 0 {
				t += ", "
			}
			t += d.elems[i].yamlFlow()
		}
		return t + "]"
	case vkObj:
		if d.ent == nil {
			return "{}"
		}
		return "{x: " + d.ent.yamlFlow() + "}"
	}
	return d.jsonText()
}

// yamlField: "key: value" in block style at the given indentation; an object
// value is written as a nested block mapping.
func (d verifPVal) yamlField(indent, key string) string {
	if d.kind == vkObj && d.ent != nil {
		return indent + key + ":\n" + d.ent.yamlField(indent+"  ", "x")
	}
	return indent + key + ": " + d.yamlFlow() + "\n"
}

// bytes a JSON and a YAML double-quoted string both carry verbatim
func verifPPlain(s string) {
	for i := 0; i < len(s); i++ {
		verifAssume(s[i] >= 0x20)
		verifAssume(s[i] <= 0x7e)
		verifAssume(s[i] != '"')
		verifAssume(s[i] != '\\')
	}
}

func verifPHasNil(es []verifPVal) bool {
	for _, e := range es {
		if e.kind == vkNil {
			return true
		}
	}
	return false
}


// non-negative integer numeral of exactly n digits (no leading zero when n > 1)
func verifPFixedNum(name string, n int) verifPVal {
	ds := verifStringN(name, n)
	var val int64
	for i := 0; i < n; i++ {
		verifPDigit(ds[i])
		val = val*10 + int64(ds[i]-'0')
	}
	if n > 1 {
		verifAssume(ds[0] != '0')
	}
	return verifPVal{kind: vkInt, v: json.Number(ds), i: val, text: ds}
}

// verifPRun: UnmarshalKey under recover()
func verifPRun(m map[string]any, v any) (err error, panicked bool) {
	_, panicked = verifExpectPanic(func() { err = UnmarshalKey(m, v) })
	return
}


// value of the decimal strings ParseInt accepts among strings of <= 2 bytes
func verifPAtoi(s string) (bool, int64) {
	isD := func(c byte) bool { return verifAnd(c >= '0', c <= '9') }
	switch len(s) {
	case 1:
		return isD(s[0]), int64(s[0] - '0')
	case 2:
		d0, d1 := int(s[0]-'0'), int(s[1]-'0')
		ok := verifAnd(verifOr(isD(s[0]), verifOr(s[0] == '+', s[0] == '-')), isD(s[1]))
		v := verifIte(isD(s[0]), 10*d0+d1, verifIte(s[0] == '-', -d1, d1))
		return ok, int64(v)
	}
	return false, 0
}

