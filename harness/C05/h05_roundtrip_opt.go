package httpc

import (
	"context"
	"net/http"

	"github.com/gotid/god/api/httpx"
	"github.com/gotid/god/api/router"
)

// H05t: the round trip of H05r for members tagged `optional,default=...`.
// Whatever value the caller put into such a member - also the zero value of
// its type, deliberately - the server must parse back an EQUAL struct: the
// client may not leave the member out (the server would fill in the default).

type verifReqO struct {
	Key  string `path:"key"`
	Size int    `form:"size,optional,default=20"`
	Lim  int64  `form:"lim,optional,default=10"`
	Ver  bool   `header:"X-Ver,optional,default=true"`
}

type verifSrvO struct {
	ran int
	got verifReqO
	err error
}

func (s *verifSrvO) ServeHTTP(w http.ResponseWriter, r *http.Request) {
	s.ran++
	s.err = httpx.Parse(r, &s.got)
}

func Verif_C05_roundtrip_optional() {
	method := http.MethodGet
	if verifCase(2) == 1 {
		method = http.MethodPost
	}
	sent := verifReqO{Key: "k"}
	sent.Size = verifInt("size")
	verifAssume(sent.Size >= -99)
	verifAssume(sent.Size <= 99)
	lim := verifInt("lim")
	verifAssume(lim >= 0)
	verifAssume(lim <= 99)
	sent.Lim = int64(lim)
	sent.Ver = verifChoose("ver", 2) == 1

	creq, err := buildRequest(context.Background(), method, "http://host/items/:key", &sent)
	verifAssert(err == nil, "buildRequest accepts the request struct")
	if err != nil {
		return
	}
	sreq, err := verifWire(creq)
	verifAssert(err == nil, "the request target written by the client is a valid request URI")
	if err != nil {
		return
	}
	srv := &verifSrvO{}
	rt := router.NewRouter()
	verifAssert(rt.Handle(method, "/items/:key", srv) == nil, "route registered")
	rt.ServeHTTP(&verifRW{hdr: http.Header{}}, sreq)
	verifAssert(srv.ran == 1 && srv.err == nil, "the request reaches the handler and httpx.Parse accepts it")
	if srv.ran != 1 || srv.err != nil {
		return
	}
	verifAssert(srv.got == sent, "optional members with a default are parsed back equal, also when the caller set them to the zero value")
	if sent.Size == 0 && !sent.Ver {
		verifReach("zero-values")
	}
	verifReach("roundtrip-optional")
}
