package conf

import (
	"encoding/json"

	"github.com/gotid/god/lib/mapping"
)

func verifLower(name string, n int) string {
	s := verifStringN(name, n)
	for i := 0; i < n; i++ {
		verifAssume(s[i] >= 'a')
		verifAssume(s[i] <= 'z')
	}
	return s
}

func verifUp(b byte) string { return string([]byte{b - 32}) }

// H05d: key canonicalisation. For an identifier made of two lower-case words
// w1, w2: the snake_case spelling, the camelCase spelling and the spelling with
// a different initial letter case all canonicalise to the same key (the
// camelCase one), and canonicalisation is idempotent.
func Verif_C05_keys() {
	n1 := verifChoose("len1", 2) + 1
	n2 := verifChoose("len2", 2) + 1
	w1, w2 := verifLower("w1", n1), verifLower("w2", n2)
	camel := w1 + verifUp(w2[0]) + w2[1:]
	pascal := verifUp(w1[0]) + w1[1:] + verifUp(w2[0]) + w2[1:]
	snake := w1 + "_" + w2
	snakeCap := verifUp(w1[0]) + w1[1:] + "_" + w2
	want := toCamelCase(camel)
	verifAssert(want == camel, "a camelCase key is its own canonical form")
	verifAssert(toCamelCase(snake) == want, "the snake_case spelling canonicalises to the camelCase key")
	verifAssert(toCamelCase(pascal) == want, "a different initial letter case canonicalises to the same key")
	verifAssert(toCamelCase(snakeCap) == want, "snake_case with a capital initial canonicalises to the same key")
	verifAssert(toCamelCase(want) == want, "canonicalisation is idempotent")
	verifReach("keys")
}

type verifCfg struct {
	UserName int8 `json:"userName"`
}

// the loader accepts every spelling of the key and still checks the value
func Verif_C05_load() {
	keys := []string{"userName", "UserName", "user_name", "User_name"}
	k := keys[verifCase(4)]
	d := verifStringN("digits", 2)
	verifAssume(d[0] >= '1')
	verifAssume(d[0] <= '9')
	verifAssume(d[1] >= '0')
	verifAssume(d[1] <= '9')
	val := int64(d[0]-'0')*10 + int64(d[1]-'0')
	var c verifCfg
	err := mapping.UnmarshalJsonMap(toCamelCaseKeyMap(map[string]any{k: json.Number(d)}), &c, mapping.WithCanonicalKeyFunc(toCamelCase))
	verifAssert(err == nil, "config loading accepts the key in snake_case or with a different initial letter case")
	verifAssert(int64(c.UserName) == val, "and the field gets the document's value")
	verifReach("loaded")
}

type verifItem struct {
	HostName string `json:"hostName"`
}

type verifDeep struct {
	Items [][]verifItem `json:"items"`
	One   verifItem     `json:"one"`
	List  []verifItem   `json:"list"`
}

// keys are canonicalised at every depth of the document: maps in maps, maps in
// lists, maps in lists of lists.
func Verif_C05_deepkeys() {
	inner := func() map[string]any { return map[string]any{"host_name": "h"} }
	doc := map[string]any{
		"Items": []any{[]any{inner()}},
		"one":   inner(),
		"List":  []any{inner()},
	}
	m := toCamelCaseKeyMap(doc)
	one, ok := m["one"].(map[string]any)
	verifAssert(ok && one["hostName"] == "h", "a key inside a nested map is canonicalised")
	list, ok := m["list"].([]any)
	verifAssert(ok && len(list) == 1, "list is kept")
	if ok && len(list) == 1 {
		e, ok := list[0].(map[string]any)
		verifAssert(ok && e["hostName"] == "h", "a key inside a map inside a list is canonicalised")
	}
	items, ok := m["items"].([]any)
	verifAssert(ok && len(items) == 1, "outer list is kept")
	if ok && len(items) == 1 {
		in, ok := items[0].([]any)
		verifAssert(ok && len(in) == 1, "inner list is kept")
		if ok && len(in) == 1 {
			e, ok := in[0].(map[string]any)
			verifAssert(ok && e["hostName"] == "h", "a key inside a map inside a list of lists is canonicalised")
		}
	}
	var c verifDeep
	err := mapping.UnmarshalJsonMap(m, &c, mapping.WithCanonicalKeyFunc(toCamelCase))
	verifAssert(err == nil, "the loader accepts snake_case keys at every depth")
	if err == nil {
		verifAssert(c.One.HostName == "h" && len(c.List) == 1 && c.List[0].HostName == "h", "nested struct and list-of-struct leaves get the document's values")
		verifAssert(len(c.Items) == 1 && len(c.Items[0]) == 1 && c.Items[0][0].HostName == "h", "list-of-lists-of-struct leaves get the document's values")
	}
	verifReach("deep")
}
