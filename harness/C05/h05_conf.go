package conf

import (
	"encoding/json"

	"github.com/gotid/god/lib/mapping"
)

func verifLower(name string, n int) string {
	s := verifStringN(name, n)
	for i := 0; i < n; i++ {
		verifAssume(s[i] >= 'a')
		verifAssume(s[i] <= 'z')
	}
	return s
}

func verifUp(b byte) string { return string([]byte{b - 32}) }

// H05d: key canonicalisation. For an identifier made of two lower-case words
// w1, w2: the snake_case spelling, the camelCase spelling and the spelling with
// a different initial letter case all canonicalise to the same key (the
// camelCase one), and canonicalisation is idempotent.
func Verif_C05_keys() {
	n1 := verifChoose("len1", 2) + 1
	n2 := verifChoose("len2", 2) + 1
	w1, w2 := verifLower("w1", n1), verifLower("w2", n2)
	camel := w1 + verifUp(w2[0]) + w2[1:]
	pascal := verifUp(w1[0]) + w1[1:] + verifUp(w2[0]) + w2[1:]
	snake := w1 + "_" + w2
	snakeCap := verifUp(w1[0]) + w1[1:] + "_" + w2
	want := toCamelCase(camel)
	verifAssert(want == camel, "a camelCase key is its own canonical form")
	verifAssert(toCamelCase(snake) == want, "the snake_case spelling canonicalises to the camelCase key")
	verifAssert(toCamelCase(pascal) == want, "a different initial letter case canonicalises to the same key")
	verifAssert(toCamelCase(snakeCap) == want, "snake_case with a capital initial canonicalises to the same key")
	verifAssert(toCamelCase(want) == want, "canonicalisation is idempotent")
	verifReach("keys")
}

type verifCfg struct {
	UserName int8 `json:"userName"`
}

// the loader accepts every spelling of the key and still checks the value
func Verif_C05_load() {
	keys := []string{"userName", "UserName", "user_name", "User_name"}
	k := keys[verifCase(4)]
	d := verifStringN("digits", 2)
	verifAssume(d[0] >= '1')
	verifAssume(d[0] <= '9')
	verifAssume(d[1] >= '0')
	verifAssume(d[1] <= '9')
	val := int64(d[0]-'0')*10 + int64(d[1]-'0')
	var c verifCfg
	err := mapping.UnmarshalJsonMap(toCamelCaseKeyMap(map[string]any{k: json.Number(d)}), &c, mapping.WithCanonicalKeyFunc(toCamelCase))
	verifAssert(err == nil, "config loading accepts the key in snake_case or with a different initial letter case")
	verifAssert(int64(c.UserName) == val, "and the field gets the document's value")
	verifReach("loaded")
}
