package httpc

import (
	"context"
	"encoding/json"
	"fmt"
	"io"
	"net/http"

	"github.com/gotid/god/api/httpx"
	"github.com/gotid/god/api/router"
)

// H05j: the round trip of H05r for a request struct that also has a JSON part.
//
// encoding/json itself (reflection, pools, caches) cannot run under the
// engine. In the symbolic world its Encoder/Decoder are replaced by a small
// model of JSON text for FLAT objects whose values are ints and plain strings
// (bytes JSON writes verbatim: 0x20..0x7e without `"` `\` `<` `>` `&`): the
// encoder model writes {"k":v,...}\n with sorted keys, the decoder model reads
// exactly that grammar back (numbers as json.Number, as UseNumber does). What
// is checked is therefore the repository's own part of the json leg:
// buildRequest's json branch (body, Content-Type, ContentLength), the server's
// withJsonBody test, LimitReader/TeeReader plumbing, mapping's JSON unmarshaler
// (json.Number -> int exactly) and that the four unmarshalers (path, form,
// header, json) each fill only their own fields. Natively the real
// encoding/json runs on both sides.

//verif:model encoding/json.NewEncoder => verifNewEncoder
//verif:model (*encoding/json.Encoder).Encode => verifEncode
//verif:model encoding/json.NewDecoder => verifNewDecoder
//verif:model (*encoding/json.Decoder).UseNumber => verifUseNumber
//verif:model (*encoding/json.Decoder).Decode => verifDecode

var (
	verifEncW io.Writer
	verifDecR io.Reader
)

func verifNewEncoder(w io.Writer) *json.Encoder { verifEncW = w; return new(json.Encoder) }
func verifNewDecoder(r io.Reader) *json.Decoder { verifDecR = r; return new(json.Decoder) }
func verifUseNumber(d *json.Decoder)            {}

func verifPlainJSON(s string) {
	for i := 0; i < len(s); i++ {
		if s[i] < 0x20 || s[i] > 0x7e || s[i] == '"' || s[i] == '\\' || s[i] == '<' || s[i] == '>' || s[i] == '&' {
			panic("verif json model: string needs escaping")
		}
	}
}

func verifEncode(e *json.Encoder, v any) error {
	m, ok := v.(map[string]interface{})
	if !ok {
		panic("verif json model: Encode of something else than map[string]interface{}")
	}
	keys := make([]string, 0, len(m))
	for k := range m {
		j := len(keys)
		keys = append(keys, k)
		for j > 0 && keys[j-1] > k {
			keys[j] = keys[j-1]
			j--
		}
		keys[j] = k
	}
	text := "{"
	for i, k := range keys {
		if i > 0 {
			text += ","
		}
		verifPlainJSON(k)
		text += `"` + k + `":`
		switch x := m[k].(type) {
		case string:
			verifPlainJSON(x)
			text += `"` + x + `"`
		case int:
			text += fmt.Sprint(x)
		default:
			panic("verif json model: value kind outside the model")
		}
	}
	text += "}\n"
	_, err := verifEncW.Write([]byte(text))
	return err
}

func verifDecode(d *json.Decoder, v any) error {
	data, err := io.ReadAll(verifDecR)
	if err != nil {
		return err
	}
	dst, ok := v.(*map[string]any)
	if !ok {
		panic("verif json model: Decode into something else than *map[string]any")
	}
	i := 0
	expect := func(c byte) {
		if i >= len(data) || data[i] != c {
			panic("verif json model: text outside the model's grammar")
		}
		i++
	}
	untilQuote := func() string {
		st := i
		for i < len(data) && data[i] != '"' {
			i++
		}
		s := string(data[st:i])
		expect('"')
		return s
	}
	out := map[string]any{}
	expect('{')
	for {
		expect('"')
		key := untilQuote()
		expect(':')
		if i < len(data) && data[i] == '"' {
			i++
			out[key] = untilQuote()
		} else {
			st := i
			for i < len(data) && data[i] != ',' && data[i] != '}' {
				i++
			}
			out[key] = json.Number(string(data[st:i]))
		}
		if i < len(data) && data[i] == ',' {
			i++
			continue
		}
		expect('}')
		break
	}
	expect('\n')
	*dst = out
	return nil
}

type verifReqJ struct {
	Key string `path:"key"`
	N   int    `form:"n"`
	Tag string `header:"X-Tag"`
	B   string `json:"b"`
	M   int    `json:"m"`
}

type verifSrvJ struct {
	ran int
	got verifReqJ
	err error
}

func (s *verifSrvJ) ServeHTTP(w http.ResponseWriter, r *http.Request) {
	s.ran++
	s.err = httpx.Parse(r, &s.got)
}

func Verif_C05_roundtrip_json() {
	method := http.MethodPost
	switch verifCase(3) {
	case 1:
		method = http.MethodPut
	case 2:
		method = http.MethodGet
	}
	var sent verifReqJ
	sent.Key = verifSymStr("key", 1, 'a', 'z') // the other three parts: one symbolic letter / digit (H05r has their alphabets)
	sent.Tag = verifSymStr("tag", 1, 'a', 'z')
	sent.N = verifInt("n")
	verifAssume(sent.N >= 0)
	verifAssume(sent.N <= 9)
	// json string part: 0..len bytes that JSON text carries verbatim
	nb := verifChoose("b.len", verifParam("len")+1)
	sent.B = verifStringN("b", nb)
	for i := 0; i < nb; i++ {
		c := sent.B[i]
		verifAssume(c >= 0x20)
		verifAssume(c <= 0x7e)
		verifAssume(c != '"')
		verifAssume(c != '\\')
		verifAssume(c != '<')
		verifAssume(c != '>')
		verifAssume(c != '&')
	}
	sent.M = verifInt("m")
	verifAssume(sent.M >= -verifParam("nmax"))
	verifAssume(sent.M <= verifParam("nmax"))

	creq, err := buildRequest(context.Background(), method, "http://host/items/:key", &sent)
	if method == http.MethodGet {
		// the helper refuses a json part on GET: nothing is sent, nothing to parse back
		verifAssert(err != nil && creq == nil, "a GET with a json part is refused by the client helper, not sent without it")
		verifReach("get-with-body-refused")
		return
	}
	verifAssert(err == nil, "buildRequest accepts the request struct")
	if err != nil {
		return
	}
	sreq, err := verifWire(creq)
	verifAssert(err == nil, "the request target written by the client is a valid request URI")
	if err != nil {
		return
	}
	verifAssert(sreq.ContentLength > 0, "a json body was written")

	srv := &verifSrvJ{}
	rt := router.NewRouter()
	verifAssert(rt.Handle(method, "/items/:key", srv) == nil, "route registered")
	rt.ServeHTTP(&verifRW{hdr: http.Header{}}, sreq)
	verifAssert(srv.ran == 1, "the request reaches the handler of /items/:key")
	if srv.ran != 1 {
		return
	}
	verifAssert(srv.err == nil, "httpx.Parse accepts what the client helper sent")
	if srv.err != nil {
		return
	}
	got := srv.got
	verifAssert(got.Key == sent.Key, "path part parsed back equal")
	verifAssert(got.N == sent.N, "form part parsed back equal")
	verifAssert(got.Tag == sent.Tag, "header part parsed back equal")
	verifAssert(got.B == sent.B, "json string part parsed back equal")
	verifAssert(got.M == sent.M, "json int part parsed back equal")
	verifReach("roundtrip-json")
	if sent.M < 0 {
		verifReach("json-negative")
	}
	if nb == 0 {
		verifReach("json-empty-string")
	}
}
