package mapping

import (
	"encoding/json"
)

// C05 harnesses: the real Unmarshaler (reflection-driven struct walking,
// tag parsing, option/range/default handling) runs on fixed small struct
// shapes with SYMBOLIC document values: numbers are json.Number / strings of
// symbolic decimal digits, so one run covers every value of up to 4 digits
// with either sign, including all boundaries of the sized integer kinds.

// verifNum returns a symbolic decimal numeral of 1..maxDigits digits with an
// optional minus sign, and its mathematical value.
func verifNum(name string, maxDigits int) (string, int64) {
	n := verifChoose(name+".digits", maxDigits) + 1
	neg := verifChoose(name+".neg", 2) == 1
	ds := verifStringN(name, n)
	var val int64
	for i := 0; i < n; i++ {
		verifAssume(ds[i] >= '0')
		verifAssume(ds[i] <= '9')
		val = val*10 + int64(ds[i]-'0')
	}
	if neg {
		return "-" + ds, -val
	}
	return ds, val
}

type (
	verifI8   struct{ A int8 `key:"a"` }
	verifU8   struct{ A uint8 `key:"a"` }
	verifI16  struct{ A int16 `key:"a"` }
	verifU16R struct{ A uint16 `key:"a,range=[1:300]"` }
	verifI32D struct{ A int32 `key:"a,default=7"` }
	verifI16O struct{ A int16 `key:"a,optional"` }
	verifPI8  struct{ A *int8 `key:"a,optional"` }
	verifI64  struct{ A int64 `key:"a"` }
	verifSOpt struct{ A string `key:"a,options=x|y"` }
	verifIOpt struct{ A int `key:"a,options=1|2|30"` }
	verifF32  struct{ A float32 `key:"a"` }
	verifTwo  struct {
		A int8  `key:"a"`
		B uint8 `key:"b,optional"`
	}
)

// H05a: JSON-number documents (the map produced by the JSON/YAML decoders with
// UseNumber) into sized integer fields.
func Verif_C05_number() {
	c := verifCase(8)
	numStr, val := verifNum("a", verifParam("digits"))
	doc := map[string]any{"a": json.Number(numStr)}
	switch c {
	case 0:
		var t verifI8
		err := UnmarshalKey(doc, &t)
		if err == nil {
			verifAssert(int64(t.A) == val, "int8 field equals the document's number exactly (no wrap/truncation)")
			verifReach("i8-ok")
		}
	case 1:
		var t verifU8
		err := UnmarshalKey(doc, &t)
		if err == nil {
			verifAssert(val >= 0 && int64(t.A) == val, "uint8 field equals the document's number exactly")
			verifReach("u8-ok")
		}
	case 2:
		var t verifI16
		err := UnmarshalKey(doc, &t)
		if err == nil {
			verifAssert(int64(t.A) == val, "int16 field equals the document's number exactly")
			verifReach("i16-ok")
		}
	case 3:
		var t verifU16R
		err := UnmarshalKey(doc, &t)
		if err == nil {
			verifAssert(val >= 1 && val <= 300, "a value outside range=[1:300] makes unmarshalling fail")
			verifAssert(int64(t.A) == val, "uint16 range field equals the document's number exactly")
			verifReach("u16r-ok")
		}
	case 4:
		var t verifI64
		err := UnmarshalKey(doc, &t)
		if err == nil {
			verifAssert(t.A == val, "int64 field equals the document's number exactly")
			verifReach("i64-ok")
		}
	case 5:
		var t verifPI8
		err := UnmarshalKey(doc, &t)
		if err == nil {
			verifAssert(t.A != nil && int64(*t.A) == val, "*int8 field points to the document's number exactly")
			verifReach("pi8-ok")
		}
	case 6:
		var t verifIOpt
		err := UnmarshalKey(doc, &t)
		if err == nil {
			verifAssert(val == 1 || val == 2 || val == 30, "a value outside options=1|2|30 makes unmarshalling fail")
			verifAssert(int64(t.A) == val, "int options field equals the document's number exactly")
			verifReach("iopt-ok")
		}
	case 7:
		var t verifTwo
		doc["b"] = json.Number(numStr)
		err := UnmarshalKey(doc, &t)
		if err == nil {
			verifAssert(int64(t.A) == val && int64(t.B) == val, "both fields equal the document's number exactly")
			verifReach("two-ok")
		}
	}
}

// H05b: string-sourced values (form / path / header / defaults go through
// WithStringValues → convertType → setMatchedPrimitiveValue).
func Verif_C05_fromstring() {
	c := verifCase(4)
	numStr, val := verifNum("a", verifParam("digits"))
	u := NewUnmarshaler("key", WithStringValues())
	doc := map[string]any{"a": numStr}
	switch c {
	case 0:
		var t verifI8
		if err := u.Unmarshal(doc, &t); err == nil {
			verifAssert(int64(t.A) == val, "int8 field equals the string document's number exactly")
			verifReach("s-i8-ok")
		}
	case 1:
		var t verifU8
		if err := u.Unmarshal(doc, &t); err == nil {
			verifAssert(val >= 0 && int64(t.A) == val, "uint8 field equals the string document's number exactly")
			verifReach("s-u8-ok")
		}
	case 2:
		var t verifU16R
		if err := u.Unmarshal(doc, &t); err == nil {
			verifAssert(val >= 1 && val <= 300, "string value outside range=[1:300] makes unmarshalling fail")
			verifAssert(int64(t.A) == val, "uint16 range field equals the string document's number exactly")
			verifReach("s-u16r-ok")
		}
	case 3:
		var t verifI16
		if err := u.Unmarshal(doc, &t); err == nil {
			verifAssert(int64(t.A) == val, "int16 field equals the string document's number exactly")
			verifReach("s-i16-ok")
		}
	}
}

// H05e: absent fields, defaults, optional, required, options on strings.
func Verif_C05_absent() {
	c := verifCase(6)
	switch c {
	case 0: // default
		var t verifI32D
		present := verifChoose("present", 2) == 1
		doc := map[string]any{}
		numStr, val := verifNum("a", 2)
		if present {
			doc["a"] = json.Number(numStr)
		}
		err := UnmarshalKey(doc, &t)
		if !present {
			verifAssert(err == nil && t.A == 7, "an absent field takes its declared default")
			verifReach("default")
		} else if err == nil {
			verifAssert(int64(t.A) == val, "a present field overrides the default with the document's value")
		}
	case 1: // optional absent stays zero
		var t verifI16O
		err := UnmarshalKey(map[string]any{}, &t)
		verifAssert(err == nil && t.A == 0, "an optional absent field stays zero")
		verifReach("optional")
	case 2: // required absent fails
		var t verifI64
		err := UnmarshalKey(map[string]any{"other": json.Number("1")}, &t)
		verifAssert(err != nil, "a required field that is absent makes unmarshalling fail")
		verifReach("required")
	case 3: // optional pointer absent stays nil
		var t verifPI8
		err := UnmarshalKey(map[string]any{}, &t)
		verifAssert(err == nil && t.A == nil, "an optional absent pointer field stays nil")
		verifReach("optional-ptr")
	case 4: // string options
		var t verifSOpt
		s := verifStringN("s", 1)
		err := UnmarshalKey(map[string]any{"a": s}, &t)
		if err == nil {
			verifAssert(s == "x" || s == "y", "a string outside options=x|y makes unmarshalling fail")
			verifAssert(t.A == s, "string field equals the document's value")
			verifReach("sopt-ok")
		} else {
			verifAssert(s != "x" && s != "y", "a string inside options=x|y is accepted")
		}
	case 5: // ill-typed: string into an int field, number into a string field
		var t verifI8
		err := UnmarshalKey(map[string]any{"a": "12"}, &t)
		verifAssert(err != nil, "a string document value for an int field is an error, not a silent zero")
		var t2 verifSOpt
		err = UnmarshalKey(map[string]any{"a": json.Number("1")}, &t2)
		verifAssert(err != nil, "a number document value for a string field is an error")
		verifReach("ill-typed")
	}
}

type (
	verifInner struct {
		X int8  `key:"x"`
		Y uint8 `key:"y,optional"`
	}
	verifNested struct {
		In verifInner `key:"in"`
	}
	verifNestedPtr struct {
		In *verifInner `key:"in,optional"`
	}
	verifSlice struct {
		L []int8 `key:"l"`
	}
	verifMap struct {
		M map[string]int16 `key:"m"`
	}
	verifEmbedded struct {
		verifInner
		Z int16 `key:"z"`
	}
	verifElem struct {
		X int8           `key:"x"`
		Y int16          `key:"y,optional"`
		P *int8          `key:"p,optional"`
		T []int8         `key:"t,optional"`
		M map[string]int `key:"m,optional"`
		D int            `key:"d,default=7"`
	}
	verifStructSlice struct {
		L []verifElem `key:"l"`
	}
	verifPtrSlice struct {
		L []*verifElem `key:"l"`
	}
)

// H05g: composite shapes: nested struct, optional pointer-to-struct, slice,
// map, embedded struct — every numeric leaf equals the document's value exactly
// or unmarshalling fails.
func Verif_C05_shapes() {
	c := verifCase(7)
	if c >= 5 {
		verifStructLists(c == 6)
		return
	}
	numStr, val := verifNum("a", verifParam("digits"))
	n := json.Number(numStr)
	switch c {
	case 0:
		var t verifNested
		err := UnmarshalKey(map[string]any{"in": map[string]any{"x": n}}, &t)
		if err == nil {
			verifAssert(int64(t.In.X) == val && t.In.Y == 0, "nested struct leaf equals the document's number exactly; optional absent leaf stays zero")
			verifReach("nested-ok")
		}
		var t2 verifNested
		verifAssert(UnmarshalKey(map[string]any{"in": map[string]any{"y": n}}, &t2) != nil, "a required leaf absent in a nested struct makes unmarshalling fail")
	case 1:
		var t verifNestedPtr
		present := verifChoose("present", 2) == 1
		doc := map[string]any{}
		if present {
			doc["in"] = map[string]any{"x": n}
		}
		err := UnmarshalKey(doc, &t)
		if !present {
			verifAssert(err == nil && t.In == nil, "an optional absent pointer-to-struct stays nil")
		} else if err == nil {
			verifAssert(t.In != nil && int64(t.In.X) == val, "pointer-to-struct leaf equals the document's number exactly")
			verifReach("nestedptr-ok")
		}
	case 2:
		var t verifSlice
		err := UnmarshalKey(map[string]any{"l": []any{n, json.Number("5")}}, &t)
		if err == nil {
			verifAssert(len(t.L) == 2 && int64(t.L[0]) == val && t.L[1] == 5, "slice elements equal the document's numbers exactly, in order")
			verifReach("slice-ok")
		}
	case 3:
		var t verifMap
		err := UnmarshalKey(map[string]any{"m": map[string]any{"k": n}}, &t)
		if err == nil {
			verifAssert(len(t.M) == 1 && int64(t.M["k"]) == val, "map values equal the document's numbers exactly")
			verifReach("map-ok")
		}
	case 4:
		var t verifEmbedded
		err := UnmarshalKey(map[string]any{"x": n, "z": json.Number("9")}, &t)
		if err == nil {
			verifAssert(int64(t.X) == val && t.Z == 9 && t.Y == 0, "embedded struct leaves are filled from the outer document exactly")
			verifReach("embedded-ok")
		}
	}
}

// H05g cases 5/6: a list of structs ([]T, and []*T): every element is decoded
// from ITS OWN map only - a member absent from an element's map is zero (or its
// default), whatever the elements before it held.  Which of the optional
// members y, p, t, m, d each of the 3 elements carries is symbolic (y, p: every
// pattern; t, m, d together: 4 patterns).
func verifStructLists(ptr bool) {
	const n = 3
	var docs []any
	var has [n][5]bool
	// y and p: present or absent per element, every pattern; t, m, d together follow one of 4 patterns
	rest := [][n]bool{{true, false, true}, {false, true, false}, {true, true, false}, {false, false, false}}[verifChoose("rest", 4)]
	for i := 0; i < n; i++ {
		m := map[string]any{"x": json.Number([]string{"1", "2", "3"}[i])}
		for k, name := range []string{"y", "p", "t", "m", "d"} {
			if k < 2 {
				has[i][k] = verifBool("has-" + name)
			} else {
				has[i][k] = rest[i]
			}
			if !has[i][k] {
				continue
			}
			switch name {
			case "y":
				m["y"] = json.Number([]string{"10", "20", "30"}[i])
			case "p":
				m["p"] = json.Number([]string{"11", "21", "31"}[i])
			case "t":
				m["t"] = []any{json.Number([]string{"12", "22", "32"}[i])}
			case "m":
				m["m"] = map[string]any{"k": json.Number([]string{"13", "23", "33"}[i])}
			case "d":
				m["d"] = json.Number([]string{"14", "24", "34"}[i])
			}
		}
		docs = append(docs, m)
	}
	var got []verifElem
	var ptrs []*verifElem
	if ptr {
		var t verifPtrSlice
		err := UnmarshalKey(map[string]any{"l": docs}, &t)
		verifAssert(err == nil && len(t.L) == n, "a list of well-formed element maps unmarshals into as many elements")
		if err != nil || len(t.L) != n {
			return
		}
		ptrs = t.L
		for _, e := range t.L {
			verifAssert(e != nil, "every []*struct element is allocated")
			if e == nil {
				return
			}
			got = append(got, *e)
		}
		verifAssert(ptrs[0] != ptrs[1] && ptrs[1] != ptrs[2] && ptrs[0] != ptrs[2], "[]*struct elements are distinct objects")
		verifReach("ptrlist-ok")
	} else {
		var t verifStructSlice
		err := UnmarshalKey(map[string]any{"l": docs}, &t)
		verifAssert(err == nil && len(t.L) == n, "a list of well-formed element maps unmarshals into as many elements")
		if err != nil || len(t.L) != n {
			return
		}
		got = t.L
		verifReach("structlist-ok")
	}
	later := false
	for i, e := range got {
		b := 10 * (i + 1)
		verifAssert(int(e.X) == i+1, "list element: required member equals its own document value")
		if has[i][0] {
			verifAssert(int(e.Y) == b, "list element: optional member equals its own document value")
		} else {
			verifAssert(e.Y == 0, "list element: an optional member absent from this element stays zero (nothing leaks from an earlier element)")
		}
		if has[i][1] {
			verifAssert(e.P != nil && int(*e.P) == b+1, "list element: optional pointer member equals its own document value")
		} else {
			verifAssert(e.P == nil, "list element: an optional pointer member absent from this element stays nil")
		}
		if has[i][2] {
			verifAssert(len(e.T) == 1 && int(e.T[0]) == b+2, "list element: optional slice member equals its own document value")
		} else {
			verifAssert(len(e.T) == 0, "list element: an optional slice member absent from this element stays empty")
		}
		if has[i][3] {
			verifAssert(len(e.M) == 1 && e.M["k"] == b+3, "list element: optional map member equals its own document value")
		} else {
			verifAssert(len(e.M) == 0, "list element: an optional map member absent from this element stays empty")
		}
		if has[i][4] {
			verifAssert(e.D == b+4, "list element: defaulted member equals its own document value")
		} else {
			verifAssert(e.D == 7, "list element: a defaulted member absent from this element gets the default")
		}
		if i > 0 && (has[0][0] && !has[i][0] || has[0][1] && !has[i][1]) {
			later = true
		}
	}
	if later {
		verifReach("absent-after-present")
	}
}
