package httpc

import (
	"bytes"
	"context"
	"io"
	"net/http"
	"net/url"

	"github.com/gotid/god/api/httpx"
	"github.com/gotid/god/api/router"
)

// H05r: the last clause of C05 — "a request struct sent with the HTTP client
// helper (path, form, header and json parts) is parsed back by the server-side
// request parser into an equal struct".
//
// client:    the real buildRequest (mapping.Marshal through the reflect model,
//            fillPath, buildFormQuery, fillHeader, http.NewRequestWithContext, net/url)
// wire:      played by the harness the way net/http's server sees a request:
//            request line = method + URL.RequestURI(), parsed with
//            url.ParseRequestURI; header lines copied; Host
// server:    the real router (router.NewRouter, Handle, ServeHTTP -> pathvar)
//            and in the handler the real httpx.Parse
// oracle:    both sides succeed and got == sent, field by field.

type verifReq struct {
	Key string `path:"key"`
	N   int    `form:"n"`
	Q   string `form:"q"`
	Tag string `header:"X-Tag"`
}

type verifRW struct {
	hdr  http.Header
	code int
}

func (w *verifRW) Header() http.Header         { return w.hdr }
func (w *verifRW) Write(b []byte) (int, error) { return len(b), nil }
func (w *verifRW) WriteHeader(c int)           { w.code = c }

type verifSrv struct {
	ran int
	got verifReq
	err error
}

func (s *verifSrv) ServeHTTP(w http.ResponseWriter, r *http.Request) {
	s.ran++
	s.err = httpx.Parse(r, &s.got)
}

// verifSymStr: a string of 1..maxLen symbolic bytes, every byte in [lo, hi].
func verifSymStr(name string, maxLen int, lo, hi byte) string {
	n := 1 + verifChoose(name+".len", maxLen)
	s := verifStringN(name, n)
	for i := 0; i < n; i++ {
		verifAssume(s[i] >= lo)
		verifAssume(s[i] <= hi)
	}
	return s
}

func verifHas(s string, c byte) bool {
	h := false
	for i := 0; i < len(s); i++ {
		h = verifOr(h, s[i] == c)
	}
	return h
}

// verifWire: what the server reads off the connection for the client's request
// (net/http server.go readRequest): the request line's target parsed with
// url.ParseRequestURI, the header lines, Host. The client's *http.Request
// object itself is not handed over.
func verifWire(c *http.Request) (*http.Request, error) {
	uri := c.URL.RequestURI()
	su, err := url.ParseRequestURI(uri)
	if err != nil {
		return nil, err
	}
	h := http.Header{}
	for k, vs := range c.Header {
		for _, v := range vs {
			h.Add(k, v)
		}
	}
	// body: the bytes the client's Body yields, announced by Content-Length =
	// the client's ContentLength (the transport refuses to send a body of another
	// length); "For server requests, the Request Body is always non-nil".
	body := io.ReadCloser(http.NoBody)
	if c.Body != nil {
		b, err := io.ReadAll(c.Body)
		if err != nil {
			return nil, err
		}
		verifAssert(int64(len(b)) == c.ContentLength, "the client's ContentLength is the length of the body it wrote")
		if len(b) > 0 {
			body = io.NopCloser(bytes.NewReader(b))
		}
	}
	return &http.Request{
		Method:        c.Method,
		URL:           su,
		Proto:         "HTTP/1.1",
		ProtoMajor:    1,
		ProtoMinor:    1,
		Header:        h,
		Host:          c.URL.Host,
		RequestURI:    uri,
		Body:          body,
		ContentLength: c.ContentLength,
	}, nil
}

func Verif_C05_roundtrip() {
	L := verifParam("len")
	// Fan-out: case = method x focus. With param "product" = 0 (H05r) the focus
	// field ranges over its whole alphabet / range and 1..len bytes while the
	// other three are symbolic too but drawn from one character class ('a'..'z',
	// one byte; N one digit), so the path count is the SUM of the per-field case
	// splits; with "product" = 1 (H05rx) all four fields are wide at once and
	// focus only splits N's sign and digit count for the fan-out.
	product := verifParam("product") == 1
	c := verifCase(8)
	method := http.MethodGet
	if c/4 == 1 {
		method = http.MethodPost
	}
	focus := c % 4

	var sent verifReq
	if product || focus == 0 {
		sent.Key = verifSymStr("key", L, 0x00, byte(verifParam("hi")))
		verifReach("key-wide")
	} else {
		sent.Key = verifSymStr("key", 1, 'a', 'z')
	}
	if product || focus == 1 {
		sent.Q = verifSymStr("q", L, 0x00, byte(verifParam("hi")))
		verifReach("q-wide")
	} else {
		sent.Q = verifSymStr("q", 1, 'a', 'z')
	}
	if product || focus == 2 {
		// header field values: visible ASCII and interior spaces (RFC 9110 field-value;
		// the wire strips leading/trailing whitespace and forbids control bytes)
		sent.Tag = verifSymStr("tag", verifParam("tlen"), 0x20, 0x7e)
		verifAssume(sent.Tag[0] != ' ')
		verifAssume(sent.Tag[len(sent.Tag)-1] != ' ')
		verifReach("tag-wide")
	} else {
		sent.Tag = verifSymStr("tag", 1, 'a', 'z')
	}
	sent.N = verifInt("n")
	if product {
		// fan-out over N's sign (focus%2) and digit count (focus/2)
		verifAssume(sent.N >= -99)
		verifAssume(sent.N <= 99)
		verifAssume((sent.N < 0) == (focus%2 == 1))
		verifAssume((sent.N > 9 || sent.N < -9) == (focus/2 == 1))
	} else if focus == 3 {
		verifAssume(sent.N >= -verifParam("nmax"))
		verifAssume(sent.N <= verifParam("nmax"))
		verifReach("n-wide")
	} else {
		verifAssume(sent.N >= 0)
		verifAssume(sent.N <= 9)
	}
	// Preconditions on the path value: the route pattern "/items/:key" stands for
	// exactly one non-empty path segment, and the router matches the cleaned
	// (path.Clean) decoded path, so a value containing '/' or equal to "." / ".."
	// names a different resource by construction (fillPath rejects the empty value itself).
	verifAssume(!verifHas(sent.Key, '/'))
	verifAssume(sent.Key != ".")
	verifAssume(sent.Key != "..")

	creq, err := buildRequest(context.Background(), method, "http://host/items/:key", &sent)
	verifAssert(err == nil, "buildRequest accepts the request struct")
	if err != nil {
		return
	}

	sreq, err := verifWire(creq)
	verifAssert(err == nil, "the request target written by the client is a valid request URI")
	if err != nil {
		return
	}

	srv := &verifSrv{}
	rt := router.NewRouter()
	verifAssert(rt.Handle(method, "/items/:key", srv) == nil, "route registered")
	w := &verifRW{hdr: http.Header{}}
	rt.ServeHTTP(w, sreq)

	verifAssert(srv.ran == 1, "the request reaches the handler of /items/:key")
	if srv.ran != 1 {
		return
	}
	verifAssert(srv.err == nil, "httpx.Parse accepts what the client helper sent")
	if srv.err != nil {
		return
	}
	got := srv.got
	verifAssert(got.Key == sent.Key, "path part parsed back equal")
	verifAssert(got.N == sent.N, "form int part parsed back equal")
	verifAssert(got.Q == sent.Q, "form string part parsed back equal")
	verifAssert(got.Tag == sent.Tag, "header part parsed back equal")
	verifReach("roundtrip")
	// the characters where escaping matters did take part
	if verifHas(sent.Key, '%') || verifHas(sent.Key, ' ') || verifHas(sent.Key, '?') || verifHas(sent.Key, '#') {
		verifReach("path-escaped")
	}
	if verifHas(sent.Key, '+') {
		verifReach("path-plus")
	}
	if verifHas(sent.Q, '&') || verifHas(sent.Q, '=') {
		verifReach("form-amp-eq")
	}
	if verifHas(sent.Q, '+') || verifHas(sent.Q, ' ') || verifHas(sent.Q, '%') {
		verifReach("form-plus-space-pct")
	}
	if sent.N < 0 {
		verifReach("n-negative")
	}
}
