package mapping

import "encoding/json"

// H05m: BOUNDARY NUMERALS of the 64-bit kinds.
//
// H05a/H05p draw numerals of at most 5 symbolic digits, so the edges of int64 /
// uint64 (where strconv reports ErrRange and returns the clamped value) were
// never met. Here the numeral's leading digits are concrete and its last
// `sym` digits (1 quick, 2 thorough) are symbolic, around +-2^63 and 2^64, plus
// a 20-digit and a 25-digit numeral far beyond every kind:
//
//	 922337203685477580d   (2^63-1 = ...807: d <= 7 fits int64)
//	-922337203685477580d   (-2^63  = ...808: d <= 8 fits int64)
//	1844674407370955161d   (2^64-1 = ...615: d <= 5 fits uint64)
//	-1844674407370955161d, 9999999999999999999d, 123456789012345678901234d
//
// into int64, int, uint64, uint, *int64, []int64 (element) and
// map[string]int64 (value). Oracle (the statement: a number is never wrapped
// or truncated to fit): the call never panics, and either it fails or the
// field's value IS the numeral's value - written definitionally: the numeral's
// magnitude base + low (base = concrete prefix * 10^sym, low = the symbolic
// digits) fits the kind and the field equals it with the numeral's sign. That
// is the same as "the field renders (FormatInt/FormatUint) to the numeral's
// text" for these canonical numerals, without asking the solver to divide.

type (
	verifMI64  struct{ A int64 `key:"a"` }
	verifMInt  struct{ A int `key:"a"` }
	verifMU64  struct{ A uint64 `key:"a"` }
	verifMUint struct{ A uint `key:"a"` }
	verifMPI64 struct{ A *int64 `key:"a"` }
	verifMLI64 struct{ A []int64 `key:"a"` }
	verifMMI64 struct{ A map[string]int64 `key:"a"` }
)

var verifMDestName = []string{"int64", "int", "uint64", "uint", "ptr-int64", "list-int64", "map-int64"}

// numeral templates: the boundary's own text; its last `sym` digits are replaced by symbolic ones
var verifMTemplates = []struct {
	name string
	neg  bool
	text string // digits without sign
}{
	{"around +2^63", false, "9223372036854775807"},
	{"around -2^63", true, "9223372036854775807"},
	{"around 2^64", false, "18446744073709551615"},
	{"around -2^64", true, "18446744073709551615"},
	{"20 digits", false, "99999999999999999999"},
	{"25 digits", false, "1234567890123456789012345"},
}

const maxU64 = ^uint64(0)

// verifMNumeral returns the numeral text and its magnitude as base + low:
// fits = the magnitude is at most maxU64 (otherwise no 64-bit kind holds it).
func verifMNumeral(t int, sym int) (text string, neg bool, mag uint64, fits bool) {
	tp := verifMTemplates[t]
	prefix := tp.text[:len(tp.text)-sym]
	ds := verifStringN("d", sym)
	var low uint64
	for i := 0; i < sym; i++ {
		verifPDigit(ds[i])
		low = low*10 + uint64(ds[i]-'0')
	}
	// base = prefix * 10^sym, computed on concrete digits with an overflow check
	var base uint64
	baseFits := true
	for i := 0; i < len(prefix)+sym; i++ {
		var dg uint64
		if i < len(prefix) {
			dg = uint64(prefix[i] - '0')
		}
		if base > (maxU64-dg)/10 {
			baseFits = false
			break
		}
		base = base*10 + dg
	}
	text = prefix + ds
	if tp.neg {
		text = "-" + text
	}
	if !baseFits {
		return text, tp.neg, 0, false
	}
	return text, tp.neg, base + low, low <= maxU64-base
}

// signed kinds: exact iff the numeral is within [-2^63, 2^63-1] and the field is its value
func verifMSigned(name string, err error, got int64, neg bool, mag uint64, fits bool) {
	if err != nil {
		verifReach("m-" + name + "-err")
		return
	}
	if neg {
		verifAssert(verifAnd(fits, verifAnd(mag <= 1<<63, got == int64(-mag))), name+" field equals the boundary numeral exactly (never clamped or wrapped)")
	} else {
		verifAssert(verifAnd(fits, verifAnd(mag <= 1<<63-1, got == int64(mag))), name+" field equals the boundary numeral exactly (never clamped or wrapped)")
	}
	verifReach("m-" + name + "-ok")
}

func verifMUnsigned(name string, err error, got uint64, neg bool, mag uint64, fits bool) {
	if err != nil {
		verifReach("m-" + name + "-err")
		return
	}
	// a negative numeral is only exact for an unsigned field if it is -0 (not drawn here: magnitudes are huge)
	verifAssert(verifAnd(!neg, verifAnd(fits, got == mag)), name+" field equals the boundary numeral exactly (never clamped or wrapped)")
	verifReach("m-" + name + "-ok")
}

func Verif_C05_boundary() {
	c := verifCase(len(verifMDestName))
	name := verifMDestName[c]
	t := verifChoose("numeral", len(verifMTemplates))
	text, neg, mag, fits := verifMNumeral(t, verifParam("sym"))
	verifTrace(name + " <- numeral " + verifMTemplates[t].name)
	n := json.Number(text)
	doc := map[string]any{"a": n}
	noPanic := "never panics (" + name + " field <- boundary numeral)"
	switch c {
	case 0:
		var v verifMI64
		err, p := verifPRun(doc, &v)
		verifAssert(!p, noPanic)
		if !p {
			verifMSigned(name, err, v.A, neg, mag, fits)
		}
	case 1:
		var v verifMInt
		err, p := verifPRun(doc, &v)
		verifAssert(!p, noPanic)
		if !p {
			verifMSigned(name, err, int64(v.A), neg, mag, fits)
		}
	case 2:
		var v verifMU64
		err, p := verifPRun(doc, &v)
		verifAssert(!p, noPanic)
		if !p {
			verifMUnsigned(name, err, v.A, neg, mag, fits)
		}
	case 3:
		var v verifMUint
		err, p := verifPRun(doc, &v)
		verifAssert(!p, noPanic)
		if !p {
			verifMUnsigned(name, err, uint64(v.A), neg, mag, fits)
		}
	case 4:
		var v verifMPI64
		err, p := verifPRun(doc, &v)
		verifAssert(!p, noPanic)
		if p {
			return
		}
		if err == nil {
			verifAssert(v.A != nil, "ptr-int64 field is set")
			if v.A == nil {
				return
			}
			verifMSigned(name, err, *v.A, neg, mag, fits)
			return
		}
		verifMSigned(name, err, 0, neg, mag, fits)
	case 5:
		var v verifMLI64
		err, p := verifPRun(map[string]any{"a": []any{n}}, &v)
		verifAssert(!p, noPanic)
		if p {
			return
		}
		if err == nil {
			verifAssert(len(v.A) == 1, "list-int64 field has the document's length")
			if len(v.A) != 1 {
				return
			}
			verifMSigned(name, err, v.A[0], neg, mag, fits)
			return
		}
		verifMSigned(name, err, 0, neg, mag, fits)
	case 6:
		var v verifMMI64
		err, p := verifPRun(map[string]any{"a": map[string]any{"x": n}}, &v)
		verifAssert(!p, noPanic)
		if p {
			return
		}
		if err == nil {
			x, ok := v.A["x"]
			verifAssert(ok && len(v.A) == 1, "map-int64 field has the document's entry")
			verifMSigned(name, err, x, neg, mag, fits)
			return
		}
		verifMSigned(name, err, 0, neg, mag, fits)
	}
}
