package mapping

import (
	"encoding/json"
	"errors"
	"io"
	"reflect"
	"strings"

	"gopkg.in/yaml.v2"
)

// H05y: "The same content written as JSON or as YAML yields the same struct".
//
// The JSON and YAML PARSERS (encoding/json, gopkg.in/yaml.v2) cannot be executed
// symbolically. Everything after them can: from ONE symbolic description of a
// document's content (h05_docgen.go) the harness builds
//   - the JSON text and the generic tree encoding/json (UseNumber) delivers for it
//     (map[string]any with json.Number, string, bool, nil, []any, nested maps),
//   - the YAML text and the generic tree yaml.v2 delivers for it (interface{} tree
//     with int / uint64 / float64 / string / bool / nil, map[interface{}]interface{},
//     []interface{}),
// and calls the REAL UnmarshalJsonBytes(jsonText) and UnmarshalYamlBytes(yamlText).
// In the symbolic world only the third-party parser calls are substituted:
//   yaml.Unmarshal               -> delivers the constructed YAML tree
//   json Encoder.Encode          -> (YamlToJson re-encodes the converted tree as JSON text)
//   json Decoder.Decode          ->   ... and jsonx.Unmarshal decodes it again: the pair is
//                                   the identity on trees of json.Number/string/bool/nil/
//                                   []any/map[string]any, except that Encode refuses a
//                                   json.Number that is no JSON number literal (+Inf, NaN)
//                                   and Decode refuses a top-level value that is no object;
//                                   for the JSON document itself Decode delivers the
//                                   constructed JSON tree.
// So the repository code that runs symbolically is: encoding.YamlToJson, toStringKeyMap,
// convertKeyToString, convertSlice, convertNumberToJsonNumber, lang.Repr (reflection,
// strconv.Itoa / FormatFloat), jsonx.Unmarshal, unmarshalJsonBytes and the whole shared
// Unmarshaler. Natively nothing is substituted: the real parsers read the texts, and a
// native-only self-test compares the constructed trees with what the real parsers
// deliver for the witness / counterexample document (verifYSelfTest).
//
// Oracle: both loads fail, or both succeed and the two structs are equal; neither panics.

//verif:model gopkg.in/yaml.v2.Unmarshal => verifYUnmarshal
//verif:model encoding/json.NewEncoder => verifYNewEncoder
//verif:model (*encoding/json.Encoder).Encode => verifYEncode
//verif:model encoding/json.NewDecoder => verifYNewDecoder
//verif:model (*encoding/json.Decoder).UseNumber => verifYUseNumber
//verif:model (*encoding/json.Decoder).Decode => verifYDecode

var (
	verifYTree   any       // what yaml.Unmarshal delivers for the YAML text
	verifJTree   any       // what the JSON decoder delivers for the JSON text (map[string]any, or nil for `null`)
	verifYEncW   io.Writer // writer of the current json.Encoder
	verifYEncVal any       // value handed to Encode
	verifYDecR   io.Reader // reader of the current json.Decoder
)

const verifYMarker = "\x01" // stands for "the JSON text Encode wrote for verifYEncVal"

func verifYUnmarshal(in []byte, out interface{}) error {
	p, ok := out.(*interface{})
	if !ok {
		panic("verif yaml model: Unmarshal into something else than *interface{}")
	}
	*p = verifYTree
	return nil
}

func verifYNewEncoder(w io.Writer) *json.Encoder { verifYEncW = w; return new(json.Encoder) }
func verifYNewDecoder(r io.Reader) *json.Decoder { verifYDecR = r; return new(json.Decoder) }
func verifYUseNumber(d *json.Decoder)            {}

var (
	errVerifYNumber = errors.New("json: invalid number literal (verif model)")
	errVerifYDecode = errors.New("json: cannot unmarshal this value into the target (verif model)")
)

// verifYEncodable: Encode fails exactly when the tree holds a json.Number that is
// not a JSON number literal. The numbers toStringKeyMap makes are decimal
// renderings of ints and finite floats (valid) or of +Inf / -Inf / NaN (invalid).
func verifYEncodable(v any) bool {
	switch x := v.(type) {
	case json.Number:
		return len(x) > 0 && x[len(x)-1] != 'f' && x[len(x)-1] != 'N'
	case []any:
		for _, e := range x {
			if !verifYEncodable(e) {
				return false
			}
		}
	case map[string]any:
		for _, e := range x {
			if !verifYEncodable(e) {
				return false
			}
		}
	case nil, string, bool:
	default:
		panic("verif json model: Encode of a value outside the model")
	}
	return true
}

func verifYEncode(e *json.Encoder, v any) error {
	if !verifYEncodable(v) {
		return errVerifYNumber
	}
	verifYEncVal = v
	_, err := verifYEncW.Write([]byte(verifYMarker))
	return err
}

func verifYDecode(d *json.Decoder, v any) error {
	data, err := io.ReadAll(verifYDecR)
	if err != nil {
		return err
	}
	text := string(data)
	switch dst := v.(type) {
	case *map[string]any: // a whole document
		tree := verifJTree
		if text == verifYMarker {
			tree = verifYEncVal
		}
		if tree == nil {
			*dst = nil // JSON null
			return nil
		}
		m, ok := tree.(map[string]any)
		if !ok {
			return errVerifYDecode
		}
		*dst = m
		return nil
	case *[]any: // a string / number document value for a slice field is parsed as JSON text
		if verifYNoJSON(text, '[') {
			return errVerifYDecode
		}
		if text == "[]" {
			*dst = []any{}
			return nil
		}
	case *map[string]string:
		if verifYNoJSON(text, '{') {
			return errVerifYDecode
		}
		if text == "{}" {
			*dst = map[string]string{}
			return nil
		}
	case *map[string]int:
		if verifYNoJSON(text, '{') {
			return errVerifYDecode
		}
		if text == "{}" {
			*dst = map[string]int{}
			return nil
		}
	}
	panic("verif json model: Decode target outside the model")
}

// verifYNoJSON: true facts about the real decoder, enough for every text the
// harness lets reach it. A JSON array (object) text begins, after optional white
// space, with '[' ('{'): a text that begins with any other byte, or is empty, is
// refused for a slice (map) target. Among the texts of at most 2 bytes that do
// begin so, only "[]" ("{}") is accepted. Longer texts beginning with the
// opening byte or white space are outside the model (panic => INCONCLUSIVE).
func verifYNoJSON(text string, open byte) bool {
	if len(text) == 0 {
		return true
	}
	c := text[0]
	if c != open && c != ' ' && c != '\t' && c != '\n' && c != '\r' {
		return true
	}
	if len(text) > 2 {
		panic("verif json model: JSON text in a string outside the model")
	}
	if len(text) == 2 && c == open && text[1] == open+2 { // "[]" / "{}"
		return false
	}
	return true
}

// verifYSelfTest (native only): the constructed trees are what the real parsers
// deliver for the constructed texts.
func verifYSelfTest(jt, yt string, jtree, ytree any) {
	if verifSymbolic() {
		return
	}
	var y any
	err := yaml.Unmarshal([]byte(yt), &y)
	verifAssert(err == nil && reflect.DeepEqual(y, ytree), "harness assumption: yaml.v2 parses the YAML text into the constructed YAML tree")
	var j any
	dec := json.NewDecoder(strings.NewReader(jt))
	dec.UseNumber()
	err = dec.Decode(&j)
	verifAssert(err == nil && reflect.DeepEqual(j, jtree), "harness assumption: encoding/json (UseNumber) parses the JSON text into the constructed JSON tree")
}

// ---- document content ----

var verifYFloats = []struct {
	text string
	f    float64
}{{"1.5", 1.5}, {"0.1", 0.1}, {"2.0", 2}, {"1e2", 100}, {"-0.5", -0.5},
	{"0.123456789", 0.123456789}, {"1234567.891", 1234567.891}} // the last two need float64 precision

var verifYBigs = []struct {
	text string
	u    uint64
	f    float64
	isF  bool
}{{"9223372036854775808", 1 << 63, 0, false}, {"18446744073709551615", 1<<64 - 1, 0, false}, {"18446744073709551616", 0, 18446744073709551616.0, true}}

const verifYContents = 12

var verifYContentName = []string{"absent", "integer", "float", "string", "bool", "null", "[]", "[e]", "[e,e]", "{}", "{x:e}", "big-integer"}

func verifYContent(k, digits int) verifPVal {
	switch k {
	case 0:
		return verifPVal{kind: vkAbsent}
	case 1:
		return verifPIntNum("n", digits, true)
	case 2:
		i := verifChoose("float", len(verifYFloats))
		f := verifYFloats[i]
		return verifPVal{kind: vkFloatC, v: json.Number(f.text), text: f.text, f: f.f}
	case 3:
		return verifPStr("s", verifChoose("s.len", 3))
	case 4:
		return verifPBool("b")
	case 5:
		return verifPVal{kind: vkNil}
	case 6:
		return verifPList()
	case 7:
		return verifPList(verifPElem("e0", 1))
	case 8:
		return verifPList(verifPElem("e0", 1), verifPElem("e1", 1))
	case 9:
		return verifPObj(nil)
	case 10:
		e := verifPElem("e0", 1)
		return verifPObj(&e)
	}
	b := verifYBigs[verifChoose("big", len(verifYBigs))]
	return verifPVal{kind: vkBig, v: json.Number(b.text), text: b.text, u: b.u, f: b.f, isF: b.isF}
}

// canonical content only: no "-0", strings of bytes both syntaxes carry verbatim
func verifYCanon(d verifPVal) {
	switch d.kind {
	case vkInt:
		if d.text[0] == '-' {
			verifAssume(d.i != 0)
		}
	case vkStr:
		verifPPlain(d.s)
	case vkList:
		for _, e := range d.elems {
			verifYCanon(e)
		}
	case vkObj:
		if d.ent != nil {
			verifYCanon(*d.ent)
		}
	}
}

func verifYDescribe(d verifPVal) string {
	switch d.kind {
	case vkList:
		if verifPHasNil(d.elems) {
			return "list with a null element"
		}
		return "list"
	case vkObj:
		if d.ent != nil && d.ent.kind == vkNil {
			return "object with a null entry"
		}
		return "object"
	case vkFloatC:
		return "float " + d.text
	case vkBig:
		return "integer " + d.text
	}
	return verifPKindName[d.kind]
}

// ---- destination shapes ----

type (
	verifYInner struct {
		X int8   `json:"x"`
		Y string `json:"y,optional"`
	}
	verifYI8   struct{ A int8 `json:"a"` }
	verifYU16R struct{ A uint16 `json:"a,range=[1:300]"` }
	verifYIOpt struct{ A int `json:"a,options=1|2|30"` }
	verifYI32D struct{ A int32 `json:"a,default=7"` }
	verifYI16O struct{ A int16 `json:"a,optional"` }
	verifYF64  struct{ A float64 `json:"a"` }
	verifYF32O struct{ A float32 `json:"a,optional"` }
	verifYS    struct{ A string `json:"a"` }
	verifYSOpt struct{ A string `json:"a,default=x,options=x|y"` }
	verifYB    struct{ A bool `json:"a"` }
	verifYU64  struct{ A uint64 `json:"a"` }
	verifYNest struct{ A verifYInner `json:"a"` }
	verifYLI   struct{ A []int `json:"a"` }
	verifYLS   struct{ A []string `json:"a,optional"` }
	verifYMS   struct{ A map[string]string `json:"a"` }
	verifYMI   struct{ A map[string]int `json:"a,optional"` }
	verifYFlat struct {
		I int8              `json:"i"`
		U uint16            `json:"u,range=[1:300]"`
		O int               `json:"o,options=1|2|30,optional"`
		D int32             `json:"d,default=7"`
		F float64           `json:"f,optional"`
		S string            `json:"s"`
		B bool              `json:"b"`
		N verifYInner       `json:"nest"` // not "n": YAML 1.1 reads a plain n as the boolean false
		L []int             `json:"l"`
		M map[string]string `json:"m"`
	}
)

var verifYShapeName = []string{"int8", "uint16-range", "int-options", "int32-default", "int16-optional", "float64", "float32-optional",
	"string", "string-default-options", "bool", "uint64", "nested", "list-int", "list-string-optional", "map-string", "map-int-optional",
	"flat", "top-level-null"}

const verifYShapes = 18

// verifYLoad runs both real loaders on the two texts.
func verifYLoad(jt, yt string, jtree, ytree any, a, b any) (ej, ey error, pj, py bool) {
	verifYSelfTest(jt, yt, jtree, ytree)
	verifJTree, verifYTree = jtree, ytree
	_, pj = verifExpectPanic(func() { ej = UnmarshalJsonBytes([]byte(jt), a) })
	_, py = verifExpectPanic(func() { ey = UnmarshalYamlBytes([]byte(yt), b) })
	return
}

// verifYAgree asserts the accept/reject half of the oracle; true = both succeeded.
func verifYAgree(what string, ej, ey error, pj, py bool) bool {
	verifAssert(!pj, "loading JSON never panics ("+what+")")
	verifAssert(!py, "loading YAML never panics ("+what+")")
	if pj || py {
		return false
	}
	verifAssert((ej == nil) == (ey == nil), "JSON and YAML agree on accepting or rejecting the same content ("+what+")")
	return ej == nil && ey == nil
}

func verifYSameInts(a, b []int) bool {
	if len(a) != len(b) {
		return false
	}
	same := true
	for i := range a {
		same = verifAnd(same, a[i] == b[i])
	}
	return same
}

func verifYSameStrs(a, b []string) bool {
	if len(a) != len(b) {
		return false
	}
	same := true
	for i := range a {
		same = verifAnd(same, a[i] == b[i])
	}
	return same
}

func Verif_C05_jsonyaml() {
	c := verifCase(verifYShapes)
	shape := verifYShapeName[c]
	if c == 16 {
		verifYFlatCase()
		return
	}
	if c == 17 {
		// the empty content: JSON `null`, YAML `null`; every field optional
		var a, b verifYI16O
		ej, ey, pj, py := verifYLoad("null", "null\n", nil, nil, &a, &b)
		verifReach("y-top-level-null")
		if verifYAgree("top-level null", ej, ey, pj, py) {
			verifAssert(a == b, "JSON and YAML yield the same struct (top-level null)")
		}
		return
	}
	k := verifChoose("content", verifYContents)
	digits := verifParam("digits")
	if (c == 5 || c == 6) && digits > verifParam("fdigits") {
		digits = verifParam("fdigits") // float fields: mixed digit arithmetic and IEEE conversion is slow to decide
	}
	d := verifYContent(k, digits)
	verifYCanon(d)
	what := shape + " <- " + verifYDescribe(d)
	verifTrace(what)

	jtree := map[string]any{}
	ytree := map[interface{}]interface{}{}
	jt, yt := "{}", "{}\n"
	if d.kind != vkAbsent {
		jtree["a"] = d.v
		ytree["a"] = d.yamlTree()
		jt = `{"a":` + d.jsonText() + "}"
		yt = d.yamlField("", "a")
	}
	same := "JSON and YAML yield the same struct (" + what + ")"
	ok := false
	switch c {
	case 0:
		var a, b verifYI8
		ej, ey, pj, py := verifYLoad(jt, yt, jtree, ytree, &a, &b)
		if ok = verifYAgree(what, ej, ey, pj, py); ok {
			verifAssert(a == b, same)
		}
	case 1:
		var a, b verifYU16R
		ej, ey, pj, py := verifYLoad(jt, yt, jtree, ytree, &a, &b)
		if ok = verifYAgree(what, ej, ey, pj, py); ok {
			verifAssert(a == b, same)
		}
	case 2:
		var a, b verifYIOpt
		ej, ey, pj, py := verifYLoad(jt, yt, jtree, ytree, &a, &b)
		if ok = verifYAgree(what, ej, ey, pj, py); ok {
			verifAssert(a == b, same)
		}
	case 3:
		var a, b verifYI32D
		ej, ey, pj, py := verifYLoad(jt, yt, jtree, ytree, &a, &b)
		if ok = verifYAgree(what, ej, ey, pj, py); ok {
			verifAssert(a == b, same)
		}
	case 4:
		var a, b verifYI16O
		ej, ey, pj, py := verifYLoad(jt, yt, jtree, ytree, &a, &b)
		if ok = verifYAgree(what, ej, ey, pj, py); ok {
			verifAssert(a == b, same)
		}
	case 5:
		var a, b verifYF64
		ej, ey, pj, py := verifYLoad(jt, yt, jtree, ytree, &a, &b)
		if ok = verifYAgree(what, ej, ey, pj, py); ok {
			verifAssert(a == b, same)
		}
	case 6:
		var a, b verifYF32O
		ej, ey, pj, py := verifYLoad(jt, yt, jtree, ytree, &a, &b)
		if ok = verifYAgree(what, ej, ey, pj, py); ok {
			verifAssert(a == b, same)
		}
	case 7:
		var a, b verifYS
		ej, ey, pj, py := verifYLoad(jt, yt, jtree, ytree, &a, &b)
		if ok = verifYAgree(what, ej, ey, pj, py); ok {
			verifAssert(a == b, same)
		}
	case 8:
		var a, b verifYSOpt
		ej, ey, pj, py := verifYLoad(jt, yt, jtree, ytree, &a, &b)
		if ok = verifYAgree(what, ej, ey, pj, py); ok {
			verifAssert(a == b, same)
		}
	case 9:
		var a, b verifYB
		ej, ey, pj, py := verifYLoad(jt, yt, jtree, ytree, &a, &b)
		if ok = verifYAgree(what, ej, ey, pj, py); ok {
			verifAssert(a == b, same)
		}
	case 10:
		var a, b verifYU64
		ej, ey, pj, py := verifYLoad(jt, yt, jtree, ytree, &a, &b)
		if ok = verifYAgree(what, ej, ey, pj, py); ok {
			verifAssert(a == b, same)
		}
	case 11:
		var a, b verifYNest
		ej, ey, pj, py := verifYLoad(jt, yt, jtree, ytree, &a, &b)
		if ok = verifYAgree(what, ej, ey, pj, py); ok {
			verifAssert(a == b, same)
		}
	case 12:
		var a, b verifYLI
		ej, ey, pj, py := verifYLoad(jt, yt, jtree, ytree, &a, &b)
		if ok = verifYAgree(what, ej, ey, pj, py); ok {
			verifAssert(verifYSameInts(a.A, b.A), same)
		}
	case 13:
		var a, b verifYLS
		ej, ey, pj, py := verifYLoad(jt, yt, jtree, ytree, &a, &b)
		if ok = verifYAgree(what, ej, ey, pj, py); ok {
			verifAssert(verifYSameStrs(a.A, b.A), same)
		}
	case 14:
		var a, b verifYMS
		ej, ey, pj, py := verifYLoad(jt, yt, jtree, ytree, &a, &b)
		if ok = verifYAgree(what, ej, ey, pj, py); ok {
			ax, aok := a.A["x"]
			bx, bok := b.A["x"]
			verifAssert(len(a.A) == len(b.A) && aok == bok && ax == bx, same)
		}
	case 15:
		var a, b verifYMI
		ej, ey, pj, py := verifYLoad(jt, yt, jtree, ytree, &a, &b)
		if ok = verifYAgree(what, ej, ey, pj, py); ok {
			ax, aok := a.A["x"]
			bx, bok := b.A["x"]
			verifAssert(len(a.A) == len(b.A) && aok == bok && ax == bx, same)
		}
	}
	if ok {
		verifReach("y-" + shape + "-both-ok")
	} else {
		verifReach("y-" + shape + "-not-ok")
	}
	verifReach("y-content-" + verifYContentName[k])
}

// the flat struct of the statement with every field well-typed: all symbolic
func verifYFlatCase() {
	i := verifPIntNum("i", verifParam("fdigits"), true)
	verifYCanon(i)
	u := verifPFixedNum("u", 1)
	s := verifPStr("s", 2)
	verifYCanon(s)
	withO := verifChoose("o", 2) == 1 // variant 1: the optional fields o and f are present, b is true
	withF := withO
	bv := verifPVal{kind: vkBool, v: withO, b: withO}
	x := verifPFixedNum("x", 1)
	l0, l1 := verifPIntNum("l0", 1, true), verifPFixedNum("l1", 1)
	verifYCanon(l0)
	l := verifPList(l0, l1)
	ms := verifPStr("m", 1)
	verifYCanon(ms)
	n, m := verifPObj(&x), verifPObj(&ms)

	jtree := map[string]any{"i": i.v, "u": u.v, "s": s.v, "b": bv.v, "nest": n.v, "l": l.v, "m": m.v}
	ytree := map[interface{}]interface{}{"i": i.yamlTree(), "u": u.yamlTree(), "s": s.yamlTree(), "b": bv.yamlTree(),
		"nest": n.yamlTree(), "l": l.yamlTree(), "m": m.yamlTree()}
	jt := `{"i":` + i.jsonText() + `,"u":` + u.jsonText() + `,"s":` + s.jsonText() + `,"b":` + bv.jsonText() +
		`,"nest":` + n.jsonText() + `,"l":` + l.jsonText() + `,"m":` + m.jsonText()
	yt := i.yamlField("", "i") + u.yamlField("", "u") + s.yamlField("", "s") + bv.yamlField("", "b") +
		n.yamlField("", "nest") + l.yamlField("", "l") + m.yamlField("", "m")
	if withO {
		jtree["o"], ytree["o"] = json.Number("30"), 30
		jt += `,"o":30`
		yt += "o: 30\n"
	}
	if withF {
		jtree["f"], ytree["f"] = json.Number("1.5"), 1.5
		jt += `,"f":1.5`
		yt += "f: 1.5\n"
	}
	jt += "}"
	var a, b verifYFlat
	ej, ey, pj, py := verifYLoad(jt, yt, jtree, ytree, &a, &b)
	if !verifYAgree("flat struct, every field well-typed", ej, ey, pj, py) {
		verifReach("y-flat-not-ok")
		return
	}
	sameScalars := a.I == b.I && a.U == b.U && a.O == b.O && a.D == b.D && a.F == b.F && a.S == b.S && a.B == b.B && a.N == b.N
	verifAssert(sameScalars, "JSON and YAML yield the same struct (flat struct: scalar and nested fields)")
	verifAssert(verifYSameInts(a.L, b.L), "JSON and YAML yield the same struct (flat struct: list field)")
	verifAssert(len(a.M) == len(b.M) && a.M["x"] == b.M["x"], "JSON and YAML yield the same struct (flat struct: map field)")
	// and it is the document's content
	verifAssert(int64(a.I) == i.i && int64(a.U) == u.i && a.S == s.s && a.B == bv.b && int64(a.N.X) == x.i && a.D == 7, "the flat struct holds the document's content")
	verifAssert(len(a.L) == 2 && int64(a.L[0]) == l0.i && int64(a.L[1]) == l1.i && a.M["x"] == ms.s, "the flat struct's list and map hold the document's content")
	if withO {
		verifAssert(a.O == 30, "present optional field holds the document's value")
	} else {
		verifAssert(a.O == 0, "absent optional field stays zero")
	}
	verifReach("y-flat-both-ok")
}
