package mapping

import (
	"encoding/json"
	"time"
)

// H05o: tag-option combinations the other harnesses do not reach.
//
//   - `string` option combined with options= / range= (a number or a numeral
//     written as a string; the option check must not assume a Go string);
//   - maps whose key kind is not string (map[int]string, map[int]int): a JSON/YAML
//     object only has string keys;
//   - dependent optional (`optional=b`, `optional=!b`) combined with range= /
//     options=: the dependency must not switch the declared constraint off;
//   - env= on int64 / int / *int / string / bool / time.Duration fields: the
//     environment variable's text is the field's document value.
//
// Oracle as everywhere in C05: never panics; fails with an error, or the field
// holds the document's value exactly and that value satisfies the declared
// options= / range=.
//
// The process environment is reached through proc.Env, which is replaced by a
// harness variable (in the engine and, by trampoline, natively).

//verif:stub github.com/gotid/god/lib/proc.Env => verifOEnv

var verifOEnvVal string

func verifOEnv(name string) string {
	if name == "VERIF_A" {
		return verifOEnvVal
	}
	return ""
}

type (
	verifOIntSO struct{ A int `key:"a,string,options=1|2"` }
	verifOF64SR struct{ A float64 `key:"a,string,range=[1:3]"` }
	verifOU8SR  struct{ A uint8 `key:"a,string,range=[1:3]"` }
	verifOMIS   struct{ A map[int]string `key:"a"` }
	verifOMII   struct{ A map[int]int `key:"a"` }
	verifODepR  struct {
		B int `key:"b,optional"`
		A int `key:"a,optional=b,range=[1:3]"`
	}
	verifODepNO struct {
		B int `key:"b,optional"`
		A int `key:"a,optional=!b,options=1|2"`
	}
	verifODepSO struct {
		B int    `key:"b,optional"`
		A string `key:"a,optional=b,options=x|y"`
	}
	verifOEI64 struct{ A int64 `key:"a,env=VERIF_A"` }
	verifOEInt struct{ A int `key:"a,env=VERIF_A"` }
	verifOEPI  struct{ A *int `key:"a,env=VERIF_A"` }
	verifOEStr struct{ A string `key:"a,env=VERIF_A"` }
	verifOEB   struct{ A bool `key:"a,env=VERIF_A"` }
	verifOEDur struct{ A time.Duration `key:"a,env=VERIF_A"` }
	// env= together with range= / options=: the variable's value is a document value like any other
	verifOEIR struct{ A int `key:"a,env=VERIF_A,range=[1:3]"` }
	verifOEUR struct{ A uint8 `key:"a,env=VERIF_A,range=(0:6]"` }
	verifOEIO struct{ A int `key:"a,env=VERIF_A,options=1|2"` }
)

var verifOName = []string{"int string options", "float64 string range", "uint8 string range", "map[int]string", "map[int]int",
	"int optional=b range", "int optional=!b options", "string optional=b options",
	"int64 env", "int env", "ptr-int env", "string env", "bool env", "duration env",
	"int env range", "uint8 env range", "int env options"}

var verifOTag = []string{"int-string-options", "float64-string-range", "uint8-string-range", "map-int-string", "map-int-int",
	"dep-range", "notdep-options", "dep-string-options", "env-int64", "env-int", "env-ptr-int", "env-string", "env-bool", "env-duration",
	"env-int-range", "env-uint8-range", "env-int-options"}

func verifORun(m map[string]any, v any, name string) (error, bool) {
	err, p := verifPRun(m, v)
	verifAssert(!p, "never panics ("+name+")")
	return err, !p
}

func verifOASCII(s string) {
	for i := 0; i < len(s); i++ {
		verifAssume(s[i] < 0x80)
	}
}

// cases 0..2: a value for a field with the `string` option: a number of one
// symbolic digit, a one-byte string, a concrete string, a bool or null.
// Returns the document value, whether it denotes a number, and that number (x10, so 2.5 is 25).
func verifOStringOptDoc(floats bool) (v any, isNum bool, val10 int64, kind string) {
	switch verifChoose("doc", 5) {
	case 0:
		d := verifStringN("n", 1)
		verifPDigit(d[0])
		return json.Number(d), true, int64(d[0]-'0') * 10, "number"
	case 1:
		s := verifStringN("s", 1)
		if floats {
			verifPDigit(s[0]) // strconv.ParseFloat of a symbolic non-digit is not modelled: see the concrete strings
		}
		isD := verifAnd(s[0] >= '0', s[0] <= '9')
		return s, isD, int64(s[0]-'0') * 10, "string"
	case 2:
		switch verifChoose("text", 3) {
		case 0:
			return "2.5", floats, 25, "string"
		case 1:
			return "x", false, 0, "string"
		}
		return "", false, 0, "string"
	case 3:
		return verifChoose("b", 2) == 1, false, 0, "bool"
	}
	return nil, false, 0, "null"
}

// time.ParseDuration on at most 2 bytes accepts "0", "+0", "-0" and digit + s|m|h
func verifODur(s string, got time.Duration) bool {
	switch len(s) {
	case 1:
		return verifAnd(s[0] == '0', got == 0)
	case 2:
		dg := time.Duration(s[0] - '0')
		isD := verifAnd(s[0] >= '0', s[0] <= '9')
		zero := verifAnd(verifOr(s[0] == '+', s[0] == '-'), verifAnd(s[1] == '0', got == 0))
		sec := verifAnd(isD, verifAnd(s[1] == 's', got == dg*time.Second))
		min := verifAnd(isD, verifAnd(s[1] == 'm', got == dg*time.Minute))
		hour := verifAnd(isD, verifAnd(s[1] == 'h', got == dg*time.Hour))
		return verifOr(zero, verifOr(sec, verifOr(min, hour)))
	}
	return false
}

func Verif_C05_options() {
	c := verifCase(len(verifOName))
	name, tag := verifOName[c], verifOTag[c]
	switch c {
	case 0, 1, 2:
		v, isNum, val10, kind := verifOStringOptDoc(c == 1)
		verifTrace(name + " <- " + kind)
		doc := map[string]any{"a": v}
		var got10 int64 // the field's value x10
		var gotF float64
		var err error
		var ok bool
		switch c {
		case 0:
			var t verifOIntSO
			err, ok = verifORun(doc, &t, name)
			got10 = int64(t.A) * 10
		case 1:
			var t verifOF64SR
			err, ok = verifORun(doc, &t, name)
			gotF = t.A
		case 2:
			var t verifOU8SR
			err, ok = verifORun(doc, &t, name)
			got10 = int64(t.A) * 10
		}
		if !ok {
			return
		}
		if err != nil {
			verifReach("o-" + tag + "-err")
			return
		}
		if kind == "null" {
			verifAssert(got10 == 0 && gotF == 0, name+": an accepted null leaves the field zero")
			return
		}
		verifAssert(isNum, name+": a value that is no number is an error")
		if c == 0 {
			verifAssert(verifOr(val10 == 10, val10 == 20), name+": a value outside options=1|2 makes unmarshalling fail")
		} else {
			verifAssert(verifAnd(val10 >= 10, val10 <= 30), name+": a value outside range=[1:3] makes unmarshalling fail")
		}
		if c == 1 {
			verifAssert(gotF*10 == float64(val10), name+": the field equals the document's number exactly")
		} else {
			verifAssert(got10 == val10, name+": the field equals the document's number exactly")
		}
		verifReach("o-" + tag + "-ok")
	case 3, 4:
		// {"a": {k: v}} with a one-byte key: a document object's keys are strings
		k := verifStringN("k", 1)
		verifOASCII(k)
		var err error
		var ok bool
		if c == 3 {
			s := verifStringN("s", 1)
			var t verifOMIS
			err, ok = verifORun(map[string]any{"a": map[string]any{k: s}}, &t, name)
			if ok && err == nil {
				isD := verifAnd(k[0] >= '0', k[0] <= '9')
				x, has := t.A[int(k[0]-'0')]
				verifAssert(verifAnd(isD, len(t.A) == 1 && has && x == s), name+": the entry is the document's entry exactly")
				verifReach("o-" + tag + "-ok")
			}
		} else {
			n := verifPFixedNum("n", 1)
			var t verifOMII
			err, ok = verifORun(map[string]any{"a": map[string]any{k: n.v}}, &t, name)
			if ok && err == nil {
				isD := verifAnd(k[0] >= '0', k[0] <= '9')
				x, has := t.A[int(k[0]-'0')]
				verifAssert(verifAnd(isD, len(t.A) == 1 && has && int64(x) == n.i), name+": the entry is the document's entry exactly")
				verifReach("o-" + tag + "-ok")
			}
		}
		if ok && err != nil {
			verifReach("o-" + tag + "-err")
		}
	case 5, 6, 7:
		withA := verifChoose("a", 2) == 1
		withB := verifChoose("b", 2) == 1
		doc := map[string]any{}
		if withB {
			doc["b"] = json.Number("1")
		}
		var err error
		var ok bool
		if c == 7 {
			s := verifStringN("s", 1)
			if withA {
				doc["a"] = s
			}
			var t verifODepSO
			err, ok = verifORun(doc, &t, name)
			if !ok {
				return
			}
			if err != nil {
				verifReach("o-" + tag + "-err")
				return
			}
			if withA {
				verifReach("o-" + tag + "-ok")
				verifAssert(verifOr(s == "x", s == "y"), name+": a value outside options=x|y makes unmarshalling fail")
				verifAssert(t.A == s, name+": the field equals the document's value")
			} else {
				verifAssert(t.A == "", name+": an absent field stays zero")
			}
		} else {
			n := verifPFixedNum("n", 1)
			if withA {
				doc["a"] = n.v
			}
			var gotA int
			if c == 5 {
				var t verifODepR
				err, ok = verifORun(doc, &t, name)
				gotA = t.A
			} else {
				var t verifODepNO
				err, ok = verifORun(doc, &t, name)
				gotA = t.A
			}
			if !ok {
				return
			}
			if err != nil {
				verifReach("o-" + tag + "-err")
				return
			}
			if withA {
				verifReach("o-" + tag + "-ok")
				if c == 5 {
					verifAssert(verifAnd(n.i >= 1, n.i <= 3), name+": a value outside range=[1:3] makes unmarshalling fail")
				} else {
					verifAssert(verifOr(n.i == 1, n.i == 2), name+": a value outside options=1|2 makes unmarshalling fail")
				}
				verifAssert(int64(gotA) == n.i, name+": the field equals the document's number exactly")
			} else {
				verifAssert(gotA == 0, name+": an absent field stays zero")
			}
		}
	default:
		// env: the variable's text (0..2 ASCII bytes) is the document value; the
		// document itself does not mention the field
		s := verifStringN("env", verifChoose("env.len", 3))
		verifOASCII(s)
		if c == 14 || c == 15 {
			// the range check reads the text as a float: plain decimal digits here (0..99),
			// other texts are covered by the cases without range=
			for i := 0; i < len(s); i++ {
				verifAssume(s[i] >= '0')
				verifAssume(s[i] <= '9')
			}
		}
		verifOEnvVal = s
		doc := map[string]any{}
		var err error
		var ok bool
		var gotI int64
		var gotS string
		var gotB bool
		var gotD time.Duration
		switch c {
		case 8:
			var t verifOEI64
			err, ok = verifORun(doc, &t, name)
			gotI = t.A
		case 9:
			var t verifOEInt
			err, ok = verifORun(doc, &t, name)
			gotI = int64(t.A)
		case 10:
			var t verifOEPI
			err, ok = verifORun(doc, &t, name)
			if ok && err == nil {
				verifAssert(t.A != nil, name+": the pointer is set")
				if t.A == nil {
					return
				}
				gotI = int64(*t.A)
			}
		case 11:
			var t verifOEStr
			err, ok = verifORun(doc, &t, name)
			gotS = t.A
		case 12:
			var t verifOEB
			err, ok = verifORun(doc, &t, name)
			gotB = t.A
		case 13:
			var t verifOEDur
			err, ok = verifORun(doc, &t, name)
			gotD = t.A
		case 14:
			var t verifOEIR
			err, ok = verifORun(doc, &t, name)
			gotI = int64(t.A)
		case 15:
			var t verifOEUR
			err, ok = verifORun(doc, &t, name)
			gotI = int64(t.A)
		case 16:
			var t verifOEIO
			err, ok = verifORun(doc, &t, name)
			gotI = int64(t.A)
		}
		if !ok {
			return
		}
		if len(s) == 0 {
			verifAssert(err != nil, name+": with the variable unset the required absent field makes unmarshalling fail")
			return
		}
		if err != nil {
			verifReach("o-" + tag + "-err")
			return
		}
		switch c {
		case 14, 15, 16:
			isNum, v := verifPAtoi(s)
			verifAssert(verifAnd(isNum, gotI == v), name+": the field equals the number in the variable exactly")
			switch c {
			case 14:
				verifAssert(verifAnd(v >= 1, v <= 3), name+": a value from the environment outside range=[1:3] makes unmarshalling fail")
			case 15:
				verifAssert(verifAnd(v > 0, v <= 6), name+": a value from the environment outside range=(0:6] makes unmarshalling fail")
			default:
				verifAssert(verifOr(v == 1, v == 2), name+": a value from the environment outside options=1|2 makes unmarshalling fail")
			}
		case 8, 9, 10:
			isNum, v := verifPAtoi(s)
			verifAssert(verifAnd(isNum, gotI == v), name+": the field equals the number in the variable exactly")
		case 11:
			verifAssert(gotS == s, name+": the field equals the variable's text")
		case 12:
			// strconv.ParseBool on at most 2 bytes: 1 t T / 0 f F
			yes := verifAnd(len(s) == 1, verifAnd(verifOr(s[0] == '1', verifOr(s[0] == 't', s[0] == 'T')), gotB))
			no := verifAnd(len(s) == 1, verifAnd(verifOr(s[0] == '0', verifOr(s[0] == 'f', s[0] == 'F')), !gotB))
			verifAssert(verifOr(yes, no), name+": the field equals the bool in the variable")
		case 13:
			verifAssert(verifODur(s, gotD), name+": the field equals the duration in the variable exactly")
		}
		verifReach("o-" + tag + "-ok")
	}
}
