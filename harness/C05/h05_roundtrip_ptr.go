package httpc

import (
	"context"
	"net/http"

	"github.com/gotid/god/api/httpx"
	"github.com/gotid/god/api/router"
)

// H05s: the round trip of H05r for a request struct with POINTER-valued parts
// (the property's quantifier lists pointers among the supported field kinds;
// httpx.Parse fills *int fields from form / header text). mapping.Marshal puts
// the pointer itself into the part map and the client helper writes
// fmt.Sprint(v) of it.

type verifReqP struct {
	Key string `path:"key"`
	P   *int   `form:"p"`
	H   *int   `header:"X-H"`
}

type verifSrvP struct {
	ran int
	got verifReqP
	err error
}

func (s *verifSrvP) ServeHTTP(w http.ResponseWriter, r *http.Request) {
	s.ran++
	s.err = httpx.Parse(r, &s.got)
}

func Verif_C05_roundtrip_ptr() {
	method := http.MethodGet
	if verifCase(2) == 1 {
		method = http.MethodPost
	}
	p, h := verifInt("p"), verifInt("h")
	verifAssume(p >= -99)
	verifAssume(p <= 99)
	verifAssume(h >= 0)
	verifAssume(h <= 9)
	sent := verifReqP{Key: "k", P: &p, H: &h}

	creq, err := buildRequest(context.Background(), method, "http://host/items/:key", &sent)
	verifAssert(err == nil, "buildRequest accepts the request struct")
	if err != nil {
		return
	}
	sreq, err := verifWire(creq)
	verifAssert(err == nil, "the request target written by the client is a valid request URI")
	if err != nil {
		return
	}
	srv := &verifSrvP{}
	rt := router.NewRouter()
	verifAssert(rt.Handle(method, "/items/:key", srv) == nil, "route registered")
	rt.ServeHTTP(&verifRW{hdr: http.Header{}}, sreq)
	verifAssert(srv.ran == 1, "the request reaches the handler of /items/:key")
	if srv.ran != 1 {
		return
	}
	verifReach("ptr-routed")
	verifAssert(srv.err == nil, "httpx.Parse accepts the pointer-valued parts the client helper sent")
	if srv.err != nil {
		return
	}
	got := srv.got
	verifAssert(got.Key == sent.Key, "path part parsed back equal")
	verifAssert(got.P != nil && *got.P == p, "*int form part parsed back equal (pointee)")
	verifAssert(got.H != nil && *got.H == h, "*int header part parsed back equal (pointee)")
	verifReach("roundtrip-ptr")
}
