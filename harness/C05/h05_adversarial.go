package mapping

import (
	"encoding/json"
	"errors"
	"io"
	"time"
)

// H05p: "never panics; error or exact" on adversarial documents.
//
// The shared Unmarshaler (UnmarshalKey, the json.Number path that the JSON,
// YAML and config loaders all end in) is driven with a generic tree whose node
// KINDS are adversarial: for every destination shape of the grid below the
// document supplies a value of any JSON kind - a number (symbolic digits, with
// sign / fraction / exponent forms), a string (symbolic bytes), a bool, null, a
// list of 0..2 scalars of mixed kinds, an object of 0..1 entries, or a nested
// list/object where a scalar is expected.
//
// Oracle (the statement of C05, nothing more):
//   * the call never panics;
//   * if it returns nil, a field whose document value is well-typed for it holds
//     exactly that value (numbers compared on the integers / as the correctly
//     rounded float, never wrapped or truncated; strings and bools equal; lists
//     and objects element by element, same length);
//   * an ill-typed document value (a JSON kind the field's Go kind cannot hold,
//     e.g. a string, bool, list or object for an int field) must be an error -
//     a nil error would mean the field "equals" a value it cannot hold. The
//     package's documented leniencies are respected: the `string` tag option
//     accepts numbers written as strings, list elements may be written as
//     strings / numbers of the same text ([]int <- ["7"], []string <- [7]) and
//     slice/map fields accept a string holding JSON text; for those only value
//     preservation (where it is defined) and panic-freedom are asserted;
//   * null: if accepted, the field keeps its zero value. Whether null is
//     accepted, and the length of a list that contains nulls, is not asserted
//     (the statement is silent).
//
// encoding/json is reached only through jsonx.UnmarshalFromString (a string
// document for a slice/map field is parsed as JSON text). In the symbolic world
// that decoder is a table of true facts about the real one for the texts the
// harness supplies (verifPDecode); natively the real decoder runs.

//verif:model encoding/json.NewDecoder => verifPNewDecoder
//verif:model (*encoding/json.Decoder).UseNumber => verifPUseNumber
//verif:model (*encoding/json.Decoder).Decode => verifPDecode

var (
	verifPDecR   io.Reader
	verifPTopNum string // text of the top-level number document of this path ("" if it is not a number)
)

func verifPNewDecoder(r io.Reader) *json.Decoder { verifPDecR = r; return new(json.Decoder) }
func verifPUseNumber(d *json.Decoder)            {}

var errVerifPJSON = errors.New("verif json model: the real decoder rejects this text for this target")

func verifPDecode(d *json.Decoder, v any) error {
	data, err := io.ReadAll(verifPDecR)
	if err != nil {
		return err
	}
	text := string(data)
	// a JSON number never decodes into a slice or a map
	if len(verifPTopNum) > 0 && len(text) == len(verifPTopNum) {
		switch v.(type) {
		case *[]any, *map[string]int, *map[string]any, *map[string][]int:
			if text == verifPTopNum {
				return errVerifPJSON
			}
		}
	}
	one := json.Number("1")
	switch dst := v.(type) {
	case *[]any:
		switch text {
		case "[]":
			*dst = []any{}
			return nil
		case "[1]":
			*dst = []any{one}
			return nil
		case `["s"]`:
			*dst = []any{"s"}
			return nil
		case "[null]":
			*dst = []any{nil}
			return nil
		case "[[1]]":
			*dst = []any{[]any{one}}
			return nil
		case `[{"x":1}]`:
			*dst = []any{map[string]any{"x": one}}
			return nil
		case "{}", `{"x":1}`, `{"x":"s"}`, "5", "x", "":
			return errVerifPJSON
		}
	case *map[string]int:
		switch text {
		case "{}":
			*dst = map[string]int{}
			return nil
		case `{"x":1}`:
			*dst = map[string]int{"x": 1}
			return nil
		case "[]", "[1]", `["s"]`, "[null]", "[[1]]", `[{"x":1}]`, `{"x":"s"}`, "5", "x", "":
			return errVerifPJSON
		}
	case *map[string]any:
		switch text {
		case "{}":
			*dst = map[string]any{}
			return nil
		case `{"x":1}`:
			*dst = map[string]any{"x": one}
			return nil
		case `{"x":"s"}`:
			*dst = map[string]any{"x": "s"}
			return nil
		case "[]", "[1]", `["s"]`, "[null]", "[[1]]", `[{"x":1}]`, "5", "x", "":
			return errVerifPJSON
		}
	case *map[string][]int:
		switch text {
		case "{}":
			*dst = map[string][]int{}
			return nil
		case "[]", "[1]", `["s"]`, "[null]", "[[1]]", `[{"x":1}]`, `{"x":1}`, `{"x":"s"}`, "5", "x", "":
			return errVerifPJSON
		}
	}
	panic("verif json model: text/target outside the table")
}

var verifPTexts = []string{"[]", "[1]", `["s"]`, "[null]", "[[1]]", `[{"x":1}]`, "{}", `{"x":1}`, `{"x":"s"}`, "5", "x", ""}

const verifPDocKinds = 16

var verifPDocName = []string{"integer", "fraction", "exponent", "string", "bool", "null", "[]", "[e]", "[e,e]", "{}", "{x:e}",
	"[[n]]", "[{x:n}]", "{x:[n]}", "{x:{x:n}}", "json-text"}

func verifPDoc(k, digits, edigits int) verifPVal {
	switch k {
	case 0:
		return verifPIntNum("n", digits, true)
	case 1:
		return verifPFracNum("f")
	case 2:
		return verifPExpNum("e")
	case 3:
		return verifPStr("s", verifChoose("s.len", 3))
	case 4:
		return verifPBool("b")
	case 5:
		return verifPVal{kind: vkNil}
	case 6:
		return verifPList()
	case 7:
		return verifPList(verifPElem("e0", edigits))
	case 8:
		return verifPList(verifPElem("e0", 1), verifPElem("e1", 1))
	case 9:
		return verifPObj(nil)
	case 10:
		e := verifPElem("e0", edigits)
		return verifPObj(&e)
	case 11: // [[n]]
		return verifPList(verifPList(verifPIntNum("n", 1, false)))
	case 12: // [{"x":n}]
		n := verifPIntNum("n", 1, false)
		return verifPList(verifPObj(&n))
	case 13: // {"x":[n]}
		l := verifPList(verifPIntNum("n", 1, false))
		return verifPObj(&l)
	case 14: // {"x":{"x":n}}
		n := verifPIntNum("n", 1, false)
		o := verifPObj(&n)
		return verifPObj(&o)
	}
	t := verifPTexts[verifChoose("text", len(verifPTexts))]
	return verifPVal{kind: vkText, v: t, s: t}
}

// ---- destination shapes ----

type (
	verifPInner struct {
		X int8   `key:"x"`
		Y string `key:"y,optional"`
	}
	verifPEmbIn struct {
		X int8 `key:"x"`
	}

	verifPI8   struct{ A int8 `key:"a"` }
	verifPI16  struct{ A int16 `key:"a"` }
	verifPI32  struct{ A int32 `key:"a"` }
	verifPI64  struct{ A int64 `key:"a"` }
	verifPI    struct{ A int `key:"a"` }
	verifPU8   struct{ A uint8 `key:"a"` }
	verifPU16  struct{ A uint16 `key:"a"` }
	verifPU32  struct{ A uint32 `key:"a"` }
	verifPU64  struct{ A uint64 `key:"a"` }
	verifPU    struct{ A uint `key:"a"` }
	verifPF32  struct{ A float32 `key:"a"` }
	verifPF64  struct{ A float64 `key:"a"` }
	verifPB    struct{ A bool `key:"a"` }
	verifPS    struct{ A string `key:"a"` }
	verifPDur  struct{ A time.Duration `key:"a"` }
	verifPPI   struct{ A *int `key:"a"` }
	verifPLI   struct{ A []int `key:"a"` }
	verifPLS   struct{ A []string `key:"a"` }
	verifPMI   struct{ A map[string]int `key:"a"` }
	verifPMA   struct{ A map[string]any `key:"a"` }
	verifPNest struct{ A verifPInner `key:"a"` }
	verifPEmb  struct {
		verifPEmbIn
		Z int16 `key:"z,optional"`
	}
	verifPAny  struct{ A any `key:"a"` }
	verifPIS   struct{ A int `key:"a,string"` }
	verifPIO   struct{ A int16 `key:"a,optional"` }
	verifPPN   struct{ A *verifPInner `key:"a,optional"` }
	verifPLN   struct{ A []verifPInner `key:"a"` }
	verifPLLI  struct{ A [][]int `key:"a"` }
	verifPMLI  struct{ A map[string][]int `key:"a"` }
)

var verifPDestName = []string{"int8", "int16", "int32", "int64", "int", "uint8", "uint16", "uint32", "uint64", "uint",
	"float32", "float64", "bool", "string", "duration", "ptr-int", "list-int", "list-string", "map-int", "map-any",
	"nested", "embedded", "any", "int-string-option", "int16-optional", "ptr-nested", "list-nested", "list-list-int", "map-list-int"}

const verifPDests = 29

// ---- oracles ----

func verifPIll(name string) {
	verifAssert(false, "an ill-typed document value for a "+name+" field is an error, not a nil error")
}

func verifPOracleInt(d verifPVal, err error, got int64, name string, stringOpt bool) {
	if err != nil {
		if d.kind != vkInt {
			verifReach("p-" + name + "-err")
		}
		return
	}
	switch d.kind {
	case vkInt:
		verifAssert(got == d.i, name+" field equals the document's number exactly (no wrap, no truncation)")
		verifReach("p-" + name + "-ok")
	case vkFrac:
		verifAssert(verifAnd(d.m%10 == 0, got == d.m/10), name+" field: a number with a fraction is never truncated")
	case vkExp:
		verifAssert(got == d.i, name+" field equals the document's number written with an exponent exactly")
	case vkNil:
		verifAssert(got == 0, name+" field: an accepted null leaves the field zero")
	case vkStr, vkText:
		if !stringOpt {
			verifPIll(name)
			return
		}
		ok, v := verifPAtoi(d.s)
		verifAssert(verifAnd(ok, got == v), name+" field with the string option equals the number written in the string exactly")
		verifReach("p-" + name + "-fromstring")
	default:
		verifPIll(name)
	}
}

func verifPOracleUint(d verifPVal, err error, got uint64, name string) {
	if err != nil {
		if d.kind != vkInt {
			verifReach("p-" + name + "-err")
		}
		return
	}
	switch d.kind {
	case vkInt:
		verifAssert(verifAnd(d.i >= 0, got == uint64(d.i)), name+" field equals the document's number exactly (no wrap, negative refused)")
		verifReach("p-" + name + "-ok")
	case vkFrac:
		verifAssert(verifAnd(d.m >= 0, verifAnd(d.m%10 == 0, got == uint64(d.m/10))), name+" field: a number with a fraction is never truncated")
	case vkExp:
		verifAssert(got == uint64(d.i), name+" field equals the document's number written with an exponent exactly")
	case vkNil:
		verifAssert(got == 0, name+" field: an accepted null leaves the field zero")
	default:
		verifPIll(name)
	}
}

func verifPOracleFloat(d verifPVal, err error, got float64, is32 bool, name string) {
	if err != nil {
		if d.kind != vkInt {
			verifReach("p-" + name + "-err")
		}
		return
	}
	switch d.kind {
	case vkInt, vkExp:
		// |value| <= 9000: exactly representable in float32 and float64
		verifAssert(got == float64(d.i), name+" field equals the document's number exactly")
		verifReach("p-" + name + "-ok")
	case vkFrac:
		want := float64(d.mag) / 10 // one correctly rounded IEEE division of two exact values = the nearest float64 of the decimal
		if d.neg {
			want = -want
		}
		if is32 {
			want = float64(float32(want))
		}
		verifAssert(got == want, name+" field holds the correctly rounded value of the document's decimal fraction")
		verifReach("p-" + name + "-frac")
	case vkNil:
		verifAssert(got == 0, name+" field: an accepted null leaves the field zero")
	default:
		verifPIll(name)
	}
}

// time.ParseDuration on strings of <= 2 bytes: "0", "+0", "-0", or digit + s|m|h
func verifPOracleDur(d verifPVal, err error, got time.Duration) {
	name := "duration"
	if err != nil {
		verifReach("p-duration-err")
		return
	}
	switch d.kind {
	case vkStr, vkText:
		s := d.s
		switch len(s) {
		case 1:
			verifAssert(verifAnd(s[0] == '0', got == 0), "duration field equals the duration written in the string exactly")
		case 2:
			dg := time.Duration(s[0] - '0')
			isD := verifAnd(s[0] >= '0', s[0] <= '9')
			zero := verifAnd(verifOr(s[0] == '+', s[0] == '-'), verifAnd(s[1] == '0', got == 0))
			sec := verifAnd(isD, verifAnd(s[1] == 's', got == dg*time.Second))
			min := verifAnd(isD, verifAnd(s[1] == 'm', got == dg*time.Minute))
			hour := verifAnd(isD, verifAnd(s[1] == 'h', got == dg*time.Hour))
			verifAssert(verifOr(zero, verifOr(sec, verifOr(min, hour))), "duration field equals the duration written in the string exactly")
			verifReach("p-duration-ok")
		default:
			verifAssert(false, "duration field: a string that is no duration is an error")
		}
	case vkNil:
		verifAssert(got == 0, "duration field: an accepted null leaves the field zero")
	case vkInt, vkFrac, vkExp:
		// a bare number for a duration: the statement does not say; panic-freedom only
	default:
		verifPIll(name)
	}
}

// element of a []int / value of a map[string]int
func verifPIntElem(e verifPVal, got int64, name string, lenient bool) {
	switch e.kind {
	case vkInt:
		verifAssert(got == e.i, name+": element equals the document's number exactly")
	case vkStr:
		if !lenient {
			verifPIll(name + " element")
			return
		}
		ok, v := verifPAtoi(e.s)
		verifAssert(verifAnd(ok, got == v), name+": a number written as a string element keeps its value")
	case vkNil:
		verifAssert(got == 0, name+": an accepted null element is zero")
	default:
		verifPIll(name + " element")
	}
}

func verifPOracleListInt(d verifPVal, err error, got []int, name string) {
	if err != nil {
		if d.kind != vkList {
			verifReach("p-" + name + "-err")
		}
		return
	}
	switch d.kind {
	case vkList:
		if verifPHasNil(d.elems) {
			return // length of a list with nulls: not asserted
		}
		verifAssert(len(got) == len(d.elems), name+" field has the document's length")
		if len(got) != len(d.elems) {
			return
		}
		for i, e := range d.elems {
			verifPIntElem(e, int64(got[i]), name, true)
		}
		if len(got) > 0 {
			verifReach("p-" + name + "-ok")
		}
	case vkNil:
		verifAssert(len(got) == 0, name+" field: an accepted null leaves the field empty")
	case vkText:
		// JSON text in a string: documented leniency, nothing asserted
		verifReach("p-" + name + "-fromtext")
	default:
		verifPIll(name)
	}
}

func verifPOracleListStr(d verifPVal, err error, got []string) {
	name := "list-string"
	if err != nil {
		if d.kind != vkList {
			verifReach("p-list-string-err")
		}
		return
	}
	switch d.kind {
	case vkList:
		if verifPHasNil(d.elems) {
			return
		}
		verifAssert(len(got) == len(d.elems), "list-string field has the document's length")
		if len(got) != len(d.elems) {
			return
		}
		for i, e := range d.elems {
			switch e.kind {
			case vkStr:
				verifAssert(got[i] == e.s, "list-string: element equals the document's string")
			case vkInt:
				verifAssert(got[i] == e.text, "list-string: a number element is kept as its own text")
			default:
				verifPIll("list-string element")
			}
		}
		if len(got) > 0 {
			verifReach("p-list-string-ok")
		}
	case vkNil:
		verifAssert(len(got) == 0, "list-string field: an accepted null leaves the field empty")
	case vkText:
	default:
		verifPIll(name)
	}
}

func verifPOracleMapInt(d verifPVal, err error, got map[string]int) {
	name := "map-int"
	if err != nil {
		if d.kind != vkObj {
			verifReach("p-map-int-err")
		}
		return
	}
	switch d.kind {
	case vkObj:
		if d.ent == nil {
			verifAssert(len(got) == 0, "map-int field of an empty object is empty")
			return
		}
		if d.ent.kind == vkNil {
			return
		}
		verifAssert(len(got) == 1, "map-int field has the document's entries")
		x, ok := got["x"]
		verifAssert(ok, "map-int field has the document's key")
		verifPIntElem(*d.ent, int64(x), name, false)
		verifReach("p-map-int-ok")
	case vkNil:
		verifAssert(len(got) == 0, "map-int field: an accepted null leaves the field empty")
	case vkText:
	default:
		verifPIll(name)
	}
}

func verifPOracleMapAny(d verifPVal, err error, got map[string]any) {
	name := "map-any"
	if err != nil {
		if d.kind != vkObj {
			verifReach("p-map-any-err")
		}
		return
	}
	switch d.kind {
	case vkObj:
		if d.ent == nil {
			verifAssert(len(got) == 0, "map-any field of an empty object is empty")
			return
		}
		verifAssert(len(got) == 1, "map-any field has the document's entries")
		x, ok := got["x"]
		verifAssert(ok, "map-any field has the document's key")
		switch d.ent.kind {
		case vkInt:
			n, isN := x.(json.Number)
			verifAssert(isN && string(n) == d.ent.text, "map-any entry is the document's number")
		case vkStr:
			s, isS := x.(string)
			verifAssert(isS && s == d.ent.s, "map-any entry is the document's string")
		case vkBool:
			b, isB := x.(bool)
			verifAssert(isB && b == d.ent.b, "map-any entry is the document's bool")
		case vkNil:
			verifAssert(x == nil, "map-any entry is the document's null")
		}
		verifReach("p-map-any-ok")
	case vkNil:
		verifAssert(len(got) == 0, "map-any field: an accepted null leaves the field empty")
	case vkText:
	default:
		verifPIll(name)
	}
}

// a struct {X int8 `x`; Y string `y,optional`} filled from document value d
func verifPOracleInner(d verifPVal, err error, got verifPInner, name string) {
	if err != nil {
		if d.kind != vkObj {
			verifReach("p-" + name + "-err")
		}
		return
	}
	switch d.kind {
	case vkObj:
		verifAssert(d.ent != nil, name+": a required leaf that is absent makes unmarshalling fail")
		if d.ent == nil {
			return
		}
		switch d.ent.kind {
		case vkInt:
			verifAssert(int64(got.X) == d.ent.i, name+" leaf equals the document's number exactly")
			verifAssert(got.Y == "", name+": an optional absent leaf stays zero")
			verifReach("p-" + name + "-ok")
		case vkNil:
			verifAssert(got.X == 0, name+": an accepted null leaf is zero")
		default:
			verifPIll(name + " leaf")
		}
	case vkNil:
		verifAssert(got.X == 0 && got.Y == "", name+" field: an accepted null leaves the struct zero")
	default:
		verifPIll(name)
	}
}

func Verif_C05_adversarial() {
	c := verifCase(verifPDests)
	name := verifPDestName[c]
	k := verifChoose("doc", verifPDocKinds)
	digits := verifParam("digits")
	if (c == 10 || c == 11) && digits > verifParam("fdigits") {
		digits = verifParam("fdigits") // float fields: digit arithmetic mixed with IEEE conversion is slow to decide
	}
	d := verifPDoc(k, digits, verifParam("edigits"))
	verifTrace("destination " + name + " <- document " + verifPDocName[k])
	verifPTopNum = d.text
	composite := (c >= 16 && c <= 19) || c >= 26
	if composite && d.kind == vkStr {
		return // string documents for slice/map fields are JSON text: covered by the concrete texts (vkText)
	}
	if c == 14 && d.kind == vkStr {
		for i := 0; i < len(d.s); i++ {
			verifAssume(d.s[i] < 0x80) // duration strings: ASCII (the error text of time.ParseDuration quotes the input rune by rune)
		}
	}
	doc := map[string]any{"a": d.v}
	noPanic := "never panics (" + name + " field <- " + verifPDocName[k] + ")"
	verifReach("p-doc-" + verifPDocName[k])
	switch c {
	case 0:
		var t verifPI8
		err, p := verifPRun(doc, &t)
		verifAssert(!p, noPanic)
		if !p {
			verifPOracleInt(d, err, int64(t.A), name, false)
		}
	case 1:
		var t verifPI16
		err, p := verifPRun(doc, &t)
		verifAssert(!p, noPanic)
		if !p {
			verifPOracleInt(d, err, int64(t.A), name, false)
		}
	case 2:
		var t verifPI32
		err, p := verifPRun(doc, &t)
		verifAssert(!p, noPanic)
		if !p {
			verifPOracleInt(d, err, int64(t.A), name, false)
		}
	case 3:
		var t verifPI64
		err, p := verifPRun(doc, &t)
		verifAssert(!p, noPanic)
		if !p {
			verifPOracleInt(d, err, t.A, name, false)
		}
	case 4:
		var t verifPI
		err, p := verifPRun(doc, &t)
		verifAssert(!p, noPanic)
		if !p {
			verifPOracleInt(d, err, int64(t.A), name, false)
		}
	case 5:
		var t verifPU8
		err, p := verifPRun(doc, &t)
		verifAssert(!p, noPanic)
		if !p {
			verifPOracleUint(d, err, uint64(t.A), name)
		}
	case 6:
		var t verifPU16
		err, p := verifPRun(doc, &t)
		verifAssert(!p, noPanic)
		if !p {
			verifPOracleUint(d, err, uint64(t.A), name)
		}
	case 7:
		var t verifPU32
		err, p := verifPRun(doc, &t)
		verifAssert(!p, noPanic)
		if !p {
			verifPOracleUint(d, err, uint64(t.A), name)
		}
	case 8:
		var t verifPU64
		err, p := verifPRun(doc, &t)
		verifAssert(!p, noPanic)
		if !p {
			verifPOracleUint(d, err, t.A, name)
		}
	case 9:
		var t verifPU
		err, p := verifPRun(doc, &t)
		verifAssert(!p, noPanic)
		if !p {
			verifPOracleUint(d, err, uint64(t.A), name)
		}
	case 10:
		var t verifPF32
		err, p := verifPRun(doc, &t)
		verifAssert(!p, noPanic)
		if !p {
			verifPOracleFloat(d, err, float64(t.A), true, name)
		}
	case 11:
		var t verifPF64
		err, p := verifPRun(doc, &t)
		verifAssert(!p, noPanic)
		if !p {
			verifPOracleFloat(d, err, t.A, false, name)
		}
	case 12:
		var t verifPB
		err, p := verifPRun(doc, &t)
		verifAssert(!p, noPanic)
		if p {
			return
		}
		if err != nil {
			if d.kind != vkBool {
				verifReach("p-bool-err")
			}
			return
		}
		switch d.kind {
		case vkBool:
			verifAssert(t.A == d.b, "bool field equals the document's bool")
			verifReach("p-bool-ok")
		case vkNil:
			verifAssert(!t.A, "bool field: an accepted null leaves the field zero")
		default:
			verifPIll(name)
		}
	case 13:
		var t verifPS
		err, p := verifPRun(doc, &t)
		verifAssert(!p, noPanic)
		if p {
			return
		}
		if err != nil {
			if d.kind != vkStr && d.kind != vkText {
				verifReach("p-string-err")
			}
			return
		}
		switch d.kind {
		case vkStr, vkText:
			verifAssert(t.A == d.s, "string field equals the document's string")
			verifReach("p-string-ok")
		case vkNil:
			verifAssert(t.A == "", "string field: an accepted null leaves the field zero")
		default:
			verifPIll(name)
		}
	case 14:
		var t verifPDur
		err, p := verifPRun(doc, &t)
		verifAssert(!p, noPanic)
		if !p {
			verifPOracleDur(d, err, t.A)
		}
	case 15:
		var t verifPPI
		err, p := verifPRun(doc, &t)
		verifAssert(!p, noPanic)
		if p {
			return
		}
		if err == nil && d.kind == vkNil {
			verifAssert(t.A == nil, "ptr-int field: an accepted null leaves the pointer nil")
			return
		}
		if err == nil {
			verifAssert(t.A != nil, "ptr-int field is set")
			if t.A == nil {
				return
			}
			verifPOracleInt(d, err, int64(*t.A), name, false)
			return
		}
		verifPOracleInt(d, err, 0, name, false)
	case 16:
		var t verifPLI
		err, p := verifPRun(doc, &t)
		verifAssert(!p, noPanic)
		if !p {
			verifPOracleListInt(d, err, t.A, name)
		}
	case 17:
		var t verifPLS
		err, p := verifPRun(doc, &t)
		verifAssert(!p, noPanic)
		if !p {
			verifPOracleListStr(d, err, t.A)
		}
	case 18:
		var t verifPMI
		err, p := verifPRun(doc, &t)
		verifAssert(!p, noPanic)
		if !p {
			verifPOracleMapInt(d, err, t.A)
		}
	case 19:
		var t verifPMA
		err, p := verifPRun(doc, &t)
		verifAssert(!p, noPanic)
		if !p {
			verifPOracleMapAny(d, err, t.A)
		}
	case 20:
		var t verifPNest
		err, p := verifPRun(doc, &t)
		verifAssert(!p, noPanic)
		if !p {
			verifPOracleInner(d, err, t.A, name)
		}
	case 21:
		// the embedded struct's leaf x is read from the outer document; variant 1
		// wraps it under the embedded type's name, which the package refuses
		var t verifPEmb
		m := map[string]any{"x": d.v}
		wrapped := verifChoose("wrapped", 2) == 1
		if wrapped {
			m = map[string]any{"verifPEmbIn": d.v, "x": json.Number("1")}
		}
		err, p := verifPRun(m, &t)
		verifAssert(!p, noPanic)
		if p {
			return
		}
		if wrapped {
			verifAssert(err != nil, "embedded: a value under the anonymous field's own name is refused")
			return
		}
		verifPOracleInt(d, err, int64(t.X), name, false)
		if err == nil {
			verifAssert(t.Z == 0, "embedded: the optional absent sibling stays zero")
		}
	case 22:
		var t verifPAny
		err, p := verifPRun(doc, &t)
		verifAssert(!p, noPanic)
		if !p && err != nil {
			verifReach("p-any-err")
		}
	case 23:
		var t verifPIS
		err, p := verifPRun(doc, &t)
		verifAssert(!p, noPanic)
		if !p {
			verifPOracleInt(d, err, int64(t.A), name, true)
		}
	case 24:
		var t verifPIO
		err, p := verifPRun(doc, &t)
		verifAssert(!p, noPanic)
		if !p {
			verifPOracleInt(d, err, int64(t.A), name, false)
		}
	case 25:
		var t verifPPN
		err, p := verifPRun(doc, &t)
		verifAssert(!p, noPanic)
		if p {
			return
		}
		if err == nil && d.kind == vkNil {
			verifAssert(t.A == nil, "ptr-nested field: an accepted null leaves the pointer nil")
			return
		}
		if err == nil {
			verifAssert(t.A != nil, "ptr-nested field is set")
			if t.A == nil {
				return
			}
			verifPOracleInner(d, err, *t.A, name)
			return
		}
		verifPOracleInner(d, err, verifPInner{}, name)
	case 26:
		var t verifPLN
		err, p := verifPRun(doc, &t)
		verifAssert(!p, noPanic)
		if p {
			return
		}
		if err != nil {
			if d.kind != vkList {
				verifReach("p-list-nested-err")
			}
			return
		}
		switch d.kind {
		case vkList:
			if verifPHasNil(d.elems) {
				return
			}
			verifAssert(len(t.A) == len(d.elems), "list-nested field has the document's length")
			if len(t.A) != len(d.elems) {
				return
			}
			for i, e := range d.elems {
				verifPOracleInner(e, nil, t.A[i], "list-nested")
			}
		case vkNil:
			verifAssert(len(t.A) == 0, "list-nested field: an accepted null leaves the field empty")
		case vkText:
		default:
			verifPIll(name)
		}
	case 27:
		var t verifPLLI
		err, p := verifPRun(doc, &t)
		verifAssert(!p, noPanic)
		if p {
			return
		}
		if err != nil {
			if d.kind != vkList {
				verifReach("p-list-list-int-err")
			}
			return
		}
		switch d.kind {
		case vkList:
			if verifPHasNil(d.elems) {
				return
			}
			verifAssert(len(t.A) == len(d.elems), "list-list-int field has the document's length")
			if len(t.A) != len(d.elems) {
				return
			}
			for i, e := range d.elems {
				if e.kind != vkList {
					verifPIll("list-list-int element")
					continue
				}
				verifPOracleListInt(e, nil, t.A[i], name)
			}
		case vkNil:
			verifAssert(len(t.A) == 0, "list-list-int field: an accepted null leaves the field empty")
		case vkText:
		default:
			verifPIll(name)
		}
	case 28:
		var t verifPMLI
		err, p := verifPRun(doc, &t)
		verifAssert(!p, noPanic)
		if p {
			return
		}
		if err != nil {
			if d.kind != vkObj {
				verifReach("p-map-list-int-err")
			}
			return
		}
		switch d.kind {
		case vkObj:
			if d.ent == nil {
				verifAssert(len(t.A) == 0, "map-list-int field of an empty object is empty")
				return
			}
			if d.ent.kind == vkNil {
				return
			}
			if d.ent.kind != vkList {
				verifPIll("map-list-int entry")
				return
			}
			verifAssert(len(t.A) == 1, "map-list-int field has the document's entries")
			verifPOracleListInt(*d.ent, nil, t.A["x"], name)
		case vkNil:
			verifAssert(len(t.A) == 0, "map-list-int field: an accepted null leaves the field empty")
		case vkText:
		default:
			verifPIll(name)
		}
	}
}
