package mapping

import (
	"encoding/json"
	"errors"
)

// H05k: "absent fields take their declared default" on EVERY unmarshal: the
// default of a slice field is parsed once and memoised process-wide
// (defaultCache); a struct that took the default must own its slice, so that
// whatever the application does with the value it got (overwrite an element,
// sort it) does not change the default the next unmarshal hands out.

//verif:stub github.com/gotid/god/lib/jsonx.UnmarshalFromString => verifDefaultJSON

// the one JSON text this harness's tags contain, decoded as the real decoder
// (UseNumber) does: "[3,1]" -> []any{json.Number("3"), json.Number("1")}
func verifDefaultJSON(str string, v any) error {
	p, ok := v.(*any)
	if !ok || str != "[3,1]" {
		return errors.New("verif: unexpected default text " + str)
	}
	*p = []any{json.Number("3"), json.Number("1")}
	return nil
}

type verifDefSlices struct {
	Hosts []string `key:"hosts,default=[zeta,alpha]"`
	Ports []int    `key:"ports,default=[3,1]"`
	Name  string   `key:"name,default=svc"`
}

func verifDefOK(t *verifDefSlices) bool {
	return len(t.Hosts) == 2 && t.Hosts[0] == "zeta" && t.Hosts[1] == "alpha" &&
		len(t.Ports) == 2 && t.Ports[0] == 3 && t.Ports[1] == 1 && t.Name == "svc"
}

func Verif_C05_defaults_fresh() {
	var first verifDefSlices
	err := UnmarshalKey(map[string]any{}, &first)
	verifAssert(err == nil && verifDefOK(&first), "absent slice/string fields take their declared defaults")
	if err != nil || len(first.Hosts) != 2 || len(first.Ports) != 2 {
		return
	}
	// ordinary use of the loaded value by the application
	i := verifChoose("index", 2)
	first.Hosts[i] = verifStringN("h", 1)
	first.Ports[i] = verifInt("p")
	first.Name = "other"

	var second verifDefSlices
	err = UnmarshalKey(map[string]any{}, &second)
	verifAssert(err == nil && verifDefOK(&second), "a later unmarshal still yields the declared defaults, whatever was done with the earlier result")

	// and the other way round: using the second result does not reach back into the first
	if err == nil && len(second.Hosts) == 2 {
		keep := first.Hosts[1-i]
		second.Hosts[1-i] = "x"
		verifAssert(first.Hosts[1-i] == keep, "two structs that took the default do not share their slices")
	}
	verifReach("defaults-twice")
}
