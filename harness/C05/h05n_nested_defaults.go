package mapping

// H05n: "absent fields take their declared default" one level down.  A member
// whose type is a struct is itself a field: when the document omits it and the
// struct has no required member, its members are absent fields too and take
// THEIR declared defaults (a configuration section left out entirely is the
// ordinary case: `Log LogConf` with nothing under "log").  Compared with the
// same section written as an empty map, which must give the same result; a
// section with a required member that is left out is an error.  Map input
// (UnmarshalKey): no text decoder involved.

type verifNLog struct {
	Mode string `key:"mode,default=console"`
	Keep int    `key:"keep,default=7"`
	Path string `key:"path,optional"`
}

type verifNOuter struct {
	Name string     `key:"name"`
	Log  verifNLog  `key:"log"`
	PLog *verifNLog `key:"plog"`
}

type verifNReq struct {
	A string `key:"a"`
	B int    `key:"b,default=1"`
}

type verifNOuterReq struct {
	Name string    `key:"name"`
	R    verifNReq `key:"r"`
}

func verifNLogDefault(l *verifNLog) bool {
	return l.Mode == "console" && l.Keep == 7 && l.Path == ""
}

func Verif_C05_nested_defaults() {
	name := verifStringN("name", 1)
	doc := map[string]any{"name": name}
	shape := verifChoose("section", 4)
	switch shape {
	case 0: // the section is left out entirely
		verifReach("section-absent")
	case 1: // written, but empty
		doc["log"] = map[string]any{}
		doc["plog"] = map[string]any{}
	case 2: // one member given, the others absent
		doc["log"] = map[string]any{"mode": "file"}
	case 3: // a section with a required member, left out
		var o verifNOuterReq
		err := UnmarshalKey(doc, &o)
		verifAssert(err != nil, "a struct member with a required member cannot be left out")
		verifReach("required-section-absent")
		return
	}
	var o verifNOuter
	err := UnmarshalKey(doc, &o)
	verifAssert(err == nil, "a struct member without required members may be left out (or be empty)")
	if err != nil {
		return
	}
	verifAssert(o.Name == name, "the outer field is assigned")
	if shape == 2 {
		verifAssert(o.Log.Mode == "file" && o.Log.Keep == 7 && o.Log.Path == "", "members absent from a present section take their defaults")
	} else {
		verifAssert(verifNLogDefault(&o.Log), "the members of an absent (or empty) struct member take their declared defaults")
	}
	if o.PLog != nil {
		verifAssert(verifNLogDefault(o.PLog), "an allocated struct pointer member holds its members' defaults")
		verifReach("pointer-section-allocated")
	}
	verifReach("nested-defaults")
}
