package redis

// H12a-brk: the same checks as H12a for a sample of methods with the REAL breaker
// (breaker.New, Google SRE breaker over a rolling window) in front, fresh and
// therefore closed: it validates H12a's stand-in ("a closed breaker runs the
// request and returns its error unchanged"). The breaker's clock and random draw
// are the harness's (as in harness/C01): time stands still, the draw is never needed.

import (
	"time"

	"github.com/gotid/god/lib/mathx"
)

//verif:stub github.com/gotid/god/lib/timex.Now => verifNow
//verif:stub github.com/gotid/god/lib/timex.Since => verifSince
//verif:stub github.com/gotid/god/lib/mathx.NewProba => verifNewProba
//verif:stub (*github.com/gotid/god/lib/mathx.Proba).TrueOnProba => verifCoin

var verifClock = time.Hour
var verifDraws int

func verifNow() time.Duration                      { return verifClock }
func verifSince(t time.Duration) time.Duration     { return verifClock - t }
func verifNewProba() *mathx.Proba                  { return &mathx.Proba{} }
func verifCoin(p *mathx.Proba, proba float64) bool { verifDraws++; return true }

func Verif_C12_wrapper_realbreaker() {
	verifRealBrk = true
	verifDraws = 0
	sample := []string{"Get", "Set", "Del", "HMSet", "ZRangeWithScores", "Eval", "GetSet", "TTL", "HGetAll", "LRange", "ZAdd", "Ping"}
	name := sample[verifCase(verifParam("sample"))]
	plain := verifChoose("form", 2) == 0
	mode := verifChoose("answer", 4)
	e := verifNewEnv(plain, mode)
	for _, m := range verifMethods() {
		if m.name == name {
			m.run(e)
			if mode == verifOK {
				verifReach("sampled")
			}
		}
	}
	verifAssert(verifDraws == 0, "a fresh breaker lets the request through without a random draw")
}
