package kv

// Recording fake of the go-redis command interface (red.Cmdable) shared by the
// C12 harnesses. The struct embeds the interface (left nil: a command that is
// not overridden below panics with a nil dereference, i.e. fails the check) and
// overrides every command the Redis wrapper issues. An override records the
// command and its arguments in a canonical form and answers with a go-redis
// result object built by the library's own constructor from the answer the
// harness scripted. Like go-redis, an answer that carries an error carries the
// zero value.
//
// h12_fake_kv.go is this file with `package kv` (harness files are in-package):
// regenerate it with  sed '1s/.*/package kv/' h12_fake_redis.go > h12_fake_kv.go

import (
	"context"
	"errors"
	"strconv"
	"time"

	red "github.com/go-redis/redis/v8"
)

var verifErrOther = errors.New("verif: connection refused")

// verifBadArg marks an argument the fake cannot bring into canonical form
// (an `any` that is not a string, a bound that is not a decimal integer).
const verifBadArg = "\x00verif-bad-argument"

// verifCall is one recorded command: its name, the context it was issued with,
// and its arguments in the order of the go-redis signature, by kind. Variadic
// and struct arguments are flattened in declaration order.
type verifCall struct {
	cmd  string
	ctx  context.Context
	strs []string
	ints []int64
	flts []float64
	objs []any             // pointer arguments handed through as they are
	kv   map[string]string // HMSet's field map
}

type verifNode struct {
	red.Cmdable // nil: everything not overridden is outside the harness

	id    int
	calls []verifCall

	// scripted answer of the next command(s); only the field of the command's
	// result kind is used
	err error
	s   string
	i   int64
	b   bool
	f   float64
	d   time.Duration
	ss  []string
	m   map[string]string
	as  []any
	zs  []red.Z
	cur uint64
	v   any
	gl  []red.GeoLocation
	gp  []*red.GeoPos
}

func vS(a ...string) []string   { return a }
func vI(a ...int64) []int64     { return a }
func vF(a ...float64) []float64 { return a }

func vAnyStr(v any) string {
	if s, ok := v.(string); ok {
		return s
	}
	return verifBadArg
}

// vAnys: go-redis sends a variadic `...interface{}` one element per argument
// (a single []string / []interface{} / map argument would be expanded: the
// wrapper never passes one, the harness passes strings).
func vAnys(first []string, vs []any) []string {
	out := first
	for _, v := range vs {
		out = append(out, vAnyStr(v))
	}
	return out
}

// vDec: the integer a decimal bound denotes (strconv round trip), or a marker.
func vDec(s string, bad *bool) int64 {
	x, err := strconv.ParseInt(s, 10, 64)
	if err != nil {
		*bad = true
	}
	return x
}

func (n *verifNode) rec(ctx context.Context, cmd string, strs []string, ints []int64, flts []float64) {
	n.calls = append(n.calls, verifCall{cmd: cmd, ctx: ctx, strs: strs, ints: ints, flts: flts})
}

func (n *verifNode) recObjs(ctx context.Context, cmd string, strs []string, flts []float64, objs []any) {
	n.calls = append(n.calls, verifCall{cmd: cmd, ctx: ctx, strs: strs, flts: flts, objs: objs})
}

// answers ------------------------------------------------------------------

func (n *verifNode) ansInt() *red.IntCmd {
	if n.err != nil {
		return red.NewIntResult(0, n.err)
	}
	return red.NewIntResult(n.i, nil)
}
func (n *verifNode) ansStr() *red.StringCmd {
	if n.err != nil {
		return red.NewStringResult("", n.err)
	}
	return red.NewStringResult(n.s, nil)
}
func (n *verifNode) ansStatus() *red.StatusCmd {
	if n.err != nil {
		return red.NewStatusResult("", n.err)
	}
	return red.NewStatusResult(n.s, nil)
}
func (n *verifNode) ansBool() *red.BoolCmd {
	if n.err != nil {
		return red.NewBoolResult(false, n.err)
	}
	return red.NewBoolResult(n.b, nil)
}
func (n *verifNode) ansFloat() *red.FloatCmd {
	if n.err != nil {
		return red.NewFloatResult(0, n.err)
	}
	return red.NewFloatResult(n.f, nil)
}
func (n *verifNode) ansDur() *red.DurationCmd {
	if n.err != nil {
		return red.NewDurationResult(0, n.err)
	}
	return red.NewDurationResult(n.d, nil)
}
func (n *verifNode) ansStrs() *red.StringSliceCmd {
	if n.err != nil {
		return red.NewStringSliceResult(nil, n.err)
	}
	return red.NewStringSliceResult(n.ss, nil)
}
func (n *verifNode) ansMap() *red.StringStringMapCmd {
	if n.err != nil {
		return red.NewStringStringMapResult(nil, n.err)
	}
	return red.NewStringStringMapResult(n.m, nil)
}
func (n *verifNode) ansSlice() *red.SliceCmd {
	if n.err != nil {
		return red.NewSliceResult(nil, n.err)
	}
	return red.NewSliceResult(n.as, nil)
}
func (n *verifNode) ansZs() *red.ZSliceCmd {
	if n.err != nil {
		return red.NewZSliceCmdResult(nil, n.err)
	}
	return red.NewZSliceCmdResult(n.zs, nil)
}
func (n *verifNode) ansScan() *red.ScanCmd {
	if n.err != nil {
		return red.NewScanCmdResult(nil, 0, n.err)
	}
	return red.NewScanCmdResult(n.ss, n.cur, nil)
}
func (n *verifNode) ansCmd() *red.Cmd {
	if n.err != nil {
		return red.NewCmdResult(nil, n.err)
	}
	return red.NewCmdResult(n.v, nil)
}

// commands -----------------------------------------------------------------

func (n *verifNode) BitCount(ctx context.Context, key string, bc *red.BitCount) *red.IntCmd {
	if bc == nil {
		n.rec(ctx, "BitCount", vS(key, verifBadArg), nil, nil)
	} else {
		n.rec(ctx, "BitCount", vS(key), vI(bc.Start, bc.End), nil)
	}
	return n.ansInt()
}
func (n *verifNode) BitOpAnd(ctx context.Context, destKey string, keys ...string) *red.IntCmd {
	n.rec(ctx, "BitOpAnd", append(vS(destKey), keys...), nil, nil)
	return n.ansInt()
}
func (n *verifNode) BitOpOr(ctx context.Context, destKey string, keys ...string) *red.IntCmd {
	n.rec(ctx, "BitOpOr", append(vS(destKey), keys...), nil, nil)
	return n.ansInt()
}
func (n *verifNode) BitOpXor(ctx context.Context, destKey string, keys ...string) *red.IntCmd {
	n.rec(ctx, "BitOpXor", append(vS(destKey), keys...), nil, nil)
	return n.ansInt()
}
func (n *verifNode) BitOpNot(ctx context.Context, destKey string, key string) *red.IntCmd {
	n.rec(ctx, "BitOpNot", vS(destKey, key), nil, nil)
	return n.ansInt()
}
func (n *verifNode) BitPos(ctx context.Context, key string, bit int64, pos ...int64) *red.IntCmd {
	n.rec(ctx, "BitPos", vS(key), append(vI(bit), pos...), nil)
	return n.ansInt()
}
func (n *verifNode) BLPop(ctx context.Context, timeout time.Duration, keys ...string) *red.StringSliceCmd {
	n.rec(ctx, "BLPop", keys, vI(int64(timeout)), nil)
	return n.ansStrs()
}
func (n *verifNode) Decr(ctx context.Context, key string) *red.IntCmd {
	n.rec(ctx, "Decr", vS(key), nil, nil)
	return n.ansInt()
}
func (n *verifNode) DecrBy(ctx context.Context, key string, decrement int64) *red.IntCmd {
	n.rec(ctx, "DecrBy", vS(key), vI(decrement), nil)
	return n.ansInt()
}
func (n *verifNode) Del(ctx context.Context, keys ...string) *red.IntCmd {
	n.rec(ctx, "Del", keys, nil, nil)
	return n.ansInt()
}

// Eval/EvalSha: ints[0] is the number of KEYS, strs = script, KEYS..., ARGV...
func (n *verifNode) Eval(ctx context.Context, script string, keys []string, args ...interface{}) *red.Cmd {
	n.rec(ctx, "Eval", vAnys(append(vS(script), keys...), args), vI(int64(len(keys))), nil)
	return n.ansCmd()
}
func (n *verifNode) EvalSha(ctx context.Context, sha1 string, keys []string, args ...interface{}) *red.Cmd {
	n.rec(ctx, "EvalSha", vAnys(append(vS(sha1), keys...), args), vI(int64(len(keys))), nil)
	return n.ansCmd()
}
func (n *verifNode) Exists(ctx context.Context, keys ...string) *red.IntCmd {
	n.rec(ctx, "Exists", keys, nil, nil)
	return n.ansInt()
}
func (n *verifNode) Expire(ctx context.Context, key string, expiration time.Duration) *red.BoolCmd {
	n.rec(ctx, "Expire", vS(key), vI(int64(expiration)), nil)
	return n.ansBool()
}

// ExpireAt: the instant as (unix seconds, nanoseconds within the second)
func (n *verifNode) ExpireAt(ctx context.Context, key string, tm time.Time) *red.BoolCmd {
	n.rec(ctx, "ExpireAt", vS(key), vI(tm.Unix(), int64(tm.Nanosecond())), nil)
	return n.ansBool()
}
func (n *verifNode) GeoAdd(ctx context.Context, key string, geoLocation ...*red.GeoLocation) *red.IntCmd {
	var objs []any
	for _, g := range geoLocation {
		objs = append(objs, g)
	}
	n.recObjs(ctx, "GeoAdd", vS(key), nil, objs)
	return n.ansInt()
}
func (n *verifNode) GeoDist(ctx context.Context, key string, member1, member2, unit string) *red.FloatCmd {
	n.rec(ctx, "GeoDist", vS(key, member1, member2, unit), nil, nil)
	return n.ansFloat()
}
func (n *verifNode) GeoHash(ctx context.Context, key string, members ...string) *red.StringSliceCmd {
	n.rec(ctx, "GeoHash", append(vS(key), members...), nil, nil)
	return n.ansStrs()
}
func (n *verifNode) GeoPos(ctx context.Context, key string, members ...string) *red.GeoPosCmd {
	n.rec(ctx, "GeoPos", append(vS(key), members...), nil, nil)
	if n.err != nil {
		return red.NewGeoPosCmdResult(nil, n.err)
	}
	return red.NewGeoPosCmdResult(n.gp, nil)
}
func (n *verifNode) GeoRadius(ctx context.Context, key string, longitude, latitude float64, query *red.GeoRadiusQuery) *red.GeoLocationCmd {
	n.recObjs(ctx, "GeoRadius", vS(key), vF(longitude, latitude), []any{query})
	if n.err != nil {
		return red.NewGeoLocationCmdResult(nil, n.err)
	}
	return red.NewGeoLocationCmdResult(n.gl, nil)
}
func (n *verifNode) GeoRadiusByMember(ctx context.Context, key, member string, query *red.GeoRadiusQuery) *red.GeoLocationCmd {
	n.recObjs(ctx, "GeoRadiusByMember", vS(key, member), nil, []any{query})
	if n.err != nil {
		return red.NewGeoLocationCmdResult(nil, n.err)
	}
	return red.NewGeoLocationCmdResult(n.gl, nil)
}
func (n *verifNode) Get(ctx context.Context, key string) *red.StringCmd {
	n.rec(ctx, "Get", vS(key), nil, nil)
	return n.ansStr()
}
func (n *verifNode) GetBit(ctx context.Context, key string, offset int64) *red.IntCmd {
	n.rec(ctx, "GetBit", vS(key), vI(offset), nil)
	return n.ansInt()
}
func (n *verifNode) GetSet(ctx context.Context, key string, value interface{}) *red.StringCmd {
	n.rec(ctx, "GetSet", vS(key, vAnyStr(value)), nil, nil)
	return n.ansStr()
}
func (n *verifNode) HDel(ctx context.Context, key string, fields ...string) *red.IntCmd {
	n.rec(ctx, "HDel", append(vS(key), fields...), nil, nil)
	return n.ansInt()
}
func (n *verifNode) HExists(ctx context.Context, key, field string) *red.BoolCmd {
	n.rec(ctx, "HExists", vS(key, field), nil, nil)
	return n.ansBool()
}
func (n *verifNode) HGet(ctx context.Context, key, field string) *red.StringCmd {
	n.rec(ctx, "HGet", vS(key, field), nil, nil)
	return n.ansStr()
}
func (n *verifNode) HGetAll(ctx context.Context, key string) *red.StringStringMapCmd {
	n.rec(ctx, "HGetAll", vS(key), nil, nil)
	return n.ansMap()
}
func (n *verifNode) HIncrBy(ctx context.Context, key, field string, incr int64) *red.IntCmd {
	n.rec(ctx, "HIncrBy", vS(key, field), vI(incr), nil)
	return n.ansInt()
}
func (n *verifNode) HKeys(ctx context.Context, key string) *red.StringSliceCmd {
	n.rec(ctx, "HKeys", vS(key), nil, nil)
	return n.ansStrs()
}
func (n *verifNode) HLen(ctx context.Context, key string) *red.IntCmd {
	n.rec(ctx, "HLen", vS(key), nil, nil)
	return n.ansInt()
}
func (n *verifNode) HMGet(ctx context.Context, key string, fields ...string) *red.SliceCmd {
	n.rec(ctx, "HMGet", append(vS(key), fields...), nil, nil)
	return n.ansSlice()
}

// HMSet: go-redis expands a single map[string]interface{} argument into
// field/value pairs (in map order); the fake records the map.
func (n *verifNode) HMSet(ctx context.Context, key string, values ...interface{}) *red.BoolCmd {
	c := verifCall{cmd: "HMSet", ctx: ctx, strs: vS(key)}
	if len(values) == 1 {
		if m, ok := values[0].(map[string]interface{}); ok {
			c.kv = map[string]string{}
			for k, v := range m {
				c.kv[k] = vAnyStr(v)
			}
		}
	}
	if c.kv == nil {
		c.strs = vAnys(c.strs, values)
	}
	n.calls = append(n.calls, c)
	return n.ansBool()
}
func (n *verifNode) HScan(ctx context.Context, key string, cursor uint64, match string, count int64) *red.ScanCmd {
	n.rec(ctx, "HScan", vS(key, match), vI(int64(cursor), count), nil)
	return n.ansScan()
}
func (n *verifNode) HSet(ctx context.Context, key string, values ...interface{}) *red.IntCmd {
	n.rec(ctx, "HSet", vAnys(vS(key), values), nil, nil)
	return n.ansInt()
}
func (n *verifNode) HSetNX(ctx context.Context, key, field string, value interface{}) *red.BoolCmd {
	n.rec(ctx, "HSetNX", vS(key, field, vAnyStr(value)), nil, nil)
	return n.ansBool()
}
func (n *verifNode) HVals(ctx context.Context, key string) *red.StringSliceCmd {
	n.rec(ctx, "HVals", vS(key), nil, nil)
	return n.ansStrs()
}
func (n *verifNode) Incr(ctx context.Context, key string) *red.IntCmd {
	n.rec(ctx, "Incr", vS(key), nil, nil)
	return n.ansInt()
}
func (n *verifNode) IncrBy(ctx context.Context, key string, value int64) *red.IntCmd {
	n.rec(ctx, "IncrBy", vS(key), vI(value), nil)
	return n.ansInt()
}
func (n *verifNode) Keys(ctx context.Context, pattern string) *red.StringSliceCmd {
	n.rec(ctx, "Keys", vS(pattern), nil, nil)
	return n.ansStrs()
}
func (n *verifNode) LIndex(ctx context.Context, key string, index int64) *red.StringCmd {
	n.rec(ctx, "LIndex", vS(key), vI(index), nil)
	return n.ansStr()
}
func (n *verifNode) LLen(ctx context.Context, key string) *red.IntCmd {
	n.rec(ctx, "LLen", vS(key), nil, nil)
	return n.ansInt()
}
func (n *verifNode) LPop(ctx context.Context, key string) *red.StringCmd {
	n.rec(ctx, "LPop", vS(key), nil, nil)
	return n.ansStr()
}
func (n *verifNode) LPush(ctx context.Context, key string, values ...interface{}) *red.IntCmd {
	n.rec(ctx, "LPush", vAnys(vS(key), values), nil, nil)
	return n.ansInt()
}
func (n *verifNode) LRange(ctx context.Context, key string, start, stop int64) *red.StringSliceCmd {
	n.rec(ctx, "LRange", vS(key), vI(start, stop), nil)
	return n.ansStrs()
}
func (n *verifNode) LRem(ctx context.Context, key string, count int64, value interface{}) *red.IntCmd {
	n.rec(ctx, "LRem", vS(key, vAnyStr(value)), vI(count), nil)
	return n.ansInt()
}
func (n *verifNode) LTrim(ctx context.Context, key string, start, stop int64) *red.StatusCmd {
	n.rec(ctx, "LTrim", vS(key), vI(start, stop), nil)
	return n.ansStatus()
}
func (n *verifNode) MGet(ctx context.Context, keys ...string) *red.SliceCmd {
	n.rec(ctx, "MGet", keys, nil, nil)
	return n.ansSlice()
}
func (n *verifNode) Persist(ctx context.Context, key string) *red.BoolCmd {
	n.rec(ctx, "Persist", vS(key), nil, nil)
	return n.ansBool()
}
func (n *verifNode) PFAdd(ctx context.Context, key string, els ...interface{}) *red.IntCmd {
	n.rec(ctx, "PFAdd", vAnys(vS(key), els), nil, nil)
	return n.ansInt()
}
func (n *verifNode) PFCount(ctx context.Context, keys ...string) *red.IntCmd {
	n.rec(ctx, "PFCount", keys, nil, nil)
	return n.ansInt()
}
func (n *verifNode) PFMerge(ctx context.Context, dest string, keys ...string) *red.StatusCmd {
	n.rec(ctx, "PFMerge", append(vS(dest), keys...), nil, nil)
	return n.ansStatus()
}
func (n *verifNode) Ping(ctx context.Context) *red.StatusCmd {
	n.rec(ctx, "Ping", nil, nil, nil)
	return n.ansStatus()
}

// Pipelined: go-redis runs fn on a fresh pipeline, returns fn's error if it has
// one and otherwise the outcome of sending the queued commands. The fake runs fn
// (on a nil pipeline: the harness's fn queues nothing) and answers likewise.
func (n *verifNode) Pipelined(ctx context.Context, fn func(red.Pipeliner) error) ([]red.Cmder, error) {
	n.rec(ctx, "Pipelined", nil, nil, nil)
	if err := fn(nil); err != nil {
		return nil, err
	}
	return nil, n.err
}
func (n *verifNode) RPop(ctx context.Context, key string) *red.StringCmd {
	n.rec(ctx, "RPop", vS(key), nil, nil)
	return n.ansStr()
}
func (n *verifNode) RPush(ctx context.Context, key string, values ...interface{}) *red.IntCmd {
	n.rec(ctx, "RPush", vAnys(vS(key), values), nil, nil)
	return n.ansInt()
}
func (n *verifNode) SAdd(ctx context.Context, key string, members ...interface{}) *red.IntCmd {
	n.rec(ctx, "SAdd", vAnys(vS(key), members), nil, nil)
	return n.ansInt()
}
func (n *verifNode) SCard(ctx context.Context, key string) *red.IntCmd {
	n.rec(ctx, "SCard", vS(key), nil, nil)
	return n.ansInt()
}
func (n *verifNode) SDiff(ctx context.Context, keys ...string) *red.StringSliceCmd {
	n.rec(ctx, "SDiff", keys, nil, nil)
	return n.ansStrs()
}
func (n *verifNode) SDiffStore(ctx context.Context, destination string, keys ...string) *red.IntCmd {
	n.rec(ctx, "SDiffStore", append(vS(destination), keys...), nil, nil)
	return n.ansInt()
}
func (n *verifNode) SInter(ctx context.Context, keys ...string) *red.StringSliceCmd {
	n.rec(ctx, "SInter", keys, nil, nil)
	return n.ansStrs()
}
func (n *verifNode) SInterStore(ctx context.Context, destination string, keys ...string) *red.IntCmd {
	n.rec(ctx, "SInterStore", append(vS(destination), keys...), nil, nil)
	return n.ansInt()
}
func (n *verifNode) SIsMember(ctx context.Context, key string, member interface{}) *red.BoolCmd {
	n.rec(ctx, "SIsMember", vS(key, vAnyStr(member)), nil, nil)
	return n.ansBool()
}
func (n *verifNode) SMembers(ctx context.Context, key string) *red.StringSliceCmd {
	n.rec(ctx, "SMembers", vS(key), nil, nil)
	return n.ansStrs()
}
func (n *verifNode) SPop(ctx context.Context, key string) *red.StringCmd {
	n.rec(ctx, "SPop", vS(key), nil, nil)
	return n.ansStr()
}
func (n *verifNode) SRandMemberN(ctx context.Context, key string, count int64) *red.StringSliceCmd {
	n.rec(ctx, "SRandMemberN", vS(key), vI(count), nil)
	return n.ansStrs()
}
func (n *verifNode) SRem(ctx context.Context, key string, members ...interface{}) *red.IntCmd {
	n.rec(ctx, "SRem", vAnys(vS(key), members), nil, nil)
	return n.ansInt()
}
func (n *verifNode) SScan(ctx context.Context, key string, cursor uint64, match string, count int64) *red.ScanCmd {
	n.rec(ctx, "SScan", vS(key, match), vI(int64(cursor), count), nil)
	return n.ansScan()
}
func (n *verifNode) SUnion(ctx context.Context, keys ...string) *red.StringSliceCmd {
	n.rec(ctx, "SUnion", keys, nil, nil)
	return n.ansStrs()
}
func (n *verifNode) SUnionStore(ctx context.Context, destination string, keys ...string) *red.IntCmd {
	n.rec(ctx, "SUnionStore", append(vS(destination), keys...), nil, nil)
	return n.ansInt()
}
func (n *verifNode) Scan(ctx context.Context, cursor uint64, match string, count int64) *red.ScanCmd {
	n.rec(ctx, "Scan", vS(match), vI(int64(cursor), count), nil)
	return n.ansScan()
}
func (n *verifNode) ScriptLoad(ctx context.Context, script string) *red.StringCmd {
	n.rec(ctx, "ScriptLoad", vS(script), nil, nil)
	return n.ansStr()
}
func (n *verifNode) Set(ctx context.Context, key string, value interface{}, expiration time.Duration) *red.StatusCmd {
	n.rec(ctx, "Set", vS(key, vAnyStr(value)), vI(int64(expiration)), nil)
	return n.ansStatus()
}
func (n *verifNode) SetBit(ctx context.Context, key string, offset int64, value int) *red.IntCmd {
	n.rec(ctx, "SetBit", vS(key), vI(offset, int64(value)), nil)
	return n.ansInt()
}
func (n *verifNode) SetNX(ctx context.Context, key string, value interface{}, expiration time.Duration) *red.BoolCmd {
	n.rec(ctx, "SetNX", vS(key, vAnyStr(value)), vI(int64(expiration)), nil)
	return n.ansBool()
}
func (n *verifNode) TTL(ctx context.Context, key string) *red.DurationCmd {
	n.rec(ctx, "TTL", vS(key), nil, nil)
	return n.ansDur()
}

// ZAdd: strs = key, member..., flts = score...
func (n *verifNode) ZAdd(ctx context.Context, key string, members ...*red.Z) *red.IntCmd {
	strs := vS(key)
	var flts []float64
	for _, z := range members {
		if z == nil {
			strs = append(strs, verifBadArg)
			continue
		}
		strs = append(strs, vAnyStr(z.Member))
		flts = append(flts, z.Score)
	}
	n.rec(ctx, "ZAdd", strs, nil, flts)
	return n.ansInt()
}
func (n *verifNode) ZCard(ctx context.Context, key string) *red.IntCmd {
	n.rec(ctx, "ZCard", vS(key), nil, nil)
	return n.ansInt()
}

// score bounds travel as decimal strings: recorded as the integers they denote
func (n *verifNode) recBounds(ctx context.Context, cmd, key, min, max string, more ...int64) {
	bad := false
	ints := append(vI(vDec(min, &bad), vDec(max, &bad)), more...)
	strs := vS(key)
	if bad {
		strs = append(strs, verifBadArg)
	}
	n.rec(ctx, cmd, strs, ints, nil)
}
func (n *verifNode) ZCount(ctx context.Context, key, min, max string) *red.IntCmd {
	n.recBounds(ctx, "ZCount", key, min, max)
	return n.ansInt()
}
func (n *verifNode) ZIncrBy(ctx context.Context, key string, increment float64, member string) *red.FloatCmd {
	n.rec(ctx, "ZIncrBy", vS(key, member), nil, vF(increment))
	return n.ansFloat()
}
func (n *verifNode) ZRange(ctx context.Context, key string, start, stop int64) *red.StringSliceCmd {
	n.rec(ctx, "ZRange", vS(key), vI(start, stop), nil)
	return n.ansStrs()
}
func (n *verifNode) zRangeBy(ctx context.Context, cmd, key string, opt *red.ZRangeBy) *red.ZSliceCmd {
	if opt == nil {
		n.rec(ctx, cmd, vS(key, verifBadArg), nil, nil)
	} else {
		n.recBounds(ctx, cmd, key, opt.Min, opt.Max, opt.Offset, opt.Count)
	}
	return n.ansZs()
}
func (n *verifNode) ZRangeByScoreWithScores(ctx context.Context, key string, opt *red.ZRangeBy) *red.ZSliceCmd {
	return n.zRangeBy(ctx, "ZRangeByScoreWithScores", key, opt)
}
func (n *verifNode) ZRevRangeByScoreWithScores(ctx context.Context, key string, opt *red.ZRangeBy) *red.ZSliceCmd {
	return n.zRangeBy(ctx, "ZRevRangeByScoreWithScores", key, opt)
}
func (n *verifNode) ZRangeWithScores(ctx context.Context, key string, start, stop int64) *red.ZSliceCmd {
	n.rec(ctx, "ZRangeWithScores", vS(key), vI(start, stop), nil)
	return n.ansZs()
}
func (n *verifNode) ZRevRangeWithScores(ctx context.Context, key string, start, stop int64) *red.ZSliceCmd {
	n.rec(ctx, "ZRevRangeWithScores", vS(key), vI(start, stop), nil)
	return n.ansZs()
}
func (n *verifNode) ZRank(ctx context.Context, key, member string) *red.IntCmd {
	n.rec(ctx, "ZRank", vS(key, member), nil, nil)
	return n.ansInt()
}
func (n *verifNode) ZRevRank(ctx context.Context, key, member string) *red.IntCmd {
	n.rec(ctx, "ZRevRank", vS(key, member), nil, nil)
	return n.ansInt()
}
func (n *verifNode) ZRem(ctx context.Context, key string, members ...interface{}) *red.IntCmd {
	n.rec(ctx, "ZRem", vAnys(vS(key), members), nil, nil)
	return n.ansInt()
}
func (n *verifNode) ZRemRangeByRank(ctx context.Context, key string, start, stop int64) *red.IntCmd {
	n.rec(ctx, "ZRemRangeByRank", vS(key), vI(start, stop), nil)
	return n.ansInt()
}
func (n *verifNode) ZRemRangeByScore(ctx context.Context, key, min, max string) *red.IntCmd {
	n.recBounds(ctx, "ZRemRangeByScore", key, min, max)
	return n.ansInt()
}
func (n *verifNode) ZRevRange(ctx context.Context, key string, start, stop int64) *red.StringSliceCmd {
	n.rec(ctx, "ZRevRange", vS(key), vI(start, stop), nil)
	return n.ansStrs()
}
func (n *verifNode) ZScore(ctx context.Context, key, member string) *red.FloatCmd {
	n.rec(ctx, "ZScore", vS(key, member), nil, nil)
	return n.ansFloat()
}
func (n *verifNode) ZUnionStore(ctx context.Context, dest string, store *red.ZStore) *red.IntCmd {
	n.recObjs(ctx, "ZUnionStore", vS(dest), nil, []any{store})
	return n.ansInt()
}
