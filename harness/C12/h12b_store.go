package kv

// H12b: the sharded KV store behaves like one Redis server holding all keys.
//
// The store picks the node of a key through a consistent-hash dispatcher
// (property C13). Here (*ConsistentHash).Get is an arbitrary but key-deterministic
// placement: a key is assigned a node (a symbolic choice) the first time it is
// looked up and keeps it. The nodes are real *redis.Redis wrappers (H12a) whose
// getRedis hands out one recording go-redis fake per node (h12_fake_kv.go) and
// whose breaker is a closed harness Breaker.
//
// Single-key commands, differential oracle: Store.X(key, args...) must
//   - ask the dispatcher exactly once, for the command's key,
//   - cause exactly one go-redis command in the whole cluster, on the node the key is placed on,
//   - and that command, the returned value and the returned error must be those of
//     calling the wrapper method X on that node directly with the same arguments
//     (context.Background() for the plain form) - i.e. of one server holding the key.
// Without a node for the key the dispatcher's failure is reported (ErrNoRedisNode)
// and nothing is sent anywhere.
//
// Multi-key Del: every named key is deleted on its own node (one DEL per key, in
// order, whatever the outcome of the others); the result is the number of keys the
// nodes reported removed; no error iff no node failed.

import (
	"context"
	"errors"

	red "github.com/go-redis/redis/v8"
	"github.com/gotid/god/lib/breaker"
	"github.com/gotid/god/lib/hash"
	"github.com/gotid/god/lib/store/redis"
)

//verif:stub (*github.com/gotid/god/lib/hash.ConsistentHash).Get => verifDispatch
//verif:stub github.com/gotid/god/lib/store/redis.getRedis => verifGetRedis
//verif:stub github.com/gotid/god/lib/breaker.New => verifNewBreaker

var (
	verifNodes      []*redis.Redis // the cluster; empty: no node configured
	verifFakes      []*verifNode   // verifFakes[i] is the go-redis client of verifNodes[i]
	verifDispatched []any          // what the dispatcher was asked for, in order
	verifPlaced     []int          // the node index it answered with
	verifBackground = context.Background()
)

func verifDispatch(h *hash.ConsistentHash, v any) (any, bool) {
	verifDispatched = append(verifDispatched, v)
	if len(verifNodes) == 0 {
		verifPlaced = append(verifPlaced, -1)
		return nil, false
	}
	// the same key is always placed on the same node
	for j := 0; j < len(verifPlaced); j++ {
		if verifDispatched[j] == v {
			verifPlaced = append(verifPlaced, verifPlaced[j])
			return verifNodes[verifPlaced[j]], true
		}
	}
	i := verifChoose("node", len(verifNodes))
	verifPlaced = append(verifPlaced, i)
	return verifNodes[i], true
}

func verifGetRedis(r *redis.Redis) (redis.Node, error) {
	for i, n := range verifNodes {
		if n == r {
			return verifFakes[i], nil
		}
	}
	return nil, errors.New("verif: not a node of this cluster")
}

// verifBrk: a closed breaker (what a real one does with the outcome is C01).
type verifBrk struct{}

func verifNewBreaker(opts ...breaker.Option) breaker.Breaker { return verifBrk{} }

func (verifBrk) Name() string { return "verif" }
func (verifBrk) Allow() (breaker.Promise, error) {
	panic("verif: Allow is not used by the redis wrapper")
}
func (verifBrk) Do(req func() error) error { return req() }
func (verifBrk) DoWithAcceptable(req func() error, acceptable breaker.Acceptable) error {
	return req()
}
func (verifBrk) DoWithFallback(req func() error, fallback func(err error) error) error {
	return req()
}
func (verifBrk) DoWithFallbackAcceptable(req func() error, fallback func(err error) error, acceptable breaker.Acceptable) error {
	return req()
}

type verifCtxT struct{ context.Context }

const (
	verifOK     = 0 // the nodes answer with a value
	verifNil    = 1 // the nodes answer redis.Nil
	verifOther  = 2 // the nodes answer another error (one error object per node)
	verifNoNode = 3 // the cluster has no node
)

type verifKV struct {
	s     kvStore
	ctx   context.Context
	plain bool
	mode  int
	slen  int
	p     int       // node of the command under test
	first verifCall // what that node received from the store
}

type verifStoreMethod struct {
	name string
	run  func(e *verifKV)
}

func verifNewKV(plain bool, mode, nodes int) *verifKV {
	e := &verifKV{plain: plain, mode: mode, slen: verifParam("slen")}
	e.s = kvStore{dispatcher: hash.NewConsistentHash()}
	e.ctx = &verifCtxT{context.Background()}
	verifNodes, verifFakes, verifDispatched, verifPlaced = nil, nil, nil, nil
	if mode == verifNoNode {
		return e
	}
	for i := 0; i < nodes; i++ {
		f := &verifNode{id: i}
		switch mode {
		case verifNil:
			f.err = red.Nil
		case verifOther:
			f.err = errors.New("verif: node down")
		}
		// a symbolic answer of every result kind
		f.s = verifStringN("ans-s", 2)
		f.i = verifInt64("ans-i")
		f.b = verifBool("ans-b")
		f.f = verifFloat64("ans-f")
		f.d = 0
		f.ss = []string{verifStringN("ans-ss0", 2), verifStringN("ans-ss1", 1)}
		f.m = map[string]string{"f1": verifStringN("ans-m1", 2), "f2": verifStringN("ans-m2", 1)}
		f.as = []any{verifStringN("ans-as0", 2), nil}
		f.zs = []red.Z{{Score: float64(verifInt32("ans-z0")), Member: verifStringN("ans-zm0", 2)}, {Score: float64(verifInt32("ans-z1")), Member: verifStringN("ans-zm1", 1)}}
		f.cur = verifUint64("ans-cur")
		f.v = f.i
		verifFakes = append(verifFakes, f)
		verifNodes = append(verifNodes, redis.New(string([]byte{'n', byte('0' + i)})))
	}
	return e
}

// str: a symbolic string of slen bytes; with "varlen" the command's key has 0..slen bytes
func (e *verifKV) str(name string) string {
	if name == "key" && verifParam("varlen") == 1 {
		return verifString(name, e.slen)
	}
	return verifStringN(name, e.slen)
}
func (e *verifKV) flt(name string) float64 {
	f := verifFloat64(name)
	verifAssume(f == f)
	return f
}
func (e *verifKV) twinCtx() context.Context {
	if e.plain {
		return verifBackground
	}
	return e.ctx
}

func verifEqStrs(a, b []string) bool {
	if len(a) != len(b) {
		return false
	}
	ok := true
	for i := range a {
		ok = verifAnd(ok, a[i] == b[i])
	}
	return ok
}
func verifEqMap(a, b map[string]string) bool {
	if len(a) != len(b) {
		return false
	}
	ok := true
	for _, k := range []string{"f1", "f2"} { // the fakes' maps have these fields
		va, ina := a[k]
		vb, inb := b[k]
		if ina != inb {
			return false
		}
		ok = verifAnd(ok, va == vb)
	}
	return ok
}
func verifEqPairs(a, b []redis.Pair) bool {
	if len(a) != len(b) {
		return false
	}
	ok := true
	for i := range a {
		ok = verifAnd(ok, verifAnd(a[i].Member == b[i].Member, a[i].Score == b[i].Score))
	}
	return ok
}

func verifSameCall(a, b verifCall) bool {
	if a.cmd != b.cmd || a.ctx != b.ctx || len(a.ints) != len(b.ints) || len(a.flts) != len(b.flts) || len(a.objs) != len(b.objs) || len(a.kv) != len(b.kv) {
		return false
	}
	ok := verifEqStrs(a.strs, b.strs)
	for i := range a.ints {
		ok = verifAnd(ok, a.ints[i] == b.ints[i])
	}
	for i := range a.flts {
		ok = verifAnd(ok, a.flts[i] == b.flts[i])
	}
	if a.kv != nil {
		ok = verifAnd(ok, verifEqMap(a.kv, b.kv))
	}
	return ok
}

func verifTotalCalls() int {
	n := 0
	for _, f := range verifFakes {
		n += len(f.calls)
	}
	return n
}

// routed: the store's call is over. Checks the dispatch and returns the wrapper
// of the node the key lives on (nil when the cluster has no node), with the
// fakes' logs cleared for the twin call.
func (e *verifKV) routed(key string, err1 error) *redis.Redis {
	verifAssert(len(verifDispatched) == 1, "a single-key command asks the dispatcher once")
	if len(verifDispatched) != 1 {
		return nil
	}
	asked, isStr := verifDispatched[0].(string)
	verifAssert(isStr && asked == key, "the node is chosen by the command's key")
	if e.mode == verifNoNode {
		verifAssert(err1 == ErrNoRedisNode, "no node for the key: the dispatcher's failure is reported")
		verifAssert(verifTotalCalls() == 0, "no node for the key: nothing is sent")
		verifReach("no-node")
		return nil
	}
	e.p = verifPlaced[0]
	verifAssert(verifTotalCalls() == 1, "exactly one command is issued in the whole cluster")
	verifAssert(len(verifFakes[e.p].calls) == 1, "the command goes to the node its key is placed on")
	if len(verifFakes[e.p].calls) != 1 {
		return nil
	}
	e.first = verifFakes[e.p].calls[0]
	for _, f := range verifFakes {
		f.calls = nil
	}
	return verifNodes[e.p]
}

// same: the twin call (the wrapper method on the key's node, same arguments) is over.
func (e *verifKV) same(err1, err2 error, sameValue bool) {
	calls := verifFakes[e.p].calls
	if len(calls) != 1 {
		verifAssert(false, "harness: the twin call issues one command")
		return
	}
	verifAssert(verifSameCall(e.first, calls[0]), "the node receives the command one server would receive for these arguments")
	verifAssert(err1 == err2, "the node's error (or none) is returned")
	verifAssert(sameValue, "the node's answer is returned")
	switch e.mode {
	case verifOK:
		verifReach("answer")
	case verifNil:
		verifReach("nil")
	case verifOther:
		verifReach("node-error")
	}
}

func verifEvalEntry() verifStoreMethod {
	return verifStoreMethod{"Eval", func(e *verifKV) {
		k, sc, a0, a1 := e.str("key"), e.str("script"), e.str("arg0"), e.str("arg1")
		var v1, v2 any
		var err1, err2 error
		if e.plain {
			v1, err1 = e.s.Eval(sc, k, a0, a1)
		} else {
			v1, err1 = e.s.EvalCtx(e.ctx, sc, k, a0, a1)
		}
		t := e.routed(k, err1)
		if t == nil {
			return
		}
		// one server: the script runs with the key as its only KEYS entry
		v2, err2 = t.EvalCtx(e.twinCtx(), sc, []string{k}, a0, a1)
		e.same(err1, err2, v1 == v2)
	}}
}

func Verif_C12_store() {
	ms := append(verifStoreMethods(), verifEvalEntry())
	groups := verifParam("groups")
	per := (len(ms) + groups - 1) / groups
	idx := verifCase(groups)*per + verifChoose("method", per)
	if idx >= len(ms) {
		return
	}
	plain := verifChoose("form", 2) == 0
	mode := verifChoose("answer", 4)
	e := verifNewKV(plain, mode, verifParam("nodes"))
	ms[idx].run(e)
	if plain {
		verifReach("plain-form")
	} else {
		verifReach("context-form")
	}
	if mode == verifOK {
		verifReach("m:" + ms[idx].name)
	}
}

// Multi-key Del ---------------------------------------------------------------

func Verif_C12_store_del() {
	c := verifCase(8) // form x number of named keys
	plain := c&1 == 0
	nodes := verifParam("nodes")
	if verifChoose("cluster", 2) == 1 {
		nodes = 0 // no node configured
	}
	mode := verifOK
	if nodes == 0 {
		mode = verifNoNode
	}
	e := verifNewKV(plain, mode, nodes)
	// which nodes are down, and what a working node answers to DEL of one key
	down := make([]bool, nodes)
	for i, f := range verifFakes {
		if verifBool("down") {
			down[i] = true
			f.err = errors.New("verif: node down")
		}
		f.i = verifInt64("removed")
		verifAssume(f.i >= 0)
		verifAssume(f.i <= 1)
	}
	nk := c >> 1 // 0..3 keys
	keys := []string{e.str("key0"), e.str("key1"), e.str("key2")}[:nk]
	var v int
	var err error
	if plain {
		v, err = e.s.Del(keys...)
	} else {
		v, err = e.s.DelCtx(e.ctx, keys...)
	}
	// every named key is looked up, in order ...
	verifAssert(len(verifDispatched) == nk, "Del asks the dispatcher once per named key")
	if len(verifDispatched) != nk {
		return
	}
	for j, k := range keys {
		asked, isStr := verifDispatched[j].(string)
		verifAssert(isStr && asked == k, "Del looks every named key up by itself")
	}
	if nodes == 0 {
		verifAssert(verifTotalCalls() == 0, "no node: nothing is sent")
		verifAssert(v == 0, "no node: nothing is reported removed")
		if nk > 0 {
			verifAssert(err != nil, "no node for a named key: an error is reported")
			verifReach("del-no-node")
		} else {
			verifAssert(err == nil, "nothing to delete: no error")
		}
		return
	}
	// ... and deleted on its own node whatever happened to the others
	verifAssert(verifTotalCalls() == nk, "Del issues one command per named key")
	if verifTotalCalls() != nk {
		return
	}
	next := make([]int, nodes)
	want, failures := 0, 0
	for j, k := range keys {
		p := verifPlaced[j]
		ok := next[p] < len(verifFakes[p].calls)
		verifAssert(ok, "Del sends every key to the node it is placed on")
		if !ok {
			return
		}
		c := verifFakes[p].calls[next[p]]
		next[p]++
		verifAssert(c.cmd == "Del" && len(c.strs) == 1 && c.strs[0] == k, "Del deletes the named key on its node")
		if plain {
			verifAssert(c.ctx == verifBackground, "Del: the plain form uses context.Background()")
		} else {
			verifAssert(c.ctx == e.ctx, "Del: the context form uses the caller's context")
		}
		if down[p] {
			failures++
		} else {
			want += int(verifFakes[p].i)
		}
	}
	verifAssert(v == want, "Del returns the number of keys the nodes removed")
	if failures == 0 {
		verifAssert(err == nil, "Del: no node failed, no error")
		if nk >= 2 {
			verifReach("del-many-ok")
		}
	} else {
		verifAssert(err != nil, "Del: a failed node is reported")
		if nk >= 2 && failures < nk {
			verifReach("del-partial-failure")
		}
	}
	if plain {
		verifReach("plain-form")
	} else {
		verifReach("context-form")
	}
}
