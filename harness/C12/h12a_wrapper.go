package redis

// H12a: the Redis wrapper is transparent over go-redis.
//
// getRedis is replaced by the harness (the connection managers and the network
// are outside); it hands the wrapper the recording fake of h12_fake_redis.go.
// The breaker in front is a harness Breaker that lets every request through
// (what a real breaker does with the outcome is C01) and notes which
// `acceptable` predicate it was given.
//
// For every covered method, for symbolic arguments and a symbolic answer of
// go-redis, in the plain and in the context form:
//   - exactly one go-redis command is issued, it is the corresponding command,
//     with the context of the call (context.Background() for the plain form) and
//     the same arguments in the same order after the documented conversion;
//   - a successful answer is returned after the documented conversion;
//   - an error other than redis.Nil is returned unchanged;
//   - redis.Nil: Get and GetSet return the zero value and no error (the contract
//     lib/store/cache and the package's own tests rely on), Eval/EvalSha/ZRank pass
//     redis.Nil through (lib/limit, lib/bloom and the tests rely on it); for every
//     other method the statement's disjunction: redis.Nil, or no error and the zero value;
//   - an error of getRedis is returned unchanged and no command is issued.

import (
	"context"
	"errors"
	"time"

	red "github.com/go-redis/redis/v8"
	"github.com/gotid/god/lib/breaker"
)

//verif:stub github.com/gotid/god/lib/store/redis.getRedis => verifGetRedis

var (
	verifTheNode    *verifNode
	verifRealBrk    bool // H12a-brk: breaker.New instead of the harness Breaker
	verifGetErr     error
	verifGetCalls   int
	verifErrNoNode  = errors.New("verif: no such redis")
	verifErrFn      = errors.New("verif: pipeline function failed")
	verifBackground = context.Background()
)

func verifGetRedis(r *Redis) (Node, error) {
	verifGetCalls++
	if verifGetErr != nil {
		return nil, verifGetErr
	}
	return verifTheNode, nil
}

// verifBreaker: a closed breaker. It runs the request and returns its error.
type verifBreaker struct {
	calls int  // DoWithAcceptable calls
	other int  // any other entry point
	accOK bool // the predicate handed over accepts nil, redis.Nil, context.Canceled and rejects another error
}

func (b *verifBreaker) Name() string                    { return "verif" }
func (b *verifBreaker) Allow() (breaker.Promise, error) { b.other++; return nil, nil }
func (b *verifBreaker) Do(req func() error) error       { b.other++; return req() }
func (b *verifBreaker) DoWithAcceptable(req func() error, acceptable breaker.Acceptable) error {
	b.calls++
	b.accOK = acceptable(nil) && acceptable(red.Nil) && acceptable(context.Canceled) && !acceptable(verifErrOther)
	return req()
}
func (b *verifBreaker) DoWithFallback(req func() error, fallback func(err error) error) error {
	b.other++
	return req()
}
func (b *verifBreaker) DoWithFallbackAcceptable(req func() error, fallback func(err error) error, acceptable breaker.Acceptable) error {
	b.other++
	return req()
}

type verifCtxT struct{ context.Context }

const (
	verifOK      = 0 // go-redis answers with a value
	verifNil     = 1 // go-redis answers redis.Nil
	verifOther   = 2 // go-redis answers another error
	verifNoRedis = 3 // getRedis fails

	verifNilEither    = 0
	verifNilSwallowed = 1
	verifNilPassed    = 2
)

type verifEnv struct {
	r      *Redis
	n      *verifNode
	b      *verifBreaker
	ctx    context.Context
	plain  bool
	mode   int
	slen   int
	noBrk  bool // the method documents that it bypasses the breaker
	direct bool // the method is handed its node by the caller (no getRedis)
}

func verifNewEnv(plain bool, mode int) *verifEnv {
	e := &verifEnv{plain: plain, mode: mode, slen: verifParam("slen")}
	e.n = &verifNode{}
	e.b = &verifBreaker{}
	e.r = &Redis{Addr: "verif:6379", Type: NodeType, brk: e.b}
	if verifRealBrk {
		e.r = New("verif:6379")
		e.noBrk = true
	}
	e.ctx = &verifCtxT{context.Background()}
	verifTheNode, verifGetErr, verifGetCalls = e.n, nil, 0
	switch mode {
	case verifNil:
		e.n.err = red.Nil
	case verifOther:
		e.n.err = verifErrOther
	case verifNoRedis:
		verifGetErr = verifErrNoNode
	}
	return e
}

// str: a symbolic string of slen bytes; with "varlen" the command's key has 0..slen bytes
func (e *verifEnv) str(name string) string {
	if name == "key" && verifParam("varlen") == 1 {
		return verifString(name, e.slen)
	}
	return verifStringN(name, e.slen)
}

// seconds: a number of seconds whose nanosecond count fits time.Duration
func (e *verifEnv) seconds(name string) int {
	s := verifInt(name)
	verifAssume(s >= -(1 << 32))
	verifAssume(s <= 1<<32)
	return s
}

// score: an integer score that float64 represents exactly
func (e *verifEnv) score(name string) int64 {
	x := verifInt64(name)
	verifAssume(x >= -(1 << 53))
	verifAssume(x <= 1<<53)
	return x
}

func (e *verifEnv) flt(name string) float64 {
	f := verifFloat64(name)
	verifAssume(f == f)
	return f
}

// scripted answers (only consulted when the answer carries no error)
func (e *verifEnv) ansS() { e.n.s = verifStringN("ans", 2) }
func (e *verifEnv) ansI() { e.n.i = verifInt64("ans") }
func (e *verifEnv) ansCount() {
	e.n.i = verifInt64("ans")
	verifAssume(e.n.i >= 0)
}
func (e *verifEnv) ans01()  { e.n.i = int64(verifChoose("ans01", 2)) }
func (e *verifEnv) ansB()   { e.n.b = verifBool("ans") }
func (e *verifEnv) ansSS()  { e.n.ss = []string{verifStringN("ans0", 2), verifStringN("ans1", 1)} }
func (e *verifEnv) ansCur() { e.ansSS(); e.n.cur = verifUint64("cursor") }
func (e *verifEnv) ansZs() {
	e.n.zs = []red.Z{
		{Score: float64(e.score("zscore0")), Member: verifStringN("zmember0", 2)},
		{Score: float64(e.score("zscore1")), Member: verifStringN("zmember1", 1)},
	}
}

func verifEqStrs(a, b []string) bool {
	if len(a) != len(b) {
		return false
	}
	ok := true
	for i := range a {
		ok = verifAnd(ok, a[i] == b[i])
	}
	return ok
}

func (e *verifEnv) pairsOK(got []Pair) bool {
	if len(got) != len(e.n.zs) {
		return false
	}
	ok := true
	for i, z := range e.n.zs {
		ok = verifAnd(ok, got[i].Member == z.Member.(string))
		ok = verifAnd(ok, float64(got[i].Score) == z.Score)
	}
	return ok
}

// issued: what reached go-redis.
func (e *verifEnv) issued(cmd string, strs []string, ints []int64, flts []float64) *verifCall {
	if e.mode == verifNoRedis {
		verifAssert(len(e.n.calls) == 0, "no node: no command is issued")
		return nil
	}
	if !e.direct {
		verifAssert(verifGetCalls == 1, "the node is obtained through getRedis once")
	}
	verifAssert(len(e.n.calls) == 1, "exactly one go-redis command is issued")
	c := &e.n.calls[0]
	verifAssert(c.cmd == cmd, "the corresponding go-redis command is issued")
	if e.plain {
		verifAssert(c.ctx == verifBackground, "the plain form issues the command with context.Background()")
	} else {
		verifAssert(c.ctx == e.ctx, "the context form issues the command with the caller's context")
	}
	verifAssert(len(c.strs) == len(strs), "the command gets as many key/value arguments as the call")
	if len(c.strs) == len(strs) {
		verifAssert(verifEqStrs(c.strs, strs), "keys, fields and values are passed unchanged and in order")
	}
	verifAssert(len(c.ints) == len(ints), "the command gets as many integer arguments as the call")
	if len(c.ints) == len(ints) {
		ok := true
		for i := range ints {
			ok = verifAnd(ok, c.ints[i] == ints[i])
		}
		verifAssert(ok, "integer arguments are passed in order after the documented conversion")
	}
	verifAssert(len(c.flts) == len(flts), "the command gets as many float arguments as the call")
	if len(c.flts) == len(flts) {
		ok := true
		for i := range flts {
			ok = verifAnd(ok, c.flts[i] == flts[i])
		}
		verifAssert(ok, "float arguments are passed in order after the documented conversion")
	}
	if !e.noBrk {
		verifAssert(e.b.calls == 1 && e.b.other == 0, "the command runs under the breaker's DoWithAcceptable")
		verifAssert(e.b.accOK, "the breaker is given the predicate that accepts nil, redis.Nil and context.Canceled only")
	}
	return c
}

// outcome: what the wrapper returned. valueOK: the returned value is the
// scripted answer after the documented conversion; isZero: it is the zero value.
func (e *verifEnv) outcome(err error, valueOK, isZero bool, nilRule int) {
	switch e.mode {
	case verifOK:
		verifAssert(err == nil, "a successful command returns no error")
		verifAssert(valueOK, "the command's result is returned after the documented conversion")
		verifReach("answer")
	case verifNil:
		switch nilRule {
		case verifNilSwallowed:
			verifAssert(err == nil, "absent key: redis.Nil is swallowed")
			verifAssert(isZero, "absent key: the zero value is returned")
			verifReach("nil-swallowed")
		case verifNilPassed:
			verifAssert(err == red.Nil, "redis.Nil is passed through")
			verifReach("nil-passed")
		default:
			verifAssert(verifOr(err == red.Nil, verifAnd(err == nil, isZero)), "absent key: redis.Nil, or no error and the zero value (rule no longer used: every method is pinned to swallowed or passed)")
			verifReach("nil-either")
		}
	case verifOther:
		verifAssert(err == verifErrOther, "an error other than redis.Nil is returned unchanged")
		verifReach("error-passed")
	case verifNoRedis:
		if e.direct {
			verifAssert(err == ErrNilNode, "a nil node is reported as ErrNilNode")
		} else {
			verifAssert(err == verifErrNoNode, "an error of getRedis is returned unchanged")
		}
		verifReach("no-redis")
	}
}

func (e *verifEnv) errOnly(err error) { e.outcome(err, true, true, verifNilPassed) }

type verifMethod struct {
	name string
	run  func(e *verifEnv)
}

// one entry per wrapper method pair X / XCtx ------------------------------------

func verifMethods() []verifMethod {
	return []verifMethod{
		// ---- strings / keys
		{"Get", func(e *verifEnv) {
			k := e.str("key")
			e.ansS()
			var v string
			var err error
			if e.plain {
				v, err = e.r.Get(k)
			} else {
				v, err = e.r.GetCtx(e.ctx, k)
			}
			e.issued("Get", vS(k), nil, nil)
			e.outcome(err, v == e.n.s, v == "", verifNilSwallowed)
		}},
		{"GetSet", func(e *verifEnv) {
			k, val := e.str("key"), e.str("value")
			e.ansS()
			var v string
			var err error
			if e.plain {
				v, err = e.r.GetSet(k, val)
			} else {
				v, err = e.r.GetSetCtx(e.ctx, k, val)
			}
			e.issued("GetSet", vS(k, val), nil, nil)
			e.outcome(err, v == e.n.s, v == "", verifNilSwallowed)
		}},
		{"Set", func(e *verifEnv) {
			k, val := e.str("key"), e.str("value")
			var err error
			if e.plain {
				err = e.r.Set(k, val)
			} else {
				err = e.r.SetCtx(e.ctx, k, val)
			}
			e.issued("Set", vS(k, val), vI(0), nil)
			e.errOnly(err)
		}},
		{"SetEx", func(e *verifEnv) {
			k, val, s := e.str("key"), e.str("value"), e.seconds("seconds")
			var err error
			if e.plain {
				err = e.r.SetEx(k, val, s)
			} else {
				err = e.r.SetExCtx(e.ctx, k, val, s)
			}
			e.issued("Set", vS(k, val), vI(int64(s)*int64(time.Second)), nil)
			e.errOnly(err)
		}},
		{"SetNX", func(e *verifEnv) {
			k, val := e.str("key"), e.str("value")
			e.ansB()
			var v bool
			var err error
			if e.plain {
				v, err = e.r.SetNX(k, val)
			} else {
				v, err = e.r.SetNXCtx(e.ctx, k, val)
			}
			e.issued("SetNX", vS(k, val), vI(0), nil)
			e.outcome(err, v == e.n.b, !v, verifNilPassed)
		}},
		{"SetNXEx", func(e *verifEnv) {
			k, val, s := e.str("key"), e.str("value"), e.seconds("seconds")
			e.ansB()
			var v bool
			var err error
			if e.plain {
				v, err = e.r.SetNXEx(k, val, s)
			} else {
				v, err = e.r.SetNXExCtx(e.ctx, k, val, s)
			}
			e.issued("SetNX", vS(k, val), vI(int64(s)*int64(time.Second)), nil)
			e.outcome(err, v == e.n.b, !v, verifNilPassed)
		}},
		{"MGet", func(e *verifEnv) {
			k0, k1 := e.str("key0"), e.str("key1")
			e.n.as = []any{verifStringN("ans0", 2), nil} // second key absent
			var v []string
			var err error
			if e.plain {
				v, err = e.r.MGet(k0, k1)
			} else {
				v, err = e.r.MGetCtx(e.ctx, k0, k1)
			}
			e.issued("MGet", vS(k0, k1), nil, nil)
			e.outcome(err, len(v) == 2 && verifAnd(v[0] == e.n.as[0].(string), v[1] == ""), len(v) == 0, verifNilPassed)
		}},
		{"Incr", func(e *verifEnv) {
			k := e.str("key")
			e.ansI()
			var v int64
			var err error
			if e.plain {
				v, err = e.r.Incr(k)
			} else {
				v, err = e.r.IncrCtx(e.ctx, k)
			}
			e.issued("Incr", vS(k), nil, nil)
			e.outcome(err, v == e.n.i, v == 0, verifNilPassed)
		}},
		{"IncrBy", func(e *verifEnv) {
			k, d := e.str("key"), verifInt64("increment")
			e.ansI()
			var v int64
			var err error
			if e.plain {
				v, err = e.r.IncrBy(k, d)
			} else {
				v, err = e.r.IncrByCtx(e.ctx, k, d)
			}
			e.issued("IncrBy", vS(k), vI(d), nil)
			e.outcome(err, v == e.n.i, v == 0, verifNilPassed)
		}},
		{"Decr", func(e *verifEnv) {
			k := e.str("key")
			e.ansI()
			var v int64
			var err error
			if e.plain {
				v, err = e.r.Decr(k)
			} else {
				v, err = e.r.DecrCtx(e.ctx, k)
			}
			e.issued("Decr", vS(k), nil, nil)
			e.outcome(err, v == e.n.i, v == 0, verifNilPassed)
		}},
		{"DecrBy", func(e *verifEnv) {
			k, d := e.str("key"), verifInt64("decrement")
			e.ansI()
			var v int64
			var err error
			if e.plain {
				v, err = e.r.DecrBy(k, d)
			} else {
				v, err = e.r.DecrByCtx(e.ctx, k, d)
			}
			e.issued("DecrBy", vS(k), vI(d), nil)
			e.outcome(err, v == e.n.i, v == 0, verifNilPassed)
		}},
		{"Del", func(e *verifEnv) {
			k0, k1 := e.str("key0"), e.str("key1")
			e.ansCount()
			var v int
			var err error
			if e.plain {
				v, err = e.r.Del(k0, k1)
			} else {
				v, err = e.r.DelCtx(e.ctx, k0, k1)
			}
			e.issued("Del", vS(k0, k1), nil, nil)
			e.outcome(err, int64(v) == e.n.i, v == 0, verifNilPassed)
		}},
		{"Exists", func(e *verifEnv) {
			k := e.str("key")
			e.ans01()
			var v bool
			var err error
			if e.plain {
				v, err = e.r.Exists(k)
			} else {
				v, err = e.r.ExistsCtx(e.ctx, k)
			}
			e.issued("Exists", vS(k), nil, nil)
			e.outcome(err, v == (e.n.i == 1), !v, verifNilPassed)
		}},
		{"Expire", func(e *verifEnv) {
			k, s := e.str("key"), e.seconds("seconds")
			e.ansB()
			var err error
			if e.plain {
				err = e.r.Expire(k, s)
			} else {
				err = e.r.ExpireCtx(e.ctx, k, s)
			}
			e.issued("Expire", vS(k), vI(int64(s)*int64(time.Second)), nil)
			e.errOnly(err)
		}},
		{"ExpireAt", func(e *verifEnv) {
			k, at := e.str("key"), verifInt64("unix")
			verifAssume(at >= 0)
			verifAssume(at < 1<<40)
			e.ansB()
			var err error
			if e.plain {
				err = e.r.ExpireAt(k, at)
			} else {
				err = e.r.ExpireAtCtx(e.ctx, k, at)
			}
			e.issued("ExpireAt", vS(k), vI(at, 0), nil)
			e.errOnly(err)
		}},
		{"Persist", func(e *verifEnv) {
			k := e.str("key")
			e.ansB()
			var v bool
			var err error
			if e.plain {
				v, err = e.r.Persist(k)
			} else {
				v, err = e.r.PersistCtx(e.ctx, k)
			}
			e.issued("Persist", vS(k), nil, nil)
			e.outcome(err, v == e.n.b, !v, verifNilPassed)
		}},
		{"TTL", func(e *verifEnv) {
			// the server's answer is a whole number of seconds >= 0, which go-redis
			// hands over as seconds*time.Second (the specials -1/-2: case "TTL-special")
			k, s := e.str("key"), verifInt64("ttl")
			verifAssume(s >= 0)
			verifAssume(s <= 1<<32)
			e.n.d = time.Duration(s) * time.Second
			var v int
			var err error
			if e.plain {
				v, err = e.r.TTL(k)
			} else {
				v, err = e.r.TTLCtx(e.ctx, k)
			}
			e.issued("TTL", vS(k), nil, nil)
			e.outcome(err, int64(v) == s, v == 0, verifNilPassed)
		}},
		{"Keys", func(e *verifEnv) {
			p := e.str("pattern")
			e.ansSS()
			var v []string
			var err error
			if e.plain {
				v, err = e.r.Keys(p)
			} else {
				v, err = e.r.KeysCtx(e.ctx, p)
			}
			e.issued("Keys", vS(p), nil, nil)
			e.outcome(err, verifEqStrs(v, e.n.ss), len(v) == 0, verifNilPassed)
		}},
		{"Scan", func(e *verifEnv) {
			cur, m, cnt := verifUint64("cursor-in"), e.str("match"), verifInt64("count")
			e.ansCur()
			var v []string
			var next uint64
			var err error
			if e.plain {
				v, next, err = e.r.Scan(cur, m, cnt)
			} else {
				v, next, err = e.r.ScanCtx(e.ctx, cur, m, cnt)
			}
			e.issued("Scan", vS(m), vI(int64(cur), cnt), nil)
			e.outcome(err, verifAnd(verifEqStrs(v, e.n.ss), next == e.n.cur), len(v) == 0 && next == 0, verifNilPassed)
		}},
		// ---- bitmaps
		{"BitCount", func(e *verifEnv) {
			k, s, t := e.str("key"), verifInt64("start"), verifInt64("end")
			e.ansCount()
			var v int64
			var err error
			if e.plain {
				v, err = e.r.BitCount(k, s, t)
			} else {
				v, err = e.r.BitCountCtx(e.ctx, k, s, t)
			}
			e.issued("BitCount", vS(k), vI(s, t), nil)
			e.outcome(err, v == e.n.i, v == 0, verifNilPassed)
		}},
		{"BitOpAnd", func(e *verifEnv) {
			d, k0, k1 := e.str("dest"), e.str("key0"), e.str("key1")
			e.ansCount()
			var v int64
			var err error
			if e.plain {
				v, err = e.r.BitOpAnd(d, k0, k1)
			} else {
				v, err = e.r.BitOpAndCtx(e.ctx, d, k0, k1)
			}
			e.issued("BitOpAnd", vS(d, k0, k1), nil, nil)
			e.outcome(err, v == e.n.i, v == 0, verifNilPassed)
		}},
		{"BitOpOr", func(e *verifEnv) {
			d, k0, k1 := e.str("dest"), e.str("key0"), e.str("key1")
			e.ansCount()
			var v int64
			var err error
			if e.plain {
				v, err = e.r.BitOpOr(d, k0, k1)
			} else {
				v, err = e.r.BitOpOrCtx(e.ctx, d, k0, k1)
			}
			e.issued("BitOpOr", vS(d, k0, k1), nil, nil)
			e.outcome(err, v == e.n.i, v == 0, verifNilPassed)
		}},
		{"BitOpXor", func(e *verifEnv) {
			d, k0, k1 := e.str("dest"), e.str("key0"), e.str("key1")
			e.ansCount()
			var v int64
			var err error
			if e.plain {
				v, err = e.r.BitOpXor(d, k0, k1)
			} else {
				v, err = e.r.BitOpXorCtx(e.ctx, d, k0, k1)
			}
			e.issued("BitOpXor", vS(d, k0, k1), nil, nil)
			e.outcome(err, v == e.n.i, v == 0, verifNilPassed)
		}},
		{"BitOpNot", func(e *verifEnv) {
			d, k := e.str("dest"), e.str("key")
			e.ansCount()
			var v int64
			var err error
			if e.plain {
				v, err = e.r.BitOpNot(d, k)
			} else {
				v, err = e.r.BitOpNotCtx(e.ctx, d, k)
			}
			e.issued("BitOpNot", vS(d, k), nil, nil)
			e.outcome(err, v == e.n.i, v == 0, verifNilPassed)
		}},
		{"BitPos", func(e *verifEnv) {
			k, bit, s, t := e.str("key"), verifInt64("bit"), verifInt64("start"), verifInt64("end")
			e.ansI()
			var v int64
			var err error
			if e.plain {
				v, err = e.r.BitPos(k, bit, s, t)
			} else {
				v, err = e.r.BitPosCtx(e.ctx, k, bit, s, t)
			}
			e.issued("BitPos", vS(k), vI(bit, s, t), nil)
			e.outcome(err, v == e.n.i, v == 0, verifNilPassed)
		}},
		{"GetBit", func(e *verifEnv) {
			k, off := e.str("key"), verifInt64("offset")
			e.ans01()
			var v int
			var err error
			if e.plain {
				v, err = e.r.GetBit(k, off)
			} else {
				v, err = e.r.GetBitCtx(e.ctx, k, off)
			}
			e.issued("GetBit", vS(k), vI(off), nil)
			e.outcome(err, int64(v) == e.n.i, v == 0, verifNilPassed)
		}},
		{"SetBit", func(e *verifEnv) {
			k, off, bit := e.str("key"), verifInt64("offset"), verifInt("bit")
			e.ans01()
			var v int
			var err error
			if e.plain {
				v, err = e.r.SetBit(k, off, bit)
			} else {
				v, err = e.r.SetBitCtx(e.ctx, k, off, bit)
			}
			e.issued("SetBit", vS(k), vI(off, int64(bit)), nil)
			e.outcome(err, int64(v) == e.n.i, v == 0, verifNilPassed)
		}},
		// ---- hashes
		{"HGet", func(e *verifEnv) {
			k, f := e.str("key"), e.str("field")
			e.ansS()
			var v string
			var err error
			if e.plain {
				v, err = e.r.HGet(k, f)
			} else {
				v, err = e.r.HGetCtx(e.ctx, k, f)
			}
			e.issued("HGet", vS(k, f), nil, nil)
			e.outcome(err, v == e.n.s, v == "", verifNilPassed)
		}},
		{"HSet", func(e *verifEnv) {
			k, f, val := e.str("key"), e.str("field"), e.str("value")
			e.ans01()
			var err error
			if e.plain {
				err = e.r.HSet(k, f, val)
			} else {
				err = e.r.HSetCtx(e.ctx, k, f, val)
			}
			e.issued("HSet", vS(k, f, val), nil, nil)
			e.errOnly(err)
		}},
		{"HSetNX", func(e *verifEnv) {
			k, f, val := e.str("key"), e.str("field"), e.str("value")
			e.ansB()
			var v bool
			var err error
			if e.plain {
				v, err = e.r.HSetNX(k, f, val)
			} else {
				v, err = e.r.HSetNXCtx(e.ctx, k, f, val)
			}
			e.issued("HSetNX", vS(k, f, val), nil, nil)
			e.outcome(err, v == e.n.b, !v, verifNilPassed)
		}},
		{"HDel", func(e *verifEnv) {
			k, f0, f1 := e.str("key"), e.str("field0"), e.str("field1")
			e.n.i = int64(verifChoose("removed", 3)) // 0..2 of the two fields existed
			var v bool
			var err error
			if e.plain {
				v, err = e.r.HDel(k, f0, f1)
			} else {
				v, err = e.r.HDelCtx(e.ctx, k, f0, f1)
			}
			e.issued("HDel", vS(k, f0, f1), nil, nil)
			e.outcome(err, v == (e.n.i >= 1), !v, verifNilPassed)
		}},
		{"HExists", func(e *verifEnv) {
			k, f := e.str("key"), e.str("field")
			e.ansB()
			var v bool
			var err error
			if e.plain {
				v, err = e.r.HExists(k, f)
			} else {
				v, err = e.r.HExistsCtx(e.ctx, k, f)
			}
			e.issued("HExists", vS(k, f), nil, nil)
			e.outcome(err, v == e.n.b, !v, verifNilPassed)
		}},
		{"HGetAll", func(e *verifEnv) {
			k := e.str("key")
			e.n.m = map[string]string{"f1": verifStringN("ans1", 2), "f2": verifStringN("ans2", 1)}
			var v map[string]string
			var err error
			if e.plain {
				v, err = e.r.HGetAll(k)
			} else {
				v, err = e.r.HGetAllCtx(e.ctx, k)
			}
			e.issued("HGetAll", vS(k), nil, nil)
			e.outcome(err, len(v) == 2 && verifAnd(v["f1"] == e.n.m["f1"], v["f2"] == e.n.m["f2"]), len(v) == 0, verifNilPassed)
		}},
		{"HIncrBy", func(e *verifEnv) {
			k, f, d := e.str("key"), e.str("field"), verifInt("increment")
			e.ansI()
			var v int
			var err error
			if e.plain {
				v, err = e.r.HIncrBy(k, f, d)
			} else {
				v, err = e.r.HIncrByCtx(e.ctx, k, f, d)
			}
			e.issued("HIncrBy", vS(k, f), vI(int64(d)), nil)
			e.outcome(err, int64(v) == e.n.i, v == 0, verifNilPassed)
		}},
		{"HKeys", func(e *verifEnv) {
			k := e.str("key")
			e.ansSS()
			var v []string
			var err error
			if e.plain {
				v, err = e.r.HKeys(k)
			} else {
				v, err = e.r.HKeysCtx(e.ctx, k)
			}
			e.issued("HKeys", vS(k), nil, nil)
			e.outcome(err, verifEqStrs(v, e.n.ss), len(v) == 0, verifNilPassed)
		}},
		{"HLen", func(e *verifEnv) {
			k := e.str("key")
			e.ansCount()
			var v int
			var err error
			if e.plain {
				v, err = e.r.HLen(k)
			} else {
				v, err = e.r.HLenCtx(e.ctx, k)
			}
			e.issued("HLen", vS(k), nil, nil)
			e.outcome(err, int64(v) == e.n.i, v == 0, verifNilPassed)
		}},
		{"HMGet", func(e *verifEnv) {
			k, f0, f1 := e.str("key"), e.str("field0"), e.str("field1")
			e.n.as = []any{nil, verifStringN("ans1", 2)} // first field absent
			var v []string
			var err error
			if e.plain {
				v, err = e.r.HMGet(k, f0, f1)
			} else {
				v, err = e.r.HMGetCtx(e.ctx, k, f0, f1)
			}
			e.issued("HMGet", vS(k, f0, f1), nil, nil)
			e.outcome(err, len(v) == 2 && verifAnd(v[0] == "", v[1] == e.n.as[1].(string)), len(v) == 0, verifNilPassed)
		}},
		{"HMSet", func(e *verifEnv) {
			k, v1, v2 := e.str("key"), e.str("value1"), e.str("value2")
			e.ansB()
			fv := map[string]string{"f1": v1, "f2": v2}
			var err error
			if e.plain {
				err = e.r.HMSet(k, fv)
			} else {
				err = e.r.HMSetCtx(e.ctx, k, fv)
			}
			if c := e.issued("HMSet", vS(k), nil, nil); c != nil {
				verifAssert(len(c.kv) == 2 && verifAnd(c.kv["f1"] == v1, c.kv["f2"] == v2), "HMSet: every field goes out with its value, nothing else")
			}
			e.errOnly(err)
		}},
		{"HScan", func(e *verifEnv) {
			k, cur, m, cnt := e.str("key"), verifUint64("cursor-in"), e.str("match"), verifInt64("count")
			e.ansCur()
			var v []string
			var next uint64
			var err error
			if e.plain {
				v, next, err = e.r.HScan(k, cur, m, cnt)
			} else {
				v, next, err = e.r.HScanCtx(e.ctx, k, cur, m, cnt)
			}
			e.issued("HScan", vS(k, m), vI(int64(cur), cnt), nil)
			e.outcome(err, verifAnd(verifEqStrs(v, e.n.ss), next == e.n.cur), len(v) == 0 && next == 0, verifNilPassed)
		}},
		{"HVals", func(e *verifEnv) {
			k := e.str("key")
			e.ansSS()
			var v []string
			var err error
			if e.plain {
				v, err = e.r.HVals(k)
			} else {
				v, err = e.r.HValsCtx(e.ctx, k)
			}
			e.issued("HVals", vS(k), nil, nil)
			e.outcome(err, verifEqStrs(v, e.n.ss), len(v) == 0, verifNilPassed)
		}},
		// ---- lists
		{"LPush", func(e *verifEnv) {
			k, a, b := e.str("key"), e.str("value0"), e.str("value1")
			e.ansCount()
			var v int
			var err error
			if e.plain {
				v, err = e.r.LPush(k, a, b)
			} else {
				v, err = e.r.LPushCtx(e.ctx, k, a, b)
			}
			e.issued("LPush", vS(k, a, b), nil, nil)
			e.outcome(err, int64(v) == e.n.i, v == 0, verifNilPassed)
		}},
		{"RPush", func(e *verifEnv) {
			k, a, b := e.str("key"), e.str("value0"), e.str("value1")
			e.ansCount()
			var v int
			var err error
			if e.plain {
				v, err = e.r.RPush(k, a, b)
			} else {
				v, err = e.r.RPushCtx(e.ctx, k, a, b)
			}
			e.issued("RPush", vS(k, a, b), nil, nil)
			e.outcome(err, int64(v) == e.n.i, v == 0, verifNilPassed)
		}},
		{"LPop", func(e *verifEnv) {
			k := e.str("key")
			e.ansS()
			var v string
			var err error
			if e.plain {
				v, err = e.r.LPop(k)
			} else {
				v, err = e.r.LPopCtx(e.ctx, k)
			}
			e.issued("LPop", vS(k), nil, nil)
			e.outcome(err, v == e.n.s, v == "", verifNilPassed)
		}},
		{"RPop", func(e *verifEnv) {
			k := e.str("key")
			e.ansS()
			var v string
			var err error
			if e.plain {
				v, err = e.r.RPop(k)
			} else {
				v, err = e.r.RPopCtx(e.ctx, k)
			}
			e.issued("RPop", vS(k), nil, nil)
			e.outcome(err, v == e.n.s, v == "", verifNilPassed)
		}},
		{"LLen", func(e *verifEnv) {
			k := e.str("key")
			e.ansCount()
			var v int
			var err error
			if e.plain {
				v, err = e.r.LLen(k)
			} else {
				v, err = e.r.LLenCtx(e.ctx, k)
			}
			e.issued("LLen", vS(k), nil, nil)
			e.outcome(err, int64(v) == e.n.i, v == 0, verifNilPassed)
		}},
		{"LIndex", func(e *verifEnv) {
			k, i := e.str("key"), verifInt64("index")
			e.ansS()
			var v string
			var err error
			if e.plain {
				v, err = e.r.LIndex(k, i)
			} else {
				v, err = e.r.LIndexCtx(e.ctx, k, i)
			}
			e.issued("LIndex", vS(k), vI(i), nil)
			e.outcome(err, v == e.n.s, v == "", verifNilPassed)
		}},
		{"LRange", func(e *verifEnv) {
			k, s, t := e.str("key"), verifInt("start"), verifInt("stop")
			e.ansSS()
			var v []string
			var err error
			if e.plain {
				v, err = e.r.LRange(k, s, t)
			} else {
				v, err = e.r.LRangeCtx(e.ctx, k, s, t)
			}
			e.issued("LRange", vS(k), vI(int64(s), int64(t)), nil)
			e.outcome(err, verifEqStrs(v, e.n.ss), len(v) == 0, verifNilPassed)
		}},
		{"LRem", func(e *verifEnv) {
			k, cnt, val := e.str("key"), verifInt("count"), e.str("value")
			e.ansCount()
			var v int
			var err error
			if e.plain {
				v, err = e.r.LRem(k, cnt, val)
			} else {
				v, err = e.r.LRemCtx(e.ctx, k, cnt, val)
			}
			e.issued("LRem", vS(k, val), vI(int64(cnt)), nil)
			e.outcome(err, int64(v) == e.n.i, v == 0, verifNilPassed)
		}},
		{"LTrim", func(e *verifEnv) {
			k, s, t := e.str("key"), verifInt64("start"), verifInt64("stop")
			var err error
			if e.plain {
				err = e.r.LTrim(k, s, t)
			} else {
				err = e.r.LTrimCtx(e.ctx, k, s, t)
			}
			e.issued("LTrim", vS(k), vI(s, t), nil)
			e.errOnly(err)
		}},
		// ---- sets
		{"SAdd", func(e *verifEnv) {
			k, a, b := e.str("key"), e.str("member0"), e.str("member1")
			e.ansCount()
			var v int
			var err error
			if e.plain {
				v, err = e.r.SAdd(k, a, b)
			} else {
				v, err = e.r.SAddCtx(e.ctx, k, a, b)
			}
			e.issued("SAdd", vS(k, a, b), nil, nil)
			e.outcome(err, int64(v) == e.n.i, v == 0, verifNilPassed)
		}},
		{"SRem", func(e *verifEnv) {
			k, a, b := e.str("key"), e.str("member0"), e.str("member1")
			e.ansCount()
			var v int
			var err error
			if e.plain {
				v, err = e.r.SRem(k, a, b)
			} else {
				v, err = e.r.SRemCtx(e.ctx, k, a, b)
			}
			e.issued("SRem", vS(k, a, b), nil, nil)
			e.outcome(err, int64(v) == e.n.i, v == 0, verifNilPassed)
		}},
		{"SIsMember", func(e *verifEnv) {
			k, m := e.str("key"), e.str("member")
			e.ansB()
			var v bool
			var err error
			if e.plain {
				v, err = e.r.SIsMember(k, m)
			} else {
				v, err = e.r.SIsMemberCtx(e.ctx, k, m)
			}
			e.issued("SIsMember", vS(k, m), nil, nil)
			e.outcome(err, v == e.n.b, !v, verifNilPassed)
		}},
		{"SMembers", func(e *verifEnv) {
			k := e.str("key")
			e.ansSS()
			var v []string
			var err error
			if e.plain {
				v, err = e.r.SMembers(k)
			} else {
				v, err = e.r.SMembersCtx(e.ctx, k)
			}
			e.issued("SMembers", vS(k), nil, nil)
			e.outcome(err, verifEqStrs(v, e.n.ss), len(v) == 0, verifNilPassed)
		}},
		{"SCard", func(e *verifEnv) {
			k := e.str("key")
			e.ansCount()
			var v int64
			var err error
			if e.plain {
				v, err = e.r.SCard(k)
			} else {
				v, err = e.r.SCardCtx(e.ctx, k)
			}
			e.issued("SCard", vS(k), nil, nil)
			e.outcome(err, v == e.n.i, v == 0, verifNilPassed)
		}},
		{"SPop", func(e *verifEnv) {
			k := e.str("key")
			e.ansS()
			var v string
			var err error
			if e.plain {
				v, err = e.r.SPop(k)
			} else {
				v, err = e.r.SPopCtx(e.ctx, k)
			}
			e.issued("SPop", vS(k), nil, nil)
			e.outcome(err, v == e.n.s, v == "", verifNilPassed)
		}},
		{"SRandMember", func(e *verifEnv) {
			k, cnt := e.str("key"), verifInt("count")
			e.ansSS()
			var v []string
			var err error
			if e.plain {
				v, err = e.r.SRandMember(k, cnt)
			} else {
				v, err = e.r.SRandMemberCtx(e.ctx, k, cnt)
			}
			e.issued("SRandMemberN", vS(k), vI(int64(cnt)), nil)
			e.outcome(err, verifEqStrs(v, e.n.ss), len(v) == 0, verifNilPassed)
		}},
		{"SScan", func(e *verifEnv) {
			k, cur, m, cnt := e.str("key"), verifUint64("cursor-in"), e.str("match"), verifInt64("count")
			e.ansCur()
			var v []string
			var next uint64
			var err error
			if e.plain {
				v, next, err = e.r.SScan(k, cur, m, cnt)
			} else {
				v, next, err = e.r.SScanCtx(e.ctx, k, cur, m, cnt)
			}
			e.issued("SScan", vS(k, m), vI(int64(cur), cnt), nil)
			e.outcome(err, verifAnd(verifEqStrs(v, e.n.ss), next == e.n.cur), len(v) == 0 && next == 0, verifNilPassed)
		}},
		{"SUnion", func(e *verifEnv) {
			k0, k1 := e.str("key0"), e.str("key1")
			e.ansSS()
			var v []string
			var err error
			if e.plain {
				v, err = e.r.SUnion(k0, k1)
			} else {
				v, err = e.r.SUnionCtx(e.ctx, k0, k1)
			}
			e.issued("SUnion", vS(k0, k1), nil, nil)
			e.outcome(err, verifEqStrs(v, e.n.ss), len(v) == 0, verifNilPassed)
		}},
		{"SUnionStore", func(e *verifEnv) {
			d, k0, k1 := e.str("dest"), e.str("key0"), e.str("key1")
			e.ansCount()
			var v int
			var err error
			if e.plain {
				v, err = e.r.SUnionStore(d, k0, k1)
			} else {
				v, err = e.r.SUnionStoreCtx(e.ctx, d, k0, k1)
			}
			e.issued("SUnionStore", vS(d, k0, k1), nil, nil)
			e.outcome(err, int64(v) == e.n.i, v == 0, verifNilPassed)
		}},
		{"SDiff", func(e *verifEnv) {
			k0, k1 := e.str("key0"), e.str("key1")
			e.ansSS()
			var v []string
			var err error
			if e.plain {
				v, err = e.r.SDiff(k0, k1)
			} else {
				v, err = e.r.SDiffCtx(e.ctx, k0, k1)
			}
			e.issued("SDiff", vS(k0, k1), nil, nil)
			e.outcome(err, verifEqStrs(v, e.n.ss), len(v) == 0, verifNilPassed)
		}},
		{"SDiffStore", func(e *verifEnv) {
			d, k0, k1 := e.str("dest"), e.str("key0"), e.str("key1")
			e.ansCount()
			var v int
			var err error
			if e.plain {
				v, err = e.r.SDiffStore(d, k0, k1)
			} else {
				v, err = e.r.SDiffStoreCtx(e.ctx, d, k0, k1)
			}
			e.issued("SDiffStore", vS(d, k0, k1), nil, nil)
			e.outcome(err, int64(v) == e.n.i, v == 0, verifNilPassed)
		}},
		{"SInter", func(e *verifEnv) {
			k0, k1 := e.str("key0"), e.str("key1")
			e.ansSS()
			var v []string
			var err error
			if e.plain {
				v, err = e.r.SInter(k0, k1)
			} else {
				v, err = e.r.SInterCtx(e.ctx, k0, k1)
			}
			e.issued("SInter", vS(k0, k1), nil, nil)
			e.outcome(err, verifEqStrs(v, e.n.ss), len(v) == 0, verifNilPassed)
		}},
		{"SInterStore", func(e *verifEnv) {
			d, k0, k1 := e.str("dest"), e.str("key0"), e.str("key1")
			e.ansCount()
			var v int
			var err error
			if e.plain {
				v, err = e.r.SInterStore(d, k0, k1)
			} else {
				v, err = e.r.SInterStoreCtx(e.ctx, d, k0, k1)
			}
			e.issued("SInterStore", vS(d, k0, k1), nil, nil)
			e.outcome(err, int64(v) == e.n.i, v == 0, verifNilPassed)
		}},
		// ---- hyperloglog
		{"PFAdd", func(e *verifEnv) {
			k, a, b := e.str("key"), e.str("value0"), e.str("value1")
			e.ans01()
			var v bool
			var err error
			if e.plain {
				v, err = e.r.PFAdd(k, a, b)
			} else {
				v, err = e.r.PFAddCtx(e.ctx, k, a, b)
			}
			e.issued("PFAdd", vS(k, a, b), nil, nil)
			e.outcome(err, v == (e.n.i == 1), !v, verifNilPassed)
		}},
		{"PFCount", func(e *verifEnv) {
			k := e.str("key")
			e.ansCount()
			var v int64
			var err error
			if e.plain {
				v, err = e.r.PFCount(k)
			} else {
				v, err = e.r.PFCountCtx(e.ctx, k)
			}
			e.issued("PFCount", vS(k), nil, nil)
			e.outcome(err, v == e.n.i, v == 0, verifNilPassed)
		}},
		{"PFMerge", func(e *verifEnv) {
			d, k0, k1 := e.str("dest"), e.str("key0"), e.str("key1")
			var err error
			if e.plain {
				err = e.r.PFMerge(d, k0, k1)
			} else {
				err = e.r.PFMergeCtx(e.ctx, d, k0, k1)
			}
			e.issued("PFMerge", vS(d, k0, k1), nil, nil)
			e.errOnly(err)
		}},
		// ---- sorted sets
		{"ZAdd", func(e *verifEnv) {
			k, sc, m := e.str("key"), e.score("score"), e.str("member")
			e.ans01()
			var v bool
			var err error
			if e.plain {
				v, err = e.r.ZAdd(k, sc, m)
			} else {
				v, err = e.r.ZAddCtx(e.ctx, k, sc, m)
			}
			e.issued("ZAdd", vS(k, m), nil, vF(float64(sc)))
			e.outcome(err, v == (e.n.i == 1), !v, verifNilPassed)
		}},
		{"ZAddFloat", func(e *verifEnv) {
			k, sc, m := e.str("key"), e.flt("score"), e.str("member")
			e.ans01()
			var v bool
			var err error
			if e.plain {
				v, err = e.r.ZAddFloat(k, sc, m)
			} else {
				v, err = e.r.ZAddFloatCtx(e.ctx, k, sc, m)
			}
			e.issued("ZAdd", vS(k, m), nil, vF(sc))
			e.outcome(err, v == (e.n.i == 1), !v, verifNilPassed)
		}},
		{"ZAdds", func(e *verifEnv) {
			k := e.str("key")
			p0 := Pair{Member: e.str("member0"), Score: e.score("score0")}
			p1 := Pair{Member: e.str("member1"), Score: e.score("score1")}
			e.ansCount()
			var v int64
			var err error
			if e.plain {
				v, err = e.r.ZAdds(k, p0, p1)
			} else {
				v, err = e.r.ZAddsCtx(e.ctx, k, p0, p1)
			}
			e.issued("ZAdd", vS(k, p0.Member, p1.Member), nil, vF(float64(p0.Score), float64(p1.Score)))
			e.outcome(err, v == e.n.i, v == 0, verifNilPassed)
		}},
		{"ZCard", func(e *verifEnv) {
			k := e.str("key")
			e.ansCount()
			var v int
			var err error
			if e.plain {
				v, err = e.r.ZCard(k)
			} else {
				v, err = e.r.ZCardCtx(e.ctx, k)
			}
			e.issued("ZCard", vS(k), nil, nil)
			e.outcome(err, int64(v) == e.n.i, v == 0, verifNilPassed)
		}},
		{"ZCount", func(e *verifEnv) {
			k, s, t := e.str("key"), verifInt64("start"), verifInt64("stop")
			e.ansCount()
			var v int
			var err error
			if e.plain {
				v, err = e.r.ZCount(k, s, t)
			} else {
				v, err = e.r.ZCountCtx(e.ctx, k, s, t)
			}
			e.issued("ZCount", vS(k), vI(s, t), nil)
			e.outcome(err, int64(v) == e.n.i, v == 0, verifNilPassed)
		}},
		{"ZIncrBy", func(e *verifEnv) {
			k, d, m := e.str("key"), e.score("increment"), e.str("member")
			x := e.score("ans")
			e.n.f = float64(x)
			var v int64
			var err error
			if e.plain {
				v, err = e.r.ZIncrBy(k, d, m)
			} else {
				v, err = e.r.ZIncrByCtx(e.ctx, k, d, m)
			}
			e.issued("ZIncrBy", vS(k, m), nil, vF(float64(d)))
			e.outcome(err, v == x, v == 0, verifNilPassed)
		}},
		{"ZScore", func(e *verifEnv) {
			k, m := e.str("key"), e.str("member")
			x := e.score("ans")
			e.n.f = float64(x)
			var v int64
			var err error
			if e.plain {
				v, err = e.r.ZScore(k, m)
			} else {
				v, err = e.r.ZScoreCtx(e.ctx, k, m)
			}
			e.issued("ZScore", vS(k, m), nil, nil)
			e.outcome(err, v == x, v == 0, verifNilPassed)
		}},
		{"ZRank", func(e *verifEnv) {
			k, m := e.str("key"), e.str("member")
			e.ansCount()
			var v int64
			var err error
			if e.plain {
				v, err = e.r.ZRank(k, m)
			} else {
				v, err = e.r.ZRankCtx(e.ctx, k, m)
			}
			e.issued("ZRank", vS(k, m), nil, nil)
			e.outcome(err, v == e.n.i, v == 0, verifNilPassed)
		}},
		{"ZRevRank", func(e *verifEnv) {
			k, m := e.str("key"), e.str("member")
			e.ansCount()
			var v int64
			var err error
			if e.plain {
				v, err = e.r.ZRevRank(k, m)
			} else {
				v, err = e.r.ZRevRankCtx(e.ctx, k, m)
			}
			e.issued("ZRevRank", vS(k, m), nil, nil)
			e.outcome(err, v == e.n.i, v == 0, verifNilPassed)
		}},
		{"ZRem", func(e *verifEnv) {
			k, a, b := e.str("key"), e.str("member0"), e.str("member1")
			e.ansCount()
			var v int
			var err error
			if e.plain {
				v, err = e.r.ZRem(k, a, b)
			} else {
				v, err = e.r.ZRemCtx(e.ctx, k, a, b)
			}
			e.issued("ZRem", vS(k, a, b), nil, nil)
			e.outcome(err, int64(v) == e.n.i, v == 0, verifNilPassed)
		}},
		{"ZRemRangeByScore", func(e *verifEnv) {
			k, s, t := e.str("key"), verifInt64("start"), verifInt64("stop")
			e.ansCount()
			var v int
			var err error
			if e.plain {
				v, err = e.r.ZRemRangeByScore(k, s, t)
			} else {
				v, err = e.r.ZRemRangeByScoreCtx(e.ctx, k, s, t)
			}
			e.issued("ZRemRangeByScore", vS(k), vI(s, t), nil)
			e.outcome(err, int64(v) == e.n.i, v == 0, verifNilPassed)
		}},
		{"ZRemRangeByRank", func(e *verifEnv) {
			k, s, t := e.str("key"), verifInt64("start"), verifInt64("stop")
			e.ansCount()
			var v int
			var err error
			if e.plain {
				v, err = e.r.ZRemRangeByRank(k, s, t)
			} else {
				v, err = e.r.ZRemRangeByRankCtx(e.ctx, k, s, t)
			}
			e.issued("ZRemRangeByRank", vS(k), vI(s, t), nil)
			e.outcome(err, int64(v) == e.n.i, v == 0, verifNilPassed)
		}},
		{"ZRange", func(e *verifEnv) {
			k, s, t := e.str("key"), verifInt64("start"), verifInt64("stop")
			e.ansSS()
			var v []string
			var err error
			if e.plain {
				v, err = e.r.ZRange(k, s, t)
			} else {
				v, err = e.r.ZRangeCtx(e.ctx, k, s, t)
			}
			e.issued("ZRange", vS(k), vI(s, t), nil)
			e.outcome(err, verifEqStrs(v, e.n.ss), len(v) == 0, verifNilPassed)
		}},
		{"ZRevRange", func(e *verifEnv) {
			k, s, t := e.str("key"), verifInt64("start"), verifInt64("stop")
			e.ansSS()
			var v []string
			var err error
			if e.plain {
				v, err = e.r.ZRevRange(k, s, t)
			} else {
				v, err = e.r.ZRevRangeCtx(e.ctx, k, s, t)
			}
			e.issued("ZRevRange", vS(k), vI(s, t), nil)
			e.outcome(err, verifEqStrs(v, e.n.ss), len(v) == 0, verifNilPassed)
		}},
		{"ZRangeWithScores", func(e *verifEnv) {
			k, s, t := e.str("key"), verifInt64("start"), verifInt64("stop")
			e.ansZs()
			var v []Pair
			var err error
			if e.plain {
				v, err = e.r.ZRangeWithScores(k, s, t)
			} else {
				v, err = e.r.ZRangeWithScoresCtx(e.ctx, k, s, t)
			}
			e.issued("ZRangeWithScores", vS(k), vI(s, t), nil)
			e.outcome(err, e.pairsOK(v), len(v) == 0, verifNilPassed)
		}},
		{"ZRevRangeWithScores", func(e *verifEnv) {
			k, s, t := e.str("key"), verifInt64("start"), verifInt64("stop")
			e.ansZs()
			var v []Pair
			var err error
			if e.plain {
				v, err = e.r.ZRevRangeWithScores(k, s, t)
			} else {
				v, err = e.r.ZRevRangeWithScoresCtx(e.ctx, k, s, t)
			}
			e.issued("ZRevRangeWithScores", vS(k), vI(s, t), nil)
			e.outcome(err, e.pairsOK(v), len(v) == 0, verifNilPassed)
		}},
		{"ZRangeByScoreWithScores", func(e *verifEnv) {
			k, s, t := e.str("key"), verifInt64("start"), verifInt64("stop")
			e.ansZs()
			var v []Pair
			var err error
			if e.plain {
				v, err = e.r.ZRangeByScoreWithScores(k, s, t)
			} else {
				v, err = e.r.ZRangeByScoreWithScoresCtx(e.ctx, k, s, t)
			}
			e.issued("ZRangeByScoreWithScores", vS(k), vI(s, t, 0, 0), nil)
			e.outcome(err, e.pairsOK(v), len(v) == 0, verifNilPassed)
		}},
		{"ZRevRangeByScoreWithScores", func(e *verifEnv) {
			k, s, t := e.str("key"), verifInt64("start"), verifInt64("stop")
			e.ansZs()
			var v []Pair
			var err error
			if e.plain {
				v, err = e.r.ZRevRangeByScoreWithScores(k, s, t)
			} else {
				v, err = e.r.ZRevRangeByScoreWithScoresCtx(e.ctx, k, s, t)
			}
			e.issued("ZRevRangeByScoreWithScores", vS(k), vI(s, t, 0, 0), nil)
			e.outcome(err, e.pairsOK(v), len(v) == 0, verifNilPassed)
		}},
		{"ZRangeByScoreWithScoresAndLimit", func(e *verifEnv) {
			k, s, t := e.str("key"), verifInt64("start"), verifInt64("stop")
			page, size := verifInt("page"), verifInt("size")
			verifAssume(page >= 0)
			verifAssume(page < 1<<20)
			verifAssume(size > 0)
			verifAssume(size < 1<<20)
			e.ansZs()
			var v []Pair
			var err error
			if e.plain {
				v, err = e.r.ZRangeByScoreWithScoresAndLimit(k, s, t, page, size)
			} else {
				v, err = e.r.ZRangeByScoreWithScoresAndLimitCtx(e.ctx, k, s, t, page, size)
			}
			e.issued("ZRangeByScoreWithScores", vS(k), vI(s, t, int64(page)*int64(size), int64(size)), nil)
			e.outcome(err, e.pairsOK(v), len(v) == 0, verifNilPassed)
		}},
		{"ZRevRangeByScoreWithScoresAndLimit", func(e *verifEnv) {
			k, s, t := e.str("key"), verifInt64("start"), verifInt64("stop")
			page, size := verifInt("page"), verifInt("size")
			verifAssume(page >= 0)
			verifAssume(page < 1<<20)
			verifAssume(size > 0)
			verifAssume(size < 1<<20)
			e.ansZs()
			var v []Pair
			var err error
			if e.plain {
				v, err = e.r.ZRevRangeByScoreWithScoresAndLimit(k, s, t, page, size)
			} else {
				v, err = e.r.ZRevRangeByScoreWithScoresAndLimitCtx(e.ctx, k, s, t, page, size)
			}
			e.issued("ZRevRangeByScoreWithScores", vS(k), vI(s, t, int64(page)*int64(size), int64(size)), nil)
			e.outcome(err, e.pairsOK(v), len(v) == 0, verifNilPassed)
		}},
		{"ZUnionStore", func(e *verifEnv) {
			d := e.str("dest")
			st := &ZStore{Keys: []string{e.str("key0"), e.str("key1")}, Weights: []float64{1, 2}, Aggregate: "SUM"}
			e.ansCount()
			var v int64
			var err error
			if e.plain {
				v, err = e.r.ZUnionStore(d, st)
			} else {
				v, err = e.r.ZUnionStoreCtx(e.ctx, d, st)
			}
			if c := e.issued("ZUnionStore", vS(d), nil, nil); c != nil {
				verifAssert(len(c.objs) == 1 && c.objs[0] == any(st), "ZUnionStore: the caller's store description is handed over")
			}
			e.outcome(err, v == e.n.i, v == 0, verifNilPassed)
		}},
		// ---- geo
		{"GeoAdd", func(e *verifEnv) {
			k := e.str("key")
			g0 := &GeoLocation{Name: e.str("name0"), Longitude: 1.5, Latitude: 2.5}
			g1 := &GeoLocation{Name: e.str("name1"), Longitude: 3.5, Latitude: 4.5}
			e.ansCount()
			var v int64
			var err error
			if e.plain {
				v, err = e.r.GeoAdd(k, g0, g1)
			} else {
				v, err = e.r.GeoAddCtx(e.ctx, k, g0, g1)
			}
			if c := e.issued("GeoAdd", vS(k), nil, nil); c != nil {
				verifAssert(len(c.objs) == 2 && c.objs[0] == any(g0) && c.objs[1] == any(g1), "GeoAdd: the caller's locations are handed over in order")
			}
			e.outcome(err, v == e.n.i, v == 0, verifNilPassed)
		}},
		{"GeoDist", func(e *verifEnv) {
			k, m1, m2, u := e.str("key"), e.str("member1"), e.str("member2"), e.str("unit")
			e.n.f = e.flt("ans")
			var v float64
			var err error
			if e.plain {
				v, err = e.r.GeoDist(k, m1, m2, u)
			} else {
				v, err = e.r.GeoDistCtx(e.ctx, k, m1, m2, u)
			}
			e.issued("GeoDist", vS(k, m1, m2, u), nil, nil)
			e.outcome(err, v == e.n.f, v == 0, verifNilPassed)
		}},
		{"GeoHash", func(e *verifEnv) {
			k, m1, m2 := e.str("key"), e.str("member1"), e.str("member2")
			e.ansSS()
			var v []string
			var err error
			if e.plain {
				v, err = e.r.GeoHash(k, m1, m2)
			} else {
				v, err = e.r.GeoHashCtx(e.ctx, k, m1, m2)
			}
			e.issued("GeoHash", vS(k, m1, m2), nil, nil)
			e.outcome(err, verifEqStrs(v, e.n.ss), len(v) == 0, verifNilPassed)
		}},
		{"GeoPos", func(e *verifEnv) {
			k, m1, m2 := e.str("key"), e.str("member1"), e.str("member2")
			e.n.gp = []*GeoPos{{Longitude: 1.5, Latitude: 2.5}, nil}
			var v []*GeoPos
			var err error
			if e.plain {
				v, err = e.r.GeoPos(k, m1, m2)
			} else {
				v, err = e.r.GeoPosCtx(e.ctx, k, m1, m2)
			}
			e.issued("GeoPos", vS(k, m1, m2), nil, nil)
			e.outcome(err, len(v) == 2 && v[0] == e.n.gp[0] && v[1] == nil, len(v) == 0, verifNilPassed)
		}},
		{"GeoRadius", func(e *verifEnv) {
			k, lon, lat := e.str("key"), e.flt("longitude"), e.flt("latitude")
			q := &GeoRadiusQuery{Radius: 10, Unit: "km"}
			e.n.gl = []GeoLocation{{Name: verifStringN("ans", 2), Dist: 3.5}}
			var v []GeoLocation
			var err error
			if e.plain {
				v, err = e.r.GeoRadius(k, lon, lat, q)
			} else {
				v, err = e.r.GeoRadiusCtx(e.ctx, k, lon, lat, q)
			}
			if c := e.issued("GeoRadius", vS(k), nil, vF(lon, lat)); c != nil {
				verifAssert(len(c.objs) == 1 && c.objs[0] == any(q), "GeoRadius: the caller's query is handed over")
			}
			e.outcome(err, len(v) == 1 && v[0].Name == e.n.gl[0].Name && v[0].Dist == 3.5, len(v) == 0, verifNilPassed)
		}},
		{"GeoRadiusByMember", func(e *verifEnv) {
			k, m := e.str("key"), e.str("member")
			q := &GeoRadiusQuery{Radius: 10, Unit: "km"}
			e.n.gl = []GeoLocation{{Name: verifStringN("ans", 2), Dist: 3.5}}
			var v []GeoLocation
			var err error
			if e.plain {
				v, err = e.r.GeoRadiusByMember(k, m, q)
			} else {
				v, err = e.r.GeoRadiusByMemberCtx(e.ctx, k, m, q)
			}
			if c := e.issued("GeoRadiusByMember", vS(k, m), nil, nil); c != nil {
				verifAssert(len(c.objs) == 1 && c.objs[0] == any(q), "GeoRadiusByMember: the caller's query is handed over")
			}
			e.outcome(err, len(v) == 1 && v[0].Name == e.n.gl[0].Name && v[0].Dist == 3.5, len(v) == 0, verifNilPassed)
		}},
		// ---- scripts
		{"Eval", func(e *verifEnv) {
			sc, k0, k1, a0, a1 := e.str("script"), e.str("key0"), e.str("key1"), e.str("arg0"), e.str("arg1")
			e.ansI()
			e.n.v = e.n.i
			var v any
			var err error
			if e.plain {
				v, err = e.r.Eval(sc, []string{k0, k1}, a0, a1)
			} else {
				v, err = e.r.EvalCtx(e.ctx, sc, []string{k0, k1}, a0, a1)
			}
			e.issued("Eval", vS(sc, k0, k1, a0, a1), vI(2), nil)
			x, isInt := v.(int64)
			e.outcome(err, isInt && x == e.n.i, v == nil, verifNilPassed)
		}},
		{"EvalSha", func(e *verifEnv) {
			sc, k0, k1, a0, a1 := e.str("sha"), e.str("key0"), e.str("key1"), e.str("arg0"), e.str("arg1")
			e.ansI()
			e.n.v = e.n.i
			var v any
			var err error
			if e.plain {
				v, err = e.r.EvalSha(sc, []string{k0, k1}, a0, a1)
			} else {
				v, err = e.r.EvalShaCtx(e.ctx, sc, []string{k0, k1}, a0, a1)
			}
			e.issued("EvalSha", vS(sc, k0, k1, a0, a1), vI(2), nil)
			x, isInt := v.(int64)
			e.outcome(err, isInt && x == e.n.i, v == nil, verifNilPassed)
		}},
		{"ScriptLoad", func(e *verifEnv) {
			sc := e.str("script")
			e.ansS()
			e.noBrk = true // issued outside the breaker (nothing is documented either way)
			var v string
			var err error
			if e.plain {
				v, err = e.r.ScriptLoad(sc)
			} else {
				v, err = e.r.ScriptLoadCtx(e.ctx, sc)
			}
			e.issued("ScriptLoad", vS(sc), nil, nil)
			e.outcome(err, v == e.n.s, v == "", verifNilPassed)
		}},
		// ---- blocking pops: the caller hands over the node; documented to bypass the breaker
		{"BLPop", func(e *verifEnv) {
			k := e.str("key")
			e.n.ss = []string{k, verifStringN("ans", 2)} // BLPOP answers [key, element]
			e.noBrk, e.direct = true, true
			var node Node
			if e.mode != verifNoRedis {
				node = e.n
			}
			var v string
			var err error
			if e.plain {
				v, err = e.r.BLPop(node, k)
			} else {
				v, err = e.r.BLPopCtx(e.ctx, node, k)
			}
			e.issued("BLPop", vS(k), vI(int64(blockingQueryTimeout)), nil)
			e.outcome(err, v == e.n.ss[1], v == "", verifNilPassed)
		}},
		{"BLPopEx", func(e *verifEnv) {
			k := e.str("key")
			e.n.ss = []string{k, verifStringN("ans", 2)}
			e.noBrk, e.direct = true, true
			var node Node
			if e.mode != verifNoRedis {
				node = e.n
			}
			var v string
			var ok bool
			var err error
			if e.plain {
				v, ok, err = e.r.BLPopEx(node, k)
			} else {
				v, ok, err = e.r.BLPopExCtx(e.ctx, node, k)
			}
			e.issued("BLPop", vS(k), vI(int64(blockingQueryTimeout)), nil)
			e.outcome(err, verifAnd(ok, v == e.n.ss[1]), verifAnd(!ok, v == ""), verifNilPassed)
		}},
		{"BLPopWithTimeout", func(e *verifEnv) {
			k, d := e.str("key"), time.Duration(verifInt64("timeout"))
			e.n.ss = []string{k, verifStringN("ans", 2)}
			e.noBrk, e.direct = true, true
			var node Node
			if e.mode != verifNoRedis {
				node = e.n
			}
			var v string
			var err error
			if e.plain {
				v, err = e.r.BLPopWithTimeout(node, d, k)
			} else {
				v, err = e.r.BLPopWithTimeoutCtx(e.ctx, node, d, k)
			}
			e.issued("BLPop", vS(k), vI(int64(d)), nil)
			e.outcome(err, v == e.n.ss[1], v == "", verifNilPassed)
		}},
		// ---- pipeline
		{"Pipelined", func(e *verifEnv) {
			runs := 0
			var fnErr error
			if verifChoose("fn-fails", 2) == 1 {
				fnErr = verifErrFn
			}
			fn := func(p Pipeliner) error { runs++; return fnErr }
			var err error
			if e.plain {
				err = e.r.Pipelined(fn)
			} else {
				err = e.r.PipelinedCtx(e.ctx, fn)
			}
			e.issued("Pipelined", nil, nil, nil)
			if e.mode != verifNoRedis {
				verifAssert(runs == 1, "Pipelined: the caller's function is handed to go-redis (it runs once)")
			}
			if fnErr != nil && e.mode != verifNoRedis {
				verifAssert(err == fnErr, "Pipelined: the function's error is returned unchanged")
				verifReach("pipeline-fn-error")
			} else {
				e.errOnly(err)
			}
		}},
		// ---- connection
		{"Ping", func(e *verifEnv) {
			// "errors are ignored: an error means the server is not up"
			if verifChoose("pong", 2) == 0 {
				e.n.s = "PONG"
			} else {
				e.n.s = verifStringN("ans", 4)
			}
			var v bool
			if e.plain {
				v = e.r.Ping()
			} else {
				v = e.r.PingCtx(e.ctx)
			}
			e.issued("Ping", nil, nil, nil)
			if e.mode == verifOK {
				verifAssert(v == (e.n.s == "PONG"), "Ping: true exactly for the answer PONG")
				verifReach("answer")
			} else {
				verifAssert(!v, "Ping: any error means the server is not up")
				verifReach("ping-error")
			}
		}},
	}
}

func Verif_C12_wrapper() {
	ms := verifMethods()
	groups := verifParam("groups")
	per := (len(ms) + groups - 1) / groups
	idx := verifCase(groups)*per + verifChoose("method", per)
	if idx >= len(ms) {
		return
	}
	plain := verifChoose("form", 2) == 0
	mode := verifChoose("answer", 4)
	e := verifNewEnv(plain, mode)
	ms[idx].run(e)
	if plain {
		verifReach("plain-form")
	} else {
		verifReach("context-form")
	}
	if mode == verifOK {
		verifReach("m:" + ms[idx].name)
	}
}
