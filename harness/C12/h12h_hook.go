package redis

// H12h: the go-redis hook the wrapper installs (durationHook, type hook) is
// transparent. go-redis runs the hooks around every command and every pipeline
// (hooks.process / hooks.processPipeline): a non-nil error returned by a Before*
// method suppresses the command(s) and is stamped onto them, and a non-nil error
// returned by AfterProcess / AfterProcessPipeline REPLACES the result: it becomes
// the error of the call and setCmdsErr writes it onto every command of the batch
// whose own error was nil. So "same result as the corresponding go-redis command"
// (and "redis.Nil never trips the breaker": a pipeline whose GET answered
// redis.Nil must not turn into a failed Pipelined call) holds only if every hook
// method returns a nil error whatever the commands' outcomes are, leaves the
// commands' own errors alone, and hands the start time from Before* to After*
// through the context it returns.
//
// The real hook methods are called directly, in go-redis's order, with commands
// built by go-redis's own result constructors whose errors are chosen
// symbolically from {nil, redis.Nil, a connection error}.

import (
	"context"
	"errors"
	"time"

	red "github.com/go-redis/redis/v8"
)

//verif:stub github.com/gotid/god/lib/timex.Now => verifHookNow
//verif:stub github.com/gotid/god/lib/timex.Since => verifHookSince
//verif:stub (github.com/gotid/god/lib/store/redis.hook).startSpan => verifStartSpan
//verif:stub (github.com/gotid/god/lib/store/redis.hook).endSpan => verifEndSpan
//verif:stub github.com/gotid/god/lib/store/redis.logDuration => verifLogDuration

type verifSpanKey struct{}

var (
	verifHookErr     = errors.New("verif: connection reset by peer")
	verifHookStart   time.Duration
	verifHookElapsed time.Duration
	verifSpansOpen   int
	verifSpansEnded  int
	verifSlowLogged  int
)

// the clock: Now is the instant the harness drew, Since an elapsed time the
// harness drew (so both sides of the slow-call threshold are taken)
func verifHookNow() time.Duration                  { return verifHookStart }
func verifHookSince(d time.Duration) time.Duration { return verifHookElapsed }

// tracing: OpenTelemetry is outside. Like the real startSpan the stand-in
// returns a context DERIVED from the one it is given (the span lives in it).
func verifStartSpan(h hook, ctx context.Context, cmds ...red.Cmder) context.Context {
	verifSpansOpen++
	return context.WithValue(ctx, verifSpanKey{}, len(cmds))
}

func verifEndSpan(h hook, ctx context.Context, err error) { verifSpansEnded++ }

func verifLogDuration(ctx context.Context, cmds []red.Cmder, duration time.Duration) {
	verifSlowLogged++
}

func verifHookErrChoice(name string) error {
	switch verifChoose(name, 3) {
	case 1:
		return red.Nil
	case 2:
		return verifHookErr
	}
	return nil
}

// verifHookCmd builds the i-th command of a batch: three different result kinds.
func verifHookCmd(i int, err error) red.Cmder {
	switch i % 3 {
	case 0:
		if err != nil {
			return red.NewStringResult("", err)
		}
		return red.NewStringResult("value", nil)
	case 1:
		if err != nil {
			return red.NewCmdResult(nil, err)
		}
		return red.NewCmdResult(int64(1), nil)
	}
	if err != nil {
		return red.NewStatusResult("", err)
	}
	return red.NewStatusResult("OK", nil)
}

func Verif_C12_hook() {
	verifSpansOpen, verifSpansEnded, verifSlowLogged = 0, 0, 0
	start := verifInt64("start")
	verifAssume(start >= 0)
	verifAssume(start <= 1<<40)
	elapsed := verifInt64("elapsed")
	verifAssume(elapsed >= 0)
	verifAssume(elapsed <= 1<<40)
	verifHookStart, verifHookElapsed = time.Duration(start), time.Duration(elapsed)

	h := durationHook
	parent := context.Background()
	// go-redis calls After* with the context Before* returned; a hook may also see
	// an After* without start time in the context (e.g. a context replaced by an
	// inner hook): it must return nil then as well
	withBefore := verifChoose("with-before", 2) == 1

	if verifCase(2) == 0 {
		// ---- single command ----
		err := verifHookErrChoice("err")
		cmd := verifHookCmd(verifChoose("kind", 3), err)
		ctx := parent
		if withBefore {
			ctx2, berr := h.BeforeProcess(parent, cmd)
			verifAssert(berr == nil, "BeforeProcess returns a nil error (anything else would suppress the command)")
			verifAssert(ctx2 != nil, "BeforeProcess returns a context")
			if ctx2 == nil {
				return
			}
			v := ctx2.Value(startTimeKey)
			verifAssert(v != nil, "the context returned by BeforeProcess carries the start time")
			d, ok := v.(time.Duration)
			verifAssert(ok && d == verifHookStart, "the start time in the context is the clock reading taken by BeforeProcess")
			verifAssert(cmd.Err() == err, "BeforeProcess leaves the command's error alone")
			ctx = ctx2
		}
		aerr := h.AfterProcess(ctx, cmd)
		verifAssert(aerr == nil, "AfterProcess returns a nil error whatever the command's outcome (anything else would replace the command's result)")
		verifAssert(cmd.Err() == err, "AfterProcess leaves the command's error alone")
		if withBefore {
			if err == red.Nil {
				verifReach("cmd-nil")
			}
			if err == verifHookErr {
				verifReach("cmd-error")
			}
			if verifSlowLogged > 0 {
				verifReach("cmd-slow")
			}
		} else {
			verifReach("cmd-no-start-time")
		}
		return
	}

	// ---- pipeline of 0..3 commands ----
	n := verifChoose("n", 4)
	errs := make([]error, n)
	cmds := make([]red.Cmder, n)
	names := []string{"err0", "err1", "err2"}
	anyNil, anyOther, anyOK := false, false, false
	for i := 0; i < n; i++ {
		errs[i] = verifHookErrChoice(names[i])
		cmds[i] = verifHookCmd(i, errs[i])
		anyNil = anyNil || errs[i] == red.Nil
		anyOther = anyOther || errs[i] == verifHookErr
		anyOK = anyOK || errs[i] == nil
	}
	ctx := parent
	if withBefore {
		ctx2, berr := h.BeforeProcessPipeline(parent, cmds)
		verifAssert(berr == nil, "BeforeProcessPipeline returns a nil error (anything else would suppress the batch)")
		verifAssert(ctx2 != nil, "BeforeProcessPipeline returns a context")
		if ctx2 == nil {
			return
		}
		if n > 0 {
			v := ctx2.Value(startTimeKey)
			verifAssert(v != nil, "the context returned by BeforeProcessPipeline carries the start time")
			d, ok := v.(time.Duration)
			verifAssert(ok && d == verifHookStart, "the start time in the context is the clock reading taken by BeforeProcessPipeline")
		}
		ctx = ctx2
	}
	aerr := h.AfterProcessPipeline(ctx, cmds)
	verifAssert(aerr == nil, "AfterProcessPipeline returns a nil error whatever the commands' outcomes (go-redis would make it the pipeline's error and stamp it onto the commands that succeeded)")
	verifAssert(len(cmds) == n, "the batch is not resized")
	for i := 0; i < n; i++ {
		verifAssert(cmds[i].Err() == errs[i], "the hooks leave every command's own error alone")
	}
	if !withBefore {
		verifReach("pipe-no-start-time")
		return
	}
	if n == 0 {
		verifReach("pipe-empty")
	}
	if n == 3 && anyNil && anyOther && anyOK {
		verifReach("pipe-mixed")
	}
	if n > 0 && anyNil && !anyOther {
		verifReach("pipe-only-nil")
	}
	if n > 0 && anyOther {
		verifReach("pipe-error")
	}
	if verifSlowLogged > 0 {
		verifReach("pipe-slow")
	}
}
