package hash

import (
	"fmt"
	"strconv"

	"github.com/gotid/god/lib/lang"
)

//verif:stub github.com/gotid/god/lib/lang.Repr => verifRepr

// ---- environment -----------------------------------------------------------

// The three kinds of node the property quantifies over.
type verifStructNode struct {
	name string
	id   int
}

type verifStringerNode struct{ name string }

func (n *verifStringerNode) String() string { return n.name }

// verifRepr stands in for lang.Repr (reflection based) on the node/key types the
// harness uses; it returns what lang.Repr returns for them: the string itself,
// String() for a Stringer, fmt.Sprint's "{name id}" for the struct.
func verifRepr(v any) string {
	switch x := v.(type) {
	case string:
		return x
	case fmt.Stringer:
		return x.String()
	case verifStructNode:
		return "{" + x.name + " " + strconv.Itoa(x.id) + "}"
	}
	panic("verifRepr: node type outside the harness's model")
}

// The hash is an uninterpreted function: one fresh symbolic uint64 per distinct
// input, the same value for the same input. Inputs that are not lookup keys are
// virtual-node names; their positions are assumed pairwise distinct (the
// property excludes ring-position collisions between nodes). The key's position
// is unconstrained (it may coincide with a virtual node).
var (
	verifMemo      map[string]uint64
	verifPositions []uint64
)

const verifLookupKey = "k"

func verifHash(data []byte) uint64 {
	s := string(data)
	if v, ok := verifMemo[s]; ok {
		return v
	}
	v := verifUint64("h:" + s)
	if s != verifLookupKey {
		distinct := true
		for _, o := range verifPositions {
			distinct = verifAnd(distinct, v != o)
		}
		verifAssume(distinct)
		verifPositions = append(verifPositions, v)
	}
	verifMemo[s] = v
	return v
}

func verifNodeSet(n int) []any {
	all := []any{"A", &verifStringerNode{"B"}, verifStructNode{"C", 1}}
	return all[:n]
}

// verifBuild is the canonical construction of a membership: an empty ring with
// r replicas to which every present node (cnt >= 0) is added once, in node order.
func verifBuild(r int, nodes []any, cnt []int) *ConsistentHash {
	h := &ConsistentHash{
		hashFunc: verifHash,
		replicas: r,
		ring:     make(map[uint64][]any),
		nodes:    make(map[string]lang.PlaceholderType),
	}
	for i, c := range cnt {
		if c >= 0 {
			h.AddWithReplicas(nodes[i], c)
		}
	}
	return h
}

func verifNodeIndex(nodes []any, v any) int {
	for i, n := range nodes {
		if n == v {
			return i
		}
	}
	return -1
}

// verifOwned: number of ring positions held by nodes[x] (the ring's shape and
// the node stored at each position are concrete on every path).
func verifOwned(h *ConsistentHash, nodes []any, x int) int {
	n := 0
	for _, vs := range h.ring {
		for _, v := range vs {
			if verifNodeIndex(nodes, v) == x {
				n++
			}
		}
	}
	return n
}

// verifCheckState: keys sorted and consistent with ring, and exactly cnt[x]
// virtual nodes per node (cnt < 0: node absent).
func verifCheckState(h *ConsistentHash, nodes []any, cnt []int, when string) {
	total, present := 0, 0
	for _, c := range cnt {
		if c > 0 {
			total += c
		}
		if c >= 0 {
			present++
		}
	}
	verifAssert(len(h.keys) == total, when+": keys holds one entry per virtual node of the current members")
	verifAssert(len(h.ring) == total, when+": ring holds one position per virtual node of the current members")
	verifAssert(len(h.nodes) == present, when+": nodes is the set of current members")
	for i, n := range nodes {
		_, in := h.nodes[verifRepr(n)]
		verifAssert(in == (cnt[i] >= 0), when+": nodes is the set of current members")
	}
	sorted := true
	for i := 1; i < len(h.keys); i++ {
		sorted = verifAnd(sorted, h.keys[i-1] < h.keys[i])
	}
	verifAssert(sorted, when+": keys is sorted")
	for x := range nodes {
		want := cnt[x]
		if want < 0 {
			want = 0
		}
		verifAssert(verifOwned(h, nodes, x) == want, when+": each member owns exactly its number of virtual nodes in ring")
	}
	// every ring position carries exactly one node and occurs in keys
	for k, vs := range h.ring {
		verifAssert(len(vs) == 1, when+": one node per ring position")
		inKeys := false
		for _, kk := range h.keys {
			inKeys = verifOr(inKeys, kk == k)
		}
		verifAssert(inKeys, when+": every ring position is in keys")
	}
}

// verifSameState: h's keys/ring/nodes equal those of the reference ring.
func verifSameState(h, ref *ConsistentHash) {
	verifAssert(len(h.keys) == len(ref.keys) && len(h.ring) == len(ref.ring) && len(h.nodes) == len(ref.nodes),
		"state after the operation equals the canonical ring of the new membership (sizes)")
	if len(h.keys) != len(ref.keys) {
		return
	}
	same := true
	for i := range ref.keys {
		same = verifAnd(same, h.keys[i] == ref.keys[i])
	}
	verifAssert(same, "state after the operation equals the canonical ring of the new membership (keys: no stale or missing virtual node)")
	for k, vs := range ref.ring {
		found := false
		for k2, vs2 := range h.ring {
			if len(vs) == 1 && len(vs2) == 1 && vs[0] == vs2[0] {
				found = verifOr(found, k == k2)
			}
		}
		verifAssert(found, "state after the operation equals the canonical ring of the new membership (ring: no stale or missing virtual node)")
	}
	for n := range ref.nodes {
		_, ok := h.nodes[n]
		verifAssert(ok, "state after the operation equals the canonical ring of the new membership (nodes)")
	}
}

// verifCheckGet: totality — a current member with at least one virtual node is
// returned iff there is one; absence is reported only otherwise.
func verifCheckGet(nodes []any, cnt []int, g any, ok bool, when string) int {
	any1 := false
	for _, c := range cnt {
		if c > 0 {
			any1 = true
		}
	}
	verifAssert(ok == any1, when+": Get reports absence iff no member has a virtual node")
	if !ok {
		verifAssert(g == nil, when+": Get reports absence with a nil node")
		return -1
	}
	x := verifNodeIndex(nodes, g)
	verifAssert(x >= 0 && cnt[x] > 0, when+": Get returns a current member of positive weight")
	return x
}

// H13a — one arbitrary operation applied to the canonical ring of an arbitrary
// membership; the resulting state is again the canonical ring of the new
// membership. By induction over the history (the operations read and write
// only replicas/keys/ring/nodes) this covers every history of
// Add/AddWithWeight/AddWithReplicas/Remove over the node set.
func Verif_C13_step() {
	r := verifParam("replicas")
	nn := verifParam("nodes")
	verifMemo = map[string]uint64{}
	verifPositions = nil
	nodes := verifNodeSet(nn)

	// fan-out: (operation, count of node 0, node operated on)
	cs := verifCase(4 * (r + 2) * nn)
	api := cs % 4
	cnt := make([]int, nn)
	cnt[0] = (cs/4)%(r+2) - 1 // -1 absent, 0 member without virtual nodes, 1..r
	y := cs / (4 * (r + 2))
	for i := 1; i < nn; i++ {
		cnt[i] = verifChoose("cnt", r+2) - 1
	}

	// bound on the number of distinct ring positions of the pre- and post-state
	// together (the orderings of these positions are the fork source)
	room := verifParam("maxPositions")
	for i, c := range cnt {
		if c > 0 && i != y {
			room -= c
		}
	}
	verifAssume(room >= 0 && cnt[y] <= room)

	h := verifBuild(r, nodes, cnt)
	verifCheckState(h, nodes, cnt, "canonical ring")
	g0, ok0 := h.Get(verifLookupKey)
	x0 := verifCheckGet(nodes, cnt, g0, ok0, "before")

	ncnt := append([]int{}, cnt...)
	switch api {
	case 0:
		h.Remove(nodes[y])
		ncnt[y] = -1
		if cnt[y] > 0 {
			verifReach("remove-member")
		}
	case 1:
		verifAssume(r <= room)
		h.Add(nodes[y])
		ncnt[y] = r // "adds h.replicas virtual nodes"
	case 2:
		w := verifInt("weight")
		verifAssume(w >= 0)
		verifAssume(w <= TopWeight)
		verifAssume(r*w <= room*TopWeight) // bound: the weight's share of the replicas fits the position bound
		h.AddWithWeight(nodes[y], w)
		got := verifOwned(h, nodes, y)
		// weight is a percentage of the replicas; the statement fixes no rounding
		verifAssert(verifAnd(got*100 >= r*w-99, got*100 <= r*w+99), "AddWithWeight: virtual nodes = weight percent of the replicas (either rounding)")
		if w == 0 {
			verifAssert(got == 0, "weight 0: no virtual node")
			verifReach("weight-0")
		}
		ncnt[y] = got
	case 3:
		n := verifInt("n")
		verifAssume(n >= 0)
		verifAssume(n <= r+1)
		if room < r {
			verifAssume(n <= room) // bound: the position bound (no restriction when all r fit)
		}
		h.AddWithReplicas(nodes[y], n)
		want := n // "at most h.replicas"
		if want < 0 {
			want = 0
		}
		if want > r {
			want = r
			verifReach("replicas-capped")
		}
		ncnt[y] = verifConcreteSmall(want)
	}
	if api != 0 && cnt[y] > 0 {
		if ncnt[y] < cnt[y] {
			verifReach("re-add-fewer")
		}
		if ncnt[y] > cnt[y] {
			verifReach("re-add-more")
		}
	}

	verifCheckState(h, nodes, ncnt, "after the operation")
	verifSameState(h, verifBuild(r, nodes, ncnt))

	g1, ok1 := h.Get(verifLookupKey)
	x1 := verifCheckGet(nodes, ncnt, g1, ok1, "after")
	g2, ok2 := h.Get(verifLookupKey)
	verifAssert(ok2 == ok1 && g2 == g1, "Get returns the same node while membership is unchanged")
	if api == 2 && ncnt[y] == 0 {
		verifAssert(x1 != y, "a node added with weight 0 receives no key")
	}

	// minimal disruption
	if api == 0 {
		verifAssert(x0 == y || x1 == x0, "Remove changes only the assignment of keys that were assigned to the removed node")
		if x0 == y && x1 >= 0 {
			verifReach("key-reassigned-on-remove")
		}
	} else if cnt[y] <= 0 {
		verifAssert(x1 == x0 || x1 == y, "Add changes only the assignment of keys that move to the new node")
		if x1 == y && x0 >= 0 && x0 != y {
			verifReach("key-moves-to-new-node")
		}
	} else {
		// re-add = the node's old virtual nodes are replaced by new ones: a key
		// assigned to another node before and after keeps its node
		verifAssert(x0 == y || x1 == y || x1 == x0, "re-adding a node changes only keys that leave it or move to it")
	}
}
