package hash

// H13c: weights through the public constructor's replica count (>= 100).  The
// inductive harnesses use 1..3 replicas, where weight percentages of 1..33
// all round to zero virtual nodes; here the ring has the default 100 replicas
// (and 150), so every weight in [-3, 100] is distinguishable: "a node added
// with weight 0 receives no keys", "lookup reports absence only when no node of
// positive weight is present", and AddWithWeight(n, 100) is Add(n).
func verifByteSum(data []byte) uint64 {
	var s uint64
	for i, b := range data {
		s = s*131 + uint64(b) + uint64(i)
	}
	return s
}

func Verif_C13_weight_public() {
	c := verifCase(4)
	if c == 2 {
		verifC13BelowMinimum()
		return
	}
	if c == 3 {
		verifC13Negative()
		return
	}
	r := []int{100, 150}[c]
	h := NewCustomConsistentHash(r, verifByteSum)
	w := verifInt("weight")
	verifAssume(w >= -3)
	verifAssume(w <= 100)
	h.AddWithWeight("node-a", w)
	own := len(h.keys)
	if w <= 0 {
		verifAssert(own == 0 && len(h.ring) == 0, "a node added with weight 0 (or less) gets no virtual node")
		_, ok := h.Get("some-key")
		verifAssert(!ok, "a ring holding only weightless nodes reports absence")
		verifReach("weightless")
	} else {
		verifAssert(own*100 >= r*w-99 && own*100 <= r*w+99 && own <= r, "virtual nodes = weight percent of the replicas (either rounding)")
		if w == 100 {
			verifAssert(own == r, "weight 100 gives the full replica count, like Add")
			verifReach("weight-100")
		}
		n, ok := h.Get("some-key")
		verifAssert(own == 0 || ok && n == any("node-a"), "a ring with one node of positive weight assigns every key to it")
	}
	// re-adding with weight 0 drains the node
	h.AddWithWeight("node-a", 0)
	verifAssert(len(h.keys) == 0, "re-adding a node with weight 0 removes all its virtual nodes")
	verifReach("drained")
}

// case 2: a custom ring asked for FEWER than minReplicas replicas (symbolic
// request in [-1, 99], i.e. negative, zero and every positive count below the
// minimum).  The constructor raises the count to minReplicas, which is what
// makes every positive weight percentage (1..100) worth at least one virtual
// node: "lookup reports absence only when no node of positive weight is
// present".
func verifC13BelowMinimum() {
	r := verifInt("replicas")
	verifAssume(r >= -1)
	verifAssume(r <= minReplicas-1)
	w := verifInt("weight")
	verifAssume(w >= 1)
	verifAssume(w <= TopWeight)
	h := NewCustomConsistentHash(r, verifByteSum)
	verifAssert(h.replicas >= minReplicas, "a custom ring has at least minReplicas replicas whatever count was requested")
	if h.replicas < minReplicas {
		// violation recorded above; the ring loops below run h.replicas times and
		// are only bounded when that count is concrete (it is 100 on a correct tree)
		return
	}
	verifReach("below-minimum-raised")
	h.AddWithWeight("node-a", w)
	own := len(h.keys)
	verifAssert(own >= 1, "a node of positive weight owns at least one ring position")
	verifAssert(own <= h.replicas, "never more virtual nodes than replicas")
	n, ok := h.Get("some-key")
	verifAssert(ok, "a ring holding a node of positive weight never reports absence")
	verifAssert(ok && n == any("node-a"), "the only node gets every key")
	if w == 1 {
		verifReach("weight-1-present")
	}
}

// case 3: CONCRETE negative weights and replica counts (the callers - cache.New,
// kv.New - pass a configured weight straight through, and the library treats a
// negative configured weight as 0 elsewhere).  The symbolic weight of case 0/1
// reaches below zero too, but a length or capacity computed from it is only
// followed by the engine while it stays a small non-negative number; a concrete
// value goes through whatever the code computes from it.  A node added that way
// behaves like a node of weight 0: the call returns, the node gets no virtual
// node and receives no key, and every other assignment stays put.
func verifC13Negative() {
	h := NewCustomConsistentHash(100, verifByteSum)
	withOther := verifChoose("otherNode", 2) == 1
	if withOther {
		h.Add("node-b")
	}
	before := len(h.keys)
	n0, ok0 := h.Get("some-key")
	neg := []int{-1, -3, -50, -100, -101}[verifChoose("negative", 5)]
	_, panicked := verifExpectPanic(func() {
		if verifChoose("via", 2) == 0 {
			h.AddWithWeight("node-a", neg)
		} else {
			h.AddWithReplicas("node-a", neg)
		}
	})
	verifAssert(!panicked, "adding a node with a negative weight or replica count returns (it is a node without virtual nodes)")
	if panicked {
		return
	}
	verifAssert(len(h.keys) == before, "a node added with a negative weight gets no virtual node")
	n1, ok1 := h.Get("some-key")
	verifAssert(ok1 == ok0 && n1 == n0, "a node added with a negative weight receives no key and moves no key")
	verifAssert(ok1 == withOther, "lookup reports absence exactly when no node of positive weight is present")
	verifReach("negative-weight")
}
