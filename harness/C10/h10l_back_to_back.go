package collection

import "time"

// H10l: operations on one key issued back to back, with no pause between
// them, through the public API of a wheel whose run loop is a real goroutine.
// SetTimer returns as soon as the run loop has TAKEN the request, not when it
// has carried it out; the next call on the same key may therefore arrive while
// the first is still being applied.  The scheduler explores the interleavings
// (bounded preemption); whatever the order in which the run loop gets to work,
// the calls take effect in the order they were made:
//   Set, Remove          -> the task never fires
//   Set, Remove, Set'    -> exactly one firing, of Set', at its own tick
//   Set, Move            -> exactly one firing, by the rule of the Move
func Verif_C10_back_to_back() {
	n := verifParam("apiSlots")
	I := time.Duration(verifParam("interval"))
	var fired []verifFire
	tick := 0
	tk := &verifTicker{c: make(chan time.Time)}
	w, err := newTimingWheelWithClock(I, n, func(k, v any) { fired = append(fired, verifFire{k, v, tick}) }, tk)
	verifAssert(err == nil && w != nil, "back-to-back: wheel is created")
	doTick := func() {
		tick++
		tk.c <- time.Time{}
		verifYield()
	}
	seq := verifCase(3)
	d, _ := verifDelay("d", n, I)
	verifAssert(w.SetTimer("k", 1, d) == nil, "back-to-back: SetTimer succeeds")
	wantFirings, wantVal, wantTick := 0, 0, 0
	switch seq {
	case 0:
		verifAssert(w.RemoveTimer("k") == nil, "back-to-back: RemoveTimer succeeds")
		verifReach("set-remove")
	case 1:
		verifAssert(w.RemoveTimer("k") == nil, "back-to-back: RemoveTimer succeeds")
		d2, steps2 := verifDelay("d2", n, I)
		verifAssert(w.SetTimer("k", 2, d2) == nil, "back-to-back: second SetTimer succeeds")
		wantFirings, wantVal, wantTick = 1, 2, steps2
		verifReach("set-remove-set")
	case 2:
		d2, steps2 := verifDelay("d2", n, I)
		verifAssert(w.MoveTimer("k", d2) == nil, "back-to-back: MoveTimer succeeds")
		wantFirings, wantVal, wantTick = 1, 1, steps2
		verifReach("set-move")
	}
	verifYield()
	total := verifParam("maxRev")*n + 2
	for i := 0; i < total; i++ {
		doTick()
	}
	if wantFirings == 0 {
		verifAssert(len(fired) == 0, "back-to-back: a task removed right after it was set never fires")
	} else {
		verifAssert(len(fired) == 1, "back-to-back: exactly one firing")
		if len(fired) == 1 {
			verifAssert(fired[0].val == wantVal && fired[0].tick == wantTick, "back-to-back: the firing is that of the last call, at its own tick with its value")
		}
	}
	w.Stop()
	verifYield()
}
