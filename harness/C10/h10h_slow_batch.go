package collection

import "time"

// H10h: a slow callback keeps its own batch.  Tasks a,b are due at tick 1 and
// c,d at a later tick (symbolic delay); the callback of a blocks until after
// the later tick has fired its tasks.  Whatever the delivery goroutine of tick
// 1 still has to hand out when it resumes must be b with b's value: every task
// fires exactly once with its own key and value, none is replaced by a task of
// a later tick.  Real run loop, real delivery goroutines (runTasks not inlined).
func Verif_C10_slow_batch() {
	n := verifParam("apiSlots")
	I := time.Duration(verifParam("interval"))
	var fired []verifFire
	tick := 0
	gate := make(chan struct{})
	tk := &verifTicker{c: make(chan time.Time)}
	// the first task's callback is slow - or it panics: a faulty callback is its own task's
	// business, the other tasks due in the same tick still fire
	aPanics := verifBool("firstCallbackPanics")
	w, err := newTimingWheelWithClock(I, n, func(k, v any) {
		fired = append(fired, verifFire{k, v, tick})
		if k == "a" {
			if aPanics {
				panic("callback of task a panics")
			}
			<-gate // the first task's callback is slow
		}
	}, tk)
	verifAssert(err == nil, "slow batch: wheel is created")
	doTick := func() {
		tick++
		tk.c <- time.Time{}
		verifYield()
	}
	d, steps := verifDelay("d", n, I)
	verifAssume(steps >= 2)
	verifAssert(w.SetTimer("a", 1, I) == nil && w.SetTimer("b", 2, I) == nil, "slow batch: first two timers set")
	verifAssert(w.SetTimer("c", 3, d) == nil && w.SetTimer("d", 4, d) == nil, "slow batch: later two timers set")
	verifYield()
	for i := 0; i < steps; i++ {
		doTick()
	}
	// tick 1 delivered a (blocked); the later tick delivered c and d
	close(gate)
	verifYield()
	for i := 0; i < 2; i++ {
		doTick()
	}
	cnt := map[any]int{}
	for _, f := range fired {
		cnt[f.key]++
		switch f.key {
		case "a":
			verifAssert(f.val == 1 && f.tick == 1, "slow batch: a fires at tick 1 with its value")
		case "b":
			verifAssert(f.val == 2, "slow batch: b fires with its own value after the slow callback returns")
		case "c":
			verifAssert(f.val == 3 && f.tick == steps, "slow batch: c fires at its tick with its value")
		case "d":
			verifAssert(f.val == 4 && f.tick == steps, "slow batch: d fires at its tick with its value")
		default:
			verifAssert(false, "slow batch: only the four keys fire")
		}
	}
	verifAssert(len(fired) == 4 && cnt["a"] == 1 && cnt["b"] == 1 && cnt["c"] == 1 && cnt["d"] == 1, "slow batch: every task fires exactly once, also when an earlier tick's callback is still running while a later tick fires")
	if aPanics {
		verifReach("panicking-callback")
	} else {
		verifReach("slow-batch")
	}
	w.Stop()
	verifYield()
}
