package collection

import (
	"runtime"
	"time"

	"github.com/gotid/god/lib/timex"
)

// H10j: the public constructor NewTimingWheel(interval, numSlots, execute).
// The other C10 harnesses build the wheel by hand or through
// newTimingWheelWithClock, so the constructor's argument check and the way it
// wires interval / numSlots / execute / ticker into the wheel were never run.
//
// The ticker the constructor asks lib/timex for is the harness's (stub below):
// the engine's own time.NewTicker model delivers ticks whenever the run loop
// looks, which gives no tick count to compare firing times with. The stub also
// makes "no ticker was created" observable.

//verif:stub github.com/gotid/god/lib/timex.NewTicker => verifCtorNewTicker

type verifCtorTicker struct {
	c       chan time.Time
	d       time.Duration
	stopped bool
}

func (t *verifCtorTicker) Chan() <-chan time.Time { return t.c }
func (t *verifCtorTicker) Stop()                  { t.stopped = true }

var verifCtorTickers []*verifCtorTicker

func verifCtorNewTicker(d time.Duration) timex.Ticker {
	t := &verifCtorTicker{c: make(chan time.Time), d: d}
	verifCtorTickers = append(verifCtorTickers, t)
	return t
}

func Verif_C10_constructor() {
	numSlots := verifCase(5) - 1 // -1..3
	maxI := int64(verifParam("maxInterval"))
	interval := time.Duration(verifInt64("interval"))
	verifAssume(interval >= -2)
	verifAssume(interval <= time.Duration(maxI))
	var fired []verifFire
	tick := 0
	var execute Execute
	if verifChoose("execute", 2) == 1 {
		execute = func(k, v any) { fired = append(fired, verifFire{k, v, tick}) }
	}
	verifCtorTickers = nil
	base := runtime.NumGoroutine()

	w, err := NewTimingWheel(interval, numSlots, execute)

	if interval <= 0 || numSlots <= 0 || execute == nil {
		verifAssert(err != nil, "constructor: a non-positive interval, a non-positive slot count or a nil execute function is an error")
		verifAssert(w == nil, "constructor: invalid arguments give no wheel")
		verifYield()
		verifAssert(len(verifCtorTickers) == 0, "constructor: invalid arguments create no ticker")
		verifAssert(runtime.NumGoroutine() <= base, "constructor: invalid arguments start no goroutine")
		if interval <= 0 {
			verifReach("bad-interval")
		}
		if numSlots <= 0 {
			verifReach("bad-slots")
		}
		if execute == nil {
			verifReach("nil-execute")
		}
		if interval > 0 && numSlots > 0 {
			verifReach("only-nil-execute")
		}
		return
	}

	verifAssert(err == nil, "constructor: valid arguments give no error")
	verifAssert(w != nil, "constructor: valid arguments give a wheel")
	if err != nil || w == nil {
		return
	}
	verifAssert(len(verifCtorTickers) == 1, "constructor: the wheel runs on one ticker")
	if len(verifCtorTickers) != 1 {
		w.Stop()
		return
	}
	tk := verifCtorTickers[0]
	verifAssert(tk.d == interval, "constructor: the wheel ticks with the given interval")
	doTick := func() {
		tick++
		tk.c <- time.Time{}
		verifYield()
	}
	total := verifParam("maxRev")*numSlots + 2

	if verifChoose("subInterval", 2) == 1 {
		// Delays 0 < d < interval are accepted by the argument check but lie
		// outside the statement's firing rule (d >= I): the calls are only
		// exercised - no panic, no hang - and nothing is asserted about them.
		verifAssume(interval >= 2)
		sub := time.Duration(verifInt64("sub"))
		verifAssume(sub > 0)
		verifAssume(sub < interval)
		w.SetTimer("s", 1, sub)
		verifYield()
		if verifChoose("moveWhen", 2) == 1 {
			doTick()
		}
		w.MoveTimer("s", sub)
		verifYield()
		for i := 0; i < total; i++ {
			doTick()
		}
		w.Stop()
		verifYield()
		verifReach("sub-interval-exercised")
		return
	}

	// the wheel works: with tick interval I a task set with delay d >= I fires
	// exactly once, during tick floor(d/I), with its value
	d := time.Duration(verifInt64("d"))
	verifAssume(d >= interval)
	verifAssume(d <= time.Duration(verifParam("maxRev")*numSlots)*interval+interval-1)
	steps := int(d / interval)
	verifAssert(w.SetTimer("a", 7, d) == nil, "constructor: SetTimer on the new wheel succeeds")
	verifYield()
	for i := 0; i < total; i++ {
		doTick()
	}
	verifAssert(len(fired) == 1, "constructor: the task fires exactly once")
	if len(fired) == 1 {
		verifAssert(fired[0].key == "a" && fired[0].val == 7, "constructor: the execute function given to the constructor gets the key and value")
		verifAssert(fired[0].tick == steps, "constructor: the task fires during tick floor(d/I) of the given interval I")
	}
	w.Stop()
	verifYield()
	verifAssert(w.SetTimer("b", 1, interval) == ErrClosed, "constructor: SetTimer after Stop is ErrClosed")
	verifReach("valid")
}
