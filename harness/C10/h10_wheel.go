package collection

import (
	"container/list"
	"time"
)

// Harnesses for C10 (timing wheel). The wheel is built directly (no run
// goroutine, no ticker); every operation the run loop would dispatch is called
// on the real methods setTask/moveTask/removeTask/drainAll/onTick.

type verifFire struct {
	key, val any
	tick     int
}

type verifWheelEnv struct {
	w     *TimingWheel
	fired []verifFire
	tick  int
}

func verifNewWheel(n int, interval time.Duration) *verifWheelEnv {
	env := &verifWheelEnv{}
	w := &TimingWheel{
		interval:  interval,
		slots:     make([]*list.List, n),
		timers:    NewSafeMap(),
		tickedPos: n - 1,
		numSlots:  n,
		execute: func(k, v any) {
			env.fired = append(env.fired, verifFire{k, v, env.tick})
		},
	}
	w.initSlots()
	env.w = w
	return env
}

func (e *verifWheelEnv) ticks(k int) {
	for i := 0; i < k; i++ {
		e.tick++
		e.w.onTick()
		verifYield() // native world: let the runTasks goroutine finish before the next tick
	}
}

func (e *verifWheelEnv) firedCount(key any) int {
	c := 0
	for _, f := range e.fired {
		if f.key == key {
			c++
		}
	}
	return c
}

// symbolic delay in [I, maxRev*n*I + I-1]
func verifDelay(name string, n int, I time.Duration) (time.Duration, int) {
	maxRev := verifParam("maxRev")
	d := time.Duration(verifInt64(name))
	verifAssume(d >= I)
	verifAssume(d <= time.Duration(maxRev*n)*I+I-1)
	steps := int(d / I)
	return d, steps
}

// H10a: a task set at phase p with delay d fires exactly once at tick floor(d/I)
// with the value set.
func Verif_C10_set() {
	n := verifCase(verifParam("maxSlots")) + 1
	I := time.Duration(verifParam("interval"))
	env := verifNewWheel(n, I)
	env.w.tickedPos = verifChoose("phase", n)
	d, steps := verifDelay("d", n, I)
	env.w.setTask(&timingEntry{baseEntry: baseEntry{delay: d, key: "a"}, value: 1})
	total := verifParam("maxRev")*n + 2
	env.ticks(total)
	verifAssert(len(env.fired) == 1, "set: fires exactly once")
	if len(env.fired) == 1 {
		verifAssert(env.fired[0].tick == steps, "set: fires at tick floor(d/I)")
		verifAssert(env.fired[0].val == 1, "set: fires with the value set")
		verifReach("fired")
	}
}

// H10b: set, advance a ticks (task not yet fired), then MoveTimer or re-SetTimer
// with a new delay: fires exactly once, d2/I ticks after the move, with the
// most recent value.
func Verif_C10_move() {
	n := verifCase(verifParam("maxSlots")) + 1
	I := time.Duration(verifParam("interval"))
	env := verifNewWheel(n, I)
	env.w.tickedPos = verifChoose("phase", n)
	d1, steps1 := verifDelay("d1", n, I)
	env.w.setTask(&timingEntry{baseEntry: baseEntry{delay: d1, key: "a"}, value: 1})
	a := verifChoose("advance", verifParam("maxRev")*n)
	verifAssume(a < steps1)
	env.ticks(a)
	verifAssert(len(env.fired) == 0, "move: nothing fires before its time")
	d2, steps2 := verifDelay("d2", n, I)
	want := 1
	if verifChoose("reset", 2) == 1 {
		env.w.setTask(&timingEntry{baseEntry: baseEntry{delay: d2, key: "a"}, value: 2})
		want = 2
		verifReach("re-set")
	} else {
		env.w.moveTask(baseEntry{delay: d2, key: "a"})
		verifReach("moved")
	}
	total := verifParam("maxRev")*n + 2
	env.ticks(total)
	verifAssert(len(env.fired) == 1, "move: fires exactly once")
	if len(env.fired) == 1 {
		verifAssert(env.fired[0].tick == a+steps2, "move: fires d2/I ticks after the move")
		verifAssert(env.fired[0].val == want, "move: fires with the most recent value")
	}
}
