package collection

import (
	"container/list"
	"time"
)

// Harnesses for C10 (timing wheel). The wheel is built directly (no run
// goroutine, no ticker); every operation the run loop would dispatch is called
// on the real methods setTask/moveTask/removeTask/drainAll/onTick.

type verifFire struct {
	key, val any
	tick     int
}

type verifWheelEnv struct {
	w     *TimingWheel
	fired []verifFire
	tick  int
}

func verifNewWheel(n int, interval time.Duration) *verifWheelEnv {
	env := &verifWheelEnv{}
	w := &TimingWheel{
		interval:  interval,
		slots:     make([]*list.List, n),
		timers:    NewSafeMap(),
		tickedPos: n - 1,
		numSlots:  n,
		execute: func(k, v any) {
			env.fired = append(env.fired, verifFire{k, v, env.tick})
		},
	}
	w.initSlots()
	env.w = w
	return env
}

func (e *verifWheelEnv) ticks(k int) {
	for i := 0; i < k; i++ {
		e.tick++
		e.w.onTick()
		verifYield() // native world: let the runTasks goroutine finish before the next tick
	}
}

func (e *verifWheelEnv) firedCount(key any) int {
	c := 0
	for _, f := range e.fired {
		if f.key == key {
			c++
		}
	}
	return c
}

// symbolic delay in [I, maxRev*n*I + I-1]
func verifDelay(name string, n int, I time.Duration) (time.Duration, int) {
	maxRev := verifParam("maxRev")
	d := time.Duration(verifInt64(name))
	verifAssume(d >= I)
	verifAssume(d <= time.Duration(maxRev*n)*I+I-1)
	steps := int(d / I)
	return d, steps
}

// H10a: a task set at phase p with delay d fires exactly once at tick floor(d/I)
// with the value set.
func Verif_C10_set() {
	n := verifCase(verifParam("maxSlots")) + 1
	I := time.Duration(verifParam("interval"))
	env := verifNewWheel(n, I)
	env.w.tickedPos = verifChoose("phase", n)
	d, steps := verifDelay("d", n, I)
	env.w.setTask(&timingEntry{baseEntry: baseEntry{delay: d, key: "a"}, value: 1})
	total := verifParam("maxRev")*n + 2
	env.ticks(total)
	verifAssert(len(env.fired) == 1, "set: fires exactly once")
	if len(env.fired) == 1 {
		verifAssert(env.fired[0].tick == steps, "set: fires at tick floor(d/I)")
		verifAssert(env.fired[0].val == 1, "set: fires with the value set")
		verifReach("fired")
	}
}

// H10b: set, advance a ticks (task not yet fired), then MoveTimer or re-SetTimer
// with a new delay: fires exactly once, d2/I ticks after the move, with the
// most recent value.
func Verif_C10_move() {
	n := verifCase(verifParam("maxSlots")) + 1
	I := time.Duration(verifParam("interval"))
	env := verifNewWheel(n, I)
	env.w.tickedPos = verifChoose("phase", n)
	d1, steps1 := verifDelay("d1", n, I)
	env.w.setTask(&timingEntry{baseEntry: baseEntry{delay: d1, key: "a"}, value: 1})
	a := verifChoose("advance", verifParam("maxRev")*n)
	verifAssume(a < steps1)
	env.ticks(a)
	verifAssert(len(env.fired) == 0, "move: nothing fires before its time")
	d2, steps2 := verifDelay("d2", n, I)
	want := 1
	if verifChoose("reset", 2) == 1 {
		env.w.setTask(&timingEntry{baseEntry: baseEntry{delay: d2, key: "a"}, value: 2})
		want = 2
		verifReach("re-set")
	} else {
		env.w.moveTask(baseEntry{delay: d2, key: "a"})
		verifReach("moved")
	}
	total := verifParam("maxRev")*n + 2
	env.ticks(total)
	verifAssert(len(env.fired) == 1, "move: fires exactly once")
	if len(env.fired) == 1 {
		verifAssert(env.fired[0].tick == a+steps2, "move: fires d2/I ticks after the move")
		verifAssert(env.fired[0].val == want, "move: fires with the most recent value")
	}
}

// H10c: a removed task never fires; setting the key again afterwards behaves
// like a fresh set.
func Verif_C10_remove() {
	n := verifCase(verifParam("maxSlots")) + 1
	I := time.Duration(verifParam("interval"))
	env := verifNewWheel(n, I)
	env.w.tickedPos = verifChoose("phase", n)
	d1, steps1 := verifDelay("d1", n, I)
	env.w.setTask(&timingEntry{baseEntry: baseEntry{delay: d1, key: "a"}, value: 1})
	a := verifChoose("advance", verifParam("maxRev")*n)
	verifAssume(a < steps1)
	env.ticks(a)
	// optionally the task is re-scheduled (moved, or set again with a new value) before it is
	// removed: the re-scheduled entry may land in the very slot that still holds the stale one
	b := 0
	resched := 0
	if verifParam("resched") == 1 { // H10k
		resched = 1 + verifChoose("rescheduleFirst", 2)
	}
	switch resched {
	case 1:
		dm, stepsM := verifDelay("dm", n, I)
		env.w.moveTask(baseEntry{delay: dm, key: "a"})
		b = verifChoose("advance2", 2) // removed at once or one tick later
		verifAssume(b < stepsM)
		env.ticks(b)
		verifReach("moved-then-removed")
	case 2:
		dm, stepsM := verifDelay("dm", n, I)
		env.w.setTask(&timingEntry{baseEntry: baseEntry{delay: dm, key: "a"}, value: 3})
		b = verifChoose("advance2", 2)
		verifAssume(b < stepsM)
		env.ticks(b)
		verifReach("reset-then-removed")
	}
	a += b
	env.w.removeTask("a")
	nAfter := 2
	if verifParam("resched") == 0 {
		nAfter = 3 // H10c: the removed key may also be MOVED afterwards
	}
	after := verifChoose("setAgain", nAfter)
	again := after == 1
	steps2 := 0
	if after == 2 {
		// moving a key that was removed is moving a key that is not there: nothing is
		// scheduled, whether or not the wheel has ticked past the slot of the removed entry
		dm, _ := verifDelay("d2", n, I)
		env.w.moveTask(baseEntry{delay: dm, key: "a"})
		verifReach("removed-then-moved")
	}
	if again {
		var d2 time.Duration
		d2, steps2 = verifDelay("d2", n, I)
		env.w.setTask(&timingEntry{baseEntry: baseEntry{delay: d2, key: "a"}, value: 2})
	}
	env.ticks(verifParam("maxRev")*n + 2)
	if !again {
		verifAssert(len(env.fired) == 0, "remove: a removed task never fires")
		verifReach("removed")
		return
	}
	verifAssert(len(env.fired) == 1, "remove+set: fires exactly once")
	if len(env.fired) == 1 {
		verifAssert(env.fired[0].tick == a+steps2, "remove+set: fires d2/I ticks after the new set")
		verifAssert(env.fired[0].val == 2, "remove+set: fires with the new value")
		verifReach("removed-set-again")
	}
}

// H10d: two keys; Drain hands every still-pending task exactly once to the
// drain function, and none of them fires later.
func Verif_C10_drain() {
	c := verifCase(verifParam("maxSlots") * 6) // (slots-1, pre-drain op)
	n := c/6 + 1
	I := time.Duration(verifParam("interval"))
	env := verifNewWheel(n, I)
	env.w.tickedPos = verifChoose("phase", n)
	d1, steps1 := verifDelay("d1", n, I)
	d2, steps2 := verifDelay("d2", n, I)
	env.w.setTask(&timingEntry{baseEntry: baseEntry{delay: d1, key: "a"}, value: 1})
	env.w.setTask(&timingEntry{baseEntry: baseEntry{delay: d2, key: "b"}, value: 2})
	a := verifChoose("advance", verifParam("maxRev")*n+1)
	env.ticks(a)
	firedA, firedB := env.firedCount("a"), env.firedCount("b")
	verifAssert(firedA == verifIte(steps1 <= a, 1, 0), "drain: a fired before the drain iff its tick has passed")
	verifAssert(firedB == verifIte(steps2 <= a, 1, 0), "drain: b fired before the drain iff its tick has passed")
	// optionally remove a / move b / re-set b right before the drain (moved
	// and removed entries leave tombstones in the slots)
	op := c % 6
	wantA, wantB, valA, valB := 1-firedA, 1-firedB, 1, 2
	switch op {
	case 1:
		env.w.removeTask("a")
		wantA = 0
	case 2:
		d3, _ := verifDelay("d3", n, I)
		env.w.moveTask(baseEntry{delay: d3, key: "b"})
	case 3:
		d3, _ := verifDelay("d3", n, I)
		env.w.setTask(&timingEntry{baseEntry: baseEntry{delay: d3, key: "b"}, value: 3})
		wantB, valB = 1, 3
	case 4: // remove a, then set it again with another value: the removed generation must not be drained
		env.w.removeTask("a")
		d3, _ := verifDelay("d3", n, I)
		env.w.setTask(&timingEntry{baseEntry: baseEntry{delay: d3, key: "a"}, value: 4})
		wantA, valA = 1, 4
	case 5: // move b, then re-set it with another value
		d3, _ := verifDelay("d3", n, I)
		env.w.moveTask(baseEntry{delay: d3, key: "b"})
		d4, _ := verifDelay("d4", n, I)
		env.w.setTask(&timingEntry{baseEntry: baseEntry{delay: d4, key: "b"}, value: 3})
		wantB, valB = 1, 3
	}
	var drained []verifFire
	env.w.drainAll(func(k, v any) { drained = append(drained, verifFire{k, v, 0}) })
	verifYield()
	da, db := 0, 0
	for _, f := range drained {
		if f.key == "a" {
			da++
			verifAssert(f.val == valA, "drain: a drained with its most recent value")
		}
		if f.key == "b" {
			db++
			verifAssert(f.val == valB, "drain: b drained with its most recent value")
		}
	}
	verifAssert(da == wantA, "drain: a is handed over exactly once iff it is still pending (not fired, not removed)")
	verifAssert(db == wantB, "drain: b is handed over exactly once iff it is still pending")
	env.ticks(verifParam("maxRev")*n + 2)
	verifAssert(env.firedCount("a") == firedA && env.firedCount("b") == firedB, "drain: nothing fires after the drain")
	verifReach("drained")
}

// two independent keys: each fires exactly once at its own tick.
func Verif_C10_twokeys() {
	n := verifCase(verifParam("maxSlots")) + 1
	I := time.Duration(verifParam("interval"))
	env := verifNewWheel(n, I)
	env.w.tickedPos = verifChoose("phase", n)
	d1, steps1 := verifDelay("d1", n, I)
	env.w.setTask(&timingEntry{baseEntry: baseEntry{delay: d1, key: "a"}, value: 1})
	a := verifChoose("advance", 2)
	env.ticks(a)
	d2, steps2 := verifDelay("d2", n, I)
	env.w.setTask(&timingEntry{baseEntry: baseEntry{delay: d2, key: "b"}, value: 2})
	env.ticks(verifParam("maxRev")*n + 2)
	verifAssert(len(env.fired) == 2, "two keys: both fire, each exactly once")
	verifAssert(env.firedCount("a") == 1 && env.firedCount("b") == 1, "two keys: each key fires exactly once (also when both are due in the same tick)")
	if steps1 == a+steps2 {
		verifReach("same-tick")
	}
	for _, f := range env.fired {
		if f.key == "a" {
			verifAssert(f.tick == steps1 && f.val == 1, "two keys: a fires at its tick with its value")
		} else {
			verifAssert(f.key == "b" && f.tick == a+steps2 && f.val == 2, "two keys: b fires at its tick with its value")
		}
	}
	verifReach("both")
}

// ---- H10e: the public API through the real run loop and channels ----

type verifTicker struct{ c chan time.Time }

func (t *verifTicker) Chan() <-chan time.Time { return t.c }
func (t *verifTicker) Stop()                  {}

func Verif_C10_api() {
	n := verifParam("apiSlots")
	I := time.Duration(verifParam("interval"))
	var fired []verifFire
	tick := 0
	tk := &verifTicker{c: make(chan time.Time)}
	w, err := newTimingWheelWithClock(I, n, func(k, v any) { fired = append(fired, verifFire{k, v, tick}) }, tk)
	verifAssert(err == nil && w != nil, "api: wheel is created")
	doTick := func() {
		tick++
		tk.c <- time.Time{}
		verifYield()
	}
	// invalid arguments: ErrArgument, no side effect
	bad := time.Duration(verifInt64("bad"))
	verifAssume(bad <= 0)
	verifAssume(bad >= -1000)
	verifAssert(w.SetTimer(nil, 1, I) == ErrArgument, "api: SetTimer(nil key) is ErrArgument")
	verifAssert(w.SetTimer("x", 1, bad) == ErrArgument, "api: SetTimer(non-positive delay) is ErrArgument")
	verifAssert(w.MoveTimer(nil, I) == ErrArgument, "api: MoveTimer(nil key) is ErrArgument")
	verifAssert(w.MoveTimer("x", bad) == ErrArgument, "api: MoveTimer(non-positive delay) is ErrArgument")
	verifAssert(w.RemoveTimer(nil) == ErrArgument, "api: RemoveTimer(nil key) is ErrArgument")
	// a valid timer through the API
	d, steps := verifDelay("d", n, I)
	verifAssert(w.SetTimer("a", 7, d) == nil, "api: SetTimer succeeds")
	verifYield()
	total := verifParam("maxRev")*n + 2
	for i := 0; i < total; i++ {
		doTick()
	}
	verifAssert(len(fired) == 1, "api: exactly the valid timer fires, exactly once (invalid calls had no effect)")
	if len(fired) == 1 {
		verifAssert(fired[0].key == "a" && fired[0].val == 7 && fired[0].tick == steps, "api: fires at tick floor(d/I) with its value")
	}
	// after Stop every operation reports ErrClosed
	w.Stop()
	verifYield() // let the run loop observe the stop
	verifAssert(w.SetTimer("b", 1, I) == ErrClosed, "api: SetTimer after Stop is ErrClosed")
	verifAssert(w.MoveTimer("b", I) == ErrClosed, "api: MoveTimer after Stop is ErrClosed")
	verifAssert(w.RemoveTimer("b") == ErrClosed, "api: RemoveTimer after Stop is ErrClosed")
	verifAssert(w.Drain(func(k, v any) {}) == ErrClosed, "api: Drain after Stop is ErrClosed")
	verifReach("stopped")
}

// H10g: operations on a key while the callback of its previous firing is still
// running (slow execute function). The key is set again during the callback;
// afterwards it is left alone, removed, or moved. The new timer must behave
// like any other: fire exactly once at its own tick with the new value, never
// fire after RemoveTimer, follow MoveTimer.
func Verif_C10_refire() {
	n := verifParam("apiSlots")
	I := time.Duration(verifParam("interval"))
	var fired []verifFire
	tick := 0
	gate := make(chan struct{})
	tk := &verifTicker{c: make(chan time.Time)}
	w, err := newTimingWheelWithClock(I, n, func(k, v any) {
		fired = append(fired, verifFire{k, v, tick})
		if v == 1 {
			<-gate // the first firing's callback is slow
		}
	}, tk)
	verifAssert(err == nil, "refire: wheel is created")
	doTick := func() {
		tick++
		tk.c <- time.Time{}
		verifYield()
	}
	verifAssert(w.SetTimer("k", 1, I) == nil, "refire: first SetTimer succeeds")
	verifYield()
	doTick() // k fires; its callback now blocks on the gate
	verifAssert(len(fired) == 1 && fired[0].val == 1, "refire: the first timer fired at its tick")
	d, steps := verifDelay("d", n, I)
	verifAssert(w.SetTimer("k", 2, d) == nil, "refire: SetTimer during the callback succeeds")
	verifYield()
	close(gate) // the slow callback returns
	verifYield()
	setTick := tick
	op := verifChoose("afterwards", 3)
	wantTick := setTick + steps
	switch op {
	case 1:
		verifAssert(w.RemoveTimer("k") == nil, "refire: RemoveTimer succeeds")
		verifYield()
	case 2:
		d2, steps2 := verifDelay("d2", n, I)
		verifAssert(w.MoveTimer("k", d2) == nil, "refire: MoveTimer succeeds")
		verifYield()
		wantTick = setTick + steps2
	}
	total := verifParam("maxRev")*n + 2
	for i := 0; i < total; i++ {
		doTick()
	}
	if op == 1 {
		verifAssert(len(fired) == 1, "refire: a removed task never fires, also when its key was re-set while the previous firing's callback was running")
		verifReach("refire-removed")
	} else {
		verifAssert(len(fired) == 2, "refire: the re-set task fires exactly once")
		if len(fired) == 2 {
			verifAssert(fired[1].val == 2 && fired[1].tick == wantTick, "refire: it fires at its own tick with the new value")
		}
		verifReach("refire-fired")
	}
	w.Stop()
	verifYield()
}
