package internal

// H15e: one etcd cluster monitored under SEVERAL prefixes (subscribers of
// different services sharing the registry).  After a connection loss the reload
// must cover every monitored prefix: each prefix is loaded and watched again
// exactly once, and every subscriber's view equals the live key set of ITS
// prefix, whatever changed while the watch was down.  Uses the stubs of
// h15_cluster.go (load = handleChanges(model snapshot of that prefix)).
func Verif_C15_prefixes() {
	np := verifParam("prefixes")
	prefixes := []string{"svc", "job", "web"}[:np]
	// model: per prefix two keys <prefix>/1, <prefix>/2, each present or not
	present := make([][2]bool, np)
	val := func(p, i int) string { return prefixes[p] + "-" + string(rune('a'+i)) }
	verifSnapshotFor = func(prefix string) []KV {
		var kvs []KV
		for p, name := range prefixes {
			if name != prefix {
				continue
			}
			for i := 0; i < 2; i++ {
				if present[p][i] {
					kvs = append(kvs, KV{Key: name + "/" + string(rune('1'+i)), Val: val(p, i)})
				}
			}
		}
		return kvs
	}
	defer func() { verifSnapshotFor = nil }()
	same := func(p int, m map[string]string) bool {
		n := 0
		for i := 0; i < 2; i++ {
			v, ok := m[prefixes[p]+"/"+string(rune('1'+i))]
			if present[p][i] {
				n++
				if !ok || v != val(p, i) {
					return false
				}
			} else if ok {
				return false
			}
		}
		return len(m) == n
	}
	setAll := func(tag string) {
		for p := range present {
			m := verifChoose(tag, 4)
			present[p] = [2]bool{m&1 != 0, m&2 != 0}
		}
	}

	eps := []string{"etcd:2379"}
	setAll("initial")
	views := make([]*verifView, np)
	for p := range prefixes {
		views[p] = &verifView{m: map[string]string{}}
		verifAssert(GetRegistry().Monitor(eps, prefixes[p], views[p]) == nil, "Monitor succeeds")
		verifAssert(same(p, views[p].m), "initial load: the view equals the live key set of its prefix")
	}
	c, _ := GetRegistry().getCluster(eps)

	rounds := verifParam("reloads")
	for r := 0; r < rounds; r++ {
		setAll("missed") // connection lost: anything may change unseen under every prefix
		verifYield()     // the watch goroutines started so far have entered their (stub) watch
		verifLoadCalls, verifWatchCalls = nil, nil
		c.reload(verifCli{})
		c.watchGroup.Wait()
		for p, name := range prefixes {
			nl, nw := 0, 0
			for _, k := range verifLoadCalls {
				if k == name {
					nl++
				}
			}
			for _, k := range verifWatchCalls {
				if k == name {
					nw++
				}
			}
			verifAssert(nl == 1 && nw == 1, "reload loads and re-watches every monitored prefix exactly once")
			verifAssert(same(p, views[p].m), "after reload: every subscriber's view equals the live key set of its own prefix")
		}
		verifAssert(len(verifLoadCalls) == np && len(verifWatchCalls) == np, "reload touches the monitored prefixes and nothing else")
	}
	verifReach("reloaded")
}
