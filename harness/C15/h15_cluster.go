package internal

import (
	"context"

	"go.etcd.io/etcd/api/v3/mvccpb"
	clientv3 "go.etcd.io/etcd/client/v3"
	"google.golang.org/grpc"
)

// The etcd client is never reached: the three places where cluster talks to it
// are replaced at repository-level seams. Everything else (Registry.Monitor,
// getCluster, monitor, reload, handleChanges, handleWatchEvents, getCurrent)
// runs from its own code.
//
//verif:stub (*github.com/gotid/god/lib/discov/internal.cluster).getClient => verifStubGetClient
//verif:stub (*github.com/gotid/god/lib/discov/internal.cluster).load => verifStubLoad
//verif:stub (*github.com/gotid/god/lib/discov/internal.cluster).watch => verifStubWatch

// ---- model etcd: which of the keys svc/1..svc/n exist right now ----
// "Each key carries one value during its life": the value of key i is fixed
// for the whole history (publisher keys embed the lease id).

var (
	verifKeys    = []string{"svc/1", "svc/2", "svc/3"}
	verifVals    []string
	verifPresent []bool
)

const verifPrefix = "svc"

func verifSnapshot() []KV {
	var kvs []KV
	for i, p := range verifPresent {
		if p {
			kvs = append(kvs, KV{Key: verifKeys[i], Val: verifVals[i]})
		}
	}
	return kvs
}

func verifSetSubset(mask int) {
	for i := range verifPresent {
		verifPresent[i] = mask&(1<<uint(i)) != 0
	}
}

// verifCli is handed to the code under test as its EtcdClient; no method of it
// is ever called because load and watch are the stubs below.
type verifCli struct{}

func (verifCli) ActiveConnection() *grpc.ClientConn { return nil }
func (verifCli) Close() error                       { return nil }
func (verifCli) Ctx() context.Context               { return context.Background() }
func (verifCli) Get(ctx context.Context, key string, opts ...clientv3.OpOption) (*clientv3.GetResponse, error) {
	panic("verif: etcd Get reached")
}
func (verifCli) Grant(ctx context.Context, ttl int64) (*clientv3.LeaseGrantResponse, error) {
	panic("verif: etcd Grant reached")
}
func (verifCli) KeepAlive(ctx context.Context, id clientv3.LeaseID) (<-chan *clientv3.LeaseKeepAliveResponse, error) {
	panic("verif: etcd KeepAlive reached")
}
func (verifCli) Put(ctx context.Context, key, val string, opts ...clientv3.OpOption) (*clientv3.PutResponse, error) {
	panic("verif: etcd Put reached")
}
func (verifCli) Revoke(ctx context.Context, id clientv3.LeaseID) (*clientv3.LeaseRevokeResponse, error) {
	panic("verif: etcd Revoke reached")
}
func (verifCli) Watch(ctx context.Context, key string, opts ...clientv3.OpOption) clientv3.WatchChan {
	panic("verif: etcd Watch reached")
}

func verifStubGetClient(c *cluster) (EtcdClient, error) { return verifCli{}, nil }

// load = "Get the prefix, turn the response into []KV, handleChanges": the Get
// answers with the model's current key set.
func verifStubLoad(c *cluster, cli EtcdClient, key string) int64 {
	verifLoadCalls = append(verifLoadCalls, key)
	if verifSnapshotFor != nil {
		c.handleChanges(key, verifSnapshotFor(key))
		return 1
	}
	c.handleChanges(key, verifSnapshot())
	return 1
}

// harnesses with several prefixes supply the model snapshot per prefix;
// verifLoadCalls records the prefixes load was asked for, verifWatchCalls those watch was.
var (
	verifSnapshotFor func(prefix string) []KV
	verifLoadCalls   []string
	verifWatchCalls  []string
)

// watch = "feed every watch response to handleWatchEvents until done": the
// harness delivers the responses itself (verifDeliver).
func verifStubWatch(c *cluster, cli EtcdClient, key string, rev int64) {
	verifWatchCalls = append(verifWatchCalls, key)
}

// ---- model subscriber: key -> value view maintained from OnAdd/OnDelete ----

type verifView struct{ m map[string]string }

func (l *verifView) OnAdd(kv KV)    { l.m[kv.Key] = kv.Val }
func (l *verifView) OnDelete(kv KV) { delete(l.m, kv.Key) }

// verifSame: m holds exactly the present keys with their values.
func verifSame(m map[string]string) bool {
	n := 0
	for i, p := range verifPresent {
		v, ok := m[verifKeys[i]]
		if p {
			n++
			if !ok || v != verifVals[i] {
				return false
			}
		} else if ok {
			return false
		}
	}
	return len(m) == n
}

// H15a: bounded histories of delivered watch batches and of connection losses
// followed by a reload whose snapshot reflects arbitrary missed changes.
func Verif_C15_cluster() {
	nk := verifParam("keys")
	steps := verifParam("steps")
	maxBatch := verifParam("maxBatch")
	verifKeys = verifKeys[:nk]
	verifVals = make([]string, nk)
	verifPresent = make([]bool, nk)
	for i := range verifVals {
		verifVals[i] = verifStringN("val"+string(rune('1'+i)), 1)
	}
	eps := []string{"etcd:2379"}

	// first subscriber: the cluster does not exist yet; its load sees S0
	// (the case number also fixes the kind of the first step, to spread the work)
	cs := verifCase(2 << uint(nk))
	verifSetSubset(cs / 2)
	l1 := &verifView{m: map[string]string{}}
	err := GetRegistry().Monitor(eps, verifPrefix, l1)
	verifAssert(err == nil, "Monitor succeeds")
	c, _ := GetRegistry().getCluster(eps)
	verifAssert(verifSame(l1.m), "first subscriber: view equals the live key set after the initial load")
	snapshotOK := verifSame(c.values[verifPrefix])

	for s := 0; s < steps; s++ {
		kind := cs % 2
		if s > 0 {
			kind = verifChoose("step", 2)
		}
		if kind == 0 {
			// connection lost; any keys may come and go unseen; Ready again => reload
			verifSetSubset(verifChoose("snapshot", 1<<uint(nk)))
			c.reload(verifCli{})
			c.watchGroup.Wait()
			verifAssert(verifSame(l1.m), "after reload: view equals the live key set (missed puts added, missed deletes removed)")
			verifReach("reload")
		} else {
			n := 1 + verifChoose("batch", maxBatch)
			var evs []*clientv3.Event
			for j := 0; j < n; j++ {
				k := verifChoose("key", nk)
				kv := &mvccpb.KeyValue{Key: []byte(verifKeys[k]), Value: []byte(verifVals[k])}
				if verifChoose("type", 2) == 0 {
					verifPresent[k] = true
					evs = append(evs, &clientv3.Event{Type: clientv3.EventTypePut, Kv: kv})
				} else {
					verifPresent[k] = false
					evs = append(evs, &clientv3.Event{Type: clientv3.EventTypeDelete, Kv: kv})
				}
			}
			c.handleWatchEvents(verifPrefix, evs)
			verifAssert(verifSame(l1.m), "after a delivered watch batch: view equals the live key set")
			verifReach("watch")
		}
		snapshotOK = snapshotOK && verifSame(c.values[verifPrefix])
	}

	// late subscriber on the cluster that is already being watched
	l2 := &verifView{m: map[string]string{}}
	err = GetRegistry().Monitor(eps, verifPrefix, l2)
	verifAssert(err == nil, "late Monitor succeeds")
	verifAssert(verifSame(l2.m), "late subscriber immediately sees exactly the current set")
	verifAssert(verifSame(l1.m), "earlier subscriber unaffected by the late one")
	verifAssert(snapshotOK, "cluster.values (base of the next reload diff and of late subscribers) equals the live key set after every step")
	verifReach("late")
}
