package discov

import "github.com/gotid/god/lib/discov/internal"

// NewSubscriber registers its container with the registry; the registry (and
// behind it etcd) is replaced by the harness, which keeps the registered
// UpdateListener and feeds it the OnAdd/OnDelete calls the registry would make.
//
//verif:stub (*github.com/gotid/god/lib/discov/internal.Registry).Monitor => verifStubMonitor

var verifRegistered internal.UpdateListener

func verifStubMonitor(r *internal.Registry, endpoints []string, key string, l internal.UpdateListener) error {
	verifRegistered = l
	return nil
}

func verifContains(xs []string, x string) bool {
	for _, y := range xs {
		if y == x {
			return true
		}
	}
	return false
}

// H15b: subscriber-side container. Keys k1..k3, each with one value for its
// whole life; the case number picks which keys share a value and the mode.
// Model: retained = key -> value; OnAdd(k) retains k (in exclusive mode after
// dropping every other key retained under the same value: "a value is retained
// only under the most recent key that published it"); OnDelete(k) drops k.
// Values() must be the set of distinct values of the retained keys.
func Verif_C15_container() {
	nEvents := verifParam("events")
	// value pattern over (k1,k2,k3): all distinct, k1=k2, k1=k3, k2=k3, all equal
	patterns := [5][3]string{
		{"a", "b", "c"}, {"a", "a", "c"}, {"a", "b", "a"}, {"a", "b", "b"}, {"a", "a", "a"},
	}
	cs := verifCase(10)
	vals := patterns[cs/2]
	exclusive := cs%2 == 1
	keys := [3]string{"svc/1", "svc/2", "svc/3"}

	var sub *Subscriber
	var err error
	if exclusive {
		sub, err = NewSubscriber([]string{"etcd:2379"}, "svc", Exclusive())
	} else {
		sub, err = NewSubscriber([]string{"etcd:2379"}, "svc")
	}
	verifAssert(err == nil && sub != nil, "NewSubscriber succeeds")
	verifAssert(verifRegistered != nil, "NewSubscriber registers its container with the registry")
	calls1, calls2 := 0, 0
	sub.AddListener(func() { calls1++ })
	verifAssert(len(sub.Values()) == 0, "a new subscriber has no values")

	var retained [3]bool
	for e := 0; e < nEvents; e++ {
		if e == 1 {
			sub.AddListener(func() { calls2++ }) // a listener attached later
		}
		k := verifChoose("key", 3)
		b1, b2 := calls1, calls2
		if verifChoose("op", 2) == 0 {
			if exclusive {
				for j := range retained {
					if vals[j] == vals[k] {
						retained[j] = false
					}
				}
			}
			retained[k] = true
			verifRegistered.OnAdd(internal.KV{Key: keys[k], Val: vals[k]})
		} else {
			retained[k] = false
			verifRegistered.OnDelete(internal.KV{Key: keys[k], Val: vals[k]})
		}
		verifAssert(calls1 > b1, "change listener runs on every update")
		if e >= 1 {
			verifAssert(calls2 > b2, "later-attached change listener runs on every update")
		}
		// a caller that polls Values() does not read after every notification: the list read
		// after the LAST of several notifications must still reflect all of them
		if e < nEvents-1 && !verifBool("readNow") {
			verifReach("notification-not-read")
			continue
		}
		got := sub.Values()
		for j := range retained {
			if retained[j] {
				verifAssert(verifContains(got, vals[j]), "Values() contains the value of every retained key")
			}
		}
		for i, v := range got {
			found := false
			for j := range retained {
				if retained[j] && vals[j] == v {
					found = true
				}
			}
			verifAssert(found, "Values() contains only values of retained keys")
			verifAssert(!verifContains(got[:i], v), "Values() lists each value once")
		}
		again := sub.Values() // served from the snapshot cache
		verifAssert(len(again) == len(got), "repeated Values() without an update returns the same list")
		for i := range got {
			verifAssert(again[i] == got[i], "repeated Values() without an update returns the same list")
		}
		if exclusive {
			verifReach("exclusive")
		} else {
			verifReach("shared")
		}
	}
}
