package internal

import (
	"context"
	"time"

	pb "go.etcd.io/etcd/api/v3/etcdserverpb"
	"go.etcd.io/etcd/api/v3/mvccpb"
	clientv3 "go.etcd.io/etcd/client/v3"
)

//verif:model context.WithTimeout => verifLoadWithTimeout

// the request timeout never fires in this harness
func verifLoadWithTimeout(parent context.Context, d time.Duration) (context.Context, context.CancelFunc) {
	return parent, func() {}
}

// verifEtcd is the registry as the real cluster.load sees it: a Get on the
// prefix answers with the harness's current snapshot.
type verifEtcd struct {
	EtcdClient
	kvs []*mvccpb.KeyValue
	rev int64
}

func (c *verifEtcd) Ctx() context.Context { return context.Background() }
func (c *verifEtcd) Get(ctx context.Context, key string, opts ...clientv3.OpOption) (*clientv3.GetResponse, error) {
	c.rev++
	return &clientv3.GetResponse{Header: &pb.ResponseHeader{Revision: c.rev}, Kvs: c.kvs}, nil
}

type verifLoadListener struct {
	view map[string]string
	runs int
}

func (l *verifLoadListener) OnAdd(kv KV)    { l.view[kv.Key] = kv.Val; l.runs++ }
func (l *verifLoadListener) OnDelete(kv KV) { delete(l.view, kv.Key); l.runs++ }

// H15d: the REAL cluster.load (Get on the prefix, conversion of the response,
// handleChanges) against a fake registry client, for every sequence of
// snapshots over two keys — including the empty snapshot (every key expired
// while the watch was down). After each load the subscriber's view and the
// cluster's remembered values equal the snapshot.
func Verif_C15_load() {
	const prefix = "svc"
	keys := []string{"svc/1", "svc/2"}
	vals := []string{verifStringN("v1", 1), verifStringN("v2", 1)}
	c := newCluster([]string{"e1"})
	l := &verifLoadListener{view: map[string]string{}}
	c.listeners[prefix] = []UpdateListener{l}
	cli := &verifEtcd{}
	steps := verifParam("loads")
	for s := 0; s < steps; s++ {
		mask := verifChoose("snapshot", 4)
		cli.kvs = nil
		want := map[string]string{}
		for i, k := range keys {
			if mask&(1<<uint(i)) != 0 {
				cli.kvs = append(cli.kvs, &mvccpb.KeyValue{Key: []byte(k), Value: []byte(vals[i])})
				want[k] = vals[i]
			}
		}
		rev := c.load(cli, prefix)
		verifAssert(rev == cli.rev, "load returns the revision of the snapshot it processed")
		verifAssert(len(l.view) == len(want), "after a (re)load the subscriber sees exactly the snapshot's keys (also when the snapshot is empty)")
		for k, v := range want {
			got, ok := l.view[k]
			verifAssert(ok && got == v, "after a (re)load every snapshot key is in the view with its value")
		}
		verifAssert(len(c.values[prefix]) == len(want), "the cluster remembers exactly the snapshot (late subscribers are replayed from it)")
		if mask == 0 && s > 0 {
			verifReach("empty-reload")
		}
	}
	verifReach("loaded")
}
