package internal

import (
	"go.etcd.io/etcd/api/v3/mvccpb"
	clientv3 "go.etcd.io/etcd/client/v3"
)

// H15g: a connection loss + reload that arrives WHILE THE WATCH GOROUTINE IS
// INSIDE A BATCH of two events.  C15 quantifies over "any sequence of key puts
// and deletes and of connection losses followed by a reload": the reload must
// come back whatever the watch goroutine is doing at that moment, and once
// everything delivered has been processed the subscriber's view must equal the
// keys present under its prefix.
//
// The watch stream of "svc" delivers ONE response holding two events (put
// svc/1, put svc/2).  The subscriber's OnAdd of the event chosen by gateAt
// (0 = first, 1 = last event of the batch) is slow: while it runs the
// connection is lost, keys change unseen, the connection comes back and
// cluster.reload starts (in a goroutine, as cluster.watchConnState starts it);
// then the callback returns.
//   gateAt = 0: the watch goroutine still has the second event to handle
//               (handleWatchEvents takes cluster.lock for every event)
//   gateAt = 1: the batch is finished when the callback returns (baseline)
// Uses the range-honouring model etcd and the stubs of h15f_ranges.go; the real
// load / watchStream / handleWatchEvents / handleChanges / reload run.

type verifGView struct {
	verifRView
	slowKey string
	entered chan struct{}
	gate    chan struct{}
}

func (l *verifGView) OnAdd(kv KV) {
	l.verifRView.OnAdd(kv)
	if kv.Key == l.slowKey && l.entered != nil {
		e := l.entered
		l.entered = nil // only the first delivery of that key is slow
		close(e)
		<-l.gate
	}
}

func Verif_C15_reload_race() {
	f := &verifREtcd{
		rev:  1,
		keys: []string{"svc/1", "svc/2", "svc-old/9", "svcx/7"},
		vals: []string{"10.0.0.1:80", "10.0.0.2:80", "10.9.0.9:80", "10.7.0.7:80"},
	}
	f.present = make([]bool, len(f.keys))
	f.present[3] = true // the sibling service is registered all along
	verifRStore = f
	eps := []string{"etcd-reload-race:2379"}

	gateAt := verifChoose("gateAt", 2)
	entered := make(chan struct{})
	l := &verifGView{slowKey: f.keys[gateAt], entered: entered, gate: make(chan struct{})}
	l.m = map[string]string{}
	// same(prefix, view) wants a *verifRView
	view := &l.verifRView
	verifAssert(GetRegistry().Monitor(eps, "svc", l) == nil, "Monitor succeeds")
	c, _ := GetRegistry().getCluster(eps)
	f.settle(1)
	verifAssert(f.same("svc", view), "initial load: the view holds exactly the keys under svc/")

	// one watch response with two events
	f.mu.Lock()
	var resp clientv3.WatchResponse
	for i := 0; i < 2; i++ {
		f.rev++
		f.present[i] = true
		resp.Events = append(resp.Events, &clientv3.Event{Type: clientv3.EventTypePut,
			Kv: &mvccpb.KeyValue{Key: []byte(f.keys[i]), Value: []byte(f.vals[i]), ModRevision: f.rev}})
	}
	resp.Header.Revision = f.rev
	w := f.watchers[0]
	f.mu.Unlock()
	w.ch <- resp
	<-entered // the subscriber is inside its callback for event number gateAt

	// connection lost; keys come and go unseen; connection back => reload
	f.disconnect()
	m := verifChoose("missed", 4)
	f.missed([]int{3, 1, 2, 0}[m] | 8) // svc/1 and svc/2 each still there or gone; svcx/7 stays
	returned := make(chan struct{})
	go func() {
		c.reload(f)
		close(returned)
	}()
	verifYield() // reload has closed cluster.done and is waiting for the old watch goroutine
	if gateAt == 0 {
		verifReach("reload-inside-batch")
	} else {
		verifReach("reload-at-end-of-batch")
	}
	close(l.gate) // the callback returns

	ok := false
	for i := 0; i < 40 && !ok; i++ {
		verifYield()
		select {
		case <-returned:
			ok = true
		default:
		}
	}
	verifAssert(ok, "cluster.reload returns although it arrived while the watch goroutine was inside a batch of events")
	if !ok {
		return
	}
	verifReach("reload-returned")
	f.settle(1)
	verifAssert(f.same("svc", view), "after the reload: the view holds exactly the keys present under svc/")

	// the new watch stream works
	f.change(0, !f.present[0])
	f.settle(1)
	verifAssert(f.same("svc", view), "after an event on the new watch stream: the view holds exactly the keys present under svc/")
	verifReach("done")

	c.lock.Lock()
	close(c.done)
	c.lock.Unlock()
	c.watchGroup.Wait()
}
