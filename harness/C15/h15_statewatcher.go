package internal

import (
	"context"

	"google.golang.org/grpc/connectivity"
)

// verifConn is the harness's etcdConn: GetState answers with the scripted state.
type verifConn struct{ st connectivity.State }

func (c *verifConn) GetState() connectivity.State { return c.st }
func (c *verifConn) WaitForStateChange(ctx context.Context, s connectivity.State) bool {
	return true
}

// H15c: the reconnect listeners (cluster.reload in production) are notified
// exactly when the connection becomes Ready after a TransientFailure/Shutdown
// that has not been answered by a notification yet.
func Verif_C15_statewatcher() {
	n := verifParam("changes")
	w := newStateWatcher()
	calls1, calls2 := 0, 0
	w.addListener(func() { calls1++ })
	w.addListener(func() { calls2++ })
	conn := &verifConn{}
	lost := false // model: a failure was seen since the last notification
	for i := 0; i < n; i++ {
		st := verifInt("state")
		verifAssume(st >= 0)
		verifAssume(st <= 4)
		conn.st = connectivity.State(st)
		before1, before2 := calls1, calls2
		w.updateState(conn)
		want := 0
		switch conn.st {
		case connectivity.TransientFailure, connectivity.Shutdown:
			lost = true
		case connectivity.Ready:
			if lost {
				want = 1
				lost = false
				verifReach("reconnected")
			}
		}
		verifAssert(calls1-before1 == want, "first reconnect listener runs exactly on Ready-after-failure")
		verifAssert(calls2-before2 == want, "second reconnect listener runs exactly on Ready-after-failure")
	}
}
