package internal

import (
	"go.etcd.io/etcd/api/v3/mvccpb"
	clientv3 "go.etcd.io/etcd/client/v3"
)

// H15i: the cluster's notifications as an EXCLUSIVE subscriber consumes them.
// "In exclusive mode a value is retained only under the most recent key that
// published it": the container (decided against the real one in H15b) hands a
// value to whichever key announces it last.  The listener below is that
// specification.  Two keys carry the same value; one registers first, the
// other later (a watch event), so the later one is the most recent publisher.
// Then nothing happens to the keys, but the connection is lost and restored
// (a reload whose snapshot shows no change), or another subscriber joins, or
// both.  Finally the OLDER key expires.  The most recent publisher is still
// registered, so the first subscriber must still hold the value - for either
// order of the two key names.

type verifExclusive struct {
	owner map[string]string // key -> value retained under it
}

func (l *verifExclusive) OnAdd(kv KV) {
	for k, v := range l.owner {
		if v == kv.Val && k != kv.Key {
			delete(l.owner, k) // the value moves to the key that published it last
		}
	}
	l.owner[kv.Key] = kv.Val
}
func (l *verifExclusive) OnDelete(kv KV) { delete(l.owner, kv.Key) }
func (l *verifExclusive) has(v string) bool {
	for _, x := range l.owner {
		if x == v {
			return true
		}
	}
	return false
}

func Verif_C15_exclusive_reload() {
	verifKeys = []string{"svc/1", "svc/9"}
	val := verifStringN("val", 1)
	verifVals = []string{val, val}
	verifPresent = []bool{false, false}
	eps := []string{"etcd:2379"}
	older := verifCase(2) // which of the two keys registered first
	newer := 1 - older

	verifPresent[older] = true
	l1 := &verifExclusive{owner: map[string]string{}}
	err := GetRegistry().Monitor(eps, verifPrefix, l1)
	verifAssert(err == nil, "Monitor succeeds")
	c, _ := GetRegistry().getCluster(eps)
	verifAssert(l1.has(val), "the value is held after the initial load")

	put := func(k int) {
		verifPresent[k] = true
		c.handleWatchEvents(verifPrefix, []*clientv3.Event{{Type: clientv3.EventTypePut, Kv: &mvccpb.KeyValue{Key: []byte(verifKeys[k]), Value: []byte(verifVals[k])}}})
	}
	del := func(k int) {
		verifPresent[k] = false
		c.handleWatchEvents(verifPrefix, []*clientv3.Event{{Type: clientv3.EventTypeDelete, Kv: &mvccpb.KeyValue{Key: []byte(verifKeys[k]), Value: []byte(verifVals[k])}}})
	}
	put(newer) // the most recent publisher of the value
	verifAssert(l1.has(val) && len(l1.owner) == 1 && l1.owner[verifKeys[newer]] == val, "the value is retained under the most recent key that published it")

	between := verifChoose("between", 4)
	if between&1 == 1 {
		c.reload(verifCli{}) // connection lost and restored; nothing changed meanwhile
		c.watchGroup.Wait()
		verifReach("reload-without-change")
	}
	if between&2 == 2 {
		l2 := &verifExclusive{owner: map[string]string{}}
		verifAssert(GetRegistry().Monitor(eps, verifPrefix, l2) == nil, "late Monitor succeeds")
		verifAssert(l2.has(val), "the late subscriber holds the value")
		verifReach("late-joiner")
	}
	verifAssert(l1.has(val), "the value is still held")

	del(older) // the older key expires; the most recent publisher is still registered
	verifAssert(l1.has(val), "exclusive mode: the value stays while the most recent key that published it is registered (a reload without change, or another subscriber joining, does not hand it back to an older key)")

	del(newer)
	verifAssert(!l1.has(val), "the value goes when its most recent publisher goes")
	verifReach("exclusive-reload")
}
