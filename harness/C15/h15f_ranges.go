package internal

import (
	"context"
	"sync"
	"time"

	pb "go.etcd.io/etcd/api/v3/etcdserverpb"
	"go.etcd.io/etcd/api/v3/mvccpb"
	clientv3 "go.etcd.io/etcd/client/v3"
	"google.golang.org/grpc"
)

// H15f: the REAL cluster.load, cluster.watch/watchStream (select loop included),
// handleChanges, handleWatchEvents, reload and Registry.Monitor against a model
// etcd that HONOURS THE KEY RANGE (and the start revision) of every Get and
// Watch, the way a server does.  The store is shared by several services whose
// names extend each other as plain strings: the subscriber of "svc" must only
// ever see keys under "svc/", never those of "svcx" or "svc-old".
//
// Only cluster.getClient is replaced (it would dial etcd).
//
//verif:stub (*github.com/gotid/god/lib/discov/internal.cluster).getClient => verifRGetClient
//verif:model context.WithTimeout => verifRWithTimeout
//verif:model go.etcd.io/etcd/client/v3.WithRequireLeader => verifRRequireLeader

// the request timeout never fires in H15f/H15g; in H15h (verifRDeadlines) the
// context carries a deadline on the harness clock verifRClock, which a failing
// Get moves on by the request timeout it ran into
var (
	verifRDeadlines bool
	verifRClock     time.Duration
)

type verifRCtx struct {
	context.Context
	deadline time.Duration
}

func (c *verifRCtx) Err() error {
	if verifRClock >= c.deadline {
		return context.DeadlineExceeded
	}
	return c.Context.Err()
}

// a failing Get runs into its request timeout
func verifRTimeOut() {
	if verifSymbolic() {
		verifRClock += RequestTimeout
	} else {
		time.Sleep(RequestTimeout + 10*time.Millisecond)
	}
}

func verifRWithTimeout(parent context.Context, d time.Duration) (context.Context, context.CancelFunc) {
	if verifRDeadlines {
		return &verifRCtx{Context: parent, deadline: verifRClock + d}, func() {}
	}
	return parent, func() {}
}

// the model etcd ignores the context (grpc metadata only)
func verifRRequireLeader(ctx context.Context) context.Context { return ctx }

type verifRLogged struct {
	rev int64
	ev  *clientv3.Event
}

type verifRWatcher struct {
	begin, end string
	ch         chan clientv3.WatchResponse
	pending    []clientv3.WatchResponse
}

// verifREtcd: a revisioned key-value store with range reads and range watches.
type verifREtcd struct {
	mu       sync.Mutex
	rev      int64
	keys     []string // fixed universe, sorted the way the harness lists them
	vals     []string
	present  []bool
	log      []verifRLogged
	watchers []*verifRWatcher
	gets     []string // "begin|end" of every Get
	watches  []string // "begin|end" of every Watch
	failGets int      // H15h: so many of the next Get attempts run into their request timeout
	attempts int      // H15h: Get attempts seen
}

var verifRStore *verifREtcd

func verifRGetClient(c *cluster) (EtcdClient, error) { return verifRStore, nil }

// range semantics of etcd: end == "" is the single key, otherwise [begin, end)
// ("\x00" as end = everything from begin on).
func verifRIn(k, begin, end string) bool {
	if end == "" {
		return k == begin
	}
	if end == "\x00" {
		return k >= begin
	}
	return k >= begin && k < end
}

func (f *verifREtcd) ActiveConnection() *grpc.ClientConn { return nil }
func (f *verifREtcd) Close() error                       { return nil }
func (f *verifREtcd) Ctx() context.Context               { return context.Background() }
func (f *verifREtcd) Grant(ctx context.Context, ttl int64) (*clientv3.LeaseGrantResponse, error) {
	panic("verif: etcd Grant reached")
}
func (f *verifREtcd) KeepAlive(ctx context.Context, id clientv3.LeaseID) (<-chan *clientv3.LeaseKeepAliveResponse, error) {
	panic("verif: etcd KeepAlive reached")
}
func (f *verifREtcd) Put(ctx context.Context, key, val string, opts ...clientv3.OpOption) (*clientv3.PutResponse, error) {
	panic("verif: etcd Put reached")
}
func (f *verifREtcd) Revoke(ctx context.Context, id clientv3.LeaseID) (*clientv3.LeaseRevokeResponse, error) {
	panic("verif: etcd Revoke reached")
}

// Get: the range is the one clientv3 itself derives from (key, opts).
func (f *verifREtcd) Get(ctx context.Context, key string, opts ...clientv3.OpOption) (*clientv3.GetResponse, error) {
	op := clientv3.OpGet(key, opts...)
	begin, end := string(op.KeyBytes()), string(op.RangeBytes())
	if verifRDeadlines {
		// a real client refuses a request whose context has already expired
		f.attempts++
		expired := ctx.Err() != nil
		verifAssert(!expired, "every attempt of the snapshot read is made with a request timeout of its own (a retry is not issued on an already expired context)")
		if !expired && f.failGets > 0 {
			f.failGets--
			verifRTimeOut()
			return nil, context.DeadlineExceeded
		}
	}
	f.mu.Lock()
	defer f.mu.Unlock()
	f.gets = append(f.gets, begin+"|"+end)
	resp := &clientv3.GetResponse{Header: &pb.ResponseHeader{Revision: f.rev}}
	for i, k := range f.keys {
		if f.present[i] && verifRIn(k, begin, end) {
			resp.Kvs = append(resp.Kvs, &mvccpb.KeyValue{Key: []byte(k), Value: []byte(f.vals[i])})
		}
	}
	resp.Count = int64(len(resp.Kvs))
	return resp, nil
}

// Watch: events of the range from the given revision on (0 = from now); what
// lies between the start revision and now is replayed first.
func (f *verifREtcd) Watch(ctx context.Context, key string, opts ...clientv3.OpOption) clientv3.WatchChan {
	op := clientv3.OpGet(key, opts...)
	w := &verifRWatcher{
		begin: string(op.KeyBytes()),
		end:   string(op.RangeBytes()),
		ch:    make(chan clientv3.WatchResponse),
	}
	f.mu.Lock()
	defer f.mu.Unlock()
	f.watches = append(f.watches, w.begin+"|"+w.end)
	if from := op.Rev(); from > 0 {
		for _, e := range f.log {
			if e.rev >= from && verifRIn(string(e.ev.Kv.Key), w.begin, w.end) {
				w.pending = append(w.pending, verifRResponse(e))
				verifReach("replayed")
			}
		}
	}
	f.watchers = append(f.watchers, w)
	return w.ch
}

func verifRResponse(e verifRLogged) clientv3.WatchResponse {
	var resp clientv3.WatchResponse
	resp.Header.Revision = e.rev
	resp.Events = []*clientv3.Event{e.ev}
	return resp
}

// change: a publisher registers (put) or its lease expires (delete) key i.
// Deleting an absent key is not an event.  The event is queued for every live
// watcher whose range holds the key — and for no other.
func (f *verifREtcd) change(i int, put bool) {
	f.mu.Lock()
	defer f.mu.Unlock()
	if !put && !f.present[i] {
		return
	}
	f.rev++
	f.present[i] = put
	ev := &clientv3.Event{Type: clientv3.EventTypePut, Kv: &mvccpb.KeyValue{Key: []byte(f.keys[i]), ModRevision: f.rev}}
	if put {
		ev.Kv.Value = []byte(f.vals[i])
	} else {
		ev.Type = clientv3.EventTypeDelete
	}
	e := verifRLogged{rev: f.rev, ev: ev}
	f.log = append(f.log, e)
	for _, w := range f.watchers {
		if verifRIn(f.keys[i], w.begin, w.end) {
			w.pending = append(w.pending, verifRResponse(e))
		} else {
			verifReach("filtered")
		}
	}
}

// missed: the connection is down — every watch stream is gone, and keys come and
// go without anybody being told (only the next snapshot shows it).
func (f *verifREtcd) disconnect() {
	f.mu.Lock()
	f.watchers = nil
	f.mu.Unlock()
}

func (f *verifREtcd) missed(mask int) {
	f.mu.Lock()
	defer f.mu.Unlock()
	for i := range f.present {
		p := mask&(1<<uint(i)) != 0
		if p != f.present[i] {
			f.rev++
			f.present[i] = p
		}
	}
	f.log = nil // compacted / irrelevant: the next watch starts after the next snapshot
}

// settle: wait until `want` watch streams are open, then hand every queued
// response to its watcher, followed by an empty response (a progress
// notification).  The channels are unbuffered and a watcher only comes back to
// its select when it has processed the previous response, so when settle
// returns every delivered event HAS BEEN PROCESSED.
func (f *verifREtcd) settle(want int) {
	n := 0
	for i := 0; i < 40 && n < want; i++ {
		verifYield()
		f.mu.Lock()
		n = len(f.watchers)
		f.mu.Unlock()
	}
	verifAssert(n == want, "every monitored prefix has exactly one open watch stream")
	f.mu.Lock()
	ws := append([]*verifRWatcher(nil), f.watchers...)
	f.mu.Unlock()
	for _, w := range ws {
		f.mu.Lock()
		out := w.pending
		w.pending = nil
		f.mu.Unlock()
		for _, r := range out {
			w.ch <- r
		}
		w.ch <- clientv3.WatchResponse{}
	}
	// let the watchers finish the empty response and park in their select again
	// (cluster.reload waits for them while holding cluster.lock, which
	// handleWatchEvents needs: a reload that overtakes a response in flight is a
	// different matter: H15g)
	verifYield()
}

type verifRView struct {
	mu sync.Mutex
	m  map[string]string
}

func (l *verifRView) OnAdd(kv KV) {
	l.mu.Lock()
	l.m[kv.Key] = kv.Val
	l.mu.Unlock()
}
func (l *verifRView) OnDelete(kv KV) {
	l.mu.Lock()
	delete(l.m, kv.Key)
	l.mu.Unlock()
}

// same: the view holds exactly the present keys under prefix+"/" with their values.
func (f *verifREtcd) same(prefix string, l *verifRView) bool {
	f.mu.Lock()
	defer f.mu.Unlock()
	l.mu.Lock()
	defer l.mu.Unlock()
	n := 0
	p := prefix + "/"
	for i, k := range f.keys {
		under := len(k) > len(p) && k[:len(p)] == p
		v, ok := l.m[k]
		if under && f.present[i] {
			n++
			if !ok || v != f.vals[i] {
				return false
			}
		} else if ok {
			return false
		}
	}
	return len(l.m) == n
}

func Verif_C15_ranges() {
	// one registry, three services: "svc" (subscribed), and two siblings whose
	// names have "svc" as a string prefix; '-' sorts before '/', 'x' after it.
	f := &verifREtcd{
		rev:  1,
		keys: []string{"svc/1", "svc/2", "svc-old/9", "svcx/7"},
		vals: []string{"10.0.0.1:80", "10.0.0.2:80", "10.9.0.9:80", "10.7.0.7:80"},
	}
	nk := len(f.keys)
	f.present = make([]bool, nk)
	verifRStore = f
	steps := verifParam("steps")
	both := verifParam("siblingSubscriber") != 0
	eps := []string{"etcd-ranges:2379"}

	// initial registry content: one of 4 representative key sets (param
	// initialSets = 4) or any subset (16); the case number also says whether the
	// first change happens before the watch stream has been opened
	nsets := verifParam("initialSets")
	cs := verifCase(2 * nsets)
	early := cs&1 != 0
	init := cs >> 1
	if nsets == 4 {
		init = []int{0, 15, 9, 6}[init] // nothing, everything, {svc/1, svcx/7}, {svc/2, svc-old/9}
	}
	for i := range f.present {
		f.present[i] = init&(1<<uint(i)) != 0
	}

	l1 := &verifRView{m: map[string]string{}}
	verifAssert(GetRegistry().Monitor(eps, "svc", l1) == nil, "Monitor succeeds")
	verifAssert(f.same("svc", l1), "initial load: the view holds exactly the keys under svc/ (no sibling service's keys)")
	nw := 1
	var lx *verifRView
	if both {
		// the sibling service has a subscriber of its own on the same cluster
		lx = &verifRView{m: map[string]string{}}
		verifAssert(GetRegistry().Monitor(eps, "svcx", lx) == nil, "Monitor succeeds")
		verifAssert(f.same("svcx", lx), "initial load of the sibling's subscriber: exactly the keys under svcx/")
		nw = 2
	}
	c, _ := GetRegistry().getCluster(eps)
	if !early {
		f.settle(nw)
	}

	for s := 0; s < steps; s++ {
		k := verifChoose("step", 2*nk+1)
		if k < 2*nk {
			if s == 0 && early {
				verifReach("change-before-watch-open")
			}
			f.change(k/2, k%2 == 0)
			if k/2 >= 2 {
				verifReach("sibling-event")
			}
			f.settle(nw)
			verifAssert(f.same("svc", l1), "after the delivered events have been processed: the view holds exactly the keys present under svc/")
			if both {
				verifAssert(f.same("svcx", lx), "sibling's subscriber: its view holds exactly the keys present under svcx/")
			}
		} else {
			f.settle(nw)
			f.disconnect()
			// what the registry holds when the connection is back: one of the
			// representative key sets (param missedSets = 4) or any subset (16)
			m := verifChoose("missed", verifParam("missedSets"))
			if verifParam("missedSets") == 4 {
				m = []int{0, 15, 5, 10}[m] // nothing, everything, {svc/1, svc-old/9}, {svc/2, svcx/7}
			}
			f.missed(m)
			c.reload(f)
			f.settle(nw)
			verifAssert(f.same("svc", l1), "after reload: the view holds exactly the keys present under svc/")
			if both {
				verifAssert(f.same("svcx", lx), "after reload: sibling's subscriber holds exactly the keys under svcx/")
			}
			verifReach("reload")
		}
	}

	// late subscriber: replayed from cluster.values, which the watch maintains
	l2 := &verifRView{m: map[string]string{}}
	verifAssert(GetRegistry().Monitor(eps, "svc", l2) == nil, "late Monitor succeeds")
	verifAssert(f.same("svc", l2), "late subscriber immediately sees exactly the keys present under svc/")
	f.settle(nw + 1)
	verifAssert(f.same("svc", l1) && f.same("svc", l2), "both subscribers still hold exactly the keys under svc/ after the late one's watch opened")

	verifReach("done")

	// end of history: stop the watchers
	c.lock.Lock()
	close(c.done)
	c.lock.Unlock()
	c.watchGroup.Wait()
}
