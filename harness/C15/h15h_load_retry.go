package internal

import "time"

// H15h: the snapshot read (cluster.load) retried after failures.  "For any
// sequence of ... connection losses followed by a reload, including changes that
// happened while the watch was down" the views converge - also when the registry
// is still unavailable for a while after the connection is back: the first k Get
// attempts of the initial subscribe and of the reload run into their request
// timeout (k symbolic, 0..2).  Every attempt must be made with a live request
// context (the model etcd, like the real client, refuses an expired one), the
// load must come through after the failures, and the view must then equal the
// keys present under the prefix.  Contexts: engine = model of context.WithTimeout
// on the harness clock (h15f_ranges.go), a failing Get moves that clock on by the
// request timeout; native replay = the real context package with RequestTimeout
// shortened to 50 ms and failing Gets sleeping 60 ms.  Uses the model etcd of H15f.

func Verif_C15_load_retry() {
	oldTimeout := RequestTimeout
	if !verifSymbolic() {
		RequestTimeout = 50 * time.Millisecond
	}
	verifRDeadlines = true
	defer func() { RequestTimeout = oldTimeout; verifRDeadlines = false }()

	f := &verifREtcd{
		rev:  1,
		keys: []string{"svc/1", "svc/2", "svcx/7"},
		vals: []string{"10.0.0.1:80", "10.0.0.2:80", "10.7.0.7:80"},
	}
	f.present = []bool{true, verifBool("initiallyTwo"), true}
	verifRStore = f
	eps := []string{"etcd-retry:2379"}

	// initial subscribe: the first k1 snapshot reads fail
	k1 := verifChoose("failuresAtSubscribe", 3)
	f.failGets = k1
	l := &verifRView{m: map[string]string{}}
	verifAssert(GetRegistry().Monitor(eps, "svc", l) == nil, "Monitor succeeds")
	verifAssert(f.attempts == k1+1 && f.failGets == 0, "the snapshot read is retried until it first succeeds")
	verifAssert(f.same("svc", l), "initial load after failed attempts: the view holds exactly the keys under svc/")
	c, _ := GetRegistry().getCluster(eps)
	f.settle(1)

	// connection loss; svc/1 expires and svc/2 flips unseen; after the reconnect the
	// registry needs k2 more timeouts before it answers
	f.disconnect()
	f.missed(verifChoose("missed", 4)<<1 | 4) // svc/2 and svc/1 in every combination, svcx/7 stays
	k2 := verifChoose("failuresAtReload", 3)
	f.failGets = k2
	before := f.attempts
	c.reload(f)
	for i := 0; i < 40 && f.attempts < before+k2+1; i++ {
		verifYield()
	}
	verifAssert(f.attempts == before+k2+1 && f.failGets == 0, "reload: the snapshot read is retried until it first succeeds")
	f.settle(1)
	verifAssert(f.same("svc", l), "after a reload whose first snapshot reads failed: the view holds exactly the keys present under svc/")
	if k1 > 0 {
		verifReach("subscribe-retried")
	}
	if k2 > 0 {
		verifReach("reload-retried")
	}
	verifReach("done")

	// end of history: stop the watchers
	c.lock.Lock()
	close(c.done)
	c.lock.Unlock()
	c.watchGroup.Wait()
}
