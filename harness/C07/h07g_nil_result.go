package mr

// H07g: "the call returns the single value the reducer wrote (ErrReduceNoOutput
// if it wrote none)" when that single value is the nil interface value (a
// reducer reporting "nothing found"), the zero int or an empty string: writing
// once is not "wrote none", whatever the value.
func Verif_C07_nil_result() {
	api := verifCase(2) // 0 MapReduce, 1 MapReduceChan
	n := verifChoose("items", 3)
	var val any
	kind := verifChoose("value", 4)
	switch kind {
	case 0:
		val = nil
	case 1:
		val = 0
	case 2:
		val = ""
	case 3:
		val = verifInt("v")
	}
	writes := verifChoose("writes", 2) // 0: the reducer writes nothing, 1: it writes val once
	generate := func(source chan<- any) {
		for i := 0; i < n; i++ {
			source <- i
		}
	}
	mapper := func(item any, w Writer, cancel func(error)) { w.Write(item) }
	reducer := func(pipe <-chan any, w Writer, cancel func(error)) {
		for range pipe {
		}
		if writes == 1 {
			w.Write(val)
		}
	}
	var got any
	var err error
	if api == 0 {
		got, err = MapReduce(generate, mapper, reducer, WithWorkers(2))
	} else {
		source := make(chan any)
		go func() {
			generate(source)
			close(source)
		}()
		got, err = MapReduceChan(source, mapper, reducer, WithWorkers(2))
	}
	verifYield()
	if writes == 0 {
		verifAssert(got == nil && err == ErrReduceNoOutput, "a reducer that writes nothing gives ErrReduceNoOutput")
		verifReach("no-output")
		return
	}
	verifAssert(err == nil, "a reducer that wrote exactly once gives no error, whatever the value (nil, zero, empty)")
	verifAssert(got == val, "the call returns the single value the reducer wrote")
	if kind == 0 {
		verifReach("nil-result")
	}
}
