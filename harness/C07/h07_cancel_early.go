package mr

import "errors"

var verifErrCancelEarly = errors.New("cancelled by a mapper")

// H07e: cancel(err) wins over a result the reducer writes afterwards. A mapper
// calls cancel(err) while the generator is still producing (so the
// cancellation is "in flight": the error is recorded, the pipeline is not yet
// closed), then a reducer that stops early writes its result, then the
// generator finishes. The call must return that error, not the reducer's
// value. The order is forced with channels, so it replays natively.
func Verif_C07_cancel_then_early_result() {
	api := verifCase(2) // 0 MapReduce, 1 MapReduceVoid
	mapperEntered := make(chan struct{})
	reducerGo := make(chan struct{})
	genGate := make(chan struct{})
	val := verifInt("val")

	go func() { // coordinator: fixes the order of the three events
		<-mapperEntered
		verifYield() // the mapper is now inside cancel(err): error recorded, draining the source
		close(reducerGo)
		verifYield() // the reducer has written its early result
		close(genGate)
	}()

	generate := func(source chan<- any) {
		source <- 0
		<-genGate // still producing while the cancellation is in flight
		source <- 1
	}
	mapper := func(item any, w Writer, cancel func(error)) {
		if item.(int) == 0 {
			close(mapperEntered)
			cancel(verifErrCancelEarly)
		}
	}
	var got any
	var err error
	if api == 0 {
		got, err = MapReduce(generate, mapper, func(pipe <-chan any, w Writer, cancel func(error)) {
			<-reducerGo
			w.Write(val) // first result wins: the reducer stops early
		}, WithWorkers(1))
		verifAssert(err == verifErrCancelEarly && got == nil, "cancel(err) makes the call return that error, also when the reducer writes a result after the cancel")
	} else {
		err = MapReduceVoid(generate, mapper, func(pipe <-chan any, cancel func(error)) {
			<-reducerGo
		}, WithWorkers(1))
		verifAssert(err == verifErrCancelEarly, "cancel(err) makes the void call return that error")
	}
	verifYield()
	verifReach("cancel-early")
}
