package mr

import "context"

// H07h: a cancel(err) is in flight (error recorded, still draining the source
// of a generator that has not returned) when the context becomes done.  The
// statement does not say which of the two wins, but "in every case the call
// returns" and only a panic raised by the generator, a mapper or the reducer
// may come out of it: the outcome must be the cancel error or
// context.DeadlineExceeded, never a panic.  Order forced with channels.
func Verif_C07_cancel_then_ctx() {
	api := verifCase(2) // 0 MapReduce, 1 MapReduceVoid
	entered := make(chan struct{})
	genGate := make(chan struct{})
	ctx, stop := context.WithCancel(context.Background())

	go func() { // coordinator
		<-entered
		verifYield() // the mapper is inside cancel(err): error recorded, draining the source
		stop()       // the context is done while the cancel is still in progress
		verifYield()
		verifYield()
		close(genGate)
	}()

	generate := func(source chan<- any) {
		source <- 0
		<-genGate // the generator stays alive: the cancel cannot finish yet
	}
	mapper := func(item any, w Writer, cancel func(error)) {
		close(entered)
		cancel(verifErrCancelEarly)
	}
	var err error
	var got any
	_, panicked := verifExpectPanic(func() {
		if api == 0 {
			got, err = MapReduce(generate, mapper, func(pipe <-chan any, w Writer, cancel func(error)) {
				for range pipe {
				}
				w.Write(1)
			}, WithWorkers(1), WithContext(ctx))
		} else {
			err = MapReduceVoid(generate, mapper, func(pipe <-chan any, cancel func(error)) {
				for range pipe {
				}
			}, WithWorkers(1), WithContext(ctx))
		}
	})
	verifYield()
	verifAssert(!panicked, "no panic comes out of the call when nobody raised one (a done context meeting a cancel in progress)")
	verifAssert(got == nil && (err == verifErrCancelEarly || err == context.DeadlineExceeded), "the call returns the cancel error or context.DeadlineExceeded")
	verifReach("cancel-then-ctx")
}
