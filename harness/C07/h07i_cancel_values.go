package mr

import "errors"

// H07i: cancel(err) makes the call return THAT error for every non-nil error
// value, whatever its dynamic type - also an error interface holding a nil
// pointer (`var e *MyErr; cancel(e)`: a non-nil error to Go, and to the
// `err != nil` test inside cancel) and a struct-valued error; only the nil
// interface becomes ErrCancelWithNil.  From a mapper or from the reducer, through
// MapReduce, MapReduceVoid and Finish (whose functions' errors are passed to cancel).

type verifPtrErr struct{ msg string }

func (e *verifPtrErr) Error() string {
	if e == nil {
		return "nil *verifPtrErr"
	}
	return e.msg
}

type verifValErr struct{ code int }

func (e verifValErr) Error() string { return "value error" }

var verifErrPlain = errors.New("plain error")

func Verif_C07_cancel_values() {
	api := verifCase(3) // 0 MapReduce, 1 MapReduceVoid, 2 Finish
	var nilPtr *verifPtrErr
	kinds := []error{verifErrPlain, &verifPtrErr{"ptr"}, nilPtr, verifValErr{7}, nil}
	k := verifChoose("errorValue", len(kinds))
	e := kinds[k]
	want := e
	if k == len(kinds)-1 {
		want = ErrCancelWithNil
	}
	fromReducer := api != 2 && verifBool("fromReducer")

	generate := func(source chan<- any) { source <- 1 }
	mapper := func(item any, w Writer, cancel func(error)) {
		if !fromReducer {
			cancel(e)
			return
		}
		w.Write(item)
	}
	var got any
	var err error
	switch api {
	case 0:
		got, err = MapReduce(generate, mapper, func(pipe <-chan any, w Writer, cancel func(error)) {
			for range pipe {
			}
			if fromReducer {
				cancel(e)
				return
			}
			w.Write(1)
		}, WithWorkers(1))
		verifAssert(got == nil, "a cancelled call returns no value")
	case 1:
		err = MapReduceVoid(generate, mapper, func(pipe <-chan any, cancel func(error)) {
			for range pipe {
			}
			if fromReducer {
				cancel(e)
			}
		}, WithWorkers(1))
	default:
		if k == len(kinds)-1 {
			return // a function returning nil is success for Finish, not a cancel
		}
		err = Finish(func() error { return nil }, func() error { return e })
	}
	verifAssert(err == want, "cancel(err) makes the call return that error (only the nil interface becomes ErrCancelWithNil), whatever the error's dynamic type")
	verifAssert(err != nil, "a cancelled call never reports success")
	if k == 2 {
		verifReach("nil-pointer-error")
	}
	if k == len(kinds)-1 {
		verifReach("nil-interface")
	}
	verifYield()
}
