package mr

import (
	"runtime"
	"sync"
)

// H07d: ForEach, Finish and FinishVoid (thin layers over the same pipeline).

type verifFE struct {
	mu          sync.Mutex
	n           int
	beh         [3]int // 0 normal, 1 fails (Finish: returns its error; otherwise panics), 2 panics
	vals        [3]int
	genPanic    bool
	ran         [3]int
	running     int
	maxRunning  int
	intact      bool
	foreign     bool
	genReturned bool
	returned    bool
	raised      []error
}

func (e *verifFE) raise(v error) {
	e.mu.Lock()
	e.raised = append(e.raised, v)
	e.mu.Unlock()
	panic(v)
}

func (e *verifFE) enter(id int) {
	e.mu.Lock()
	e.ran[id]++
	e.running++
	if e.running > e.maxRunning {
		e.maxRunning = e.running
	}
	e.mu.Unlock()
	verifYield()
}

func (e *verifFE) leave() {
	e.mu.Lock()
	e.running--
	e.mu.Unlock()
}

func (e *verifFE) generate(source chan<- any) {
	defer func() {
		e.mu.Lock()
		e.genReturned = true
		e.mu.Unlock()
	}()
	for i := 0; i < e.n; i++ {
		if e.genPanic && i == 1 {
			e.raise(verifPanicGenerate)
		}
		source <- verifItem{id: i, val: e.vals[i]}
	}
	if e.genPanic && e.n <= 1 {
		e.raise(verifPanicGenerate)
	}
}

func (e *verifFE) each(item any) {
	it, ok := item.(verifItem)
	if !ok || it.id < 0 || it.id >= e.n {
		e.mu.Lock()
		e.foreign = true
		e.mu.Unlock()
		return
	}
	e.enter(it.id)
	defer e.leave()
	e.mu.Lock()
	e.intact = verifAnd(e.intact, it.val == e.vals[it.id])
	e.mu.Unlock()
	if e.beh[it.id] != 0 {
		e.raise(verifPanicMapper[it.id])
	}
}

func Verif_C07_foreach() {
	mw := verifParam("maxW")
	c := verifCase(mw + 2)
	e := &verifFE{intact: true}
	e.n = verifChoose("n", verifParam("maxN")+1)
	behs := 2
	if c == mw { // Finish: nil / error / panic
		behs = 3
	}
	fails, panics := false, false
	for i := 0; i < e.n; i++ {
		e.vals[i] = verifInt("item")
		e.beh[i] = verifChoose("fn", behs)
		fails = fails || e.beh[i] == 1 && c == mw
		panics = panics || e.beh[i] == 2 || e.beh[i] == 1 && c != mw
	}
	if fails && panics {
		return // an error together with a panic: the mixed case, see H07c
	}
	if c < mw {
		e.genPanic = verifChoose("generator", 2) == 1
		panics = panics || e.genPanic
	} else {
		e.genReturned = true // the generator is Finish's own
	}
	base := runtime.NumGoroutine()
	var err error
	var pv any
	var panicked bool
	go func() {
		pv, panicked = verifExpectPanic(func() {
			switch {
			case c < mw:
				cfg := c + 1
				if cfg == 1 { // a configured worker count below the minimum means one mapper at a time
					cfg = []int{1, 0, -3}[verifChoose("configuredWorkers", 3)]
				}
				ForEach(e.generate, e.each, WithWorkers(cfg))
			case c == mw:
				fns := make([]func() error, e.n)
				for i := range fns {
					i := i
					fns[i] = func() error {
						e.enter(i)
						defer e.leave()
						switch e.beh[i] {
						case 1:
							return verifErrItem[i]
						case 2:
							e.raise(verifPanicMapper[i])
						}
						return nil
					}
				}
				err = Finish(fns...)
			default:
				fns := make([]func(), e.n)
				for i := range fns {
					i := i
					fns[i] = func() {
						e.enter(i)
						defer e.leave()
						if e.beh[i] != 0 {
							e.raise(verifPanicMapper[i])
						}
					}
				}
				FinishVoid(fns...)
			}
		})
		e.mu.Lock()
		e.returned = true
		e.mu.Unlock()
	}()
	verifSettle(func() bool {
		e.mu.Lock()
		defer e.mu.Unlock()
		return e.returned && e.genReturned && runtime.NumGoroutine() <= base
	})
	e.mu.Lock()
	defer e.mu.Unlock()
	verifAssert(e.returned, "the call returns")
	if !e.returned {
		return
	}
	verifAssert(e.genReturned, "the generator goroutine started by the call is not left blocked on the source")
	if e.genReturned {
		verifAssert(runtime.NumGoroutine() <= base, "no goroutine started by the call is left running once the generator has returned")
	}
	verifAssert(!e.foreign, "the mapper only sees generated items")
	verifAssert(e.intact, "items arrive unchanged")
	workers := e.n // Finish / FinishVoid: one worker per function
	if c < mw {
		workers = c + 1
	}
	if e.n > 0 {
		verifAssert(e.maxRunning <= workers, "no more than the configured number of mappers run at the same time")
	}
	if e.maxRunning > 1 && e.maxRunning == workers {
		verifReach("overlap")
	}
	switch {
	case panics:
		isPanic := false
		for _, r := range e.raised {
			if panicked && pv == any(r) {
				isPanic = true
			}
		}
		verifAssert(isPanic, "a panic in the generator or a mapper is re-raised in the calling goroutine")
		verifReach("panic")
	case fails:
		verifAssert(!panicked, "no panic without a panic")
		won := false
		for i := 0; i < e.n; i++ {
			if e.beh[i] == 1 && e.ran[i] == 1 && err == verifErrItem[i] {
				won = true
			}
		}
		verifAssert(won, "Finish returns the error of a function that failed")
		verifReach("finish-error")
	default:
		verifAssert(!panicked && err == nil, "without failures the call returns normally")
		for i := 0; i < e.n; i++ {
			verifAssert(e.ran[i] == 1, "every generated item is passed to the mapper exactly once")
		}
		verifReach("all-done")
	}
}
