package mr

import "errors"

var (
	verifErrFirst  = errors.New("first cancel")
	verifErrSecond = errors.New("second cancel")
)

// H07f: the first cancel wins. Two mappers cancel with DIFFERENT errors; the
// second cancel arrives while the first is still in flight (its error is
// recorded, it is draining the source of a generator that has not returned
// yet, the pipeline is not closed). The call must return the first error.
// The order is forced with channels and yields, so it replays natively.
func Verif_C07_first_cancel_wins() {
	api := verifCase(2) // 0 MapReduce, 1 MapReduceVoid
	firstEntered := make(chan struct{})
	genGate := make(chan struct{})

	go func() { // coordinator: lets the generator return only after both cancels were issued
		<-firstEntered
		verifYield()
		verifYield()
		verifYield()
		close(genGate)
	}()

	generate := func(source chan<- any) {
		source <- 0
		source <- 1
		<-genGate // still alive: the first cancel stays inside its drain of the source
	}
	mapper := func(item any, w Writer, cancel func(error)) {
		if item.(int) == 0 {
			close(firstEntered)
			cancel(verifErrFirst)
			return
		}
		<-firstEntered
		verifYield() // the first cancel has recorded its error by now
		cancel(verifErrSecond)
	}
	var got any
	var err error
	if api == 0 {
		got, err = MapReduce(generate, mapper, func(pipe <-chan any, w Writer, cancel func(error)) {
			for range pipe {
			}
			w.Write(1)
		}, WithWorkers(2))
		verifAssert(err == verifErrFirst && got == nil, "the first cancel wins: the call returns the error of the first cancel(err)")
	} else {
		err = MapReduceVoid(generate, mapper, func(pipe <-chan any, cancel func(error)) {
			for range pipe {
			}
		}, WithWorkers(2))
		verifAssert(err == verifErrFirst, "the first cancel wins (void form)")
	}
	verifYield()
	verifReach("two-cancels")
}
