package mr

import (
	"context"
	"errors"
	"runtime"
	"sync"
)

// C07: MapReduce — exactly-once processing, bounded workers, clean termination.
//
// The real MapReduce / MapReduceVoid / MapReduceChan run with their real
// goroutines (generator, reducer, executeMappers, one goroutine per item) on
// the engine's channel/select/sync model. The harness owns the generator, the
// mapper and the reducer; their behaviour is chosen per run, the values that
// travel through the pipeline are symbolic.

// mapper behaviours (per item)
const (
	verifMW0        = iota // write nothing
	verifMW1               // write one value
	verifMW2               // write two values
	verifMCancelErr        // cancel(err of this item)
	verifMCancelNil        // cancel(nil)
	verifMPanic            // panic
	verifMKinds
)

// reducer behaviours
const (
	verifRAll1       = iota // consume everything, write the sum once
	verifRAll0              // consume everything, write nothing
	verifRAll2              // consume everything, write twice
	verifREarly             // stop early: read at most one value, write once, return
	verifRCancel            // read at most one value, cancel(err), return
	verifRPanic             // panic at once
	verifRWritePanic        // read at most one value, write once, then panic
	verifRKinds
)

// fault kinds of a run
const (
	verifKNone   = iota // no cancel, no panic, live context
	verifKCancel        // cancel calls only
	verifKPanic         // panics only (and no result written before all mappers are done)
	verifKCtx           // context done (before the call or during it) only
	verifKMixed         // a panic together with a cancel / a done context / an early result
)

const (
	verifAPIMapReduce = iota
	verifAPIVoid
	verifAPIChan
)

type verifItem struct {
	id  int
	val int
}

type verifOut struct {
	id, k int
	val   int
}

var (
	verifErrItem       = [3]error{errors.New("item 0 failed"), errors.New("item 1 failed"), errors.New("item 2 failed")}
	verifErrReducer    = errors.New("reducer cancelled")
	verifPanicMapper   = [3]error{errors.New("mapper 0 panicked"), errors.New("mapper 1 panicked"), errors.New("mapper 2 panicked")}
	verifPanicReducer  = errors.New("reducer panicked")
	verifPanicGenerate = errors.New("generator panicked")
)

type verifSpan struct {
	err        error
	start, end int64
}

type verifMR struct {
	mu      sync.Mutex
	stamp   int64
	n       int
	workers int
	vals    [3]int // symbolic value of item i
	mbeh    [3]int
	rbeh    int
	genPanic bool
	ctxMode int // 0 live, 1 done before the call, 2 cancelled by the mapper of item 0
	ctxCancel func()
	ctxAt   int64 // stamp at which the cancellation of the context had returned (mode 2)

	mapped     [3]int
	foreign    bool // the mapper saw something that was not generated
	running    int
	maxRunning int
	written    [3][2]bool
	recv       [3][2]int
	intact     bool // every value received equals the value written (symbolic)
	sum        int  // symbolic
	genReturned bool
	returned   bool

	cancels []*verifSpan
	rwrites []*verifSpan
	rvals   []int
	raised  []error
}

func (e *verifMR) tick() int64 { e.stamp++; return e.stamp }

var verifDigit = [4]string{"0", "1", "2", "3"}


// f is the value the mapper writes as k-th output of item id.
func (e *verifMR) f(id, k int) int { return e.vals[id] + 1 + k }

func (e *verifMR) raise(v error) {
	verifTrace("panic raised: " + v.Error())
	e.mu.Lock()
	e.raised = append(e.raised, v)
	e.mu.Unlock()
	panic(v)
}

func (e *verifMR) doCancel(cancel func(error), err error) {
	e.mu.Lock()
	s := &verifSpan{err: err, start: e.tick()}
	e.cancels = append(e.cancels, s)
	e.mu.Unlock()
	verifTrace("cancel called")
	cancel(err)
	verifTrace("cancel returned")
	e.mu.Lock()
	s.end = e.tick()
	e.mu.Unlock()
}

func (e *verifMR) generate(source chan<- any) {
	defer func() {
		e.mu.Lock()
		e.genReturned = true
		e.mu.Unlock()
	}()
	for i := 0; i < e.n; i++ {
		if e.genPanic && i == 1 {
			e.raise(verifPanicGenerate)
		}
		source <- verifItem{id: i, val: e.vals[i]}
	}
	if e.genPanic && e.n <= 1 {
		e.raise(verifPanicGenerate)
	}
}

func (e *verifMR) mapper(item any, w Writer, cancel func(error)) {
	it, ok := item.(verifItem)
	e.mu.Lock()
	if !ok || it.id < 0 || it.id >= e.n {
		e.foreign = true
		e.mu.Unlock()
		return
	}
	e.mapped[it.id]++
	e.running++
	if e.running > e.maxRunning {
		e.maxRunning = e.running
	}
	e.intact = verifAnd(e.intact, it.val == e.vals[it.id])
	e.mu.Unlock()
	verifTrace("mapper starts: item " + verifDigit[it.id])
	defer func() {
		e.mu.Lock()
		e.running--
		e.mu.Unlock()
		verifTrace("mapper ends: item " + verifDigit[it.id])
	}()
	if verifParam("yield") == 1 {
		verifYield() // default schedule: mappers of other items may start meanwhile
	}
	if e.ctxMode == 2 && it.id == 0 {
		verifTrace("context is being cancelled")
		e.ctxCancel()
		e.mu.Lock()
		e.ctxAt = e.tick() // from here on the context is done for certain
		e.mu.Unlock()
	}
	switch e.mbeh[it.id] {
	case verifMW1:
		e.mwrite(w, it.id, 0)
	case verifMW2:
		e.mwrite(w, it.id, 0)
		e.mwrite(w, it.id, 1)
	case verifMCancelErr:
		e.doCancel(cancel, verifErrItem[it.id])
	case verifMCancelNil:
		e.doCancel(cancel, nil)
	case verifMPanic:
		e.raise(verifPanicMapper[it.id])
	}
}

func (e *verifMR) mwrite(w Writer, id, k int) {
	e.mu.Lock()
	e.written[id][k] = true
	e.mu.Unlock()
	w.Write(verifOut{id: id, k: k, val: e.f(id, k)})
}

func (e *verifMR) take(v any) {
	o, ok := v.(verifOut)
	e.mu.Lock()
	defer e.mu.Unlock()
	if !ok || o.id < 0 || o.id >= e.n || o.k < 0 || o.k > 1 {
		e.foreign = true
		return
	}
	verifTrace("reducer receives a value of item " + verifDigit[o.id])
	e.recv[o.id][o.k]++
	e.intact = verifAnd(e.intact, o.val == e.f(o.id, o.k))
	e.sum += o.val
}

func (e *verifMR) rwrite(w Writer, v int) {
	if w == nil { // MapReduceVoid: the reducer has no writer
		return
	}
	e.mu.Lock()
	s := &verifSpan{start: e.tick()}
	e.rwrites = append(e.rwrites, s)
	e.rvals = append(e.rvals, v)
	e.mu.Unlock()
	verifTrace("reducer writes")
	w.Write(v)
	verifTrace("reducer's write returned")
	e.mu.Lock()
	s.end = e.tick()
	e.mu.Unlock()
}

func (e *verifMR) reducer(pipe <-chan any, w Writer, cancel func(error)) {
	switch e.rbeh {
	case verifRPanic:
		e.raise(verifPanicReducer)
	case verifREarly, verifRCancel, verifRWritePanic:
		if v, ok := <-pipe; ok {
			e.take(v)
		}
		switch e.rbeh {
		case verifREarly:
			e.rwrite(w, e.sum)
		case verifRCancel:
			e.doCancel(cancel, verifErrReducer)
		case verifRWritePanic:
			e.rwrite(w, e.sum)
			e.raise(verifPanicReducer)
		}
	default:
		for v := range pipe {
			e.take(v)
		}
		switch e.rbeh {
		case verifRAll1:
			e.rwrite(w, e.sum)
		case verifRAll2:
			e.rwrite(w, e.sum)
			e.rwrite(w, e.sum+1)
		}
	}
}

type verifOutcome struct {
	val      any
	err      error
	pv       any
	panicked bool
}

func verifIsInt(v any, x int) bool {
	g, ok := v.(int)
	if !ok {
		return false
	}
	return g == x
}

// verifSettle waits for quiescence; natively (where a yield is a short sleep)
// it keeps waiting until cond holds, for a bounded time.
func verifSettle(cond func() bool) {
	verifYield()
	for i := 0; i < 40 && !cond(); i++ {
		verifYield()
	}
}

// configure draws the run's behaviours and returns their fault kind; -1 = the
// combination is a duplicate of another one or outside the statement.
func (e *verifMR) configure(api, ctxMode, rbeh int) int {
	minN := verifParam("minN")
	e.n = minN + verifChoose("n", verifParam("maxN")-minN+1)
	e.intact = true
	for i := 0; i < e.n; i++ {
		e.vals[i] = verifInt("item")
		e.mbeh[i] = verifChoose("mapper", verifMKinds)
	}
	e.rbeh = rbeh
	if rbeh < 0 {
		e.rbeh = verifChoose("reducer", verifRKinds)
	}
	if api != verifAPIChan {
		e.genPanic = verifChoose("generator", 2) == 1
	}
	e.ctxMode = ctxMode
	if ctxMode < 0 {
		e.ctxMode = verifChoose("ctx", 3)
	}
	if e.ctxMode == 2 && e.n == 0 {
		return -1
	}
	if api == verifAPIVoid && (e.rbeh == verifRAll1 || e.rbeh == verifRAll2 || e.rbeh == verifRWritePanic) {
		return -1 // no writer: same as RAll0 / REarly+panic
	}
	cancels, panics := e.rbeh == verifRCancel, e.genPanic || e.rbeh == verifRPanic || e.rbeh == verifRWritePanic
	for i := 0; i < e.n; i++ {
		cancels = cancels || e.mbeh[i] == verifMCancelErr || e.mbeh[i] == verifMCancelNil
		panics = panics || e.mbeh[i] == verifMPanic
	}
	early := e.rbeh == verifREarly || e.rbeh == verifRWritePanic
	switch {
	case panics && (cancels || e.ctxMode != 0 || early):
		return verifKMixed
	case panics:
		return verifKPanic
	case cancels && e.ctxMode != 0:
		return -1 // cancel racing a done context: the statement does not say which wins
	case cancels:
		return verifKCancel
	case e.ctxMode != 0:
		return verifKCtx
	}
	return verifKNone
}

func (e *verifMR) call(api int, ctx context.Context) (any, error) {
	// a configured worker count below the minimum means the minimum (one mapper at a time)
	cfg := e.workers
	if cfg == 1 {
		cfg = []int{1, 0, -3}[verifChoose("configuredWorkers", 3)]
		if cfg < 1 {
			verifReach("workers-below-minimum")
		}
	}
	opts := []Option{WithWorkers(cfg)}
	if ctx != nil {
		opts = append(opts, WithContext(ctx))
	}
	m := func(item any, w Writer, cancel func(error)) { e.mapper(item, w, cancel) }
	switch api {
	case verifAPIVoid:
		return nil, MapReduceVoid(e.generate, m, func(pipe <-chan any, cancel func(error)) { e.reducer(pipe, nil, cancel) }, opts...)
	case verifAPIChan:
		source := make(chan any)
		go func() {
			defer close(source)
			e.generate(source)
		}()
		return MapReduceChan(source, m, e.reducer, opts...)
	}
	return MapReduce(e.generate, m, e.reducer, opts...)
}

// run performs one call and checks the statement.
func verifMRRun(api, workers int, mixed bool, ctxMode, rbeh int) {
	e := &verifMR{workers: workers}
	kind := e.configure(api, ctxMode, rbeh)
	if kind < 0 || mixed != (kind == verifKMixed) {
		return
	}
	base := runtime.NumGoroutine()
	var ctx context.Context
	if e.ctxMode != 0 {
		ctx, e.ctxCancel = context.WithCancel(context.Background())
		if e.ctxMode == 1 {
			e.ctxCancel()
		}
	}
	var out verifOutcome
	go func() {
		out.pv, out.panicked = verifExpectPanic(func() { out.val, out.err = e.call(api, ctx) })
		verifTrace("the call returned")
		e.mu.Lock()
		e.returned = true
		e.mu.Unlock()
	}()
	verifSettle(func() bool {
		e.mu.Lock()
		defer e.mu.Unlock()
		return e.returned && e.genReturned && runtime.NumGoroutine() <= base
	})
	e.mu.Lock()
	defer e.mu.Unlock()
	if e.ctxCancel != nil {
		defer e.ctxCancel()
	}

	// In every case the call returns ...
	verifAssert(e.returned, "the call returns")
	if !e.returned {
		return
	}
	// ... and once the generator has returned nothing started by the call is left running.
	verifAssert(e.genReturned, "the generator goroutine started by the call is not left blocked on the source")
	if e.genReturned {
		verifAssert(runtime.NumGoroutine() <= base, "no goroutine started by the call is left running once the generator has returned")
	}
	verifAssert(e.maxRunning <= e.workers, "no more than the configured number of mappers run at the same time")
	if e.maxRunning == e.workers && e.workers > 1 {
		verifReach("mappers-overlap")
	}
	verifAssert(!e.foreign, "mapper and reducer only see generated items / written values")
	verifAssert(e.intact, "items and values arrive unchanged")
	for i := 0; i < e.n; i++ {
		for k := 0; k < 2; k++ {
			verifAssert(e.recv[i][k] <= 1 && (e.recv[i][k] == 0 || e.written[i][k]), "the reducer receives a written value at most once and nothing that was not written")
		}
	}

	// the possible outcomes
	w := len(e.rwrites)
	voidAPI := api == verifAPIVoid
	isVal := w >= 1 && !out.panicked && out.err == nil && verifIsInt(out.val, e.rvals[0])
	isNoOut := !out.panicked && out.val == nil && (out.err == ErrReduceNoOutput && !voidAPI || out.err == nil && voidAPI)
	isCtx := !out.panicked && out.val == nil && out.err == context.DeadlineExceeded
	isPanic, isCancel := false, false
	if out.panicked {
		for _, r := range e.raised {
			if out.pv == any(r) {
				isPanic = true
			}
		}
	}
	var firstEnd int64 // when the first cancel call to finish did so
	for _, c := range e.cancels {
		if c.end > 0 && (firstEnd == 0 || c.end < firstEnd) {
			firstEnd = c.end
		}
	}
	if !out.panicked && out.val == nil {
		for _, c := range e.cancels {
			want := c.err
			if want == nil {
				want = ErrCancelWithNil
			}
			// the first cancel wins: a call that started after another had finished cannot
			if out.err == want && (firstEnd == 0 || c.start < firstEnd) {
				isCancel = true
			}
		}
	}
	// the outcome the reducer's writes alone call for
	plain := func() bool {
		switch {
		case w == 0:
			return isNoOut
		case w == 1:
			return isVal
		}
		return out.panicked && !isPanic // writing twice panics in the caller
	}

	switch kind {
	case verifKNone:
		for i := 0; i < e.n; i++ {
			verifAssert(e.mapped[i] == 1, "without cancellation every generated item is passed to the mapper exactly once")
			if e.rbeh != verifREarly {
				for k := 0; k < 2; k++ {
					verifAssert(e.written[i][k] == (e.recv[i][k] == 1), "without cancellation every written value reaches the reducer exactly once")
				}
			}
		}
		switch {
		case w == 0:
			verifAssert(isNoOut, "a reducer that writes nothing gives ErrReduceNoOutput (nil for MapReduceVoid)")
			verifReach("no-output")
		case w == 1:
			verifAssert(isVal, "the call returns the single value the reducer wrote")
			if e.rbeh == verifRAll1 {
				want := 0
				for i := 0; i < e.n; i++ {
					switch e.mbeh[i] {
					case verifMW1:
						want += e.f(i, 0)
					case verifMW2:
						want += e.f(i, 0) + e.f(i, 1)
					}
				}
				got, ok := out.val.(int)
				verifAssert(ok && got == want, "the result is the reduction of exactly the written values")
			}
			verifReach("value")
		default:
			verifAssert(out.panicked && !isPanic, "writing twice panics in the caller")
			verifReach("double-write")
		}
	case verifKCancel:
		// a result the reducer delivered before any cancel call had finished may stand
		early := w >= 1 && (firstEnd == 0 || e.rwrites[0].start < firstEnd)
		verifAssert(isCancel || early && plain(), "cancel(err) makes the call return that error (first cancel wins, nil becomes ErrCancelWithNil)")
		if isCancel {
			verifReach("cancelled")
			if out.err == ErrCancelWithNil {
				verifReach("cancel-nil")
			}
			if len(e.cancels) > 1 {
				verifReach("cancel-twice")
			}
		}
	case verifKPanic:
		verifAssert(isPanic, "a panic in the generator, a mapper or the reducer is re-raised in the calling goroutine")
		verifReach("panic")
	case verifKCtx:
		early := e.ctxMode == 2 && w >= 1 && (e.ctxAt == 0 || e.rwrites[0].start < e.ctxAt)
		late := e.ctxMode == 2 && e.ctxAt == 0 // the cancelling mapper never ran (or has not finished cancelling)
		verifAssert(isCtx || (early || late) && plain(), "a context that is done makes the call return context.DeadlineExceeded")
		if isCtx {
			verifReach("ctx-done")
		}
	case verifKMixed:
		ok := false
		if len(e.raised) > 0 {
			ok = ok || isPanic
		}
		if len(e.cancels) > 0 {
			ok = ok || isCancel
		}
		if e.ctxMode != 0 {
			ok = ok || isCtx
		}
		ok = ok || plain()
		verifAssert(ok, "the outcome is the panic, the cancel error, DeadlineExceeded or the reducer's result")
		if len(e.raised) > 0 && len(e.cancels) == 0 && e.ctxMode == 0 {
			// nothing but panics and an early result: the result does not excuse the panic
			verifAssert(isPanic, "a panic in the generator, a mapper or the reducer is re-raised in the calling goroutine also when the reducer had already delivered its result")
			verifReach("panic-after-result")
		}
		verifReach("mixed")
	}
}

// verifMREntry fans the outermost choices out over worker processes:
// case = (api, workers[, context mode when ctxSplit = 3][, reducer when redSplit = verifRKinds]).
func verifMREntry(mixed bool) {
	mw, apis, split, rsplit := verifParam("maxW"), verifParam("apis"), verifParam("ctxSplit"), verifParam("redSplit")
	c := verifCase(apis * mw * split * rsplit)
	rbeh := -1
	if rsplit == verifRKinds {
		rbeh = c % rsplit
	}
	c /= rsplit
	api, workers, ctxMode := c/(mw*split), c/split%mw+1, -1
	if split == 3 {
		ctxMode = c % 3
	}
	verifMRRun(api, workers, mixed, ctxMode, rbeh)
}

// H07a / H07b: one fault kind per run.
func Verif_C07_mapreduce() { verifMREntry(false) }

// H07c: a panic together with a cancel, a done context or an early result.
func Verif_C07_mixed() { verifMREntry(true) }
