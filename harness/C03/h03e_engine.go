package api

import (
	"net/http"

	"github.com/gotid/god/api/router"
)

// H03e: route registration THROUGH THE SERVER (Server.AddRoutes -> engine.bindRoutes
// -> bindFeaturedRoutes -> bindRoute -> the real router).  "Registering a
// duplicate pattern, a path not starting with '/', or an unsupported method is
// rejected": a group of 2-3 routes in which one registration is bad - at any
// position of the group, in the first or the second group - makes bindRoutes
// fail, and a group of good routes binds.  The router itself is decided by
// H03a/H03b; here the engine must not lose a rejection.  Uses the pass-through
// middleware stubs of harness/C02/h02g_chain.go (the chain is C02's subject).
func Verif_C03_engine_registration() {
	bad := verifCase(5) // 0 none, 1 duplicate pattern, 2 duplicate spelled with a trailing slash, 3 unsupported method, 4 path not from root
	cfg := Config{Host: "127.0.0.1", Port: 8080}
	cfg.Name = "verif"
	srv := &Server{ng: newEngine(cfg), router: router.NewRouter()}

	good := []Route{
		{Method: http.MethodGet, Path: "/a/:id", Handler: verifGHandle},
		{Method: http.MethodPost, Path: "/a/b", Handler: verifGHandle},
		{Method: http.MethodGet, Path: "/c", Handler: verifGHandle},
	}
	var badRoute Route
	switch bad {
	case 1:
		badRoute = Route{Method: http.MethodGet, Path: "/a/:id", Handler: verifGHandle}
	case 2:
		badRoute = Route{Method: http.MethodPost, Path: "/a/b/", Handler: verifGHandle}
	case 3:
		badRoute = Route{Method: "FAKE", Path: "/d", Handler: verifGHandle}
	case 4:
		badRoute = Route{Method: http.MethodGet, Path: "x/y", Handler: verifGHandle}
	}
	// where the bad registration sits: position 0..3 of a group that also holds the three good ones
	// (for duplicates: after the route it duplicates), in the only group or in a second group
	pos := verifChoose("position", 4)
	second := verifBool("inSecondGroup")
	if bad != 0 {
		if (bad == 1 && pos < 1 || bad == 2 && pos < 2) && !second {
			return // a "duplicate" registered before its original is the original
		}
		group := append([]Route{}, good...)
		if second {
			srv.AddRoutes(good)
			group = []Route{{Method: http.MethodPut, Path: "/e", Handler: verifGHandle}, {Method: http.MethodPut, Path: "/f", Handler: verifGHandle}, {Method: http.MethodPut, Path: "/g", Handler: verifGHandle}}
		}
		withBad := append([]Route{}, group[:pos%len(group)+0]...)
		if pos >= len(group) {
			withBad = append([]Route{}, group...)
		}
		withBad = append(withBad, badRoute)
		if pos < len(group) {
			withBad = append(withBad, group[pos:]...)
		}
		srv.AddRoutes(withBad)
		if pos < len(group) {
			verifReach("bad-route-followed-by-good-ones")
		}
	} else {
		srv.AddRoutes(good)
	}
	err := srv.ng.bindRoutes(srv.router)
	if bad == 0 {
		verifAssert(err == nil, "engine: a group of distinct well-formed routes binds")
		verifReach("all-good")
		return
	}
	verifAssert(err != nil, "engine: a duplicate pattern, a path not starting with '/' or an unsupported method anywhere in a route group makes the registration fail")
	verifReach("rejected")
}
