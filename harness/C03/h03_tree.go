package search

// H03a: search.Tree against a segment-wise reference matcher.
//
// Reference semantics (DESIGN "C03", fixed up front): a path P has the
// segments split(P[1:], "/"), so "/" is the single empty segment; a pattern
// matches iff it has the same number of segments and every segment is either
// ":name" (matches any segment, also the empty one of "/") or a literal equal
// to the request segment.  Request paths are *cleaned* paths (no empty segment
// except the root), as produced by path.Clean in the router.

type verifSeg struct {
	param bool
	text  string // ":p" / ":q", or the literal text
}

type verifPat struct {
	segs   []verifSeg
	route  string
	nilIt  bool // registered with a nil item
	bad    bool // route is not from root / contains "//"
	allLit bool
}

// segment kinds: 0..maxLit = literal of that many symbolic bytes (0 only as the
// sole segment: the root "/"), maxLit+1 = ":p", maxLit+2 = ":q".
func verifMkSeg(kind, maxLit int) verifSeg {
	if kind == maxLit+1 {
		return verifSeg{param: true, text: ":p"}
	}
	if kind == maxLit+2 {
		return verifSeg{param: true, text: ":q"}
	}
	s := verifStringN("lit", kind)
	for i := 0; i < kind; i++ {
		verifAssume(s[i] != '/')
		verifAssume(s[i] < 0x80)
	}
	if kind > 0 {
		verifAssume(s[0] != ':')
	}
	return verifSeg{text: s}
}

// verifMkPat builds a well-formed pattern from segment kinds; ok=false for the
// kind tuples that are not generated (empty literal inside a longer pattern,
// the same parameter name twice).
func verifMkPat(kinds []int, maxLit int) (verifPat, bool) {
	var p verifPat
	p.allLit = true
	if kinds == nil {
		return p, false
	}
	np, nq := 0, 0
	for _, k := range kinds {
		if k == 0 && len(kinds) > 1 {
			return p, false
		}
		if k == maxLit+1 {
			np++
		}
		if k == maxLit+2 {
			nq++
		}
	}
	if np > 1 || nq > 1 {
		return p, false
	}
	for _, k := range kinds {
		sg := verifMkSeg(k, maxLit)
		if sg.param {
			p.allLit = false
		}
		p.segs = append(p.segs, sg)
		p.route += "/" + sg.text
	}
	return p, true
}

// verifDecodeShape maps a case index to a tuple of segment kinds:
// indices [0,K) one segment, [K, K+K*K) two segments, ...
func verifDecodeShape(idx, S, K int) []int {
	if idx < 0 {
		return nil
	}
	n, pow := 1, K
	for idx >= pow {
		idx -= pow
		n++
		pow *= K
	}
	if n > S {
		return nil
	}
	kinds := make([]int, n)
	for i := n - 1; i >= 0; i-- {
		kinds[i] = idx % K
		idx /= K
	}
	return kinds
}

func verifNumShapes(S, K int) int {
	t, pow := 0, 1
	for i := 0; i < S; i++ {
		pow *= K
		t += pow
	}
	return t
}

// verifBadPat: the registrations Add must reject although they are no duplicates.
func verifBadPat(kind int) verifPat {
	var p verifPat
	p.bad = true
	a := verifMkSeg(1, 1).text
	switch kind {
	case 0: // nil item with a fine route
		p.bad = false
		p.nilIt = true
		p.segs = []verifSeg{{text: a}}
		p.allLit = true
		p.route = "/" + a
	case 1:
		p.route = ""
	case 2: // first byte is not '/'
		c := verifStringN("first", 1)
		verifAssume(c[0] != '/')
		verifAssume(c[0] < 0x80)
		p.route = c + "/" + a
	case 3:
		p.route = "//"
	case 4:
		p.route = "//" + a
	case 5:
		p.route = "/" + a + "//" + a
	}
	return p
}

const verifBadKinds = 6

// reference matcher ---------------------------------------------------------

func verifMatches(p verifPat, req []string) bool {
	if len(p.segs) != len(req) {
		return false
	}
	m := true
	for j := range p.segs {
		if !p.segs[j].param {
			m = verifAnd(m, p.segs[j].text == req[j])
		}
	}
	return m
}

func verifSamePattern(a, b verifPat) bool {
	if len(a.segs) != len(b.segs) {
		return false
	}
	s := true
	for j := range a.segs {
		if a.segs[j].param != b.segs[j].param {
			return false
		}
		s = verifAnd(s, a.segs[j].text == b.segs[j].text)
	}
	return s
}

// Verif_C03_tree: R patterns of minS..S segments, one cleaned request path of minS..S segments.
func Verif_C03_tree() {
	R, S, minS, maxLit := verifParam("R"), verifParam("S"), verifParam("minS"), verifParam("maxLit")
	K := maxLit + 3
	skip := verifNumShapes(minS-1, K) // shapes with fewer than minS segments are not generated
	nShapes := verifNumShapes(S, K) - skip
	// fan-out: worker c takes the shapes c, c+nc, c+2nc, ... for pattern 0
	nc := verifParam("nc")
	c := verifCase(nc)
	if c >= nShapes {
		return
	}
	c += nc * verifChoose("shape0", (nShapes-c+nc-1)/nc)

	// pattern 0: the case; patterns 1..R-1: chosen, in non-decreasing shape
	// order (a table is a set; pattern 0 still comes in every position
	// relative to the others and every map is iterated in both orders).
	// Pattern 1 may instead be one of the registrations Add must reject.
	pats := make([]verifPat, 0, R)
	last := 0
	for i := 0; i < R; i++ {
		shape := c
		if i == 1 {
			shape = verifChoose("shape", nShapes+verifBadKinds*verifParam("bad"))
			if shape >= nShapes {
				pats = append(pats, verifBadPat(shape-nShapes))
				continue
			}
			last = shape
		} else if i > 1 {
			shape = last + verifChoose("shape", nShapes-last)
			last = shape
		}
		p, ok := verifMkPat(verifDecodeShape(shape+skip, S, K), maxLit)
		if !ok {
			return
		}
		pats = append(pats, p)
	}

	// registration: Add fails exactly for bad routes, nil items and duplicates
	t := NewTree()
	acc := make([]bool, len(pats)) // reference: pattern i is in the table
	for i, p := range pats {
		var item any
		if !p.nilIt {
			item = i + 1
		}
		err := t.Add(p.route, item)
		if p.bad || p.nilIt {
			verifAssert(err != nil, "Add rejects a route not starting with '/', containing '//' or a nil item")
			verifReach("add-bad")
			continue
		}
		dup := false
		for k := 0; k < i; k++ {
			dup = verifOr(dup, verifAnd(acc[k], verifSamePattern(pats[k], p)))
		}
		verifAssert((err != nil) == dup, "Add fails exactly for a duplicate pattern")
		acc[i] = !dup
		if err != nil {
			verifReach("add-dup")
		}
	}

	// request: a cleaned path of 1..S segments ("/" = one empty segment)
	nreq := minS + verifChoose("nreq", S-minS+1)
	req := make([]string, nreq)
	path := ""
	for j := range req {
		n := 0
		if nreq > 1 || verifChoose("root", 2) == 0 {
			n = 1 + verifChoose("reqlen", maxLit)
		}
		s := verifStringN("req", n)
		for i := 0; i < n; i++ {
			verifAssume(s[i] != '/')
			verifAssume(s[i] < 0x80)
		}
		req[j] = s
		path += "/" + s
	}

	res, ok := t.Search(path)

	any_, anyLit := false, false
	for i, p := range pats {
		m := verifAnd(acc[i], verifMatches(p, req))
		any_ = verifOr(any_, m)
		if p.allLit {
			anyLit = verifOr(anyLit, m)
		}
	}
	verifAssert(ok == any_, "Search finds an item iff some registered pattern matches segment by segment")
	if !ok {
		verifReach("notfound")
		return
	}
	idx, isInt := res.Item.(int)
	verifAssert(isInt && idx >= 1 && idx <= len(pats), "the returned item is one of the registered items")
	if !isInt || idx < 1 || idx > len(pats) {
		return
	}
	p := pats[idx-1]
	verifAssert(verifAnd(acc[idx-1], verifMatches(p, req)), "the returned item belongs to a matching pattern")
	nparams := 0
	for j, sg := range p.segs {
		if sg.param {
			nparams++
			v, has := res.Params[sg.text[1:]]
			verifAssert(has && v == req[j], "each :name is bound to the corresponding request segment")
		}
	}
	// the bindings are those of the matched pattern: nothing bound while trying an
	// alternative that was abandoned may survive in the result
	verifAssert(len(res.Params) == nparams, "only the matched pattern's :names are bound (no binding of an abandoned alternative leaks)")
	if !p.allLit {
		verifAssert(!anyLit, "an all-literal matching pattern wins over patterns with parameters")
	}
	switch {
	case nparams == 0:
		verifReach("found-literal")
	case nparams == 1:
		verifReach("found-param")
	default:
		verifReach("found-2params")
	}
}
