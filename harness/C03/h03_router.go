package router

import (
	"strings"
	"net/http"
	"net/url"

	"github.com/gotid/god/api/pathvar"
)

// H03b: patRouter (Handle / ServeHTTP / methodsAllowed / handleNotFound) on top
// of path.Clean and search.Tree, against the reference matcher of DESIGN "C03":
// the cleaned path's segments are split(P[1:], "/") ("/" = one empty segment);
// a pattern matches iff same number of segments and each is ":name" or an
// equal literal.  Literal and request bytes exclude '/', '.', and a leading ':',
// so cleaning is exercised exactly through the "//", "/./" and trailing "/"
// the harness inserts.

type verifRW struct {
	hdr   http.Header
	code  int
	wrote int
}

func (w *verifRW) Header() http.Header         { return w.hdr }
func (w *verifRW) Write(b []byte) (int, error) { w.wrote++; return len(b), nil }
func (w *verifRW) WriteHeader(c int)           { w.code = c }

type verifEnv struct {
	ran  []int
	vars map[string]string
}

// handler ids: 1..n = route i-1; -1 = custom not-found; -2 = custom not-allowed
type verifH struct {
	id  int
	env *verifEnv
}

func (h verifH) ServeHTTP(w http.ResponseWriter, r *http.Request) {
	h.env.ran = append(h.env.ran, h.id)
	h.env.vars = pathvar.Vars(r)
}

type verifSeg struct {
	param bool
	text  string
}

type verifRoute struct {
	method string
	segs   []verifSeg
	allLit bool
}

func verifByteOK(b byte) {
	verifAssume(b != '/')
	verifAssume(b != '.')
	verifAssume(b < 0x80)
}

// kinds: 0 = empty literal (only as the sole segment: "/"), 1 = one-byte literal, 2 = ":p", 3 = ":q"
const verifK = 4

// verifShapeOK: the kind tuples that are generated.  Parameter names are
// interchangeable: a pattern's first parameter is ":p", ":q" only follows a
// ":p" (sibling parameters of different names are H03a's business); the empty
// literal only as the sole segment.
func verifShapeOK(kinds []int) bool {
	if kinds == nil {
		return false
	}
	np, nq := 0, 0
	for _, k := range kinds {
		if k == 0 && len(kinds) > 1 {
			return false
		}
		if k == 2 {
			np++
		}
		if k == 3 {
			if np == 0 {
				return false
			}
			nq++
		}
	}
	return np <= 1 && nq <= 1
}

func verifMkRoute(method string, kinds []int) (verifRoute, bool) {
	r := verifRoute{method: method, allLit: true}
	if !verifShapeOK(kinds) {
		return r, false
	}
	for _, k := range kinds {
		switch k {
		case 2:
			r.segs = append(r.segs, verifSeg{true, ":p"})
			r.allLit = false
		case 3:
			r.segs = append(r.segs, verifSeg{true, ":q"})
			r.allLit = false
		default:
			s := verifStringN("lit", k)
			if k > 0 {
				verifByteOK(s[0])
				verifAssume(s[0] != ':')
			}
			r.segs = append(r.segs, verifSeg{false, s})
		}
	}
	return r, true
}

func verifDecodeShape(idx, S int) []int {
	n, pow := 1, verifK
	for idx >= pow {
		idx -= pow
		n++
		pow *= verifK
	}
	if n > S {
		return nil
	}
	kinds := make([]int, n)
	for i := n - 1; i >= 0; i-- {
		kinds[i] = idx % verifK
		idx /= verifK
	}
	return kinds
}

func verifNumShapes(S int) int {
	t, pow := 0, 1
	for i := 0; i < S; i++ {
		pow *= verifK
		t += pow
	}
	return t
}

// verifRawPath writes the segments as a raw path whose path.Clean is
// "/"+join(segs,"/"): dec 0 plain, 1 trailing "/", 2 leading "//", 3 "/./" before the last segment.
func verifRawPath(segs []string, dec int) string {
	p := ""
	for j, s := range segs {
		sep := "/"
		if dec == 2 && j == 0 {
			sep = "//"
		}
		if dec == 3 && j == len(segs)-1 {
			sep = "/./"
		}
		p += sep + s
	}
	if dec == 1 {
		p += "/"
	}
	return p
}

func verifMatches(r verifRoute, req []string) bool {
	if len(r.segs) != len(req) {
		return false
	}
	m := true
	for j := range r.segs {
		if !r.segs[j].param {
			m = verifAnd(m, r.segs[j].text == req[j])
		}
	}
	return m
}

func verifSame(a, b verifRoute) bool {
	if a.method != b.method || len(a.segs) != len(b.segs) {
		return false
	}
	s := true
	for j := range a.segs {
		if a.segs[j].param != b.segs[j].param {
			return false
		}
		s = verifAnd(s, a.segs[j].text == b.segs[j].text)
	}
	return s
}

var verifMethods = []string{http.MethodGet, http.MethodPost}

func Verif_C03_router() {
	R, S := verifParam("R"), verifParam("S")
	nShapes := verifNumShapes(S)
	// the generated (method, shape) pairs, in a fixed order
	var valid []int
	for idx := 0; idx < 2*nShapes; idx++ {
		if verifShapeOK(verifDecodeShape(idx%nShapes, S)) {
			valid = append(valid, idx)
		}
	}
	nc := verifParam("nc")
	c := verifCase(nc) // fan-out: worker c takes valid[c], valid[c+nc], ... for route 0
	if c >= len(valid) {
		return
	}
	c += nc * verifChoose("route0", (len(valid)-c+nc-1)/nc)

	routes := make([]verifRoute, 0, R)
	last := 0
	for i := 0; i < R; i++ {
		v := c
		if i > 0 { // a table is a set: routes 1.. in non-decreasing (method, shape) order
			v = last + verifChoose("route", len(valid)-last)
			last = v
		}
		idx := valid[v]
		rt, ok := verifMkRoute(verifMethods[idx/nShapes], verifDecodeShape(idx%nShapes, S))
		if !ok {
			return
		}
		routes = append(routes, rt)
	}

	env := &verifEnv{}
	pr := NewRouter().(*patRouter)
	// The three environment dimensions (how pattern 0 is written, how the
	// request path is written, default/custom fallback handlers) are combined
	// in 4 modes rather than 32: every value of each meets every table and request
	// (the 3-route tier runs modes 1 and 2 only; the 2-route tier all four).
	mode := verifParam("modeBase") + verifChoose("mode", verifParam("modes"))
	custom := mode%2 == 1
	if custom {
		pr.SetNotFoundHandler(verifH{-1, env})
		pr.SetNotAllowedHandler(verifH{-2, env})
	}
	acc := make([]bool, len(routes))
	for i, rt := range routes {
		dec := 0
		if i == 0 {
			dec = mode
		}
		segs := make([]string, len(rt.segs))
		for j := range segs {
			segs[j] = rt.segs[j].text
		}
		err := pr.Handle(rt.method, verifRawPath(segs, dec), verifH{i + 1, env})
		dup := false
		for k := 0; k < i; k++ {
			dup = verifOr(dup, verifAnd(acc[k], verifSame(routes[k], rt)))
		}
		verifAssert((err != nil) == dup, "Handle fails exactly for a duplicate (method, cleaned pattern)")
		acc[i] = !dup
		if err != nil {
			verifReach("handle-dup")
		}
	}

	// request
	rm := verifChoose("reqMethod", 3)
	method := http.MethodDelete // a method without any route
	if rm < 2 {
		method = verifMethods[rm]
	}
	nreq := 1 + verifChoose("nreq", S)
	req := make([]string, nreq)
	for j := range req {
		n := 1
		if nreq == 1 && verifChoose("root", 2) == 1 {
			n = 0
		}
		s := verifStringN("req", n)
		if n > 0 {
			verifByteOK(s[0])
		}
		req[j] = s
	}
	raw := verifRawPath(req, (mode+1)%4)
	w := &verifRW{hdr: http.Header{}}
	pr.ServeHTTP(w, &http.Request{Method: method, URL: &url.URL{Path: raw}})

	// reference
	matchM, anyLit := false, false
	other := []bool{false, false} // per verifMethods: another method with a matching pattern
	for i, rt := range routes {
		m := verifAnd(acc[i], verifMatches(rt, req))
		if rt.method == method {
			matchM = verifOr(matchM, m)
			if rt.allLit {
				anyLit = verifOr(anyLit, m)
			}
			continue
		}
		for k := range verifMethods {
			if rt.method == verifMethods[k] {
				other[k] = verifOr(other[k], m)
			}
		}
	}
	anyOther := verifOr(other[0], other[1])

	verifAssert(len(env.ran) <= 1, "at most one handler is invoked")
	routed := len(env.ran) == 1 && env.ran[0] > 0
	verifAssert(routed == matchM, "a route handler runs iff a pattern of the request method matches the cleaned path")
	if routed {
		id := env.ran[0]
		verifAssert(id <= len(routes), "the invoked handler is a registered one")
		if id > len(routes) {
			return
		}
		rt := routes[id-1]
		verifAssert(rt.method == method, "the invoked handler was registered for the request method")
		verifAssert(verifAnd(acc[id-1], verifMatches(rt, req)), "the invoked handler belongs to a matching pattern")
		np := 0
		for j, sg := range rt.segs {
			if sg.param {
				np++
				v, has := env.vars[sg.text[1:]]
				verifAssert(has && v == req[j], "each :name is bound to the corresponding segment of the cleaned path")
			}
		}
		verifAssert(len(env.vars) == np, "only the matched pattern's :names are visible to the handler (no binding of an abandoned alternative leaks)")
		if !rt.allLit {
			verifAssert(!anyLit, "an all-literal matching pattern wins over patterns with parameters")
		}
		verifAssert(w.code == 0 && len(w.hdr) == 0, "the router itself writes nothing when it dispatches")
		if np > 0 {
			verifReach("routed-param")
		} else {
			verifReach("routed-literal")
		}
		return
	}
	// no pattern of the request method matches: 405 + Allow, or 404
	var is405, is404 bool
	if custom {
		is405 = len(env.ran) == 1 && env.ran[0] == -2
		is404 = len(env.ran) == 1 && env.ran[0] == -1
	} else {
		is405 = len(env.ran) == 0 && w.code == http.StatusMethodNotAllowed
		is404 = len(env.ran) == 0 && w.code == http.StatusNotFound
	}
	verifAssert(is405 == anyOther, "405 (not-allowed handler) iff another method has a matching pattern")
	verifAssert(is404 == !anyOther, "404 (not-found handler) iff no method has a matching pattern")
	if is405 && !custom {
		allow := w.hdr.Get("Allow")
		g, p := verifMethods[0], verifMethods[1]
		hasG := allow == g || allow == g+", "+p || allow == p+", "+g
		hasP := allow == p || allow == g+", "+p || allow == p+", "+g
		verifAssert(hasG || hasP, "Allow is a ', '-separated list of methods")
		verifAssert(verifAnd(hasG == other[0], hasP == other[1]), "Allow lists exactly the other methods having a matching pattern")
		if hasG && hasP {
			verifReach("allow-two")
		}
	}
	if is405 {
		verifReach("405")
	}
	if is404 {
		verifReach("404")
	}
}

// Handle's input validation: unsupported methods and paths not starting with
// '/' are rejected, the seven supported methods are accepted.
func Verif_C03_handle() {
	env := &verifEnv{}
	pr := NewRouter().(*patRouter)
	switch verifChoose("what", 4) {
	case 3:
		// 405 + Allow for EVERY supported method: a path served under any subset of the seven
		// methods, requested with a method outside the subset
		all := []string{http.MethodDelete, http.MethodGet, http.MethodHead, http.MethodOptions,
			http.MethodPatch, http.MethodPost, http.MethodPut}
		var reg [7]bool
		n := 0
		for i, m := range all {
			if reg[i] = verifBool("registered-" + m); reg[i] {
				verifAssert(pr.Handle(m, "/a", verifH{i + 1, env}) == nil, "a supported method and a rooted path are accepted")
				n++
			}
		}
		k := verifChoose("requestMethod", 7)
		verifAssume(!reg[k])
		w := &verifRW{hdr: http.Header{}}
		pr.ServeHTTP(w, &http.Request{Method: all[k], URL: &url.URL{Path: "/a"}})
		verifAssert(len(env.ran) == 0, "no handler runs when the request method has no matching pattern")
		if n == 0 {
			verifAssert(w.code == http.StatusNotFound, "404 when no method has a matching pattern")
			return
		}
		verifAssert(w.code == http.StatusMethodNotAllowed, "405 when another method - any of the seven - has a matching pattern")
		allow := ", " + w.hdr.Get("Allow") + ","
		listed := 0
		for i, m := range all {
			has := strings.Contains(allow, ", "+m+",")
			verifAssert(has == reg[i], "Allow lists exactly the other methods having a matching pattern (all seven methods)")
			if has {
				listed++
			}
		}
		verifAssert(len(allow) == 3 || strings.Count(allow, ",") == listed+1, "Allow is a ', '-separated list without other entries")
		if reg[3] {
			verifReach("options-allowed")
		}
		verifReach("405-any-method")
	case 0:
		m := verifString("method", 7)
		for _, ok := range []string{http.MethodDelete, http.MethodGet, http.MethodHead, http.MethodOptions,
			http.MethodPatch, http.MethodPost, http.MethodPut} {
			verifAssume(m != ok)
		}
		verifAssert(pr.Handle(m, "/a", verifH{1, env}) != nil, "an unsupported method is rejected")
		verifReach("bad-method")
	case 1:
		p := verifString("path", 3)
		if len(p) > 0 {
			verifAssume(p[0] != '/')
			for i := 0; i < len(p); i++ {
				verifAssume(p[i] < 0x80)
			}
		}
		verifAssert(pr.Handle(http.MethodGet, p, verifH{1, env}) != nil, "a path not starting with '/' is rejected")
		verifReach("bad-path")
	case 2:
		for i, m := range []string{http.MethodDelete, http.MethodGet, http.MethodHead, http.MethodOptions,
			http.MethodPatch, http.MethodPost, http.MethodPut} {
			verifAssert(pr.Handle(m, "/a", verifH{i + 1, env}) == nil, "a supported method and a rooted path are accepted")
		}
		verifReach("good")
	}
}
