package executors

import (
	"sync"
	"time"

	"github.com/gotid/god/lib/timex"
)

// H16b: the real PeriodicalExecutor (through BulkExecutor / ChunkExecutor) with
// its real background flusher goroutine; the ticker and the clock belong to
// the harness.

//verif:stub github.com/gotid/god/lib/timex.Now => verifNow
//verif:stub github.com/gotid/god/lib/timex.Since => verifSince

var verifClock time.Duration

func verifNow() time.Duration                  { return verifClock }
func verifSince(t time.Duration) time.Duration { return verifClock - t }

type verifTicker struct {
	c       chan time.Time
	stopped bool
}

func (t *verifTicker) Chan() <-chan time.Time { return t.c }
func (t *verifTicker) Stop()                  { t.stopped = true }

const verifInterval = time.Second

type verifExecEnv struct {
	pe       *PeriodicalExecutor
	add      func(id int)
	tk       *verifTicker // ticker of the most recently started flusher
	flushers int          // flushers started so far
	mu       sync.Mutex
	kind     int // 0 bulk, 1 chunk
	maxTasks int
	maxBytes int
	sizes    []int // chunk: size of task id
	count    []int // how often task id was executed
	batches  int
	ordered  bool // every batch in order of addition
	bounded  bool // every batch within its bound
	known    bool // every executed task was added
	per      int  // >0: ids are dealt out per adder in blocks of this size; order is checked per adder
}

// execute is the callback of the executor under test (runs on the flusher or
// on the caller of Flush/Wait).
func (e *verifExecEnv) execute(tasks []any) {
	e.mu.Lock()
	defer e.mu.Unlock()
	e.batches++
	prev, total, last := -1, 0, 0
	prevBy := map[int]int{}
	for _, t := range tasks {
		id, ok := t.(int)
		if !ok || id < 0 || id >= len(e.count) {
			e.known = false
			continue
		}
		e.count[id]++
		if e.per > 0 {
			if p, ok := prevBy[id/e.per]; ok && id <= p {
				e.ordered = false
			}
			prevBy[id/e.per] = id
		} else if id <= prev {
			e.ordered = false
		}
		prev = id
		if e.kind == 1 {
			total += e.sizes[id]
			last = e.sizes[id]
		}
	}
	if len(tasks) == 0 {
		e.bounded = false // an empty batch is never executed
	}
	if e.kind == 0 {
		if len(tasks) > e.maxTasks {
			e.bounded = false
		}
	} else {
		e.bounded = verifAnd(e.bounded, verifOr(total < e.maxBytes, total-e.maxBytes < last))
	}
}

func verifNewExecEnv(kind int) *verifExecEnv {
	e := &verifExecEnv{kind: kind, ordered: true, bounded: true, known: true, maxTasks: 2, maxBytes: 10}
	newTicker := func(d time.Duration) timex.Ticker {
		e.tk = &verifTicker{c: make(chan time.Time, 1)}
		e.flushers++
		return e.tk
	}
	if kind == 0 {
		be := NewBulkExecutor(e.execute, WithBulkTasks(e.maxTasks), WithBulkInterval(verifInterval))
		e.pe = be.executor
		e.add = func(id int) { be.Add(id) }
	} else {
		ce := NewChunkExecutor(e.execute, WithChunkBytes(e.maxBytes), WithFlushInterval(verifInterval))
		e.pe = ce.executor
		e.add = func(id int) {
			sz := verifInt("size")
			verifAssume(sz >= 0)
			verifAssume(sz <= 6)
			e.sizes = append(e.sizes, sz)
			ce.Add(id, sz)
		}
	}
	e.pe.newTicker = newTicker
	return e
}

func (e *verifExecEnv) alive() bool { return e.tk != nil && !e.tk.stopped }

// tick: one interval passes; the tick reaches the flusher if one is running.
func (e *verifExecEnv) tick() {
	verifClock += verifInterval
	e.deliver()
	verifYield()
}

// deliver hands a tick to the running flusher's ticker, which like a real
// ticker buffers one tick and drops further ones.
func (e *verifExecEnv) deliver() {
	if e.alive() {
		select {
		case e.tk.c <- time.Time{}:
		default:
		}
	}
}

// started waits (natively: for a bounded time) until a flusher is running.
func (e *verifExecEnv) started() bool {
	verifYield()
	for i := 0; i < 40 && !e.alive(); i++ {
		verifYield()
	}
	return e.alive()
}

func (e *verifExecEnv) executed() (all bool, dup bool) {
	e.mu.Lock()
	defer e.mu.Unlock()
	all = true
	for _, c := range e.count {
		if c == 0 {
			all = false
		}
		if c > 1 {
			dup = true
		}
	}
	return
}

func (e *verifExecEnv) check(what string) {
	_, dup := e.executed()
	verifAssert(!dup, "no task is executed twice")
	verifAssert(e.known, "only added tasks are executed")
	verifAssert(e.ordered, "tasks of a batch are executed in the order they were added")
	verifAssert(e.bounded, "a bulk batch never exceeds the task count; a chunk batch exceeds the byte limit by less than its last task; no empty batch")
}

func Verif_C16_history() {
	c := verifCase(12)
	e := verifNewExecEnv(c / 6)
	steps := verifParam("steps")
	verifClock = 1000 * verifInterval
	retired := false
	for i := 0; i < steps; i++ {
		op := c % 6
		if i > 0 {
			op = verifChoose("op", 6)
		}
		switch op {
		case 0: // Add
			id := len(e.count)
			e.mu.Lock()
			e.count = append(e.count, 0)
			e.mu.Unlock()
			e.add(id)
			// the flusher (re)starts and takes over a full batch
			verifAssert(e.started(), "a flusher is running after Add")
			if retired {
				verifReach("restarted")
				retired = false
			}
		case 5: // Add directly followed by Wait
			id := len(e.count)
			e.mu.Lock()
			e.count = append(e.count, 0)
			e.mu.Unlock()
			e.add(id)
			e.pe.Wait()
			all, _ := e.executed()
			verifAssert(all, "Wait returns only after every task added before has been executed")
			verifYield()
			if retired {
				verifAssert(e.alive(), "a flusher is running after Add")
				verifReach("restarted")
				retired = false
			}
		case 1:
			e.tick()
		case 2:
			e.pe.Flush()
			verifYield()
			all, _ := e.executed()
			verifAssert(all, "after Flush every task added before has been executed")
		case 3:
			e.pe.Wait()
			all, _ := e.executed() // no yield: Wait itself must have waited
			verifAssert(all, "Wait returns only after every task added before has been executed")
			verifYield()
		case 4: // idle period: ticks until the flusher retires
			for k := 0; k < idleRound+4 && e.alive(); k++ {
				e.tick()
			}
			all, _ := e.executed()
			verifAssert(all, "after an idle period every task added before has been executed (the flusher does not retire with tasks pending)")
			if !e.alive() && e.flushers > 0 {
				retired = true
				verifReach("retired")
			}
		}
		e.check("step")
	}
	e.pe.Wait()
	all, _ := e.executed()
	verifAssert(all, "Wait returns only after every task added before has been executed")
	verifYield()
	e.check("end")
	all, dup := e.executed()
	verifAssert(all && !dup, "every added task is executed exactly once")
	verifReach("done")
}

// H16c: an adder racing the flusher's tick/quit handshake. The flusher has
// been idle for more than idleRound intervals, so the next tick makes it
// decide to retire; the tick is delivered and, without waiting for the
// flusher, one or two tasks are added. Under "sched_fork" the engine
// interleaves the two goroutines at their synchronisation operations.
func Verif_C16_race() {
	c := verifCase(4)
	e := verifNewExecEnvN(c%2 + 1)
	adds := c/2 + 1
	verifClock = 1000 * verifInterval
	newTask := func() int {
		id := len(e.count)
		e.mu.Lock()
		e.count = append(e.count, 0)
		e.mu.Unlock()
		return id
	}
	e.add(newTask())
	verifAssert(e.started(), "a flusher is running after Add")
	e.tick()
	e.tick() // whatever was added is flushed by now
	all, _ := e.executed()
	verifAssert(all, "two ticks flush what was added")
	verifAssert(e.alive(), "the flusher is still running")
	verifClock += (idleRound + 5) * verifInterval // a long idle period
	verifClock += verifInterval
	e.deliver() // the tick that makes the flusher retire ...
	for i := 0; i < adds; i++ {
		e.add(newTask()) // ... races with Add
	}
	verifYield()
	e.check("race")
	e.tick()
	e.tick()
	all, _ = e.executed()
	verifAssert(all, "no task is left behind by a retiring flusher: two more ticks flush whatever was added")
	e.pe.Wait()
	all, dup := e.executed()
	verifAssert(all && !dup, "every added task is executed exactly once, also when Add races the flusher's retirement")
	verifYield()
	e.check("end")
	if e.flushers > 1 {
		verifReach("restarted")
	}
	verifReach("done")
}

func verifNewExecEnvN(maxTasks int) *verifExecEnv {
	e := &verifExecEnv{kind: 0, ordered: true, bounded: true, known: true, maxTasks: maxTasks}
	be := NewBulkExecutor(e.execute, WithBulkTasks(maxTasks), WithBulkInterval(verifInterval))
	e.pe = be.executor
	e.add = func(id int) { be.Add(id) }
	e.pe.newTicker = func(d time.Duration) timex.Ticker {
		e.tk = &verifTicker{c: make(chan time.Time, 1)}
		e.flushers++
		return e.tk
	}
	return e
}

// H16d: two adder goroutines (each adds its tasks in order) while a tick is
// being delivered; then Wait. Under "sched_fork" the three goroutines are
// interleaved at their synchronisation operations.
func Verif_C16_two_adders() {
	c := verifCase(4)
	e := verifNewExecEnvN(c%2 + 1)
	per := c/2 + 1 // tasks per adder
	e.per = per
	e.count = make([]int, 2*per)
	verifClock = 1000 * verifInterval
	var wg sync.WaitGroup
	adder := func(k int) {
		defer wg.Done()
		for i := 0; i < per; i++ {
			e.add(k*per + i)
		}
	}
	wg.Add(2)
	go adder(0)
	go adder(1)
	if verifChoose("tickDuring", 2) == 1 {
		verifYield() // a flusher is running by now
		verifClock += verifInterval
		e.deliver()
	}
	wg.Wait()
	verifYield()
	e.check("adders done")
	e.pe.Wait()
	all, dup := e.executed()
	verifAssert(all && !dup, "every task of every adder is executed exactly once")
	verifYield()
	e.check("end")
	verifReach("done")
}

// H16e: a slow consumer. The first batch (flushed by the size/byte threshold)
// is still held by the execute function on the flusher goroutine while further
// tasks are added; the held batch must keep exactly the tasks it was given, in
// order, and every task must still be executed exactly once.
func Verif_C16_slow_consumer() {
	kind := verifCase(2) // 0 bulk (2 tasks per batch), 1 chunk (10 bytes per batch, tasks of 5 bytes)
	gate := make(chan struct{})
	entered := make(chan struct{}, 1)
	var batches [][]int
	first := true
	exec := func(tasks []any) {
		if first {
			first = false
			entered <- struct{}{}
			<-gate // the consumer is slow: it keeps its batch while more tasks arrive
		}
		b := []int{}
		for _, t := range tasks {
			id, _ := t.(int)
			b = append(b, id)
		}
		batches = append(batches, b)
	}
	var tk *verifTicker
	newTicker := func(d time.Duration) timex.Ticker {
		tk = &verifTicker{c: make(chan time.Time, 1)}
		return tk
	}
	var add func(id int)
	var pe *PeriodicalExecutor
	if kind == 0 {
		be := NewBulkExecutor(exec, WithBulkTasks(2), WithBulkInterval(verifInterval))
		pe = be.executor
		add = func(id int) { be.Add(id) }
	} else {
		ce := NewChunkExecutor(exec, WithChunkBytes(10), WithFlushInterval(verifInterval))
		pe = ce.executor
		add = func(id int) { ce.Add(id, 5) }
	}
	pe.newTicker = newTicker
	add(0)
	add(1) // threshold reached: the batch [0 1] goes to the flusher
	<-entered
	// one further task while the first batch is held (a second one would reach the
	// threshold again, and Add rightly blocks until the busy flusher takes the batch)
	extra := 1
	for i := 0; i < extra; i++ {
		add(2 + i)
	}
	verifYield()
	close(gate)
	verifYield()
	pe.Wait()
	verifYield()
	verifAssert(len(batches) >= 2, "slow consumer: the later tasks are executed too")
	if len(batches) >= 1 {
		verifAssert(len(batches[0]) == 2 && batches[0][0] == 0 && batches[0][1] == 1, "slow consumer: a batch handed to execute keeps exactly its tasks, in order, while later tasks are added")
	}
	count := make([]int, 2+extra)
	for _, b := range batches {
		for _, id := range b {
			if id >= 0 && id < len(count) {
				count[id]++
			}
		}
	}
	for id := range count {
		verifAssert(count[id] == 1, "slow consumer: every task is executed exactly once")
	}
	verifReach("slow-consumer")
}
