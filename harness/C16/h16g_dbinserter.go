package sqlx

// H16g: the bulk inserter's task container (dbInserter), the third container
// the periodical executor is used with in the anchored files.  From an
// arbitrary pending state: AddTask appends the row and asks for a flush exactly
// when maxBulkRows rows are pending; RemoveAll hands out every pending row in
// the order added and leaves none; Execute sends ONE statement that carries
// every row of the batch exactly once, in order (prefix, rows joined by ", ",
// suffix), and sends nothing for an empty batch.

import (
	"context"
	"database/sql"
)

type verifExecConn struct {
	stmts []string
}

func (c *verifExecConn) Exec(query string, args ...any) (sql.Result, error) {
	c.stmts = append(c.stmts, query)
	return nil, nil
}
func (c *verifExecConn) ExecCtx(ctx context.Context, query string, args ...any) (sql.Result, error) {
	return c.Exec(query, args...)
}
func (c *verifExecConn) Prepare(query string) (StmtSession, error) { panic("verif: unused") }
func (c *verifExecConn) PrepareCtx(ctx context.Context, query string) (StmtSession, error) {
	panic("verif: unused")
}
func (c *verifExecConn) QueryRow(v any, query string, args ...any) error { panic("verif: unused") }
func (c *verifExecConn) QueryRowCtx(ctx context.Context, v any, query string, args ...any) error {
	panic("verif: unused")
}
func (c *verifExecConn) QueryRowPartial(v any, query string, args ...any) error {
	panic("verif: unused")
}
func (c *verifExecConn) QueryRowPartialCtx(ctx context.Context, v any, query string, args ...any) error {
	panic("verif: unused")
}
func (c *verifExecConn) QueryRows(v any, query string, args ...any) error { panic("verif: unused") }
func (c *verifExecConn) QueryRowsCtx(ctx context.Context, v any, query string, args ...any) error {
	panic("verif: unused")
}
func (c *verifExecConn) QueryRowsPartial(v any, query string, args ...any) error {
	panic("verif: unused")
}
func (c *verifExecConn) QueryRowsPartialCtx(ctx context.Context, v any, query string, args ...any) error {
	panic("verif: unused")
}
func (c *verifExecConn) RawDB() (*sql.DB, error)               { panic("verif: unused") }
func (c *verifExecConn) Transact(fn func(Session) error) error { panic("verif: unused") }
func (c *verifExecConn) TransactCtx(ctx context.Context, fn func(context.Context, Session) error) error {
	panic("verif: unused")
}

func Verif_C16_dbinserter() {
	conn := &verifExecConn{}
	in := &dbInserter{conn: conn, stmt: bulkStmt{prefix: "insert into t(a) values", valueFormat: "(?)"}}
	withSuffix := verifChoose("suffix", 2) == 1
	if withSuffix {
		in.stmt.suffix = "on duplicate key update a=a"
	}
	switch verifCase(2) {
	case 0: // rows of a batch: exactly once, in order, in one statement
		n := verifChoose("rows", verifParam("maxRows")+1)
		rows := make([]string, n)
		for i := range rows {
			rows[i] = "(" + verifStringN("row", 1) + ")"
			full := in.AddTask(rows[i])
			verifAssert(!full, "a few pending rows do not ask for a flush")
		}
		batch := in.RemoveAll()
		verifAssert(len(in.values) == 0, "RemoveAll leaves no pending row")
		got, ok := batch.([]string)
		verifAssert(ok && len(got) == n, "RemoveAll hands out every pending row")
		if !ok || len(got) != n {
			return
		}
		for i := range rows {
			verifAssert(got[i] == rows[i], "the batch holds the rows in the order added")
		}
		// a row added after the batch was taken belongs to the next batch only
		in.AddTask("(late)")
		in.Execute(batch)
		if n == 0 {
			verifAssert(len(conn.stmts) == 0, "an empty batch sends no statement")
			verifReach("empty")
			return
		}
		verifAssert(len(conn.stmts) == 1, "a batch is sent as exactly one statement")
		if len(conn.stmts) != 1 {
			return
		}
		want := "insert into t(a) values "
		for i, r := range rows {
			if i > 0 {
				want += ", "
			}
			want += r
		}
		if withSuffix {
			want += " on duplicate key update a=a"
		}
		verifAssert(conn.stmts[0] == want, "the statement carries every row of the batch exactly once, in order, and nothing else")
		verifAssert(len(in.values) == 1 && in.values[0] == "(late)", "rows added after the batch was taken stay pending")
		verifReach("batch")
	case 1: // the size trigger
		for i := 0; i < maxBulkRows-2; i++ {
			in.values = append(in.values, "(x)")
		}
		verifAssert(!in.AddTask("(y)"), "maxBulkRows-1 pending rows: no flush yet")
		verifAssert(in.AddTask("(z)"), "the maxBulkRows-th row asks for a flush")
		got := in.RemoveAll().([]string)
		verifAssert(len(got) == maxBulkRows && got[maxBulkRows-2] == "(y)" && got[maxBulkRows-1] == "(z)", "the full batch holds all maxBulkRows rows in order")
		verifReach("threshold")
	}
}
