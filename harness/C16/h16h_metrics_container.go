package stat

import "time"

// H16h: the metrics container (lib/stat), the fourth TaskContainer the
// periodical executor is used with in the anchored files.  Request tasks and
// drop tasks are batched as a list plus two counters; RemoveAll must hand the
// whole batch over exactly once: what it returns accounts for every task
// added since the previous RemoveAll, and nothing of it is handed over again.
type verifReportWriter struct{ reports []*StatReport }

func (w *verifReportWriter) Write(r *StatReport) error {
	w.reports = append(w.reports, r)
	return nil
}

func Verif_C16_metrics_container() {
	c := &metricsContainer{name: "m", pid: 1}
	w := &verifReportWriter{}
	SetReportWriter(w)
	defer SetReportWriter(nil)
	n1 := verifChoose("first", verifParam("maxTasks")+1)
	var wantDur time.Duration
	wantTasks, wantDrops := 0, 0
	add := func(tag string) {
		if verifChoose(tag+".drop", 2) == 1 {
			verifAssert(!c.AddTask(Task{Drop: true}), "the metrics container never asks for a flush by size")
			wantDrops++
			return
		}
		d := time.Duration(verifInt64(tag + ".dur"))
		verifAssume(d >= 0)
		verifAssume(d < 1<<40)
		verifAssert(!c.AddTask(Task{Duration: d}), "the metrics container never asks for a flush by size")
		wantTasks++
		wantDur += d
	}
	for i := 0; i < n1; i++ {
		add("a")
	}
	p1, ok := c.RemoveAll().(tasksDurationPair)
	verifAssert(ok, "RemoveAll hands over a tasksDurationPair")
	verifAssert(len(p1.tasks) == wantTasks && p1.drops == wantDrops && p1.duration == wantDur, "the first batch accounts for exactly the tasks added: request tasks, their total duration, drop tasks")

	// the execute function reports the batch it is given - whatever it consists of: a batch
	// of drop tasks only (a service shedding all of its load) is a batch like any other
	c.Execute(p1)
	if wantTasks+wantDrops > 0 {
		verifAssert(len(w.reports) == 1, "a batch with at least one task is executed into exactly one report")
		if len(w.reports) == 1 {
			r := w.reports[0]
			verifAssert(r.Name == "m" && r.Pid == 1 && r.Drops == wantDrops, "the report carries the batch's drop tasks")
			verifAssert((r.ReqsPerSecond > 0) == (wantTasks > 0), "the report carries the batch's request tasks")
		}
		if wantTasks == 0 {
			verifReach("drop-only-batch")
		}
	}

	// nothing of the first batch may be handed over again
	wantTasks, wantDrops, wantDur = 0, 0, 0
	n2 := verifChoose("second", 2)
	for i := 0; i < n2; i++ {
		add("b")
	}
	p2 := c.RemoveAll().(tasksDurationPair)
	verifAssert(len(p2.tasks) == wantTasks && p2.drops == wantDrops && p2.duration == wantDur, "the next batch holds only what was added after the previous RemoveAll: every task is handed over exactly once")
	p3 := c.RemoveAll().(tasksDurationPair)
	verifAssert(len(p3.tasks) == 0 && p3.drops == 0 && p3.duration == 0, "RemoveAll on an emptied container hands over nothing")
	verifReach("batches")
}
