package stat

import "time"

// H16h: the metrics container (lib/stat), the fourth TaskContainer the
// periodical executor is used with in the anchored files.  Request tasks and
// drop tasks are batched as a list plus two counters; RemoveAll must hand the
// whole batch over exactly once: what it returns accounts for every task
// added since the previous RemoveAll, and nothing of it is handed over again.
func Verif_C16_metrics_container() {
	c := &metricsContainer{name: "m", pid: 1}
	n1 := verifChoose("first", verifParam("maxTasks")+1)
	var wantDur time.Duration
	wantTasks, wantDrops := 0, 0
	add := func(tag string) {
		if verifChoose(tag+".drop", 2) == 1 {
			verifAssert(!c.AddTask(Task{Drop: true}), "the metrics container never asks for a flush by size")
			wantDrops++
			return
		}
		d := time.Duration(verifInt64(tag + ".dur"))
		verifAssume(d >= 0)
		verifAssume(d < 1<<40)
		verifAssert(!c.AddTask(Task{Duration: d}), "the metrics container never asks for a flush by size")
		wantTasks++
		wantDur += d
	}
	for i := 0; i < n1; i++ {
		add("a")
	}
	p1, ok := c.RemoveAll().(tasksDurationPair)
	verifAssert(ok, "RemoveAll hands over a tasksDurationPair")
	verifAssert(len(p1.tasks) == wantTasks && p1.drops == wantDrops && p1.duration == wantDur, "the first batch accounts for exactly the tasks added: request tasks, their total duration, drop tasks")

	// nothing of the first batch may be handed over again
	wantTasks, wantDrops, wantDur = 0, 0, 0
	n2 := verifChoose("second", 2)
	for i := 0; i < n2; i++ {
		add("b")
	}
	p2 := c.RemoveAll().(tasksDurationPair)
	verifAssert(len(p2.tasks) == wantTasks && p2.drops == wantDrops && p2.duration == wantDur, "the next batch holds only what was added after the previous RemoveAll: every task is handed over exactly once")
	p3 := c.RemoveAll().(tasksDurationPair)
	verifAssert(len(p3.tasks) == 0 && p3.drops == 0 && p3.duration == 0, "RemoveAll on an emptied container hands over nothing")
	verifReach("batches")
}
