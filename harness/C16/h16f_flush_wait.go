package executors

import (
	"sync"
	"time"

	"github.com/gotid/god/lib/syncx"
	"github.com/gotid/god/lib/timex"
)

// verif16Point is read through the repository's syncx.AtomicBool at the start
// of the execute callback. Synchronisation operations issued directly by
// harness functions are not preemption points of the schedule search; this one
// is issued by repository code, so "the batch has been taken but not a single
// task has been executed yet" is a point at which another goroutine may run
// (a real execute callback does I/O there).
var verif16Point = syncx.NewAtomicBool()

func verifNewExecEnvP(maxTasks int) *verifExecEnv {
	e := &verifExecEnv{kind: 0, ordered: true, bounded: true, known: true, maxTasks: maxTasks}
	be := NewBulkExecutor(func(tasks []any) {
		verif16Point.True()
		e.execute(tasks)
	}, WithBulkTasks(maxTasks), WithBulkInterval(verifInterval))
	e.pe = be.executor
	e.add = func(id int) { be.Add(id) }
	e.pe.newTicker = func(d time.Duration) timex.Ticker {
		e.tk = &verifTicker{c: make(chan time.Time, 1)}
		e.flushers++
		return e.tk
	}
	return e
}

// H16f: Wait racing another flusher. One or two tasks have been added (below
// the size threshold, so they sit in the container). Then, concurrently,
//
//	mode 0: one goroutine calls Flush(), another calls Wait();
//	mode 1: a tick is delivered to the background flusher and a goroutine calls Wait().
//
// Whichever of the two takes the tasks out of the container, Wait may return
// only after they have been executed: the goroutine that called Wait looks at
// the execution counts at the very moment Wait returns. Under "sched_fork" the
// engine interleaves the goroutines at the synchronisation operations of the
// executor (its mutex, barrier, WaitGroup, atomics, channels).
func Verif_C16_flush_wait() {
	c := verifCase(5)
	if c == 4 {
		verifAddThenWait()
		return
	}
	tasks := c%2 + 1
	mode := c / 2
	e := verifNewExecEnvP(3) // threshold 3: one or two tasks are never flushed by size
	verifClock = 1000 * verifInterval
	for i := 0; i < tasks; i++ {
		e.mu.Lock()
		e.count = append(e.count, 0)
		e.mu.Unlock()
		e.add(i)
	}
	verifAssert(e.started(), "a flusher is running after Add")
	none := true
	e.mu.Lock()
	for _, n := range e.count {
		if n != 0 {
			none = false
		}
	}
	e.mu.Unlock()
	verifAssert(none, "below the threshold and without a tick nothing has been executed yet")

	var wg sync.WaitGroup
	waitReturned, allAtWait, dupAtWait := false, false, false
	waiter := func() {
		defer wg.Done()
		e.pe.Wait()
		// the moment Wait returns (no yield, no synchronisation of the executor in between)
		allAtWait, dupAtWait = e.executed()
		waitReturned = true
	}
	if mode == 0 {
		wg.Add(2)
		go func() {
			defer wg.Done()
			e.pe.Flush()
		}()
		go waiter()
		verifReach("explicit-flush")
	} else {
		verifClock += verifInterval
		e.deliver() // the tick: the background flusher will call Flush ...
		wg.Add(1)
		go waiter() // ... while Wait is called
		verifReach("background-tick")
	}
	wg.Wait()
	verifAssert(waitReturned, "Wait returned")
	verifAssert(allAtWait, "Wait returns only after every task added before it has finished executing, also when another flusher took the batch")
	verifAssert(!dupAtWait, "no task is executed twice")
	e.check("after Flush||Wait")
	e.pe.Wait()
	all, dup := e.executed()
	verifAssert(all && !dup, "every added task is executed exactly once")
	verifYield()
	e.check("end")
	all, dup = e.executed()
	verifAssert(all && !dup, "every added task is executed exactly once (end)")
	verifReach("done")
}

// mode 2 (case 4): the SIZE-triggered path.  The adder's second Add reaches the
// threshold and hands the batch to the background flusher through the commander
// channel; the same goroutine then calls Wait at once.  "Wait returns only after
// every task added before it has finished executing": when Add has returned the
// batch must already be accounted for, wherever the flusher is between receiving
// the batch and executing it.
func verifAddThenWait() {
	e := verifNewExecEnvP(2)
	verifClock = 1000 * verifInterval
	for i := 0; i < 2; i++ {
		e.mu.Lock()
		e.count = append(e.count, 0)
		e.mu.Unlock()
	}
	e.add(0)
	verifAssert(e.started(), "a flusher is running after Add")
	var wg sync.WaitGroup
	allAtWait, dupAtWait, waitReturned := false, false, false
	wg.Add(1)
	go func() {
		defer wg.Done()
		e.add(1) // reaches the threshold: the batch goes to the flusher
		e.pe.Wait()
		allAtWait, dupAtWait = e.executed()
		waitReturned = true
	}()
	wg.Wait()
	verifAssert(waitReturned, "Wait returned")
	verifAssert(allAtWait, "Wait called right after the Add that filled the batch returns only after the batch has been executed")
	verifAssert(!dupAtWait, "no task is executed twice")
	e.pe.Wait()
	all, dup := e.executed()
	verifAssert(all && !dup, "every added task is executed exactly once")
	verifYield()
	e.check("end")
	verifReach("size-triggered-then-wait")
}
