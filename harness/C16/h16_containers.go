package executors

// H16a: the two containers, one AddTask (+ the RemoveAll the executor performs
// when a flush is requested) from an arbitrary state that satisfies the
// invariant "below the threshold" — which both outcomes re-establish.

func Verif_C16_bulk_container() {
	maxLen := verifParam("maxLen")
	n0 := verifCase(maxLen + 1) // tasks already collected
	maxTasks := verifInt("maxTasks")
	verifAssume(maxTasks >= 1)
	verifAssume(maxTasks <= maxLen+1)
	verifAssume(n0 < maxTasks) // invariant: below the threshold
	bc := &bulkContainer{maxTasks: maxTasks}
	for i := 0; i < n0; i++ {
		bc.tasks = append(bc.tasks, i)
	}
	flush := bc.AddTask(n0)
	verifAssert(flush == (n0+1 >= maxTasks), "bulk: a flush is requested exactly when the task count reaches the threshold")
	if !flush {
		verifAssert(len(bc.tasks) < maxTasks, "bulk: invariant kept without a flush")
		verifReach("no-flush")
		return
	}
	batch := bc.RemoveAll().([]any)
	verifAssert(len(batch) <= maxTasks, "bulk: a batch never exceeds the configured task count")
	verifAssert(len(batch) == n0+1, "bulk: the batch holds every collected task")
	for i := range batch {
		verifAssert(batch[i] == i, "bulk: the batch keeps the order of addition")
	}
	verifAssert(len(bc.tasks) == 0, "bulk: RemoveAll empties the container")
	more := bc.RemoveAll().([]any)
	verifAssert(len(more) == 0, "bulk: nothing is handed out twice")
	verifReach("flush")
}

func Verif_C16_chunk_container() {
	maxLen := verifParam("maxLen")
	n0 := verifCase(maxLen + 1)
	max := verifInt("maxChunkSize")
	verifAssume(max >= 1)
	verifAssume(max <= 1<<61)
	size0 := verifInt("size0")
	verifAssume(size0 >= 0)
	verifAssume(size0 < max) // invariant: below the threshold
	sz := verifInt("size")
	verifAssume(sz >= 0)
	verifAssume(sz <= 1<<61)
	cc := &chunkContainer{maxChunkSize: max, size: size0}
	for i := 0; i < n0; i++ {
		cc.tasks = append(cc.tasks, i)
	}
	flush := cc.AddTask(chunk{val: n0, size: sz})
	verifAssert(flush == (size0+sz >= max), "chunk: a flush is requested exactly when the collected bytes reach the threshold")
	if !flush {
		verifAssert(cc.size < max && cc.size >= 0, "chunk: invariant kept without a flush")
		verifReach("no-flush")
		return
	}
	total := cc.size
	verifAssert(total == size0+sz, "chunk: the collected size is the sum of the task sizes")
	batch := cc.RemoveAll().([]any)
	verifAssert(total-max < sz, "chunk: a batch exceeds the byte limit by less than its last task")
	verifAssert(len(batch) == n0+1, "chunk: the batch holds every collected task")
	for i := range batch {
		verifAssert(batch[i] == i, "chunk: the batch keeps the order of addition")
	}
	verifAssert(len(cc.tasks) == 0 && cc.size == 0, "chunk: RemoveAll empties the container")
	more := cc.RemoveAll().([]any)
	verifAssert(len(more) == 0, "chunk: nothing is handed out twice")
	verifReach("flush")
}
