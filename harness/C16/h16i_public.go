package executors

import (
	"time"

	"github.com/gotid/god/lib/timex"
)

// H16i: the PUBLIC surface of the bulk and chunk executors -
// NewBulkExecutor/WithBulkTasks/WithBulkInterval, NewChunkExecutor/
// WithChunkBytes/WithFlushInterval, (*BulkExecutor).Add/Flush/Wait,
// (*ChunkExecutor).Add/Flush/Wait - with the threshold a parameter of the
// history instead of the fixed 2 tasks / 10 bytes of H16b, whose Flush/Wait go
// to the inner PeriodicalExecutor. The only in-package access is the injection
// of the harness ticker through executor.newTicker (as in every C16 harness).
//
// The execute callback may be slow (it yields before it records its batch), so
// that a batch handed to the background flusher is still executing when the
// client goes on to its next call: Wait must then really wait.

type verifPubEnv struct {
	*verifExecEnv
	slow    bool
	noBound bool // threshold <= 0: the statement's batch bounds say nothing
	flush   func()
	wait    func()
	running int // execute callbacks in progress
	quiet   int // ticks since the last Add
}

func (p *verifPubEnv) exec(tasks []any) {
	p.mu.Lock()
	p.running++
	p.mu.Unlock()
	if p.slow {
		verifYield()
	}
	p.execute(tasks)
	p.mu.Lock()
	p.running--
	p.mu.Unlock()
}

// quiesce: let everybody else run until no execute callback is in progress
// (natively, where a yield is a short sleep: for a bounded time).
func (p *verifPubEnv) quiesce() {
	verifYield()
	for i := 0; i < 40; i++ {
		p.mu.Lock()
		r := p.running
		p.mu.Unlock()
		if r == 0 {
			return
		}
		verifYield()
	}
}

// pending: the tasks (and their bytes) added and not yet executed. At a
// quiescent point these are exactly the tasks the executor still holds.
func (p *verifPubEnv) pending() (n, bytes int) {
	p.mu.Lock()
	defer p.mu.Unlock()
	for id, c := range p.count {
		if c == 0 {
			n++
			if p.kind == 1 {
				bytes += p.sizes[id]
			}
		}
	}
	return
}

func (p *verifPubEnv) ticker(pe *PeriodicalExecutor) {
	pe.newTicker = func(d time.Duration) timex.Ticker {
		p.tk = &verifTicker{c: make(chan time.Time, 1)}
		p.flushers++
		return p.tk
	}
}

// verifNewPubEnv: kind 0 bulk / 1 chunk with the given options (nil: defaults).
func verifNewPubEnv(kind int, slow bool, threshold int, withOpts bool) *verifPubEnv {
	p := &verifPubEnv{verifExecEnv: &verifExecEnv{kind: kind, ordered: true, bounded: true, known: true}, slow: slow}
	if kind == 0 {
		var be *BulkExecutor
		if withOpts {
			be = NewBulkExecutor(p.exec, WithBulkTasks(threshold), WithBulkInterval(verifInterval))
			p.maxTasks = threshold
		} else {
			be = NewBulkExecutor(p.exec)
			p.maxTasks = 1 << 30 // the default is not part of the statement
			p.noBound = true
		}
		p.ticker(be.executor)
		p.add = func(id int) { be.Add(id) }
		p.flush, p.wait = be.Flush, be.Wait
	} else {
		var ce *ChunkExecutor
		if withOpts {
			ce = NewChunkExecutor(p.exec, WithChunkBytes(threshold), WithFlushInterval(verifInterval))
			p.maxBytes = threshold
		} else {
			ce = NewChunkExecutor(p.exec)
			p.maxBytes = 1 << 30
			p.noBound = true
		}
		p.ticker(ce.executor)
		p.add = func(id int) {
			sz := verifInt("size")
			verifAssume(sz >= 0)
			verifAssume(sz <= 6)
			p.sizes = append(p.sizes, sz)
			ce.Add(id, sz)
		}
		p.flush, p.wait = ce.Flush, ce.Wait
	}
	if threshold <= 0 {
		p.noBound = true
		p.maxTasks = 1 << 30 // keep the recorder's bound check (unused here) concrete
	}
	return p
}

func (p *verifPubEnv) newTask() int {
	p.mu.Lock()
	defer p.mu.Unlock()
	p.count = append(p.count, 0)
	return len(p.count) - 1
}

func (p *verifPubEnv) allExecuted() bool {
	all, _ := p.executed()
	return all
}

// settled: everybody else has run (natively: for a bounded time, until every
// task has been executed).
func (p *verifPubEnv) settled() bool {
	verifYield()
	for i := 0; i < 40 && !p.allExecuted(); i++ {
		verifYield()
	}
	return p.allExecuted()
}

func (p *verifPubEnv) checkBatches() {
	_, dup := p.executed()
	verifAssert(!dup, "no task is executed twice")
	verifAssert(p.known, "only added tasks are executed")
	verifAssert(p.ordered, "tasks of a batch are executed in the order they were added")
	if !p.noBound {
		verifAssert(p.bounded, "a bulk batch never exceeds the task count; a chunk batch exceeds the byte limit by less than its last task; no empty batch")
	}
}

// doAdd: one Add at a quiescent point; when the tasks held so far plus the new
// one reach the threshold, they must all get executed without a further trigger.
func (p *verifPubEnv) doAdd() {
	held, heldBytes := p.pending()
	id := p.newTask()
	p.add(id)
	p.quiet = 0
	full := false
	if p.kind == 0 {
		full = held+1 >= p.maxTasks
	} else {
		full = heldBytes+p.sizes[id] >= p.maxBytes
	}
	if full {
		verifAssert(p.settled(), "reaching the size/byte threshold flushes every task added so far")
		verifReach("threshold-flush")
	} else {
		verifAssert(p.started(), "a flusher is running after Add")
	}
	p.quiesce()
}

func (p *verifPubEnv) doTick() {
	held, _ := p.pending()
	p.tick()
	p.quiet++
	if p.quiet >= 2 && p.flushers > 0 {
		// the tick right after a threshold flush is skipped by design; the one
		// after it flushes
		verifAssert(p.settled(), "the periodic tick flushes every task added before (at the latest the second tick after the last Add)")
		if held > 0 {
			verifReach("tick-flush-second")
		}
	}
	p.quiesce()
	if now, _ := p.pending(); now < held {
		verifReach("tick-flush")
	}
}

func (p *verifPubEnv) doFlush() {
	held, _ := p.pending()
	p.flush()
	verifAssert(p.settled(), "after Flush every task added before gets executed")
	if held > 0 {
		verifReach("explicit-flush")
	}
	p.quiesce()
}

// doWait: Wait, optionally right after an Add (no quiescence in between: with
// a slow execute callback the batch that this Add handed to the background
// flusher is still executing when Wait is called).
func (p *verifPubEnv) doWait(addFirst bool) {
	if addFirst {
		p.add(p.newTask())
		p.quiet = 0
	}
	held, _ := p.pending()
	if addFirst && p.running > 0 {
		verifReach("wait-while-executing")
	}
	p.wait()
	// no yield: Wait itself must have waited
	verifAssert(p.allExecuted(), "Wait returns only after every task added before has been executed")
	if held > 0 {
		verifReach("wait-flush")
	}
	p.quiesce()
}

func (p *verifPubEnv) finish() {
	p.wait()
	verifAssert(p.allExecuted(), "Wait returns only after every task added before has been executed")
	verifYield()
	p.checkBatches()
	all, dup := p.executed()
	verifAssert(all && !dup, "every added task is executed exactly once")
}

// Verif_C16_public: cases 0..5 = {bulk, chunk} x threshold; 6..9 = option handling.
func Verif_C16_public() {
	c := verifCase(10)
	verifClock = 1000 * verifInterval
	slow := verifChoose("slow", 2) == 1
	if c >= 6 {
		verifPublicOptions(c-6, slow)
		return
	}
	kind := c / 3
	threshold := c%3 + 1 // bulk: 1..3 tasks
	if kind == 1 {
		// chunk: a symbolic byte limit in one of three bands, task sizes 0..6
		threshold = verifInt("bytes")
		verifAssume(threshold >= 1+4*(c%3))
		verifAssume(threshold <= 4+4*(c%3))
	}
	p := verifNewPubEnv(kind, slow, threshold, true)
	steps := verifParam("steps")
	for i := 0; i < steps; i++ {
		op := 0 // every history starts with an Add
		if i > 0 {
			op = verifChoose("op", 5)
		}
		switch op {
		case 0:
			p.doAdd()
		case 1:
			p.doTick()
		case 2:
			p.doFlush()
		case 3:
			p.doWait(false)
		case 4:
			p.doWait(true)
		}
		p.checkBatches()
	}
	p.finish()
	if slow {
		verifReach("slow-execute")
	}
	verifReach("done")
}

// Option handling. The statement fixes exactly-once, order and Wait for every
// configuration; its batch bounds presuppose a positive threshold, and it says
// nothing about the defaults. So: with a threshold <= 0, and with no options at
// all, only exactly-once / order / Wait are asserted.
func verifPublicOptions(which int, slow bool) {
	kind := which % 2
	var p *verifPubEnv
	if which < 2 {
		threshold := verifInt("nonpositive")
		verifAssume(threshold >= -2)
		verifAssume(threshold <= 0)
		p = verifNewPubEnv(kind, slow, threshold, true)
	} else {
		p = verifNewPubEnv(kind, slow, 0, false)
	}
	n := verifParam("steps") - 1
	for i := 0; i < n; i++ {
		id := p.newTask()
		p.add(id)
		p.quiesce()
		p.checkBatches()
	}
	switch verifChoose("end", 3) {
	case 0:
		p.flush()
		verifAssert(p.settled(), "after Flush every task added before gets executed")
	case 1:
		p.wait()
		verifAssert(p.allExecuted(), "Wait returns only after every task added before has been executed")
	case 2:
		p.tick()
		p.tick()
		verifAssert(p.settled(), "the periodic tick flushes every task added before (at the latest the second tick after the last Add)")
	}
	p.finish()
	if which < 2 {
		verifReach("nonpositive-threshold")
	} else {
		verifReach("default-options")
	}
}
