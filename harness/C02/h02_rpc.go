package serverinterceptors

import (
	"context"
	"errors"
	"sync"
	"time"

	"google.golang.org/grpc"
	"google.golang.org/grpc/codes"
	"google.golang.org/grpc/status"
)

//verif:model context.WithTimeout => verifWithTimeout

// H02e: the unary RPC chain segment Crash -> Timeout -> handler (the order of
// rpc/internal/server.go + rpc/server.go) with a deadline the harness fires,
// and the stream crash interceptor. Deadline model as in H02a (api/handler):
// symbolic world - context.WithTimeout is modelled by verifWithTimeout; native
// world - the real WithTimeout(>= 1h) under the harness's parent context.

type verifCtx struct {
	parent context.Context
	mu     sync.Mutex
	done   chan struct{}
	err    error
}

func verifNewCtx(parent context.Context) *verifCtx {
	return &verifCtx{parent: parent, done: make(chan struct{})}
}
func (c *verifCtx) Deadline() (time.Time, bool) { return time.Time{}, false }
func (c *verifCtx) Done() <-chan struct{}       { return c.done }
func (c *verifCtx) Err() error {
	c.mu.Lock()
	defer c.mu.Unlock()
	return c.err
}
func (c *verifCtx) Value(k any) any {
	if c.parent != nil {
		return c.parent.Value(k)
	}
	return nil
}
func (c *verifCtx) fire(err error) {
	c.mu.Lock()
	if c.err == nil {
		c.err = err
		close(c.done)
	}
	c.mu.Unlock()
}

var (
	verifParent *verifCtx
	verifChild  *verifCtx
)

func verifWithTimeout(parent context.Context, d time.Duration) (context.Context, context.CancelFunc) {
	c := verifNewCtx(parent)
	verifChild = c
	if err := parent.Err(); err != nil {
		c.fire(err)
	}
	return c, func() { c.fire(context.Canceled) }
}

func verifDeadline(err error) {
	verifParent.fire(err)
	if verifChild != nil {
		verifChild.fire(err)
	}
}

var verifErrHandler = errors.New("handler's own error")

type verifReply struct{ n int }

func Verif_C02_rpc() {
	mode := verifCase(2)
	outcome := verifChoose("handler", 4) // 0 reply, 1 error, 2 panic(string), 3 panic(error)
	reply := &verifReply{n: 7}
	if mode == 1 {
		// stream crash interceptor
		ran := 0
		err := error(nil)
		_, panicked := verifExpectPanic(func() {
			err = StreamCrashInterceptor(nil, nil, &grpc.StreamServerInfo{}, func(srv interface{}, stream grpc.ServerStream) error {
				ran++
				switch outcome {
				case 1:
					return verifErrHandler
				case 2:
					panic("stream handler panicked")
				case 3:
					panic(verifErrHandler)
				}
				return nil
			})
		})
		verifAssert(!panicked && ran == 1, "rpc stream: no panic escapes; the handler runs once")
		switch outcome {
		case 0:
			verifAssert(err == nil, "rpc stream: handler result passes through")
		case 1:
			verifAssert(err == verifErrHandler, "rpc stream: handler error passes through")
		default:
			verifAssert(err != nil && status.Code(err) == codes.Internal, "rpc stream: a panic becomes status Internal")
			verifReach("stream-panic-internal")
		}
		return
	}

	// unary: Crash -> Timeout -> handler
	fire := verifChoose("deadline", 3) // 0 never, 1 DeadlineExceeded, 2 client cancel
	late := false
	reactNow := true
	if fire > 0 {
		late = verifBool("servingGoroutineLate")
		if !late {
			reactNow = verifBool("reactsBeforeHandlerReturns")
		}
	}
	d := time.Duration(verifInt64("timeout"))
	verifAssume(d >= time.Hour)
	verifParent = verifNewCtx(nil)
	verifChild = nil
	exited := make(chan struct{})
	ran := 0
	var handlerCtx context.Context
	handler := func(ctx context.Context, req interface{}) (interface{}, error) {
		defer close(exited)
		ran++
		handlerCtx = ctx
		if fire > 0 {
			if fire == 1 {
				verifDeadline(context.DeadlineExceeded)
			} else {
				verifDeadline(context.Canceled)
			}
			if !verifSymbolic() || (!late && reactNow) {
				verifYield()
			}
		}
		switch outcome {
		case 1:
			return nil, verifErrHandler
		case 2:
			panic("handler panicked")
		case 3:
			panic(verifErrHandler)
		}
		return reply, nil
	}
	timeout := UnaryTimeoutInterceptor(d)
	info := &grpc.UnaryServerInfo{FullMethod: "/svc/Method"}
	if late {
		verifChildFirst()
	}
	var resp interface{}
	var err error
	_, panicked := verifExpectPanic(func() {
		resp, err = UnaryCrashInterceptor(verifParent, "request", info, func(ctx context.Context, req interface{}) (interface{}, error) {
			return timeout(ctx, req, info, handler)
		})
	})
	<-exited
	verifYield()

	verifAssert(!panicked, "rpc: no panic escapes the chain")
	verifAssert(ran == 1, "rpc: the handler runs exactly once")
	verifAssert(handlerCtx != nil && handlerCtx != context.Context(verifParent), "rpc: the handler gets the deadline-carrying context")
	code := status.Code(err)
	handlerResult := func() bool {
		switch outcome {
		case 0:
			return err == nil && resp == interface{}(reply)
		case 1:
			return resp == nil && err == verifErrHandler
		}
		return resp == nil && err != nil && code == codes.Internal
	}
	deadlineResult := func() bool {
		want := codes.DeadlineExceeded
		if fire == 2 {
			want = codes.Canceled
		}
		return resp == nil && err != nil && code == want
	}
	switch {
	case fire == 0:
		verifAssert(handlerResult(), "rpc: within the deadline the caller gets exactly the handler's result (Internal on panic)")
		if outcome >= 2 {
			verifReach("panic-internal")
		} else {
			verifReach("handler-first")
		}
	case !late:
		verifAssert(deadlineResult(), "rpc: at the deadline the caller gets DeadlineExceeded/Canceled and the handler's result is discarded")
		verifReach("deadline-first")
	default:
		verifAssert(deadlineResult() || handlerResult(), "rpc: both ready: the deadline status or the handler's result, nothing else")
		verifReach("both-ready")
	}
}
