package api

import (
	"context"
	"errors"
	"net/http"
	"net/url"
	"runtime"
	"sync"
	"sync/atomic"
	"time"

	"github.com/golang-jwt/jwt/v4"
	"github.com/gotid/god/api/httpx"
	"github.com/gotid/god/api/internal/security"
	"github.com/gotid/god/api/router"
	"github.com/gotid/god/api/token"
	"github.com/gotid/god/lib/codec"
	"github.com/gotid/god/lib/load"
	"github.com/gotid/god/lib/stat"
)

// H02g: the guards AS COMPOSED by the REST engine.
//
// Real code on the path: Server.AddRoutes/AddRoute/Use and the RouteOptions
// WithTimeout/WithMaxBytes/WithJwt/WithJwtTransition, newEngine,
// (*engine).bindRoutes -> bindFeaturedRoutes -> signatureVerifier -> bindRoute
// -> checkedTimeout / checkedMaxBytes / appendAuthHandler / convertMiddleware,
// chain.New/Append/ThenFunc, router.NewRouter + patRouter.Handle/ServeHTTP over
// search.Tree, and the real handler.MaxConns, handler.TimeoutHandler (goroutine,
// select, timeoutWriter, httpx.ErrorCtx), handler.RecoverHandler,
// handler.MaxBytesHandler, handler.Authorize (+ unauthorized,
// HeaderOnceResponseWriter) and token.Parser.ParseToken (secret rotation).
//
// Replaced by pass-through middlewares (same signatures): TracingHandler,
// LogHandler/DetailedLogHandler, PrometheusHandler, BreakerHandler,
// SheddingHandler, MetricHandler, GunzipHandler. The JWT library call
// (*token.Parser).doParseToken is replaced by its verdict: the request's token
// verifies under secret s iff it was signed with s (the harness writes the
// signing secret into the Authorization header).
//
// The route timeout is long (>= 1h); its expiry is a harness event (as in H02a):
// symbolic world - context.WithTimeout is the model verifGWithTimeout, which
// also records the duration it was given; native world - the real
// context.WithTimeout under the harness's parent context, and the duration is
// read back from the deadline the handler sees.

//verif:model context.WithTimeout => verifGWithTimeout
//verif:stub github.com/gotid/god/api/handler.relevantCaller => verifGRelevantCaller
//verif:stub github.com/gotid/god/api/handler.TracingHandler => verifGPassTracing
//verif:stub github.com/gotid/god/api/handler.LogHandler => verifGPass
//verif:stub github.com/gotid/god/api/handler.DetailedLogHandler => verifGPass
//verif:stub github.com/gotid/god/api/handler.GunzipHandler => verifGPass
//verif:stub github.com/gotid/god/api/handler.PrometheusHandler => verifGPassPrometheus
//verif:stub github.com/gotid/god/api/handler.BreakerHandler => verifGPassBreaker
//verif:stub github.com/gotid/god/api/handler.SheddingHandler => verifGPassShedding
//verif:stub github.com/gotid/god/api/handler.MetricHandler => verifGPassMetric
//verif:stub (*github.com/gotid/god/api/token.Parser).doParseToken => verifGDoParse
//verif:stub github.com/gotid/god/lib/timex.Now => verifGNow
//verif:stub github.com/gotid/god/lib/codec.NewRsaDecryptor => verifGNewDecryptor
//verif:stub github.com/gotid/god/api/internal/security.ParseContentSecurity => verifGParseCS
//verif:stub github.com/gotid/god/api/internal/security.VerifySignature => verifGVerifySig

func verifGPass(next http.Handler) http.Handler { return next }
func verifGPassTracing(serviceName, path string) func(http.Handler) http.Handler {
	return verifGPass
}
func verifGPassPrometheus(path string) func(http.Handler) http.Handler { return verifGPass }
func verifGPassBreaker(method, path string, metrics *stat.Metrics) func(handler http.Handler) http.Handler {
	return verifGPass
}
func verifGPassShedding(shedder load.Shedder, metrics *stat.Metrics) func(http.Handler) http.Handler {
	return verifGPass
}
func verifGPassMetric(metrics *stat.Metrics) func(http.Handler) http.Handler { return verifGPass }
func verifGRelevantCaller() runtime.Frame                                    { return runtime.Frame{} }
func verifGNow() time.Duration                                               { return 0 }

// ---- the request's context (the deadline is fired by the harness) ----

type verifGKey struct{}

type verifGCtx struct {
	plan *verifGPlan
	mu   sync.Mutex
	done chan struct{}
	err  error
}

func (c *verifGCtx) Deadline() (time.Time, bool) { return time.Time{}, false }
func (c *verifGCtx) Done() <-chan struct{}       { return c.done }
func (c *verifGCtx) Err() error {
	c.mu.Lock()
	defer c.mu.Unlock()
	return c.err
}
func (c *verifGCtx) Value(k any) any {
	if _, ok := k.(verifGKey); ok {
		return c.plan
	}
	return nil
}
func (c *verifGCtx) fire(err error) {
	c.mu.Lock()
	if c.err == nil {
		c.err = err
		close(c.done)
	}
	c.mu.Unlock()
}

// symbolic world only: the model of context.WithTimeout. The child is tied to
// the request it belongs to through the parent's plan.
func verifGWithTimeout(parent context.Context, d time.Duration) (context.Context, context.CancelFunc) {
	p, _ := parent.Value(verifGKey{}).(*verifGPlan)
	c := &verifGCtx{plan: p, done: make(chan struct{})}
	if p != nil {
		p.child = c
		p.gotD, p.gotDSet = d, true
		p.timeoutCtxs++
	}
	if err := parent.Err(); err != nil {
		c.fire(err)
	}
	return c, func() { c.fire(context.Canceled) }
}

// ---- the client connection (as in H02a: headers are captured at commit) ----

type verifGConn struct {
	hdr    http.Header
	codes  []int
	body   []byte
	sentH  string // X-Verif as sent
	hasH   bool
	sentMw bool // X-Mw as sent
}

func (w *verifGConn) Header() http.Header { return w.hdr }
func (w *verifGConn) commit(code int) {
	if len(w.codes) == 0 {
		if vv := w.hdr["X-Verif"]; len(vv) > 0 {
			w.sentH, w.hasH = vv[0], true
		}
		if vv := w.hdr["X-Mw"]; len(vv) > 0 {
			w.sentMw = true
		}
	}
	w.codes = append(w.codes, code)
}
func (w *verifGConn) WriteHeader(code int) { w.commit(code) }
func (w *verifGConn) Write(p []byte) (int, error) {
	if len(w.codes) == 0 {
		w.commit(http.StatusOK)
	}
	w.body = append(w.body, p...)
	return len(p), nil
}

// ---- one request: what it carries, what its handler does, what was seen ----

const (
	verifGOpHeader    = iota // Header().Set("X-Verif", hv)
	verifGOpStatus           // WriteHeader(code)
	verifGOpWrite            // Write(data)
	verifGOpPanic            // panic
	verifGOpNested           // the next request arrives while this one is inside its handler
	verifGOpBadStatus        // WriteHeader with a code net/http refuses (panics inside the response writer)
)

type verifGOp struct {
	kind int
	data []byte
}

const (
	verifGTargetA  = iota // GET  /a     first route of the group that carries the options
	verifGTargetA2        // POST /a/x   second route of the same group
	verifGTargetB         // GET  /b     group without options
)

const (
	verifGSignNone = iota
	verifGSignCurrent
	verifGSignPrevious
	verifGSignOther
)

const (
	verifGSecretCurrent  = "secret-current"
	verifGSecretPrevious = "secret-previous"
	verifGSecretOther    = "secret-of-somebody-else"
)

type verifGPlan struct {
	env    *verifGEnv
	target int
	cl     int64
	signer int
	sig    int // verdict of the signature check (group A with signature on)
	// handler script
	hv      string
	code    int
	badCode int // a status code net/http refuses
	ops     []verifGOp
	mwPanic bool
	fireAt  int // position (before op i; len(ops) = after the last one) where the deadline passes; -1 never
	fireErr error
	nested  *verifGPlan
	// the request itself
	ctx   *verifGCtx
	child *verifGCtx
	conn  *verifGConn
	// observations
	started     int32
	exited      chan struct{}
	hRan, mwRan int
	finished    bool
	sawUID      bool
	fired       bool
	gotD        time.Duration
	gotDSet     bool
	timeoutCtxs int
	escaped     bool // a panic came out of router.ServeHTTP
	csCalls     int
	sigCalls    int
	keysOK      bool
	sigHeaderOK bool
	sigTol      time.Duration
	csHeader    *security.ContentSecurityHeader
}

func verifGNewPlan(env *verifGEnv, target int) *verifGPlan {
	p := &verifGPlan{env: env, target: target, fireAt: -1, exited: make(chan struct{})}
	p.ctx = &verifGCtx{plan: p, done: make(chan struct{})}
	p.conn = &verifGConn{hdr: http.Header{}}
	return p
}

func verifGPlanOf(r *http.Request) *verifGPlan {
	p, _ := r.Context().Value(verifGKey{}).(*verifGPlan)
	return p
}

func verifGSecretOf(signer int) string {
	switch signer {
	case verifGSignCurrent:
		return verifGSecretCurrent
	case verifGSignPrevious:
		return verifGSecretPrevious
	}
	return verifGSecretOther
}

func (p *verifGPlan) request() *http.Request {
	method, path := "GET", "/a"
	switch p.target {
	case verifGTargetA2:
		method, path = "POST", "/a/x"
	case verifGTargetB:
		path = "/b"
	}
	h := http.Header{}
	if p.signer != verifGSignNone {
		h.Set("Authorization", "Bearer "+verifGSecretOf(p.signer))
	}
	return (&http.Request{Method: method, URL: &url.URL{Path: path}, Header: h, ContentLength: p.cl}).WithContext(p.ctx)
}

// the request arrives at the server
func (p *verifGPlan) serve() {
	req := p.request()
	_, p.escaped = verifExpectPanic(func() { p.env.srv.router.ServeHTTP(p.conn, req) })
}

// ... and, if its handler is still running (timed out), is left to finish
func (p *verifGPlan) settle() {
	if atomic.LoadInt32(&p.started) == 1 {
		<-p.exited
	}
	verifYield()
}

func (p *verifGPlan) at(i int) {
	if i == p.fireAt {
		p.fired = true
		p.ctx.fire(p.fireErr)
		if p.child != nil {
			p.child.fire(p.fireErr)
		}
		// the serving goroutine, waiting in its select, reacts at once
		verifYield()
	}
}

var verifGErrBadToken = errors.New("token does not verify under this secret")

// the JWT library's verdict: the token verifies under `secret` iff it was signed with it
func verifGDoParse(tp *token.Parser, r *http.Request, secret string) (*jwt.Token, error) {
	if p := verifGPlanOf(r); p != nil {
		p.env.parseCalls++
	}
	if r.Header.Get("Authorization") == "Bearer "+secret {
		return &jwt.Token{Valid: true, Claims: jwt.MapClaims{"uid": 7}}, nil
	}
	return nil, verifGErrBadToken
}

// ---- the signature gate's environment ----
// codec.NewRsaDecryptor (reads a PEM file) yields a decryptor that remembers its key file;
// security.ParseContentSecurity / VerifySignature (H04c) are replaced by the request's verdict and
// record what the composed gate handed them.

type verifGDecryptor struct{ file string }

func (d *verifGDecryptor) Decrypt(input []byte) ([]byte, error)       { return nil, verifGErrBadToken }
func (d *verifGDecryptor) DecryptBase64(input string) ([]byte, error) { return nil, verifGErrBadToken }

func verifGNewDecryptor(file string) (codec.RsaDecryptor, error) {
	return &verifGDecryptor{file: file}, nil
}

const (
	verifGSigPass      = iota // header parses, signature verifies
	verifGSigBadHeader        // X-Content-Security does not decrypt under a configured key
	verifGSigWrongTime        // timestamp outside the tolerance
	verifGSigBadMAC           // HMAC does not match
)

var verifGErrCS = errors.New("bad X-Content-Security header")

func verifGParseCS(decryptors map[string]codec.RsaDecryptor, r *http.Request) (*security.ContentSecurityHeader, error) {
	p := verifGPlanOf(r)
	p.csCalls++
	p.keysOK = len(decryptors) == 2
	for fp, file := range map[string]string{"fp-1": "key-1.pem", "fp-2": "key-2.pem"} {
		d, ok := decryptors[fp].(*verifGDecryptor)
		if !ok || d.file != file {
			p.keysOK = false
		}
	}
	if p.sig == verifGSigBadHeader {
		return nil, verifGErrCS
	}
	p.csHeader = &security.ContentSecurityHeader{Key: []byte("k"), Timestamp: "1", Signature: "s"}
	return p.csHeader, nil
}

func verifGVerifySig(r *http.Request, h *security.ContentSecurityHeader, tolerance time.Duration) int {
	p := verifGPlanOf(r)
	p.sigCalls++
	p.sigTol = tolerance
	p.sigHeaderOK = h == p.csHeader
	switch p.sig {
	case verifGSigWrongTime:
		return httpx.CodeSignatureWrongTime
	case verifGSigBadMAC:
		return httpx.CodeSignatureInvalidToken
	}
	return httpx.CodeSignaturePass
}

const verifGSigExpire = 7 * time.Minute

// the user middleware (Server.Use)
func verifGMiddleware(next http.HandlerFunc) http.HandlerFunc {
	return func(w http.ResponseWriter, r *http.Request) {
		p := verifGPlanOf(r)
		p.mwRan++
		w.Header().Set("X-Mw", "1")
		if p.mwPanic {
			panic("user middleware panicked")
		}
		next(w, r)
	}
}

// the route handler
func verifGHandle(w http.ResponseWriter, r *http.Request) {
	p := verifGPlanOf(r)
	atomic.StoreInt32(&p.started, 1)
	defer close(p.exited)
	p.hRan++
	if r.Context().Value("uid") == 7 {
		p.sawUID = true
	}
	if !verifSymbolic() {
		// native twin: the duration handed to the real context.WithTimeout, read back from the deadline
		if dl, ok := r.Context().Deadline(); ok {
			p.gotD, p.gotDSet = time.Until(dl), true
		}
	}
	for i, op := range p.ops {
		p.at(i)
		switch op.kind {
		case verifGOpHeader:
			w.Header().Set("X-Verif", p.hv)
		case verifGOpStatus:
			w.WriteHeader(p.code)
		case verifGOpWrite:
			w.Write(op.data)
		case verifGOpPanic:
			panic("route handler panicked")
		case verifGOpBadStatus:
			w.WriteHeader(p.badCode)
		case verifGOpNested:
			p.nested.serve()
		}
	}
	p.at(len(p.ops))
	p.finished = true
}

// ---- the server under test ----

type verifGEnv struct {
	srv        *Server
	maxConns   int
	cfgMB      int64
	routeMB    int64 // 0 = not set on the route
	cfgTimeout int64 // ms; 0 = none
	routeD     time.Duration
	jwtMode    int // 0 off, 1 secret, 2 secret + previous secret (group A only)
	withMW     bool
	signed     bool // group A: strict signature check with two configured keys
	parseCalls int
}

func (e *verifGEnv) inGroupA(target int) bool { return target != verifGTargetB }

func (e *verifGEnv) effMaxBytes(target int) int64 {
	if e.inGroupA(target) && e.routeMB > 0 {
		return e.routeMB
	}
	return e.cfgMB
}

func (e *verifGEnv) effTimeout(target int) time.Duration {
	if e.inGroupA(target) && e.routeD > 0 {
		return e.routeD
	}
	return time.Duration(e.cfgTimeout) * time.Millisecond
}

func (e *verifGEnv) needsToken(target int) bool { return e.inGroupA(target) && e.jwtMode != 0 }

func (e *verifGEnv) needsSignature(target int) bool { return e.inGroupA(target) && e.signed }

func (e *verifGEnv) tokenOK(signer int) bool {
	return signer == verifGSignCurrent || (e.jwtMode == 2 && signer == verifGSignPrevious)
}

// tmodes: 0 = the route sets its own timeout, 1 = only the config's, 2 = neither (no timeout machinery)
func verifGBuild(jwtMode, tmode, maxConns int, signed bool) *verifGEnv {
	e := &verifGEnv{jwtMode: jwtMode, maxConns: maxConns, signed: signed}
	e.cfgMB = verifInt64("cfgMaxBytes")
	var opts []RouteOption
	if verifBool("routeMaxBytesSet") {
		e.routeMB = verifInt64("routeMaxBytes")
		verifAssume(e.routeMB > 0)
		opts = append(opts, WithMaxBytes(e.routeMB))
		verifReach("maxbytes-route")
	} else {
		verifReach("maxbytes-config")
	}
	// timeouts are whole hours (1..1000): long enough that the native twin's real timer never fires by
	// itself, and coarse enough that the native twin can tell them apart by the deadline the handler sees
	if tmode != 2 {
		h := verifInt64("cfgTimeoutHours")
		verifAssume(h >= 1)
		verifAssume(h <= 1000)
		e.cfgTimeout = h * 3600 * 1000
	}
	if tmode == 0 {
		h := verifInt64("routeTimeoutHours")
		verifAssume(h >= 1)
		verifAssume(h <= 1000)
		e.routeD = time.Duration(h) * time.Hour
		opts = append(opts, WithTimeout(e.routeD))
	}
	switch jwtMode {
	case 1:
		opts = append(opts, WithJwt(verifGSecretCurrent))
	case 2:
		opts = append(opts, WithJwtTransition(verifGSecretCurrent, verifGSecretPrevious))
	}
	if signed {
		opts = append(opts, WithSignature(SignatureConfig{Strict: true, Expire: verifGSigExpire, PrivateKeys: []PrivateKeyConfig{
			{Fingerprint: "fp-1", KeyFile: "key-1.pem"}, {Fingerprint: "fp-2", KeyFile: "key-2.pem"}}}))
	}
	e.withMW = verifBool("userMiddleware")

	cfg := Config{Host: "127.0.0.1", Port: 8080, MaxConns: maxConns, MaxBytes: e.cfgMB, Timeout: e.cfgTimeout}
	cfg.Name = "verif"
	// CpuThreshold = 0: newEngine creates no adaptive shedder (C09's business; SheddingHandler is a pass-through here)
	e.srv = &Server{ng: newEngine(cfg), router: router.NewRouter()}
	e.srv.AddRoutes([]Route{
		{Method: http.MethodGet, Path: "/a", Handler: verifGHandle},
		{Method: http.MethodPost, Path: "/a/x", Handler: verifGHandle},
	}, opts...)
	e.srv.AddRoute(Route{Method: http.MethodGet, Path: "/b", Handler: verifGHandle})
	if e.withMW {
		e.srv.Use(verifGMiddleware)
	}
	err := e.srv.ng.bindRoutes(e.srv.router)
	verifAssert(err == nil, "chain: bindRoutes succeeds")
	return e
}

// a handler that answers header, status, 2-byte body
func (p *verifGPlan) respond(name string) {
	p.hv = verifStringN(name+"Hv", 1)
	p.code = verifInt(name + "Code")
	verifAssume(p.code >= 100)
	verifAssume(p.code <= 599)
	p.ops = []verifGOp{{kind: verifGOpHeader}, {kind: verifGOpStatus}, {kind: verifGOpWrite, data: []byte(verifStringN(name+"Body", 2))}}
}

func (p *verifGPlan) body() []byte {
	var b []byte
	for _, op := range p.ops {
		if op.kind == verifGOpWrite {
			b = append(b, op.data...)
		}
	}
	return b
}

// a token that passes the route's gate (if any)
func (p *verifGPlan) goodToken(name string) {
	p.signer = verifGSignNone
	if p.env.needsToken(p.target) {
		p.signer = verifGSignCurrent
		if p.env.jwtMode == 2 && verifBool(name+"SignedWithPrevious") {
			p.signer = verifGSignPrevious
		}
	}
}

// a declared length within the effective limit
func (p *verifGPlan) smallBody(name string) {
	p.cl = verifInt64(name + "ContentLength")
	mb := p.env.effMaxBytes(p.target)
	if mb > 0 {
		verifAssume(p.cl <= mb)
	}
}

// the client received precisely what the script of an admitted, unhurried, non-panicking handler produced
func (p *verifGPlan) assertOwn(label string) {
	c := p.conn
	verifAssert(len(c.codes) == 1, label+" [one status]")
	if len(c.codes) != 1 {
		return
	}
	verifAssert(c.codes[0] == p.code, label+" [status]")
	verifAssert(string(c.body) == string(p.body()), label+" [body]")
	verifAssert(c.hasH, label+" [header present]")
	if c.hasH {
		verifAssert(c.sentH == p.hv, label+" [header]")
	}
	verifAssert(c.sentMw == p.env.withMW, label+" [middleware header]")
}

func (p *verifGPlan) assertTimeout(label string) {
	want := p.env.effTimeout(p.target)
	if verifSymbolic() {
		verifAssert(p.gotDSet && p.gotD == want, label)
	} else {
		verifAssert(p.gotDSet && p.gotD <= want && p.gotD > want-time.Minute, label)
	}
}

func Verif_C02_chain() {
	c := verifCase(12)
	scen, jwtMode := c/3, c%3
	switch scen {
	case 0:
		verifGGates(jwtMode)
	case 1:
		verifGPanics(jwtMode)
	case 2:
		verifGTimeouts(jwtMode)
	default:
		verifGMaxConns(jwtMode)
	}
}

// ---- scenario 0: MaxBytes and the JWT gate, per route group ----
func verifGGates(jwtMode int) {
	e := verifGBuild(jwtMode, verifChoose("timeoutMode", 3), 0, verifBool("signature"))
	reqs := verifParam("gateReqs")
	target := 0
	for k := 0; k < reqs; k++ {
		// follow-up requests (thorough) go to the first one's route and carry a good signature: they are there for
		// the state a gate keeps between requests (the token parser's per-secret history)
		if k == 0 {
			target = verifChoose("target", 3)
		}
		p := verifGNewPlan(e, target)
		p.cl = verifInt64("contentLength")
		if e.needsToken(p.target) {
			p.signer = verifChoose("signedWith", 4)
		} else {
			p.signer = verifChoose("signedWith", 2) * verifGSignOther // no token, or some token nobody asked for
		}
		if e.needsSignature(p.target) && k == 0 {
			p.sig = verifChoose("signatureVerdict", 4)
		}
		p.respond("h")
		calls0 := e.parseCalls
		p.serve()
		p.settle()

		mb := e.effMaxBytes(p.target)
		tooLarge := false
		if mb > 0 {
			tooLarge = p.cl > mb
		}
		badToken := e.needsToken(p.target) && !e.tokenOK(p.signer)
		badSig := e.needsSignature(p.target) && p.sig != verifGSigPass
		failing := 0
		if tooLarge {
			failing++
		}
		if badToken {
			failing++
		}
		if badSig {
			failing++
		}
		verifAssert(!p.escaped, "chain: no panic comes out of the router")
		verifAssert(len(p.conn.codes) == 1, "chain: exactly one response")
		st := p.conn.codes[0]
		switch {
		case failing > 1:
			// C02 says 413, C04 says 401 / 403: whichever of the failing gates answers first
			verifAssert(p.hRan == 0, "chain: several gates fail: the handler does not run")
			verifAssert((tooLarge && st == http.StatusRequestEntityTooLarge) || (badToken && st == http.StatusUnauthorized) || (badSig && st == http.StatusForbidden),
				"chain: several gates fail: the answer is that of one of the failing gates")
			verifReach("several-gates")
		case tooLarge:
			verifAssert(p.hRan == 0, "chain: a request whose Content-Length exceeds the effective MaxBytes does not reach the handler")
			verifAssert(p.mwRan == 0, "chain: a request whose Content-Length exceeds the effective MaxBytes does not reach the user middleware")
			verifAssert(st == http.StatusRequestEntityTooLarge && len(p.conn.body) == 0, "chain: a request whose Content-Length exceeds the effective MaxBytes gets 413")
			verifReach("too-large")
		case badToken:
			verifAssert(p.hRan == 0, "chain: jwt route: without a token that verifies under a configured secret the handler does not run")
			verifAssert(p.mwRan == 0, "chain: jwt route: without a token that verifies under a configured secret the user middleware does not run")
			verifAssert(st == http.StatusUnauthorized && len(p.conn.body) == 0, "chain: jwt route: without a token that verifies under a configured secret the answer is 401")
			verifReach("unauthorized")
		case badSig:
			verifAssert(p.hRan == 0, "chain: strict signature route: a request whose signature does not verify does not reach the handler")
			verifAssert(p.mwRan == 0, "chain: strict signature route: a request whose signature does not verify does not reach the user middleware")
			verifAssert(st == http.StatusForbidden && len(p.conn.body) == 0, "chain: strict signature route: a request whose signature does not verify gets 403")
			verifReach("forbidden")
		default:
			verifAssert(p.hRan == 1 && p.finished, "chain: a request within MaxBytes (and, on a jwt route, with a verifying token) reaches the handler, once")
			p.assertOwn("chain: an admitted request's client receives precisely the handler's status, headers and body")
			if e.withMW {
				verifAssert(p.mwRan == 1, "chain: the user middleware runs once for an admitted request")
				verifReach("middleware-ran")
			}
			if e.needsToken(p.target) {
				verifAssert(p.sawUID, "chain: jwt route: the token's claims are visible in the request context")
				if p.signer == verifGSignPrevious {
					verifReach("admitted-previous-secret")
				} else {
					verifReach("admitted-current-secret")
				}
			} else {
				verifAssert(e.parseCalls == calls0, "chain: a route without jwt looks at no token")
				if jwtMode != 0 {
					verifReach("no-jwt-on-other-group")
				}
			}
			if e.needsSignature(p.target) {
				verifAssert(p.csCalls == 1 && p.sigCalls == 1 && p.sigHeaderOK, "chain: signature route: the request's security header is parsed and verified, once")
				verifAssert(p.keysOK, "chain: signature route: the header is decrypted with exactly the configured keys (fingerprint -> key file)")
				verifAssert(p.sigTol == verifGSigExpire, "chain: signature route: the timestamp tolerance is the configured Expire")
				verifReach("signature-verified")
			} else {
				verifAssert(p.csCalls == 0 && p.sigCalls == 0, "chain: a route without signature checks none")
				if e.signed {
					verifReach("no-signature-on-other-group")
				}
			}
			if e.effTimeout(p.target) > 0 {
				p.assertTimeout("chain: the timeout in force is the route's when set, else the config's")
			} else {
				verifAssert(!p.gotDSet, "chain: no timeout configured: no deadline is set")
				verifReach("no-timeout")
			}
			verifReach("admitted")
		}
	}
}

// ---- scenario 1: panics in the route handler / the user middleware; MaxConns = 1 ----
func verifGPanics(jwtMode int) {
	e := verifGBuild(jwtMode, verifChoose("timeoutMode", 3), 1, false)
	target := verifChoose("target", 2) * verifGTargetB // A or B
	p := verifGNewPlan(e, target)
	p.smallBody("p")
	p.goodToken("p")
	p.hv = verifStringN("hv", 1)
	p.code = verifInt("code")
	verifAssume(p.code >= 100)
	verifAssume(p.code <= 599)
	where := verifChoose("panicWhere", 5)
	committed := false
	switch where {
	case 0: // in the user middleware, before the handler
		if !e.withMW {
			return
		}
		p.mwPanic = true
		verifReach("panic-in-middleware")
	case 1: // first thing in the handler
		p.ops = []verifGOp{{kind: verifGOpPanic}}
	case 2: // after setting a header, nothing committed
		p.ops = []verifGOp{{kind: verifGOpHeader}, {kind: verifGOpPanic}}
	case 3: // after committing a status
		p.ops = []verifGOp{{kind: verifGOpStatus}, {kind: verifGOpPanic}}
		committed = true
	case 4: // the panic is raised INSIDE the response writer: an invalid status code (as net/http's
		// checkWriteHeaderCode refuses); only where a timeout writer is in place (the harness's own
		// connection writer accepts any code)
		if e.routeD == 0 && e.cfgTimeout == 0 {
			return
		}
		p.badCode = []int{0, 99, 1000}[verifChoose("badCode", 3)]
		p.ops = []verifGOp{{kind: verifGOpBadStatus}}
		verifReach("panic-in-writer")
	}
	p.serve()
	p.settle()
	verifAssert(!p.escaped, "chain: a panicking handler's panic does not come out of the router")
	verifAssert(len(p.conn.codes) >= 1, "chain: a panicking handler's client is not left without a response")
	if !committed {
		verifAssert(len(p.conn.codes) == 1 && p.conn.codes[0] == http.StatusInternalServerError, "chain: a panic before anything was committed gives exactly one 500")
		verifAssert(len(p.conn.body) == 0, "chain: no body on the 500")
		verifReach("panic-500")
	} else {
		// C02 fixes the answer only "when nothing was committed"; here the handler had committed a status of
		// its own (into the timeout buffer, or onto the connection when no timeout is configured)
		verifAssert(p.conn.codes[0] == p.code || p.conn.codes[0] == http.StatusInternalServerError, "chain: a panic after the handler committed a status: the client gets that status or 500")
		verifReach("panic-committed")
	}
	if where == 0 {
		verifAssert(p.hRan == 0, "chain: the handler behind a panicking middleware does not run")
	} else {
		verifAssert(p.hRan == 1, "chain: the panicking handler ran once")
	}
	// the server is still up, and the panicking request's MaxConns token came back
	q := verifGNewPlan(e, target)
	q.smallBody("q")
	q.goodToken("q")
	q.respond("q")
	q.serve()
	q.settle()
	verifAssert(!q.escaped && q.hRan == 1, "chain: after a panic the next request is admitted")
	q.assertOwn("chain: after a panic the next request is served normally")
	verifReach("served-after-panic")
}

// ---- scenario 2: the deadline ----
func verifGTimeouts(jwtMode int) {
	e := verifGBuild(jwtMode, verifChoose("timeoutMode", 2), 0, false)
	target := verifChoose("target", 2) * verifGTargetB
	p := verifGNewPlan(e, target)
	p.smallBody("p")
	p.goodToken("p")
	p.respond("h")
	p.ops = append(p.ops, verifGOp{kind: verifGOpWrite, data: []byte(verifStringN("hLate", 1))})
	f := verifChoose("fireAt", len(p.ops)+2)
	if f > 0 {
		p.fireAt = f - 1
		p.fireErr = context.DeadlineExceeded
		if verifBool("clientCancel") {
			p.fireErr = context.Canceled
		}
	}
	p.serve()
	p.settle()
	verifAssert(!p.escaped, "chain: no panic comes out of the router")
	verifAssert(p.hRan == 1 && p.finished, "chain: the admitted handler ran")
	verifAssert(len(p.conn.codes) == 1, "chain: exactly one response")
	if e.routeD > 0 && e.inGroupA(target) {
		verifReach("timeout-route")
	} else {
		verifReach("timeout-config")
	}
	p.assertTimeout("chain: the timeout in force is the route's when set, else the config's")
	if !p.fired {
		p.assertOwn("chain: handler within the timeout: the client receives precisely its status, headers and body")
		verifReach("in-time")
	} else {
		want := http.StatusServiceUnavailable
		if p.fireErr == context.Canceled {
			want = 499
		}
		verifAssert(p.conn.codes[0] == want, "chain: handler overruns the timeout: 503 (499 on client cancel)")
		verifAssert(string(p.conn.body) == "Request Timeout" && !p.conn.hasH && !p.conn.sentMw, "chain: handler overruns the timeout: nothing it (or the user middleware) wrote reaches the client")
		verifReach("overrun")
	}
}

// ---- scenario 3: MaxConns ----
func verifGMaxConns(jwtMode int) {
	n := verifChoose("maxConns", 2) // 1, or 0 = unlimited
	n = 1 - n
	e := verifGBuild(jwtMode, verifChoose("timeoutMode", 2), n, false)
	target := verifChoose("target", 2) * verifGTargetB
	// A is inside its handler (within its timeout) when B arrives on the same route
	a := verifGNewPlan(e, target)
	a.smallBody("a")
	a.goodToken("a")
	a.respond("a")
	b := verifGNewPlan(e, target)
	b.smallBody("b")
	b.goodToken("b")
	b.respond("b")
	a.nested = b
	a.ops = []verifGOp{a.ops[0], a.ops[1], {kind: verifGOpNested}, a.ops[2]}
	a.serve()
	a.settle()
	b.settle()
	verifAssert(!a.escaped && !b.escaped, "chain: no panic comes out of the router")
	verifAssert(a.hRan == 1, "chain: the first request is admitted")
	a.assertOwn("chain: the first request gets its own response")
	verifAssert(len(b.conn.codes) == 1, "chain: exactly one response")
	if n == 1 {
		verifAssert(b.hRan == 0 && b.mwRan == 0, "chain: MaxConns = 1: a request arriving while another is inside the handler is not admitted")
		verifAssert(b.conn.codes[0] == http.StatusServiceUnavailable && len(b.conn.body) == 0, "chain: MaxConns = 1: the excess request gets 503")
		verifReach("maxconns-rejected")
	} else {
		verifAssert(b.hRan == 1, "chain: MaxConns = 0 (unlimited): the overlapping request is admitted")
		b.assertOwn("chain: MaxConns = 0 (unlimited): the overlapping request is served")
		verifReach("maxconns-unlimited")
	}
	// A has left: the capacity is available again
	c := verifGNewPlan(e, target)
	c.smallBody("c")
	c.goodToken("c")
	c.respond("c")
	c.serve()
	c.settle()
	verifAssert(!c.escaped && c.hRan == 1, "chain: once the first request has left, the next one is admitted")
	c.assertOwn("chain: once the first request has left, the next one is served normally")
	verifReach("maxconns-restored")
}
