package handler

import (
	"context"
	"net/http"
	"runtime"
	"strings"
	"sync"
	"sync/atomic"
	"time"
)

//verif:model context.WithTimeout => verifWithTimeout
//verif:stub github.com/gotid/god/api/handler.relevantCaller => verifRelevantCaller

// H02a: the timeout race. The real TimeoutHandler/timeoutHandler.ServeHTTP
// (goroutine, select, both completion branches), every timeoutWriter method and
// httpx.ErrorCtx run against a scripted handler and a deadline the harness
// fires ("the route timeout passes now" / "the client goes away now").
//
// Deadline: symbolic world - context.WithTimeout is modelled by
// verifWithTimeout (a child context whose Done/Err are driven by
// verifDeadline; its own timer never fires: the route timeout is "long" and
// its expiry is the harness event). Native world - the real
// context.WithTimeout(parent, >= 1h) whose parent is the harness context:
// firing the parent with DeadlineExceeded/Canceled makes the real child report
// the same error, which is all the code under test looks at.

type verifCtx struct {
	parent context.Context
	mu     sync.Mutex
	done   chan struct{}
	err    error
}

func verifNewCtx(parent context.Context) *verifCtx {
	return &verifCtx{parent: parent, done: make(chan struct{})}
}
func (c *verifCtx) Deadline() (time.Time, bool) { return time.Time{}, false }
func (c *verifCtx) Done() <-chan struct{}       { return c.done }
func (c *verifCtx) Err() error {
	c.mu.Lock()
	defer c.mu.Unlock()
	return c.err
}
func (c *verifCtx) Value(k any) any {
	if c.parent != nil {
		return c.parent.Value(k)
	}
	return nil
}
func (c *verifCtx) fire(err error) {
	c.mu.Lock()
	if c.err == nil {
		c.err = err
		close(c.done)
	}
	c.mu.Unlock()
}

var (
	verifParent *verifCtx // the request's context (native: the real child follows it)
	verifChild  *verifCtx // symbolic: the model of the WithTimeout child
)

func verifWithTimeout(parent context.Context, d time.Duration) (context.Context, context.CancelFunc) {
	c := verifNewCtx(parent)
	verifChild = c
	if err := parent.Err(); err != nil {
		c.fire(err)
	}
	return c, func() { c.fire(context.Canceled) }
}

// the deadline passes (DeadlineExceeded) or the client goes away (Canceled)
func verifDeadline(err error) {
	verifParent.fire(err)
	if verifChild != nil {
		verifChild.fire(err)
	}
}

func verifRelevantCaller() runtime.Frame { return runtime.Frame{} }

// client connection: like net/http, the header map is captured when the
// status is committed.
type verifConn struct {
	hdr     http.Header
	codes   []int
	body    []byte
	sentHV  string
	sentHas bool
	sentN   int // number of header keys in the map when the status was committed
}

func (w *verifConn) Header() http.Header { return w.hdr }
func (w *verifConn) commit(code int) {
	if len(w.codes) == 0 {
		w.sentN = len(w.hdr)
		if vv := w.hdr["X-Verif"]; len(vv) > 0 {
			// every value of the header, in order (a multi-valued header such as Set-Cookie or Vary)
			w.sentHV, w.sentHas = strings.Join(vv, "|"), true
		}
	}
	w.codes = append(w.codes, code)
}
func (w *verifConn) WriteHeader(code int) { w.commit(code) }
func (w *verifConn) Write(p []byte) (int, error) {
	if len(w.codes) == 0 {
		w.commit(http.StatusOK)
	}
	w.body = append(w.body, p...)
	return len(p), nil
}

const (
	verifOpStatus = iota // WriteHeader(code)
	verifOpWrite         // Write(data)
	verifOpHeader        // Header().Set("X-Verif", hv) and Add("X-Verif", "+"+hv): two values under one key
	verifOpPanic         // panic
)

type verifOp struct {
	kind int
	code int
	data []byte
	hv   string
}

type verifScript struct {
	ops      []verifOp
	fireAt   int // position (before op i; len(ops) = after the last op) where the deadline passes; -1 never
	fireErr  error
	reactAt  int // symbolic world: position >= fireAt where the serving goroutine gets to run
	late     bool
	fired    bool
	served   int32 // set by the serving goroutine once ServeHTTP has returned
	werr     []error
	wserved  []bool
	finished bool
	exited   chan struct{} // closed when the handler returns or panics
	reuse    bool          // the handler writes every chunk from one scratch buffer it overwrites afterwards
	scratch  [4]byte
}

func (s *verifScript) at(i int) {
	if i == s.fireAt {
		verifDeadline(s.fireErr)
		s.fired = true
		if !verifSymbolic() {
			// native twin: let the real context propagate and the serving goroutine react
			verifYield()
		}
	}
	if s.fired && !s.late && i == s.reactAt && verifSymbolic() {
		verifYield()
	}
}

func (s *verifScript) ServeHTTP(w http.ResponseWriter, r *http.Request) {
	defer close(s.exited)
	for i, op := range s.ops {
		s.at(i)
		switch op.kind {
		case verifOpStatus:
			w.WriteHeader(op.code)
		case verifOpWrite:
			served := atomic.LoadInt32(&s.served) == 1
			data := op.data
			if s.reuse {
				data = s.scratch[:copy(s.scratch[:], op.data)]
			}
			_, err := w.Write(data)
			if s.reuse {
				// http.ResponseWriter: Write must not retain p - the handler's buffer is its own again
				for j := range data {
					data[j] = '#'
				}
			}
			s.werr = append(s.werr, err)
			s.wserved = append(s.wserved, served)
		case verifOpHeader:
			w.Header().Set("X-Verif", op.hv)
			w.Header().Add("X-Verif", "+"+op.hv) // a second value under the same key
		case verifOpPanic:
			panic("handler panicked")
		}
	}
	s.at(len(s.ops))
	s.finished = true
}

// the handler's own response, per net/http semantics, for the ops before a panic
func (s *verifScript) reference(recovered bool) (status int, body []byte, hv string, hasHV, hvComparable bool) {
	committed := false
	hvComparable = true
	for _, op := range s.ops {
		if op.kind == verifOpPanic {
			if recovered && !committed {
				status, committed = http.StatusInternalServerError, true
			}
			break
		}
		switch op.kind {
		case verifOpStatus:
			if !committed {
				status, committed = op.code, true
			}
		case verifOpWrite:
			if !committed {
				status, committed = http.StatusOK, true
			}
			body = append(body, op.data...)
		case verifOpHeader:
			if committed {
				// set after the status went out: net/http would not send it; nothing is claimed
				hvComparable = false
			} else {
				hv, hasHV = op.hv+"|+"+op.hv, true
			}
		}
	}
	if !committed {
		status = http.StatusOK
	}
	return
}

func verifHasPanic(ops []verifOp) bool {
	for _, op := range ops {
		if op.kind == verifOpPanic {
			return true
		}
	}
	return false
}

func Verif_C02_timeout() {
	// case 0..3 = scripts of maxOps operations starting with that kind; case 4 = all shorter scripts
	maxOps := verifParam("maxOps")
	c := verifCase(5)
	nOps, firstKind := maxOps, c
	if c == 4 {
		nOps = verifChoose("nOps", maxOps)
		if nOps > 0 {
			firstKind = verifChoose("op", 4)
		}
	}
	s := &verifScript{fireAt: -1, exited: make(chan struct{})}
	for i := 0; i < nOps; i++ {
		kind := firstKind
		if i > 0 {
			kind = verifChoose("op", 4)
		}
		op := verifOp{kind: kind}
		switch kind {
		case verifOpStatus:
			op.code = verifInt("code")
			verifAssume(op.code >= 100)
			verifAssume(op.code <= 599)
		case verifOpWrite:
			op.data = []byte(verifStringN("data", 1+i%2))
		case verifOpHeader:
			op.hv = verifStringN("hv", 1)
		}
		s.ops = append(s.ops, op)
		if kind == verifOpPanic {
			nOps = i + 1
			break
		}
	}
	s.reuse = verifBool("handlerReusesBuffer")
	if s.reuse {
		verifReach("handler-reuses-buffer")
	}
	// deadline: never, or at position 0..nOps; DeadlineExceeded or Canceled
	f := verifChoose("fireAt", nOps+2)
	if f > 0 {
		s.fireAt = nOps - (f - 1) // late positions first: their immediate-reaction schedules are the ones the native twin can reproduce
		s.fireErr = context.DeadlineExceeded
		if verifBool("clientCancel") {
			s.fireErr = context.Canceled
		}
		// the serving goroutine had not even reached its select when the handler went through,
		// or it was waiting there and gets to run at a position >= fireAt (nOps+1: only after the handler is through)
		s.late = verifBool("servingGoroutineLate")
		if !s.late {
			s.reactAt = s.fireAt + verifChoose("reactDelay", nOps+2-s.fireAt)
		}
	}
	withRecover := false
	if verifHasPanic(s.ops) {
		withRecover = verifBool("withRecover")
	}

	d := time.Duration(verifInt64("routeTimeout"))
	verifAssume(d >= time.Hour) // > 0; and the native twin's real timer never fires by itself
	verifParent = verifNewCtx(nil)
	verifChild = nil
	conn := &verifConn{hdr: http.Header{}}
	req := (&http.Request{Method: "GET", Header: http.Header{}}).WithContext(verifParent)
	// an Upgrade header other than the websocket handshake is no exemption: net/http serves
	// "Upgrade: h2c" or "Upgrade: TLS/1.0" as ordinary requests, the route timeout still applies
	switch verifChoose("upgradeHeader", 4) {
	case 1:
		req.Header.Set(headerUpgrade, "h2c")
		verifReach("foreign-upgrade-header")
	case 2:
		req.Header.Set(headerUpgrade, "TLS/1.0")
		verifReach("foreign-upgrade-header")
	case 3:
		req.Header.Set(headerUpgrade, "h2c, websocket")
		verifReach("foreign-upgrade-header")
	}
	var next http.Handler = s
	if withRecover {
		next = RecoverHandler(s) // as in engine.bindRoute: Timeout -> Recover -> ... -> handler
	}
	h := TimeoutHandler(d)(next)
	if s.late {
		verifChildFirst()
	}
	_, panicked := verifExpectPanic(func() { h.ServeHTTP(conn, req) })
	atomic.StoreInt32(&s.served, 1)
	<-s.exited   // the handler may still be running: let it finish against the timed-out writer
	verifYield() // ... and its goroutine wind up

	refStatus, refBody, refHV, refHasHV, hvComparable := s.reference(withRecover)
	handlerPanics := verifHasPanic(s.ops) && !withRecover

	isTimeoutResp := func() bool {
		want := http.StatusServiceUnavailable
		if s.fireErr == context.Canceled {
			want = statusClientClosedRequest
		}
		return len(conn.codes) == 1 && conn.codes[0] == want && string(conn.body) == reason && !conn.sentHas
	}
	isHandlerResp := func() bool {
		ok := len(conn.codes) == 1 && conn.codes[0] == refStatus && string(conn.body) == string(refBody)
		if ok && hvComparable {
			ok = conn.sentHas == refHasHV && (!refHasHV || conn.sentHV == refHV)
			// precisely the handler's headers: the middleware adds none of its own (a
			// Content-Length it made up would, e.g., contradict what a HEAD handler declared)
			wantN := 0
			if refHasHV {
				wantN = 1
			}
			ok = ok && conn.sentN == wantN
		}
		return ok
	}

	switch {
	case !s.fired:
		// the handler went through (or panicked) before any deadline
		if handlerPanics {
			verifAssert(panicked, "timeout: a handler panic is re-raised in the serving goroutine")
			verifAssert(len(conn.codes) == 0 && len(conn.body) == 0, "timeout: nothing is sent when the panic is re-raised")
			verifReach("panic-reraised")
		} else {
			verifAssert(!panicked, "timeout: no panic without a handler panic")
			verifAssert(len(conn.codes) == 1, "timeout: exactly one response (handler finished first)")
			verifAssert(isHandlerResp(), "timeout: handler finished first: the client receives precisely the handler's status, headers and body")
			verifReach("handler-first")
		}
	case !s.late:
		// the deadline passed while the handler was still inside and the serving goroutine was waiting in its select
		verifAssert(!panicked, "timeout: deadline first: no panic reaches the serving goroutine")
		verifAssert(len(conn.codes) == 1, "timeout: exactly one response (deadline first)")
		verifAssert(isTimeoutResp(), "timeout: deadline first: the client receives exactly the timeout response (503, or 499 on client cancel) and nothing the handler wrote")
		verifReach("deadline-first")
	default:
		// handler through and deadline passed before the serving goroutine looked: either complete response
		if panicked {
			verifAssert(handlerPanics && len(conn.codes) == 0, "timeout: both ready: a re-raised panic sends nothing")
		} else {
			verifAssert(len(conn.codes) == 1, "timeout: exactly one response (both ready)")
			verifAssert(isTimeoutResp() || (!handlerPanics && isHandlerResp()), "timeout: both ready: one complete response, the handler's or the timeout's, never a mixture")
		}
		verifReach("both-ready")
	}
	// writes against the timeoutWriter
	sawTimeout := false
	for i, err := range s.werr {
		verifAssert(err == nil || err == http.ErrHandlerTimeout, "timeout: a handler write succeeds (buffered) or reports ErrHandlerTimeout")
		if s.wserved[i] {
			verifAssert(err == http.ErrHandlerTimeout, "timeout: a write issued after the timeout response went out reports ErrHandlerTimeout")
			verifReach("write-after-timeout")
		}
		if sawTimeout {
			verifAssert(err == http.ErrHandlerTimeout, "timeout: once timed out, every later write reports ErrHandlerTimeout")
		}
		if err == http.ErrHandlerTimeout {
			sawTimeout = true
		}
	}
}

// H02a': the two ways around the timeout machinery: a non-positive duration
// and a websocket upgrade hand the request to the handler itself.
func Verif_C02_timeout_bypass() {
	s := &verifScript{fireAt: -1, exited: make(chan struct{})}
	code := verifInt("code")
	verifAssume(code >= 100)
	verifAssume(code <= 599)
	s.ops = []verifOp{{kind: verifOpHeader, hv: verifStringN("hv", 1)}, {kind: verifOpStatus, code: code}, {kind: verifOpWrite, data: []byte(verifStringN("data", 2))}}
	conn := &verifConn{hdr: http.Header{}}
	verifParent = verifNewCtx(nil)
	verifChild = nil
	req := (&http.Request{Method: "GET", Header: http.Header{}}).WithContext(verifParent)
	d := time.Duration(verifInt64("routeTimeout"))
	if verifBool("websocket") {
		verifAssume(d >= time.Hour)
		req.Header.Set(headerUpgrade, valueWebsocket)
		verifReach("websocket")
	} else {
		verifAssume(d <= 0)
		verifReach("no-timeout")
	}
	TimeoutHandler(d)(s).ServeHTTP(conn, req)
	verifAssert(s.finished, "timeout bypass: the handler ran in the serving goroutine")
	refStatus, refBody, refHV, _, _ := s.reference(false)
	verifAssert(len(conn.codes) == 1 && conn.codes[0] == refStatus && string(conn.body) == string(refBody) && conn.sentHas && conn.sentHV == refHV,
		"timeout bypass: the client receives precisely the handler's response")
	verifAssert(verifChild == nil || !verifSymbolic(), "timeout bypass: no timeout context is created")
}

// H02f: two requests, one after the other, through the timeout middleware.
// Request A writes (symbolic bytes, optional status/header) and then overruns
// its deadline; request B finishes in time. B's client must receive precisely
// B's response: nothing A wrote before or after its deadline may reach ANY
// client, so no state of a timed-out request can carry over to a later one.
func Verif_C02_timeout_sequence() {
	d := time.Duration(verifInt64("routeTimeout"))
	verifAssume(d >= time.Hour)
	mw := TimeoutHandler(d)

	// ---- request A: write, (status/header optional), deadline passes, write again ----
	a := &verifScript{exited: make(chan struct{})}
	if verifBool("aHeader") {
		a.ops = append(a.ops, verifOp{kind: verifOpHeader, hv: verifStringN("aHv", 1)})
	}
	if verifBool("aStatus") {
		code := verifInt("aCode")
		verifAssume(code >= 200)
		verifAssume(code <= 599)
		a.ops = append(a.ops, verifOp{kind: verifOpStatus, code: code})
	}
	a.ops = append(a.ops, verifOp{kind: verifOpWrite, data: []byte(verifStringN("aData", 2))})
	a.fireAt = len(a.ops) // the deadline passes after A's pre-deadline output
	a.reactAt = a.fireAt
	a.fireErr = context.DeadlineExceeded
	if verifBool("aClientCancel") {
		a.fireErr = context.Canceled
	}
	a.ops = append(a.ops, verifOp{kind: verifOpWrite, data: []byte(verifStringN("aLate", 1))})
	verifParent = verifNewCtx(nil)
	verifChild = nil
	connA := &verifConn{hdr: http.Header{}}
	reqA := (&http.Request{Method: "GET", Header: http.Header{}}).WithContext(verifParent)
	mw(a).ServeHTTP(connA, reqA)
	atomic.StoreInt32(&a.served, 1)
	<-a.exited
	verifYield()
	wantA := http.StatusServiceUnavailable
	if a.fireErr == context.Canceled {
		wantA = statusClientClosedRequest
	}
	verifAssert(len(connA.codes) == 1 && connA.codes[0] == wantA, "sequence: the overrunning request gets exactly the timeout response")

	// ---- request B: completes in time ----
	b := &verifScript{fireAt: -1, exited: make(chan struct{})}
	bData := verifStringN("bData", 2)
	b.ops = []verifOp{{kind: verifOpWrite, data: []byte(bData)}}
	verifParent = verifNewCtx(nil)
	verifChild = nil
	connB := &verifConn{hdr: http.Header{}}
	reqB := (&http.Request{Method: "GET", Header: http.Header{}}).WithContext(verifParent)
	mw(b).ServeHTTP(connB, reqB)
	<-b.exited
	verifYield()
	verifAssert(len(connB.codes) == 1 && connB.codes[0] == http.StatusOK, "sequence: the later request gets its own status")
	verifAssert(string(connB.body) == bData, "sequence: the later request's client receives precisely its handler's body (nothing of the timed-out request)")
	verifAssert(!connB.sentHas, "sequence: no header of the timed-out request reaches the later client")
	verifAssert(connB.sentN == 0, "sequence: the later client receives precisely its handler's headers (it set none)")
	verifReach("sequence")
}
