package api

import "net/http"

// H02y (probe, known finding): config.MaxConns is server-level configuration, but
// engine.bindRoute builds one handler.MaxConns latch PER ROUTE. With MaxConns = 1
// and two routes, a request to /b arriving while a request to /a is inside its
// handler (within its timeout) is admitted: two requests are inside handlers.
// Reading of C02 "at most MaxConns requests are inside handlers at any instant
// (excess get 503)" that counts the requests of the whole server.
func Verif_X02_routes() {
	e := verifGBuild(0, 1, 1, false)
	a := verifGNewPlan(e, verifGTargetA)
	a.smallBody("a")
	a.respond("a")
	b := verifGNewPlan(e, verifGTargetB)
	b.smallBody("b")
	b.respond("b")
	a.nested = b
	a.ops = []verifGOp{a.ops[0], a.ops[1], {kind: verifGOpNested}, a.ops[2]}
	a.serve()
	a.settle()
	b.settle()
	verifAssert(a.hRan == 1, "routes: the first request is admitted")
	verifAssert(len(b.conn.codes) == 1, "routes: exactly one response")
	verifAssert(b.hRan == 0 && b.conn.codes[0] == http.StatusServiceUnavailable, "composed server: never more than MaxConns requests inside handlers (all routes together)")
	verifReach("done")
}
