package handler

import (
	"net/http"
	"sync/atomic"
	"time"
)

// experiment: MaxConns(1) -> TimeoutHandler -> slow handler. After request A timed out
// (A's handler still running), is request B admitted?
func Verif_X02_compose() {
	verifParent = verifNewCtx(nil)
	verifChild = nil
	var inside, maxInside int32
	release := make(chan struct{})
	exitedA := make(chan struct{})
	first := true
	next := http.HandlerFunc(func(w http.ResponseWriter, r *http.Request) {
		n := atomic.AddInt32(&inside, 1)
		if n > atomic.LoadInt32(&maxInside) {
			atomic.StoreInt32(&maxInside, n)
		}
		if first {
			first = false
			defer close(exitedA)
			verifDeadline(contextDeadlineExceeded())
			<-release // slow handler: still inside after its deadline
		}
		atomic.AddInt32(&inside, -1)
	})
	h := MaxConns(1)(TimeoutHandler(time.Hour)(next))
	connA := &verifConn{hdr: http.Header{}}
	reqA := (&http.Request{Method: "GET", Header: http.Header{}}).WithContext(verifParent)
	h.ServeHTTP(connA, reqA)
	verifAssert(len(connA.codes) == 1 && connA.codes[0] == 503, "A timed out with 503")
	// B arrives while A's handler is still running
	verifParent = verifNewCtx(nil)
	verifChild = nil
	connB := &verifConn{hdr: http.Header{}}
	reqB := (&http.Request{Method: "GET", Header: http.Header{}}).WithContext(verifParent)
	h.ServeHTTP(connB, reqB)
	close(release)
	<-exitedA
	verifYield()
	verifAssert(atomic.LoadInt32(&maxInside) <= 1, "composed chain: never more than MaxConns handlers running")
	verifReach("done")
}

func contextDeadlineExceeded() error { return verifDeadlineErr }
