package serverinterceptors

import (
	"context"
	"time"

	"google.golang.org/grpc"
	"google.golang.org/grpc/codes"
	"google.golang.org/grpc/status"
)

// H02h: the interceptor's OWN timeout fires while the incoming context is still
// alive (no client deadline, or one later than the server's timeout): the
// caller must get DeadlineExceeded and the handler's result is discarded.
// (H02e fires the deadline through the parent context, which also ends the
// derived one.)  Symbolic world: context.WithTimeout is verifWithTimeout (see
// h02_rpc.go) and the handler fires the derived context only; native world:
// the real context.WithTimeout with a 50 ms timeout, the handler waits for it.
func Verif_C02_rpc_own_timeout() {
	outcome := verifCase(3) // 0 reply, 1 error, 2 panic
	verifParent = verifNewCtx(nil)
	verifChild = nil
	reply := &verifReply{n: 7}
	exited := make(chan struct{})
	ran := 0
	handler := func(ctx context.Context, req interface{}) (interface{}, error) {
		defer close(exited)
		ran++
		if verifSymbolic() {
			verifChild.fire(context.DeadlineExceeded)
		}
		<-ctx.Done()
		verifYield() // the serving goroutine answers the caller
		switch outcome {
		case 1:
			return nil, verifErrHandler
		case 2:
			panic("handler panicked after its deadline")
		}
		return reply, nil
	}
	timeout := UnaryTimeoutInterceptor(50 * time.Millisecond)
	info := &grpc.UnaryServerInfo{FullMethod: "/svc/Method"}
	var resp interface{}
	var err error
	_, panicked := verifExpectPanic(func() {
		resp, err = UnaryCrashInterceptor(verifParent, "request", info, func(ctx context.Context, req interface{}) (interface{}, error) {
			return timeout(ctx, req, info, handler)
		})
	})
	<-exited
	verifYield()
	verifAssert(!panicked && ran == 1, "rpc own timeout: no panic escapes; the handler runs once")
	verifAssert(verifParent.Err() == nil, "rpc own timeout: the incoming context is still alive")
	verifAssert(resp == nil && err != nil && status.Code(err) == codes.DeadlineExceeded, "rpc: when the server's own timeout fires the caller gets DeadlineExceeded and the handler's result is discarded")
	verifReach("own-timeout")

	// a later, healthy call through the SAME interceptor gets its own answer: whatever
	// the abandoned handler of the timed-out call did afterwards (returned, failed,
	// panicked) belongs to that call and to no other
	verifParent = verifNewCtx(nil)
	verifChild = nil
	gate := make(chan struct{})
	reply2 := &verifReply{n: 8}
	ran2 := 0
	handler2 := func(ctx context.Context, req interface{}) (interface{}, error) {
		ran2++
		<-gate // still working when the serving goroutine starts waiting for it
		return reply2, nil
	}
	go func() {
		verifYield()
		verifYield()
		close(gate)
	}()
	var resp2 interface{}
	var err2 error
	_, panicked2 := verifExpectPanic(func() {
		resp2, err2 = UnaryCrashInterceptor(verifParent, "request-2", info, func(ctx context.Context, req interface{}) (interface{}, error) {
			return timeout(ctx, req, info, handler2)
		})
	})
	verifAssert(!panicked2 && ran2 == 1, "rpc: the later call's handler runs once, no panic escapes")
	verifAssert(err2 == nil && resp2 == interface{}(reply2), "rpc: a later call that finishes within the timeout gets precisely its own handler's reply, whatever an earlier timed-out call's handler did afterwards")
	verifReach("later-call")
}
