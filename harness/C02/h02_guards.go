package handler

import (
	"errors"
	"net/http"
)

// verifRW is the client's view: every WriteHeader call, every body byte and
// the header map handed to the connection. Like a real net/http connection a
// Write before any WriteHeader commits status 200.
type verifRW struct {
	hdr      http.Header
	codes    []int // every status committed or attempted, in order
	body     []byte
	implicit bool // first status was the implicit 200 of a Write
}

func verifNewRW() *verifRW { return &verifRW{hdr: http.Header{}} }

func (w *verifRW) Header() http.Header { return w.hdr }
func (w *verifRW) WriteHeader(code int) {
	w.codes = append(w.codes, code)
}
func (w *verifRW) Write(p []byte) (int, error) {
	if len(w.codes) == 0 {
		w.codes = append(w.codes, http.StatusOK)
		w.implicit = true
	}
	w.body = append(w.body, p...)
	return len(p), nil
}

// status seen by the client: the first one committed (later WriteHeader calls
// are "superfluous" and ignored by net/http); 0 = nothing sent yet.
func (w *verifRW) status() int {
	if len(w.codes) == 0 {
		return 0
	}
	return w.codes[0]
}

var verifErrBoom = errors.New("handler failed badly")

// ---- H02d: MaxBytes ----
// 413 and the handler not run  <=>  n > 0 and ContentLength > n; otherwise the
// handler runs exactly once on the same writer/request and its response is the
// client's response.
func Verif_C02_maxbytes() {
	n := verifInt64("limit")
	cl := verifInt64("contentLength")
	ran := 0
	w := verifNewRW()
	req := &http.Request{ContentLength: cl, Header: http.Header{}}
	code := verifInt("handlerStatus")
	verifAssume(code >= 100)
	verifAssume(code <= 599)
	next := http.HandlerFunc(func(hw http.ResponseWriter, hr *http.Request) {
		ran++
		verifAssert(hr == req, "maxbytes: the handler sees the request")
		hw.WriteHeader(code)
		hw.Write([]byte("ok"))
	})
	MaxBytesHandler(n)(next).ServeHTTP(w, req)
	tooLarge := verifAnd(n > 0, cl > n)
	verifAssert((ran == 0) == tooLarge, "maxbytes: handler skipped iff limit > 0 and Content-Length > limit")
	verifAssert(ran <= 1, "maxbytes: handler runs at most once")
	verifAssert(len(w.codes) == 1, "maxbytes: exactly one status is sent")
	if ran == 0 {
		verifAssert(w.status() == http.StatusRequestEntityTooLarge, "maxbytes: oversized request gets 413")
		verifAssert(len(w.body) == 0, "maxbytes: no handler bytes on a 413")
		verifReach("too-large")
	} else {
		verifAssert(w.status() == code && string(w.body) == "ok", "maxbytes: admitted request gets the handler's response")
		verifReach("admitted")
	}
}

// ---- H02b: Recover ----
// next = [commit a status] [write a body] [panic with a string / an error / a
// runtime error]. No panic escapes; 500 when nothing was committed; otherwise
// the client's status is the one the handler committed. Without a panic the
// response is exactly the handler's.
func Verif_C02_recover() {
	w := verifNewRW()
	req := &http.Request{Header: http.Header{}}
	writeStatus := verifBool("writesStatus")
	writeBody := verifBool("writesBody")
	pk := verifChoose("panic", 4) // 0 none, 1 string, 2 error, 3 runtime error (nil map write)
	code := verifInt("handlerStatus")
	verifAssume(code >= 100)
	verifAssume(code <= 599)
	ran := 0
	next := http.HandlerFunc(func(hw http.ResponseWriter, hr *http.Request) {
		ran++
		if writeStatus {
			hw.WriteHeader(code)
		}
		if writeBody {
			hw.Write([]byte("partial"))
		}
		switch pk {
		case 1:
			panic("boom")
		case 2:
			panic(verifErrBoom)
		case 3:
			var m map[string]int
			m["x"] = 1
		}
	})
	_, panicked := verifExpectPanic(func() { RecoverHandler(next).ServeHTTP(w, req) })
	verifAssert(!panicked, "recover: no panic escapes the middleware")
	verifAssert(ran == 1, "recover: the handler runs exactly once")
	committed := writeStatus || writeBody
	if pk == 0 {
		want := 0
		if writeStatus {
			want = code
		} else if writeBody {
			want = http.StatusOK
		}
		verifAssert(w.status() == want, "recover: without a panic the status is the handler's")
		verifAssert(len(w.codes) <= 1, "recover: without a panic nothing is added to the response")
		verifReach("no-panic")
		return
	}
	if !committed {
		verifAssert(len(w.codes) == 1 && w.status() == http.StatusInternalServerError, "recover: panic before anything was committed gives exactly one 500")
		verifAssert(len(w.body) == 0, "recover: no body on the 500")
		verifReach("panic-uncommitted")
	} else {
		want := http.StatusOK
		if writeStatus {
			want = code
		}
		verifAssert(w.status() == want, "recover: panic after commit leaves the committed status")
		verifReach("panic-committed")
	}
}

// ---- H02c: MaxConns ----
// Overlapping requests without threads: request k's handler, while "inside",
// lets request k+1 arrive at the same middleware. total = n+2 arrivals.
// At most n are inside at any instant; arrivals beyond n get 503 and do not
// run; every admitted request gives its token back on return and on panic.
func Verif_C02_maxconns() {
	n := verifChoose("n", verifParam("maxN")+1) // 0 (unlimited), 1..maxN
	total := n + 2
	if n == 0 {
		total = 3
	}
	req := &http.Request{Header: http.Header{}}
	ws := make([]*verifRW, 2*total)
	for i := range ws {
		ws[i] = verifNewRW()
	}
	panics := make([]bool, total)
	for i := range panics {
		panics[i] = verifBool("panics")
	}
	inside, maxInside := 0, 0
	ran := make([]bool, 2*total)
	arrivals := 0
	var mw http.Handler
	var next http.HandlerFunc
	phase2 := false
	next = func(hw http.ResponseWriter, hr *http.Request) {
		k := arrivals - 1
		ran[k] = true
		inside++
		if inside > maxInside {
			maxInside = inside
		}
		hw.WriteHeader(http.StatusOK)
		limit := total
		if phase2 {
			limit = 2 * total
		}
		for arrivals < limit {
			// the next request arrives while this one is inside its handler
			arrivals++
			j := arrivals - 1
			_, p := verifExpectPanic(func() { mw.ServeHTTP(ws[j], req) })
			if !phase2 {
				verifAssert(p == (ran[j] && panics[j]), "maxconns: a request's panic is its own (the middleware neither swallows nor invents it)")
			}
		}
		inside--
		if !phase2 && panics[k] {
			panic("handler panicked")
		}
	}
	mw = MaxConns(n)(next)
	arrivals = 1
	_, p0 := verifExpectPanic(func() { mw.ServeHTTP(ws[0], req) })
	verifAssert(p0 == panics[0], "maxconns: first request's panic propagates")
	verifAssert(arrivals == total, "maxconns: all arrivals happened")
	for k := 0; k < total; k++ {
		admit := n <= 0 || k < n
		verifAssert(ran[k] == admit, "maxconns: request k runs iff fewer than n requests are inside when it arrives")
		if !admit {
			verifAssert(len(ws[k].codes) == 1 && ws[k].status() == http.StatusServiceUnavailable, "maxconns: excess request gets exactly one 503")
			verifReach("rejected")
		} else {
			verifAssert(ws[k].status() == http.StatusOK, "maxconns: admitted request gets its handler's status")
		}
	}
	if n > 0 {
		verifAssert(maxInside <= n, "maxconns: never more than n requests inside handlers")
		verifAssert(maxInside == n, "maxconns: n concurrent requests are admitted")
	}
	verifAssert(inside == 0, "maxconns: all handlers left")
	// phase 2: every token came back (also from the panicking requests): n more
	// overlapping requests are all admitted, the (n+1)-th is not.
	phase2 = true
	base := total
	arrivals = base + 1
	maxInside = 0
	mw.ServeHTTP(ws[base], req)
	for k := base; k < 2*total; k++ {
		admit := n <= 0 || k-base < n
		verifAssert(ran[k] == admit, "maxconns: after all requests returned or panicked, the full capacity n is available again")
	}
	verifReach("capacity-restored")
}
