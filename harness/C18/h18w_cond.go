package syncx

import "time"

// H18w: the REAL Cond (lib/syncx/condition.go) under virtual time.
//
// H18a2 (h18_limit.go) checks TimeoutLimit.Borrow against a stub of
// (*Cond).WaitWithTimeout that states this contract:
//
//	the wait ends either by the timer - result (0, false), and the whole timeout
//	has then elapsed - or by a signal after elapsed time e: result (timeout-e, true).
//
// This harness proves that contract for the real WaitWithTimeout / Wait / Signal,
// so that the clause "a timed borrow reports a timeout only after its timeout has
// actually elapsed" does not rest on an unchecked summary.
//
// Time: one virtual clock. lib/timex.Now/Since are the stubs of h18_clock.go
// (verifClock); time.NewTimer is the engine's timer model ("clock:timers",
// engine/internal/interp/intr_timer.go), whose clock moves only in time.Sleep.
// verifPass is the only way time passes here: it moves both clocks by the same
// amount (the stub clock first, so that it never lags behind the timers).
// Natively the timers and the sleeps are real; that is why all durations are
// multiples of 300ms (timeouts: minus a slack of at most 20ms), far apart
// compared to scheduling noise (every completed path's witness is re-run
// natively by the driver, also on the unchanged tree, possibly on a loaded machine).

const (
	verifUnit  = 300 * time.Millisecond
	verifSlack = 20 * time.Millisecond
)

func verifPass(d time.Duration) {
	if d > 0 {
		verifClock += d
	}
	time.Sleep(d)
}

// verifUnits: a symbolic k*300ms, lo <= k <= hi.
func verifUnits(name string, lo, hi int64) time.Duration {
	k := verifInt64(name)
	verifAssume(k >= lo)
	verifAssume(k <= hi)
	return time.Duration(k) * verifUnit
}

// verifTimeoutArg: a symbolic timeout k*300ms - r, lo <= k <= hi, 0 <= r <= 20ms.
func verifTimeoutArg(lo, hi int64) time.Duration {
	r := time.Duration(verifInt64("slack"))
	verifAssume(r >= 0)
	verifAssume(r <= verifSlack)
	return verifUnits("T", lo, hi) - r
}

type verifWaitRes struct {
	remain  time.Duration
	ok      bool
	elapsed time.Duration // virtual time between the call and its return
}

func verifTimedWaiter(c *Cond, timeout time.Duration, out chan verifWaitRes) {
	begin := verifClock
	remain, ok := c.WaitWithTimeout(timeout)
	out <- verifWaitRes{remain, ok, verifClock - begin}
}

func verifPlainWaiter(c *Cond, out chan verifWaitRes) {
	begin := verifClock
	c.Wait()
	out <- verifWaitRes{0, true, verifClock - begin}
}

func verifPoll(out chan verifWaitRes) (verifWaitRes, bool) {
	select {
	case r := <-out:
		return r, true
	default:
		return verifWaitRes{}, false
	}
}

// verifAwait: let the others run, then poll. Natively (a yield is a short
// sleep) keep yielding for a bounded time until a result is there.
func verifAwait(out chan verifWaitRes) (verifWaitRes, bool) {
	verifYield()
	for i := 0; i < 30 && len(out) == 0; i++ {
		verifYield()
	}
	return verifPoll(out)
}

// verifNotYet: nobody has returned so far.
func verifNotYet(out chan verifWaitRes, label string) {
	verifYield()
	_, has := verifPoll(out)
	verifAssert(!has, label)
}

// The contract of one finished WaitWithTimeout(timeout) - exactly what the stub
// in h18_limit.go assumes.
func verifCheckWait(timeout time.Duration, r verifWaitRes) {
	if r.ok {
		verifAssert(r.remain == timeout-r.elapsed, "a signalled wait returns the timeout minus the time it waited")
	} else {
		verifAssert(r.remain == 0, "a wait ended by its timer has nothing remaining")
		verifAssert(r.elapsed >= timeout, "a wait reports a timeout only after its timeout has elapsed")
	}
}

func verifCheckTimedOut(timeout time.Duration, r verifWaitRes, has bool) {
	verifAssert(has, "a timed wait ends once its timeout has elapsed")
	if !has {
		return
	}
	verifAssert(!r.ok, "a wait that nobody signalled reports that it was not signalled")
	verifCheckWait(timeout, r)
}

func verifCheckSignalled(timeout, e time.Duration, r verifWaitRes, has bool) {
	verifAssert(has, "a Signal wakes a goroutine that is waiting on the condition")
	if !has {
		return
	}
	verifAssert(r.ok, "a wait ended by a Signal before its deadline reports the signal")
	verifAssert(r.remain == timeout-e, "a wait signalled after e returns exactly timeout - e")
	verifCheckWait(timeout, r)
}

func Verif_C18_cond() {
	verifClock = 0
	c := NewCond()
	out := make(chan verifWaitRes, 4)
	maxK := int64(verifParam("maxK")) // timeouts up to maxK * 300ms
	switch verifCase(6) {
	case 0:
		// (a) nobody signals: the wait ends by its timer, not before the
		// timeout has elapsed and no later than the moment it has.
		timeout := verifTimeoutArg(0, maxK)
		go verifTimedWaiter(c, timeout, out)
		verifYield()
		d1 := verifUnits("d1", 0, maxK)
		verifPass(d1)
		if d1 >= timeout {
			r, has := verifAwait(out)
			verifCheckTimedOut(timeout, r, has)
			if timeout <= 0 {
				verifReach("a-nonpositive-timeout")
			} else {
				verifReach("a-timer")
			}
			return
		}
		verifNotYet(out, "a timed wait that nobody signals does not end before its timeout has elapsed")
		verifReach("a-still-waiting")
		// up to the deadline exactly, or one unit beyond it
		verifPass(timeout - d1 + verifUnits("late", 0, 1))
		r, has := verifAwait(out)
		verifCheckTimedOut(timeout, r, has)
		verifReach("a-timer-second-step")
	case 1:
		// (b) a Signal after e < timeout
		timeout := verifTimeoutArg(1, maxK)
		go verifTimedWaiter(c, timeout, out)
		verifYield()
		e := verifUnits("e", 0, maxK-1)
		verifAssume(e < timeout)
		verifPass(e)
		verifNotYet(out, "a timed wait does not end before a signal or its deadline")
		c.Signal()
		r, has := verifAwait(out)
		verifCheckSignalled(timeout, e, r, has)
		verifReach("b-signalled")
		// the deadline passes: nothing else happens (the timer was stopped)
		verifPass(timeout)
		verifNotYet(out, "one wait returns once")
	case 2:
		// (c) a Signal that finds no waiter is not remembered. (What the code
		// does - the channel is unbuffered and Signal does not block; the
		// property statement does not ask for it, the stub in h18_limit.go
		// allows both.)
		timeout := verifTimeoutArg(1, 2)
		c.Signal()
		c.Signal()
		verifReach("c-signal-without-waiter-returns")
		go verifTimedWaiter(c, timeout, out)
		verifNotYet(out, "a Signal that found nobody waiting does not end a later wait")
		verifPass(timeout)
		r, has := verifAwait(out)
		verifCheckTimedOut(timeout, r, has)
		verifReach("c-not-remembered")
	case 3:
		// (d) two waiters, one Signal: exactly one of them is woken
		timeout := verifTimeoutArg(1, 2)
		go verifTimedWaiter(c, timeout, out)
		go verifTimedWaiter(c, timeout, out)
		verifYield()
		e := verifUnits("e", 0, 1)
		verifAssume(e < timeout)
		verifPass(e)
		c.Signal()
		r1, has1 := verifAwait(out)
		verifCheckSignalled(timeout, e, r1, has1)
		verifNotYet(out, "one Signal wakes one waiter")
		verifReach("d-one-woken")
		verifPass(timeout - e)
		r2, has2 := verifAwait(out)
		verifCheckTimedOut(timeout, r2, has2)
		verifReach("d-other-timed-out")
	case 4:
		// (e) Wait returns only after a Signal; one Signal per waiter
		n := verifChoose("waiters", 2) + 1
		for i := 0; i < n; i++ {
			go verifPlainWaiter(c, out)
		}
		verifYield()
		verifPass(verifUnits("d", 0, 3))
		verifNotYet(out, "Wait returns only after a Signal")
		for i := 0; i < n; i++ {
			c.Signal()
			_, has := verifAwait(out)
			verifAssert(has, "a Signal wakes a goroutine that is waiting on the condition")
			verifNotYet(out, "one Signal wakes one waiter")
		}
		if n == 2 {
			verifReach("e-two-waiters")
		}
		verifReach("e-wait-woken")
	case 5:
		// (r) Signal racing the start of WaitWithTimeout: whichever comes first,
		// the wait keeps the contract (signalled at once, or - the Signal found
		// nobody and is lost - ended by its timer after the whole timeout).
		// Without schedule forking the Signal always comes first; H18wf
		// ("sched_fork") explores the other orders.
		timeout := verifTimeoutArg(1, 2)
		go verifTimedWaiter(c, timeout, out)
		c.Signal()
		verifYield() // the waiter has been signalled, or is parked now
		r, has := verifPoll(out)
		if has {
			verifAssert(r.ok, "a wait that ends before any time has passed was signalled")
			verifAssert(r.remain == timeout, "a wait signalled at once has its whole timeout remaining")
			verifCheckWait(timeout, r)
			verifReach("r-signalled")
			return
		}
		verifPass(timeout)
		r, has = verifAwait(out)
		verifCheckTimedOut(timeout, r, has)
		verifReach("r-lost")
	}
}
