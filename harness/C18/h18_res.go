package syncx

import (
	"errors"
	"io"
	"time"
)

// H18c: RefResource from an arbitrary state with r0 >= 0 uses outstanding.
func Verif_C18_refresource() {
	ops := verifParam("ops")
	cleans := 0
	r := NewRefResource(func() { cleans++ })
	r0 := verifInt32("uses0")
	verifAssume(r0 >= 0)
	verifAssume(r0 <= 3)
	r.ref = r0
	uses := r0
	cleaned := false
	for i := 0; i < ops; i++ {
		if verifChoose("op", 2) == 0 {
			err := r.Use()
			if cleaned {
				verifAssert(err == ErrUseOfCleaned, "Use after the resource was cleaned is refused with ErrUseOfCleaned")
				verifReach("refused")
			} else {
				verifAssert(err == nil, "Use of a live resource succeeds")
				uses++
			}
		} else {
			if !cleaned {
				verifAssume(uses > 0) // Clean pairs with an earlier Use
			}
			before := cleans
			r.Clean()
			if cleaned {
				verifAssert(cleans == before, "Clean of a cleaned resource does nothing")
			} else {
				uses--
				if uses == 0 {
					verifAssert(cleans == before+1, "clean runs when the uses drop to zero")
					cleaned = true
					verifReach("cleaned")
				} else {
					verifAssert(cleans == before, "clean does not run while uses remain")
				}
			}
		}
		verifAssert(cleans <= 1, "clean runs at most once")
		verifAssert((cleans == 1) == cleaned, "clean has run exactly when the uses dropped to zero")
	}
}

// ---- H18d ----

type verifCloser struct {
	key    string
	closes int
	err    error
}

func (c *verifCloser) Close() error { c.closes++; return c.err }

var (
	verifErrCreate = errors.New("create failed")
	verifErrClose  = errors.New("close failed")
)

// ResourceManager, sequential: at most one successful create per key, a failed
// create is not remembered, Close closes every resource exactly once.
func Verif_C18_resourcemanager() {
	ops := verifParam("ops")
	m := NewResourceManager()
	keys := []string{"a", "b"}
	have := map[string]*verifCloser{}
	var made []*verifCloser
	for i := 0; i < ops; i++ {
		k := keys[verifChoose("key", 2)]
		fail := verifChoose("fail", 2) == 1
		calls := 0
		got, err := m.Get(k, func() (io.Closer, error) {
			calls++
			if fail {
				return nil, verifErrCreate
			}
			c := &verifCloser{key: k}
			if verifChoose("closeFails", 2) == 1 {
				c.err = verifErrClose
			}
			made = append(made, c)
			return c, nil
		})
		if old, ok := have[k]; ok {
			verifAssert(calls == 0, "no second resource is created for a key that has one")
			verifAssert(err == nil && got == io.Closer(old), "Get returns the key's resource")
			verifReach("cached")
		} else if fail {
			verifAssert(calls == 1 && err == verifErrCreate && got == nil, "a failing create reports its error")
			verifReach("create-failed")
		} else {
			verifAssert(calls == 1 && err == nil, "a missing resource is created once")
			c := made[len(made)-1]
			verifAssert(got == io.Closer(c), "Get returns the created resource")
			have[k] = c
		}
	}
	err := m.Close()
	anyErr := false
	for _, c := range made {
		verifAssert(c.closes == 1, "Close closes every managed resource exactly once")
		if c.err != nil {
			anyErr = true
		}
	}
	verifAssert((err != nil) == anyErr, "Close reports an error iff some resource failed to close")
	verifReach("closed")
}

// ManagedResource: Take generates once and keeps returning the same resource
// until it is marked broken; marking another resource broken changes nothing.
func Verif_C18_managedresource() {
	ops := verifParam("ops")
	gen := 0
	mr := NewManagedResource(func() any { gen++; return gen }, func(a, b any) bool { return a == b })
	cur := 0 // 0: none
	for i := 0; i < ops; i++ {
		switch verifChoose("op", 3) {
		case 0:
			before := gen
			v := mr.Take()
			if cur == 0 {
				verifAssert(gen == before+1 && v == gen, "Take generates a resource when there is none")
				cur = gen
			} else {
				verifAssert(gen == before && v == cur, "Take returns the current resource without generating")
				verifReach("kept")
			}
		case 1:
			if cur != 0 {
				mr.MarkBroken(cur)
				cur = 0
				verifReach("broken")
			}
		case 2:
			mr.MarkBroken(-1) // not the current resource
		}
	}
}

// ImmutableResource under the virtual clock: a fetched resource is kept for
// good; after a failure the error is served without fetching until more than
// the refresh interval has passed since the last attempt.
func Verif_C18_immutable() {
	ops := verifParam("ops")
	start := time.Duration(verifInt64("start"))
	verifAssume(start >= 1)
	verifAssume(start <= 1000)
	verifClock = start
	interval := time.Duration(verifInt64("interval"))
	verifAssume(interval >= 0)
	verifAssume(interval <= 100)
	fetches := 0
	var fail bool
	ir := NewImmutableResource(func() (any, error) {
		fetches++
		if fail {
			return nil, verifErrCreate
		}
		return fetches, nil
	}, WithRefreshIntervalOnFailure(interval))
	have := 0
	var lastAttempt time.Duration
	attempted := false
	for i := 0; i < ops; i++ {
		verifAdvance(300)
		fail = verifChoose("fail", 2) == 1
		before := fetches
		v, err := ir.Get()
		switch {
		case have != 0:
			verifAssert(fetches == before && err == nil && v == have, "a fetched resource is returned for good without fetching again")
			verifReach("kept")
		case !attempted || lastAttempt+interval < verifClock:
			verifAssert(fetches == before+1, "fetch runs on the first Get and once the refresh interval has passed after a failure")
			attempted, lastAttempt = true, verifClock
			if fail {
				verifAssert(err == verifErrCreate && v == nil, "a failed fetch reports its error")
			} else {
				verifAssert(err == nil && v == fetches, "a successful fetch is returned")
				have = fetches
			}
		default:
			verifAssert(fetches == before, "no fetch within the refresh interval after a failure")
			verifAssert(err == verifErrCreate && v == nil, "the last error is served meanwhile")
			verifReach("backoff")
		}
	}
}

// OnceGuard, SpinLock, DoneChan, Barrier.
func Verif_C18_small() {
	ops := verifParam("ops")
	var og OnceGuard
	taken := false
	var sl SpinLock
	locked := false
	dc := NewDoneChan()
	closed := false
	var b Barrier
	for i := 0; i < ops; i++ {
		switch verifChoose("op", 7) {
		case 0:
			verifAssert(og.Take() == !taken, "OnceGuard.Take succeeds exactly once")
			taken = true
		case 1:
			verifAssert(og.Taken() == taken, "OnceGuard.Taken tells whether it was taken")
		case 2:
			verifAssert(sl.TryLock() == !locked, "SpinLock.TryLock succeeds iff the lock is free")
			locked = true
		case 3:
			if locked {
				sl.Unlock()
				locked = false
			} else {
				sl.Lock() // free: must not spin
				locked = true
			}
		case 4:
			dc.Close() // any number of times
			closed = true
		case 5:
			open := true
			select {
			case <-dc.Done():
				open = false
			default:
			}
			verifAssert(open == !closed, "DoneChan.Done is closed exactly after Close")
		case 6:
			runs := 0
			panics := verifChoose("panics", 2) == 1
			_, p := verifExpectPanic(func() {
				b.Guard(func() {
					runs++
					verifAssert(!b.lock.TryLock(), "Barrier.Guard runs fn with the lock held")
					if panics {
						panic("boom")
					}
				})
			})
			verifAssert(runs == 1 && p == panics, "Barrier.Guard runs fn exactly once")
			free := b.lock.TryLock()
			verifAssert(free, "Barrier.Guard releases the lock afterwards, also when fn panics")
			if free {
				b.lock.Unlock()
			}
			verifReach("guard")
		}
	}
	verifReach("done")
}
