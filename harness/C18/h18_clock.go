package syncx

import "time"

// Virtual clock shared by the C18 harnesses that depend on time.

//verif:stub github.com/gotid/god/lib/timex.Now => verifNow
//verif:stub github.com/gotid/god/lib/timex.Since => verifSince

var verifClock time.Duration

func verifNow() time.Duration                  { return verifClock }
func verifSince(t time.Duration) time.Duration { return verifClock - t }

// verifAdvance moves the clock forward by a symbolic amount in [0, max].
func verifAdvance(max time.Duration) {
	dt := time.Duration(verifInt64("dt"))
	verifAssume(dt >= 0)
	verifAssume(dt <= max)
	verifClock += dt
}
