package syncx

// H18n: DoneChan under concurrent callers.  Sequential specification (H18d4):
// Close is idempotent, Done is closed exactly after the first Close.  Two or
// three goroutines call Close at once (and one polls Done), under bounded
// preemption: no Close panics - a history in which a Close crashes has no
// linearization - and afterwards Done is closed.
func Verif_C18_donechan_concurrent() {
	dc := NewDoneChan()
	n := 2 + verifCase(2)
	panics := make([]bool, n)
	done := make(chan struct{}, n+1)
	for i := 0; i < n; i++ {
		i := i
		go func() {
			_, panics[i] = verifExpectPanic(func() { dc.Close() })
			done <- struct{}{}
		}()
	}
	sawOpen := false
	go func() {
		select {
		case <-dc.Done():
		default:
			sawOpen = true
		}
		done <- struct{}{}
	}()
	for i := 0; i < n+1; i++ {
		<-done
	}
	for i := 0; i < n; i++ {
		verifAssert(!panics[i], "concurrent Close: no Close call panics (Close is idempotent for every interleaving)")
	}
	closed := false
	select {
	case <-dc.Done():
		closed = true
	default:
	}
	verifAssert(closed, "concurrent Close: Done is closed once the Close calls have returned")
	if sawOpen {
		verifReach("polled-before-close")
	}
	dc.Close() // and once more, sequentially
	verifReach("closed-concurrently")
}
