package syncx

import "sync"

// H18p / H18pn: the Pool under concurrent Get/Put.
//
// "a pool never has more than its limit of live resources, never hands one
// resource to two holders": the create callback counts the live resources
// (created minus destroyed) at every creation; every goroutine registers the
// resource it was handed as held and finds out whether somebody else holds it.

// verif18Point is read through the repository's AtomicBool: a synchronisation
// operation issued by repository code and therefore (unlike the harness's own
// mutex operations) a preemption point of the schedule search. It stands for
// whatever a real create callback / a real holder does (dial a connection,
// use it).
var verif18Point = NewAtomicBool()

type verif18Res struct{ id int }

type verif18Env struct {
	limit     int
	mu        sync.Mutex
	created   int
	destroyed int
	maxLive   int // largest created-destroyed seen by a create
	creating  int // create callbacks in progress
	maxBusy   int
	holders   map[*verif18Res]int
	double    bool // a resource was handed to somebody while somebody else held it
	foreign   bool // Get returned something create never made
	made      []*verif18Res
	handed    int
}

func verif18NewEnv(limit int) (*verif18Env, *Pool) {
	e := &verif18Env{limit: limit, holders: map[*verif18Res]int{}}
	p := NewPool(limit, e.create, e.destroy)
	return e, p
}

func (e *verif18Env) create() any {
	e.mu.Lock()
	e.created++
	e.creating++
	if live := e.created - e.destroyed; live > e.maxLive {
		e.maxLive = live
	}
	if e.creating > e.maxBusy {
		e.maxBusy = e.creating
	}
	r := &verif18Res{id: e.created}
	e.made = append(e.made, r)
	e.mu.Unlock()
	verif18Point.True() // creating takes a while: others may run
	e.mu.Lock()
	e.creating--
	e.mu.Unlock()
	return r
}

func (e *verif18Env) destroy(x any) {
	e.mu.Lock()
	e.destroyed++
	e.mu.Unlock()
}

// take: the calling goroutine has been handed x by Get.
func (e *verif18Env) take(x any) *verif18Res {
	r, _ := x.(*verif18Res)
	e.mu.Lock()
	defer e.mu.Unlock()
	known := false
	for _, m := range e.made {
		if m == r {
			known = true
		}
	}
	if r == nil || !known {
		e.foreign = true
		return r
	}
	e.handed++
	if e.holders[r] > 0 {
		e.double = true
	}
	e.holders[r]++
	return r
}

// release: the holder stops using r (just before it puts it back).
func (e *verif18Env) release(r *verif18Res) {
	e.mu.Lock()
	e.holders[r]--
	e.mu.Unlock()
}

func (e *verif18Env) check() {
	e.mu.Lock()
	defer e.mu.Unlock()
	verifAssert(e.maxLive <= e.limit, "never more live resources (created minus destroyed) than the limit, at every create")
	verifAssert(!e.double, "no resource is handed to two holders at once")
	verifAssert(!e.foreign, "Get returns a resource made by create")
	verifAssert(e.created-e.destroyed <= e.limit, "never more live resources than the limit (end)")
}

// H18p: 2 or 3 goroutines each Get a resource, use it (a preemption point
// while holding it) and Put it back, on a pool of limit 1 or 2; the engine
// interleaves them under "sched_fork" at the pool's synchronisation
// operations (mutex, condition variable) and inside create.
func Verif_C18_pool_concurrent() {
	c := verifCase(4)
	limit := c%2 + 1
	n := c/2 + 2
	verifClock = 1
	e, p := verif18NewEnv(limit)
	var wg sync.WaitGroup
	worker := func(rounds int) {
		defer wg.Done()
		for i := 0; i < rounds; i++ {
			r := e.take(p.Get())
			verif18Point.True() // holding the resource: others may run
			e.release(r)
			p.Put(r)
		}
	}
	wg.Add(n)
	for i := 0; i < n; i++ {
		rounds := 1
		if i == 0 {
			rounds = verifParam("rounds") // the first goroutine comes back for more
		}
		go worker(rounds)
	}
	wg.Wait()
	e.check()
	verifAssert(e.handed == n-1+verifParam("rounds"), "every Get returned")
	verifAssert(e.created >= 1, "something was created")
	if n > limit {
		verifReach("more-getters-than-limit")
	}
	if e.handed > e.created {
		verifReach("reused")
	}
	verifReach("done")
}

// H18pn: the natively reproducible twin. limit-1 resources are held; goroutine
// A's Get creates the last one and is held inside create by a gate; a second
// Get (goroutine B) arrives meanwhile. B must not create anything (the limit
// is used up by the resource being created), it must wait and receive a
// resource that is put back. Deterministic scheduler, no schedule forking.
func Verif_C18_pool_create_gate() {
	limit := verifCase(2) + 1
	verifClock = 1
	e := &verif18Env{limit: limit, holders: map[*verif18Res]int{}}
	gate, entered := make(chan struct{}), make(chan struct{})
	gated := false
	p := NewPool(limit, func() any {
		x := e.create()
		if gated {
			gated = false
			close(entered)
			<-gate
		}
		return x
	}, e.destroy)
	var held []*verif18Res
	for i := 0; i < limit-1; i++ {
		held = append(held, e.take(p.Get()))
	}
	gated = true
	var ra, rb *verif18Res
	var wg sync.WaitGroup
	aDone, bDone := new(AtomicBool), new(AtomicBool)
	wg.Add(2)
	go func() { defer wg.Done(); ra = e.take(p.Get()); aDone.Set(true) }()
	<-entered // A is inside create, the limit is used up
	go func() { defer wg.Done(); rb = e.take(p.Get()); bDone.Set(true) }()
	created := func() int {
		e.mu.Lock()
		defer e.mu.Unlock()
		return e.created
	}
	verifYield()
	for i := 0; i < 20 && created() <= limit && !bDone.True(); i++ {
		verifYield() // natively: give B time to do whatever it is going to do
	}
	verifAssert(created() <= limit, "a Get arriving while the last resource is being created does not create another one")
	verifAssert(!bDone.True(), "a Get at the limit waits")
	close(gate)
	verifYield()
	for i := 0; i < 40 && !aDone.True(); i++ {
		verifYield()
	}
	verifAssert(aDone.True(), "the creating Get returns")
	e.check()
	if bDone.True() {
		// only on a broken pool: B did not wait. Nothing to hand over.
		wg.Wait()
		e.check()
		return
	}
	// A puts its resource back: B receives exactly that one
	e.release(ra)
	p.Put(ra)
	wg.Wait()
	verifAssert(rb == ra, "the waiting Get receives the resource that was put back")
	for _, h := range held {
		verifAssert(h != rb, "no resource is handed to two holders")
	}
	e.check()
	verifAssert(e.created == limit && e.destroyed == 0, "exactly limit resources were created, none destroyed")
	verifReach("handed-over")
}
