package syncx

import "time"

// Harnesses for C18, part 1: Limit / TimeoutLimit (H18a).

//verif:stub (*github.com/gotid/god/lib/syncx.Cond).WaitWithTimeout => verifWaitWithTimeout

// The environment of a blocked TimeoutLimit.Borrow: the wait on the condition
// ends either by the timer (remaining 0, not signalled; the whole timeout has
// then elapsed) or by a signal after an arbitrary non-negative elapsed time
// (remaining = timeout - elapsed, possibly negative). A signal comes from a
// Return of another holder, which the stub may perform.
//
// This contract is not taken on trust: H18w/H18wf (h18w_cond.go) run the REAL
// Cond under a virtual clock and prove it - timer branch: (0, false), and never
// before the timeout has elapsed (scenario a); signal branch after elapsed
// e < timeout: exactly (timeout - e, true) (scenarios b, d). The stub is wider
// than that in one respect, on purpose: it also allows a signal with
// elapsed >= timeout (a Signal racing the timer, or a waiter that is woken
// late), which H18w does not explore.
var (
	verifTL        *TimeoutLimit
	verifElapsed   time.Duration // total time spent waiting
	verifWaitCalls int
	verifMaxWaits  int
	verifOut       int // reference count of outstanding borrows
)

func verifWaitWithTimeout(c *Cond, timeout time.Duration) (time.Duration, bool) {
	verifWaitCalls++
	verifAssume(verifWaitCalls <= verifMaxWaits) // bounded history
	if verifChoose("signalled", 2) == 0 {
		// timer fired: the whole (remaining) timeout has elapsed
		if timeout > 0 {
			verifElapsed += timeout
		}
		return 0, false
	}
	el := time.Duration(verifInt64("elapsed"))
	verifAssume(el >= 0)
	verifAssume(el <= 1<<20)
	verifElapsed += el
	if verifChoose("returned", 2) == 1 && verifOut > 0 {
		// the signaller really returned its borrow (channel only: the signal
		// itself is what this stub models)
		if verifTL.limit.Return() == nil {
			verifOut--
		}
	}
	return timeout - el, true
}

// H18a: histories of TryBorrow / Borrow (when it cannot block) / Return over a
// Limit and a TimeoutLimit of n, against a counter.
func Verif_C18_limit() {
	c := verifCase(verifParam("maxN") * 2)
	n := c/2 + 1
	timed := c%2 == 1
	ops := verifParam("ops")
	var l Limit
	var tl TimeoutLimit
	if timed {
		tl = NewTimeoutLimit(n)
		l = tl.limit
	} else {
		l = NewLimit(n)
	}
	out := 0
	for i := 0; i < ops; i++ {
		switch verifChoose("op", 3) {
		case 0:
			var ok bool
			if timed {
				ok = tl.TryBorrow()
			} else {
				ok = l.TryBorrow()
			}
			verifAssert(ok == (out < n), "TryBorrow succeeds iff fewer than n borrows are outstanding")
			if ok {
				out++
			} else {
				verifReach("full")
			}
		case 1:
			var err error
			if timed {
				err = tl.Return()
			} else {
				err = l.Return()
			}
			if out == 0 {
				verifAssert(err == ErrLimitReturn, "Return without an outstanding borrow is ErrLimitReturn")
				verifReach("return-empty")
			} else {
				verifAssert(err == nil, "Return of an outstanding borrow succeeds")
				out--
			}
		case 2:
			if out >= n {
				continue // a plain Borrow would block here
			}
			if timed {
				verifMaxWaits = 0
				verifAssert(tl.Borrow(time.Second) == nil, "Borrow below the limit succeeds at once")
			} else {
				l.Borrow()
			}
			out++
		}
		verifAssert(len(l.pool) == out, "outstanding borrows are exactly those counted")
		verifAssert(len(l.pool) <= n, "never more than n outstanding borrows")
	}
	verifReach("done")
}

// H18a': TimeoutLimit.Borrow on a full limit. The wait is the stub above.
func Verif_C18_timedborrow() {
	n := verifCase(verifParam("maxN")) + 1
	tl := NewTimeoutLimit(n)
	verifTL = &tl
	for i := 0; i < n; i++ {
		verifAssert(tl.TryBorrow(), "filling up")
	}
	verifOut = n
	verifMaxWaits = verifParam("waits")
	verifWaitCalls, verifElapsed = 0, 0
	timeout := time.Duration(verifInt64("timeout"))
	verifAssume(timeout >= -10)
	verifAssume(timeout <= 1<<20)
	err := tl.Borrow(timeout)
	if err == nil {
		verifOut++
		verifReach("borrowed-after-wait")
	} else {
		verifAssert(err == ErrTimeout, "a failed timed borrow reports ErrTimeout")
		verifAssert(verifElapsed >= timeout, "ErrTimeout is reported only after the timeout has elapsed")
		verifAssert(verifWaitCalls >= 1, "ErrTimeout only after waiting")
		verifReach("timeout")
	}
	verifAssert(len(tl.limit.pool) == verifOut, "outstanding borrows are exactly those counted")
	verifAssert(len(tl.limit.pool) <= n, "never more than n outstanding borrows")
}
