package syncx

import (
	"errors"
	"io"
	"sync"
	"sync/atomic"
)

// H18e: SingleFlight / LockedCalls / ResourceManager.Get with two concurrent
// callers as real goroutines. The harness controls the overlap with a gate
// inside the first caller's function (natively reproducible); with
// "sched_fork" the engine additionally preempts the callers at their
// synchronisation operations.

var verifErrShared = errors.New("shared failure")

// one call through the group, with its interval and outcome
type verifCallRec struct {
	key              string
	invoked, returned int64 // stamps
	val              any
	err              error
	fresh            bool
	executed         int // how often this call's own fn ran
}

type verifFlightEnv struct {
	stamp    int64
	execs    int64          // executions in total (also the value an execution returns)
	running  map[string]int // executions in progress per key
	overlap  bool           // two executions for one key were in progress at once
	execBy   map[int64]*verifCallRec
	mu       sync.Mutex
	gate     chan struct{} // holds the first caller inside its function
	entered  chan struct{}
	once     sync.Once
	failing  bool
	yields   int
	all      []*verifCallRec // every call made through the group
}

func (e *verifFlightEnv) tick() int64 { return atomic.AddInt64(&e.stamp, 1) }

// fn is the function handed to Do by call r.
func (e *verifFlightEnv) fn(r *verifCallRec, gated bool) func() (any, error) {
	return func() (any, error) {
		e.mu.Lock()
		e.execs++
		id := e.execs
		e.execBy[id] = r
		r.executed++
		if e.running[r.key] > 0 {
			e.overlap = true
		}
		e.running[r.key]++
		e.mu.Unlock()
		if gated {
			e.once.Do(func() { close(e.entered) })
			<-e.gate
		} else {
			for i := 0; i < e.yields; i++ {
				verifYield()
			}
		}
		e.mu.Lock()
		e.running[r.key]--
		e.mu.Unlock()
		if e.failing {
			return nil, verifErrShared
		}
		return id, nil
	}
}

// settle waits for quiescence; natively (where a yield is a short sleep) it
// keeps waiting until cond holds, for a bounded time.
func verifSettle(cond func() bool) {
	verifYield()
	for i := 0; i < 40 && !cond(); i++ {
		verifYield()
	}
}

func (r *verifCallRec) isBack() bool { return atomic.LoadInt64(&r.returned) > 0 }

func verifNewFlightEnv() *verifFlightEnv {
	return &verifFlightEnv{running: map[string]int{}, execBy: map[int64]*verifCallRec{}, gate: make(chan struct{}), entered: make(chan struct{})}
}

// checkShared: the oracle for one finished single-flight call r.
func (e *verifFlightEnv) checkShared(r *verifCallRec, useEx bool) {
	verifAssert(r.returned > 0, "the call returned")
	if e.failing {
		verifAssert(r.err == verifErrShared && r.val == nil, "every caller receives the execution's error")
		return
	}
	verifAssert(r.err == nil, "no error when the function succeeds")
	id, ok := r.val.(int64)
	verifAssert(ok && id >= 1 && id <= e.execs, "the result is that of an execution of the function")
	if !ok {
		return
	}
	x := e.execBy[id] // the call whose execution produced r's result
	verifAssert(x != nil && x.key == r.key, "the result comes from an execution for the same key")
	if x == nil {
		return
	}
	if x != r {
		verifAssert(r.invoked < x.returned, "a result is shared only between calls that overlap in time (a later call executes afresh)")
		verifAssert(r.executed == 0, "a call that shares a result does not execute")
		verifReach("shared")
	} else {
		verifAssert(r.executed == 1, "a call that executes does so once")
	}
	// one execution serves only calls that pairwise overlap: a call that starts after
	// another call has returned with this execution's result is a later call
	for _, o := range e.all {
		if oid, ok := o.val.(int64); ok && o != r && oid == id && o.returned > 0 {
			verifAssert(r.invoked < o.returned, "a call invoked after another call returned with an execution's result is not served by that execution (a later call executes afresh)")
		}
	}
	if useEx {
		verifAssert(r.fresh == (x == r), "DoEx reports fresh exactly for the call that executed")
	}
}

func Verif_C18_singleflight() {
	c := verifCase(8)
	sameKey := c%2 == 0
	startB := c / 2 // 0: while A executes; 1: together with A's release; 2: after A returned; 3: together with A, both held by the gate
	useEx := verifChoose("api", 2) == 1
	e := verifNewFlightEnv()
	e.failing = verifChoose("failing", 2) == 1
	e.yields = verifChoose("yields", 2)
	g := NewSingleFlight()
	keyB := "k"
	if !sameKey {
		keyB = "j"
	}
	a, b := &verifCallRec{key: "k"}, &verifCallRec{key: keyB}
	// the joining caller may call again for the same key the moment its first call is back
	var again *verifCallRec
	if sameKey && (startB == 0 || startB == 3) && !e.failing && verifChoose("callsAgain", 2) == 1 {
		again = &verifCallRec{key: "k"}
		e.all = append(e.all, again)
	}
	e.all = append(e.all, a, b)
	var wg sync.WaitGroup
	var do func(r *verifCallRec, gated bool)
	do = func(r *verifCallRec, gated bool) {
		defer wg.Done()
		r.invoked = e.tick()
		if useEx {
			r.val, r.fresh, r.err = g.DoEx(r.key, e.fn(r, gated))
		} else {
			r.val, r.err = g.Do(r.key, e.fn(r, gated))
		}
		atomic.StoreInt64(&r.returned, e.tick())
		if again != nil && r != again && r.executed == 0 {
			wg.Add(1)
			do(again, false)
		}
	}
	wg.Add(2)
	go do(a, true)
	if startB == 3 {
		go do(b, true)
		verifSettle(func() bool { return sameKey || atomic.LoadInt64(&e.execs) == 2 }) // both have come to rest: inside the function or waiting for the other
		verifYield()
		if sameKey {
			verifAssert(e.execs == 1, "of two calls arriving together for one key exactly one executes while the other waits")
			verifReach("together")
		} else {
			verifAssert(e.execs == 2, "calls arriving together for different keys both execute")
		}
	}
	<-e.entered // A (or, arriving together, one of the two) is inside its function
	switch startB {
	case 3:
		close(e.gate)
	case 0:
		go do(b, false)
		if sameKey {
			verifYield() // B has joined A's flight
		} else {
			verifSettle(b.isBack) // B has finished
		}
		if sameKey {
			verifAssert(b.returned == 0 && b.executed == 0, "a call arriving during an execution for its key waits for it instead of executing")
		} else {
			verifAssert(b.returned > 0 && b.executed == 1, "a call for another key runs independently of the execution in progress")
		}
		close(e.gate)
	case 1:
		go do(b, false)
		close(e.gate)
	case 2:
		close(e.gate)
		verifSettle(a.isBack)
		verifAssert(a.returned > 0, "A returns once its function does")
		go do(b, false)
	}
	wg.Wait()
	verifYield()
	e.checkShared(a, useEx)
	e.checkShared(b, useEx)
	if again != nil && again.returned > 0 {
		e.checkShared(again, useEx)
		verifAssert(again.executed == 1, "a caller that calls again after its shared result is back executes afresh")
		verifReach("called-again")
	}
	if startB != 3 {
		verifAssert(a.executed == 1, "the first call executes")
	}
	if sameKey && (startB == 0 || startB == 3) {
		verifAssert(e.execs == 1 || again != nil && e.execs == 2, "overlapping calls for one key are served by one execution")
		verifAssert(b.val == a.val && b.err == a.err, "overlapping calls receive the same result")
		verifReach("overlap-shared")
	}
	if !sameKey {
		verifAssert(e.execs == 2 && b.executed == 1, "calls for different keys each execute")
		verifReach("different-keys")
	}
	if startB == 2 {
		verifAssert(b.executed == 1, "a later call executes afresh")
		verifReach("later-afresh")
	}
	verifAssert(!e.overlap, "never two executions in progress for one key")
	// a later call on the same key always executes afresh
	l := &verifCallRec{key: "k"}
	e.all = append(e.all, l)
	again = nil
	wg.Add(1)
	do(l, false)
	e.checkShared(l, useEx)
	verifAssert(l.executed == 1, "a later call executes afresh")
}

func Verif_C18_lockedcalls() {
	c := verifCase(6)
	sameKey := c%2 == 0
	startB := c / 2 // 0: while A executes; 1: together with A's release; 2: together with A, both held by the gate
	e := verifNewFlightEnv()
	e.yields = verifChoose("yields", 2)
	g := NewLockedCalls()
	keyB := "k"
	if !sameKey {
		keyB = "j"
	}
	a, b := &verifCallRec{key: "k"}, &verifCallRec{key: keyB}
	var wg sync.WaitGroup
	do := func(r *verifCallRec, gated bool) {
		defer wg.Done()
		r.invoked = e.tick()
		r.val, r.err = g.Do(r.key, e.fn(r, gated))
		atomic.StoreInt64(&r.returned, e.tick())
	}
	wg.Add(2)
	go do(a, true)
	if startB == 2 {
		go do(b, true)
		verifSettle(func() bool { return sameKey || atomic.LoadInt64(&e.execs) == 2 })
		verifYield()
		if sameKey {
			verifAssert(e.execs == 1, "of two calls arriving together for one key one executes while the other waits")
			verifReach("together")
		} else {
			verifAssert(e.execs == 2, "calls arriving together for different keys both execute")
		}
	}
	<-e.entered
	if startB != 2 {
		go do(b, false)
	}
	if startB == 0 {
		if sameKey {
			verifYield()
		} else {
			verifSettle(b.isBack)
		}
		if sameKey {
			verifAssert(b.executed == 0 && b.returned == 0, "a call for a key that is executing waits")
			verifReach("waited")
		} else {
			verifAssert(b.executed == 1 && b.returned > 0, "a call for another key runs independently")
			verifReach("different-keys")
		}
	}
	close(e.gate)
	wg.Wait()
	verifYield()
	verifAssert(!e.overlap, "executions for one key never overlap")
	verifAssert(e.execs == 2, "each call executes")
	for _, r := range []*verifCallRec{a, b} {
		verifAssert(r.executed == 1, "each call executes its own function exactly once")
		id, ok := r.val.(int64)
		verifAssert(r.err == nil && ok && e.execBy[id] == r, "each call returns the result of its own execution")
	}
	verifReach("done")
}

// ResourceManager.Get from two goroutines for one key: one resource is created.
func Verif_C18_rm_concurrent() {
	startB := verifCase(2) // 0: while A creates; 1: together with A's release
	m := NewResourceManager()
	gate, entered := make(chan struct{}), make(chan struct{})
	var creates int64
	var made []*verifCloser
	var mu sync.Mutex
	create := func(gated bool) func() (io.Closer, error) {
		return func() (io.Closer, error) {
			atomic.AddInt64(&creates, 1)
			if gated {
				close(entered)
				<-gate
			}
			c := &verifCloser{key: "k"}
			mu.Lock()
			made = append(made, c)
			mu.Unlock()
			return c, nil
		}
	}
	var ra, rb io.Closer
	var ea, eb error
	var wg sync.WaitGroup
	wg.Add(2)
	go func() { defer wg.Done(); ra, ea = m.Get("k", create(true)) }()
	<-entered
	go func() { defer wg.Done(); rb, eb = m.Get("k", create(false)) }()
	if startB == 0 {
		verifYield()
	}
	close(gate)
	wg.Wait()
	verifYield()
	verifAssert(ea == nil && eb == nil && ra != nil && rb != nil, "both callers get a resource")
	verifAssert(creates == 1 && len(made) == 1, "at most one resource is created per key under concurrent Get")
	verifAssert(ra == rb, "both callers get the same resource")
	verifAssert(m.Close() == nil, "Close succeeds")
	for _, c := range made {
		verifAssert(c.closes == 1, "Close closes every resource")
	}
	verifReach("done")
}
