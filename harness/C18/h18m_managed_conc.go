package syncx

// H18m: ManagedResource under concurrent callers.  Sequential specification
// (H18d2): Take returns the current resource, generating one when there is
// none; MarkBroken(r) discards r if it is the current resource.  Here two or
// three goroutines call it at once, under bounded preemption:
//   case 0/1: two (three) takers while there is no resource (fresh, or after
//             the resource was marked broken): every taker receives a non-nil
//             resource, all the same one, generated exactly once, and it
//             stays the current resource;
//   case 2:   a taker races MarkBroken(current): the taker gets the old
//             resource (Take first) or a freshly generated one (MarkBroken
//             first), never nil; afterwards Take agrees with that order.
func Verif_C18_managed_concurrent() {
	gen := 0
	mr := NewManagedResource(func() any { gen++; return gen }, func(a, b any) bool { return a == b })
	c := verifCase(3)
	cur := 0
	if verifChoose("start", 2) == 1 {
		// there was a resource and it broke
		v := mr.Take()
		verifAssert(v == 1, "Take generates the first resource")
		if c == 2 {
			cur = 1
		} else {
			mr.MarkBroken(v)
			verifReach("after-breakage")
		}
	} else if c == 2 {
		v := mr.Take()
		verifAssert(v == 1, "Take generates the first resource")
		cur = 1
	}
	before := gen

	if c < 2 {
		n := 2 + c
		got := make([]any, n)
		done := make(chan struct{}, n)
		for i := 0; i < n; i++ {
			i := i
			go func() {
				got[i] = mr.Take()
				done <- struct{}{}
			}()
		}
		for i := 0; i < n; i++ {
			<-done
		}
		for i := 0; i < n; i++ {
			verifAssert(got[i] != nil, "concurrent Take: every taker receives a resource (never nil)")
			verifAssert(got[i] == got[0], "concurrent Take: all takers receive the same resource")
		}
		verifAssert(gen == before+1, "concurrent Take: the resource is generated exactly once")
		verifAssert(got[0] == gen, "concurrent Take: the resource received is the generated one")
		verifAssert(mr.Take() == got[0] && gen == before+1, "concurrent Take: it stays the current resource")
		verifReach("takers")
		return
	}

	var got any
	done := make(chan struct{}, 2)
	go func() { got = mr.Take(); done <- struct{}{} }()
	go func() { mr.MarkBroken(cur); done <- struct{}{} }()
	<-done
	<-done
	verifAssert(got != nil, "Take racing MarkBroken: the taker receives a resource (never nil)")
	verifAssert(got == cur || got == cur+1, "Take racing MarkBroken: the old resource or a fresh one")
	if got == cur {
		// Take first, then the breakage: the next Take generates
		verifAssert(gen == before, "Take racing MarkBroken: the old resource was not regenerated")
		verifAssert(mr.Take() == cur+1 && gen == before+1, "Take racing MarkBroken: after the breakage the next Take generates a fresh resource")
		verifReach("take-first")
	} else {
		verifAssert(gen == before+1, "Take racing MarkBroken: one fresh resource was generated")
		verifAssert(mr.Take() == got && gen == before+1, "Take racing MarkBroken: the fresh resource stays current")
		verifReach("broken-first")
	}
}
