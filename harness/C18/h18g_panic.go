package syncx

import (
	"errors"
	"io"
)

type verifCloserG struct{ closed int }

func (c *verifCloserG) Close() error { c.closed++; return nil }

var verifErrG = errors.New("create failed")

// H18g: a function that panics inside a single-flight / locked-calls /
// resource-manager call (the caller recovers, as recover middlewares do) must
// not poison its key: "a later call always executes afresh".
func Verif_C18_panic_then_later() {
	kind := verifCase(4)
	key := verifStringN("key", 1)
	other := verifStringN("other", 1)
	second := key
	if verifChoose("sameKey", 2) == 0 {
		verifAssume(other != key)
		second = other
	}
	switch kind {
	case 0, 1: // SingleFlight Do / DoEx
		g := NewSingleFlight()
		_, panicked := verifExpectPanic(func() {
			if kind == 0 {
				g.Do(key, func() (any, error) { panic("boom") })
			} else {
				g.DoEx(key, func() (any, error) { panic("boom") })
			}
		})
		verifAssert(panicked, "the panic reaches the caller")
		runs := 0
		if kind == 0 {
			v, err := g.Do(second, func() (any, error) { runs++; return 7, nil })
			verifAssert(runs == 1 && v == 7 && err == nil, "single flight: a later call executes afresh and gets its own result, also after an earlier call of that key panicked")
		} else {
			v, fresh, err := g.DoEx(second, func() (any, error) { runs++; return 7, nil })
			verifAssert(runs == 1 && v == 7 && fresh && err == nil, "single flight (DoEx): a later call executes afresh, also after an earlier call of that key panicked")
		}
		verifReach("sf-after-panic")
	case 2: // LockedCalls
		g := NewLockedCalls()
		_, panicked := verifExpectPanic(func() { g.Do(key, func() (any, error) { panic("boom") }) })
		verifAssert(panicked, "the panic reaches the caller")
		runs := 0
		v, err := g.Do(second, func() (any, error) { runs++; return 7, nil })
		verifAssert(runs == 1 && v == 7 && err == nil, "locked calls: a later call executes, also after an earlier call of that key panicked")
		verifReach("lc-after-panic")
	case 3: // ResourceManager
		m := NewResourceManager()
		_, panicked := verifExpectPanic(func() { m.Get(key, func() (io.Closer, error) { panic("boom") }) })
		verifAssert(panicked, "the panic reaches the caller")
		creates := 0
		res := &verifCloserG{}
		got, err := m.Get(second, func() (io.Closer, error) { creates++; return res, nil })
		verifAssert(creates == 1 && err == nil && got == io.Closer(res), "resource manager: a later Get creates the resource, also after an earlier create for that key panicked")
		verifAssert(m.Close() == nil && res.closed == 1, "resource manager: Close closes it exactly once")
		verifReach("rm-after-panic")
	}
}
