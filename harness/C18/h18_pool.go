package syncx

import (
	"sync/atomic"
	"time"
)

// H18b: Pool against a reference model of resource states.

const (
	verifHeld = iota
	verifIdle
	verifDestroyed
)

type verifRes struct {
	id       int
	state    int
	fresh    bool          // created by the Get in progress
	putAt    time.Duration // when it became idle
	destroys int
}

func Verif_C18_pool() {
	c := verifCase(verifParam("maxLimit") * 3)
	limit := c/3 + 1
	firstOp := c % 3
	ops := verifParam("ops")
	maxAge := time.Duration(verifInt64("maxAge"))
	verifAssume(maxAge >= 0) // 0: resources never expire
	verifAssume(maxAge <= 100)
	start := time.Duration(verifInt64("start"))
	verifAssume(start >= 1)
	verifAssume(start <= 1000)
	verifClock = start

	var all []*verifRes
	var held []*verifRes
	create := func() any {
		r := &verifRes{id: len(all), state: verifHeld, fresh: true}
		all = append(all, r)
		return r
	}
	destroy := func(x any) {
		r := x.(*verifRes)
		r.destroys++
		r.state = verifDestroyed
	}
	p := NewPool(limit, create, destroy, WithMaxAge(maxAge))

	live := func() (n, idle int) {
		for _, r := range all {
			if r.state != verifDestroyed {
				n++
			}
			if r.state == verifIdle {
				idle++
			}
		}
		return
	}

	for i := 0; i < ops; i++ {
		verifAdvance(300)
		op := firstOp
		if i > 0 {
			op = verifChoose("op", 3)
		}
		switch op {
		case 0: // Get, when it cannot block
			n, idle := live()
			if idle == 0 && n >= limit {
				// Every live resource is held: a Get has to wait (observed with a real
				// waiter in H18b2/H18b3); here only the pool's own view is checked.
				verifAssert(p.head == nil && p.created >= p.limit, "with the limit of live resources held and none idle the pool would make a Get wait, not create another resource")
				verifReach("at-limit")
				break
			}
			x := p.Get()
			r, ok := x.(*verifRes)
			verifAssert(ok && r != nil, "Get returns a resource made by create")
			if r.fresh {
				r.fresh = false
				verifReach("created")
			} else {
				verifAssert(r.state == verifIdle, "Get never hands out a resource that is held by someone else or destroyed")
				verifAssert(!(maxAge > 0 && r.putAt+maxAge < verifClock), "a resource idle beyond maxAge is not reused")
				verifReach("reused")
			}
			r.state = verifHeld
			held = append(held, r)
		default: // Put of the op-1'th held resource
			k := op - 1
			if k >= len(held) {
				continue
			}
			r := held[k]
			held = append(held[:k:k], held[k+1:]...)
			r.state = verifIdle
			r.putAt = verifClock
			p.Put(r)
		}
		n, idle := live()
		verifAssert(n <= limit, "never more live resources than the limit")
		verifPoolAccounting(p, len(held), idle)
		for _, r := range all {
			verifAssert(r.destroys <= 1, "destroy is called at most once per resource")
			if r.destroys == 1 {
				verifReach("destroyed")
			}
		}
		for a := 0; a < len(held); a++ {
			for b := a + 1; b < len(held); b++ {
				verifAssert(held[a] != held[b], "no resource is held twice")
			}
		}
	}
	verifReach("done")
}

// verifPoolAccounting: the pool's counter of live resources agrees with the
// harness's books after every operation: created == resources held by callers
// + resources idle in the pool's list. The limit is enforced through this
// counter (Get creates iff created < limit), so a drift in either direction
// ends in more live resources than the limit or in a Get that waits for ever.
func verifPoolAccounting(p *Pool, held, idle int) {
	p.lock.Lock()
	n := 0
	for x := p.head; x != nil; x = x.next {
		n++
	}
	created := p.created
	p.lock.Unlock()
	verifAssert(n == idle, "the pool's idle list holds exactly the resources put back and not taken or destroyed since")
	verifAssert(created == held+idle, "the pool's count of live resources equals those held by callers plus those idle in the pool")
}

// H18b2: a Get at the limit. With `limit` resources held and none idle, a
// further Get (a real goroutine) must wait; a Put hands exactly that resource
// to the waiter; no extra resource is ever created.
func Verif_C18_pool_blocking() {
	limit := verifCase(verifParam("maxLimit")) + 1
	creates, destroys := 0, 0
	p := NewPool(limit, func() any { creates++; return creates }, func(any) { destroys++ })
	verifClock = 1
	var held []any
	for i := 0; i < limit; i++ {
		x := p.Get()
		for _, h := range held {
			verifAssert(h != x, "no resource is handed to two holders")
		}
		held = append(held, x)
	}
	verifAssert(creates == limit, "resources are created up to the limit")
	var got any
	var done atomicBoolFlag
	go func() {
		got = p.Get()
		done.set()
	}()
	verifYield()
	verifAssert(!done.get(), "Get waits while the limit of resources is in use")
	verifAssert(creates == limit, "never more resources than the limit are created")
	k := verifChoose("which", limit)
	p.Put(held[k])
	verifYield()
	for i := 0; i < 40 && !done.get(); i++ {
		verifYield() // natively: give the woken goroutine time
	}
	verifAssert(done.get(), "Put wakes the waiting Get")
	verifAssert(got == held[k], "the waiter receives the resource that was put back")
	verifAssert(creates == limit && destroys == 0, "no resource is created or destroyed on the way")
	verifReach("handed-over")
}

type atomicBoolFlag struct{ v uint32 }

func (f *atomicBoolFlag) set()      { atomic.StoreUint32(&f.v, 1) }
func (f *atomicBoolFlag) get() bool { return atomic.LoadUint32(&f.v) == 1 }
