package syncx

// H18r: a reference-counted resource whose cleanup callback is slow.  The last
// Clean is running the callback (held on a gate) when another goroutine tries
// to Use the resource (and, if admitted, to Clean it again).  The resource "is
// cleaned exactly once, when its uses drop to zero, and refuses further use":
// the overlapping Use must be refused and the callback must run once.  The
// overlap is forced with channels, so it replays natively.
func Verif_C18_refresource_slow_clean() {
	cleans := 0
	entered := make(chan struct{})
	gate := make(chan struct{})
	r := NewRefResource(func() {
		cleans++
		if cleans == 1 {
			close(entered)
			<-gate // a slow cleanup, e.g. closing a connection
		}
	})
	uses := 1 + verifChoose("uses", 2)
	for i := 0; i < uses; i++ {
		verifAssert(r.Use() == nil, "Use of a live resource succeeds")
	}
	for i := 0; i < uses-1; i++ {
		r.Clean()
	}
	verifAssert(cleans == 0, "not cleaned while a use is outstanding")
	doneA, doneB := make(chan struct{}), make(chan struct{})
	go func() { // the last holder leaves: the cleanup starts
		r.Clean()
		close(doneA)
	}()
	<-entered
	var errB error
	go func() { // a late user arrives while the cleanup is running
		errB = r.Use()
		if errB == nil {
			r.Clean()
		}
		close(doneB)
	}()
	verifYield() // the late user runs until it blocks or finishes
	close(gate)
	<-doneA
	<-doneB
	verifAssert(errB == ErrUseOfCleaned, "a Use overlapping the cleanup is refused")
	verifAssert(cleans == 1, "the resource is cleaned exactly once")
	verifAssert(r.Use() == ErrUseOfCleaned, "a cleaned resource refuses further use")
	verifReach("slow-clean")
}
