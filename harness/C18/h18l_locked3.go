package syncx

import (
	"sync"
	"sync/atomic"
)

// H18l: LockedCalls with THREE callers of one key arriving one after the other:
// A is executing; B arrives and waits; A finishes and B executes; C arrives while
// B is executing.  "Calls through a locked-calls group with the same key never
// overlap and each executes": C must wait for B although the call that was
// running when B queued up (A) is long gone.  The order is forced with gates and
// yields (replays natively); H18f-style schedule forking is not needed.
func Verif_C18_lockedcalls3() {
	g := NewLockedCalls()
	var running, maxRunning, execs int32
	gateA, gateB := make(chan struct{}), make(chan struct{})
	enteredA, enteredB := make(chan struct{}), make(chan struct{})
	fn := func(entered, gate chan struct{}, val int) func() (any, error) {
		return func() (any, error) {
			n := atomic.AddInt32(&running, 1)
			for {
				m := atomic.LoadInt32(&maxRunning)
				if n <= m || atomic.CompareAndSwapInt32(&maxRunning, m, n) {
					break
				}
			}
			atomic.AddInt32(&execs, 1)
			if entered != nil {
				close(entered)
			}
			if gate != nil {
				<-gate
			}
			atomic.AddInt32(&running, -1)
			return val, nil
		}
	}
	var wg sync.WaitGroup
	var ra, rb, rc any
	wg.Add(3)
	go func() { defer wg.Done(); ra, _ = g.Do("k", fn(enteredA, gateA, 1)) }()
	<-enteredA // A is executing
	go func() { defer wg.Done(); rb, _ = g.Do("k", fn(enteredB, gateB, 2)) }()
	verifYield() // B has arrived and waits for A
	verifYield()
	verifAssert(atomic.LoadInt32(&execs) == 1, "a call for a key that is executing waits")
	close(gateA) // A finishes; B gets its turn
	<-enteredB   // B is executing
	cDone := false
	go func() { defer wg.Done(); rc, _ = g.Do("k", fn(nil, nil, 3)); cDone = true }()
	verifYield() // C has arrived while B is still inside its function
	verifYield()
	verifAssert(atomic.LoadInt32(&execs) == 2 && !cDone, "a call arriving while a LATER call for its key is executing waits for it too")
	close(gateB)
	wg.Wait()
	verifAssert(atomic.LoadInt32(&maxRunning) == 1, "executions for one key never overlap, whichever earlier call a caller queued behind")
	verifAssert(atomic.LoadInt32(&execs) == 3, "each call executes")
	verifAssert(ra == 1 && rb == 2 && rc == 3, "each call returns the result of its own execution")
	verifReach("three-callers")
}
