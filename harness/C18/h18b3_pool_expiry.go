package syncx

import "time"

// H18b3: the limit still holds after resources have been replaced for age.
// Borrow k of `limit` resources, put j of them back at different times, let
// the clock run (symbolically: none, some or all of the idle ones are now
// older than maxAge), Get again (reuses a young idle resource, or destroys the
// expired ones it meets and creates a new one), then borrow until every live
// resource is held. One more Get — a real goroutine — must then wait: it has
// not returned at quiescence and nothing was created for it; a Put hands it
// exactly the resource put back. After every operation: live resources
// (creates - destroys, counted by the callbacks) <= limit, no resource held
// twice, none destroyed twice, and the pool's own counter agrees with the
// books (verifPoolAccounting).
func Verif_C18_pool_expiry_limit() {
	limit := verifCase(verifParam("maxLimit")) + 1
	maxAge := time.Duration(verifInt64("maxAge"))
	verifAssume(maxAge >= 1)
	verifAssume(maxAge <= 100)
	start := time.Duration(verifInt64("start"))
	verifAssume(start >= 1)
	verifAssume(start <= 1000)
	verifClock = start

	creates, destroys := 0, 0
	var all, held []*verifRes
	create := func() any {
		creates++
		r := &verifRes{id: len(all), state: verifHeld, fresh: true}
		all = append(all, r)
		return r
	}
	destroy := func(x any) {
		destroys++
		r := x.(*verifRes)
		r.destroys++
		r.state = verifDestroyed
	}
	p := NewPool(limit, create, destroy, WithMaxAge(maxAge))

	idle := func() (n int) {
		for _, r := range all {
			if r.state == verifIdle {
				n++
			}
		}
		return
	}
	check := func() {
		verifAssert(creates-destroys <= limit, "never more live resources than the limit")
		verifAssert(len(held) <= limit, "never more resources handed out than the limit")
		verifPoolAccounting(p, len(held), idle())
		for _, r := range all {
			verifAssert(r.destroys <= 1, "destroy is called at most once per resource")
		}
		for a := 0; a < len(held); a++ {
			for b := a + 1; b < len(held); b++ {
				verifAssert(held[a] != held[b], "no resource is held twice")
			}
		}
	}
	take := func(x any) (reused bool) {
		r, ok := x.(*verifRes)
		verifAssert(ok && r != nil, "Get returns a resource made by create")
		if r.fresh {
			r.fresh = false
		} else {
			verifAssert(r.state == verifIdle, "Get never hands out a resource that is held by someone else or destroyed")
			verifAssert(!(r.putAt+maxAge < verifClock), "a resource idle beyond maxAge is not reused")
			reused = true
		}
		r.state = verifHeld
		held = append(held, r)
		return
	}
	put := func(k int) *verifRes {
		r := held[k]
		held = append(held[:k:k], held[k+1:]...)
		r.state = verifIdle
		r.putAt = verifClock
		p.Put(r)
		return r
	}

	// 1. borrow k, 2. put j of them back, the clock moving in between
	k := verifChoose("borrow", limit) + 1
	for i := 0; i < k; i++ {
		take(p.Get())
		check()
	}
	j := verifChoose("putBack", k) + 1
	for i := 0; i < j; i++ {
		verifAdvance(60)
		put(0)
		check()
	}
	// 3. idle time, 4. the Get that meets the idle resources
	verifAdvance(300)
	before := destroys
	if take(p.Get()) {
		verifReach("reused-young")
	} else if destroys > before {
		verifReach("expired-replaced")
	}
	check()
	// 5. borrow until every live resource is held
	for g := 0; g <= limit; g++ {
		if idle() == 0 && creates-destroys >= limit {
			break
		}
		take(p.Get())
		check()
	}
	verifAssert(len(held) == limit && idle() == 0, "harness: the limit of resources is now held (follows from the checks above)")

	// 6. one more Get has to wait
	created := creates
	var got any
	var done atomicBoolFlag
	go func() {
		got = p.Get()
		done.set()
	}()
	verifYield()
	verifAssert(!done.get(), "Get waits while the limit of live resources is in use, also after resources were replaced for age")
	verifAssert(creates == created, "no resource beyond the limit is created for the waiting Get")
	verifReach("waits-at-limit")
	if done.get() {
		return // already reported; nothing left to hand over
	}
	// 7. a Put hands the waiter exactly that resource
	r := put(verifChoose("which", limit))
	verifYield()
	for i := 0; i < 40 && !done.get(); i++ {
		verifYield() // natively: give the woken goroutine time
	}
	verifAssert(done.get(), "Put wakes the waiting Get")
	if !done.get() {
		return
	}
	verifAssert(got == any(r), "the waiter receives the resource that was put back")
	verifAssert(creates == created, "no resource is created on the way")
	take(got)
	check()
	verifReach("handed-over")
}
