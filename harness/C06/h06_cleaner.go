package cache

import (
	"errors"
	"time"

	"github.com/gotid/god/lib/collection"
	"github.com/gotid/god/lib/threading"
)

// Environment of the delete-retry machinery (cleaner.go). The package-level
// timing wheel and task runner are created in init (ticker + goroutines); the
// harness replaces their two entry points:
//   SetTimer  records (key, value, delay) instead of queueing it for the wheel
//             goroutine (that the wheel fires execute(key, value) once after
//             `delay` is property C10);
//   Schedule  runs the task inline instead of on a pooled goroutine.

//verif:stub (*github.com/gotid/god/lib/collection.TimingWheel).SetTimer => verifSetTimer
//verif:stub (*github.com/gotid/god/lib/threading.TaskRunner).Schedule => verifSchedule
//verif:stub github.com/gotid/god/lib/stringx.Randn => verifRandn

type verifTimer struct {
	key, val any
	delay    time.Duration
}

var verifTimers []verifTimer

func verifSetTimer(w *collection.TimingWheel, key, value any, delay time.Duration) error {
	if delay <= 0 || key == nil { // the real SetTimer's argument check
		return collection.ErrArgument
	}
	// as the real wheel: setting a timer under a key that is still pending replaces that entry
	if ks, ok := key.(string); ok {
		for i, t := range verifTimers {
			if ts, ok := t.key.(string); ok && ts == ks {
				verifTimers[i] = verifTimer{key, value, delay}
				return nil
			}
		}
	}
	verifTimers = append(verifTimers, verifTimer{key, value, delay})
	return nil
}

func verifSchedule(r *threading.TaskRunner, task func()) { task() }

// distinct timer keys (the real ones are random 8-letter strings)
var verifRandCnt int

func verifRandn(n int) string {
	verifRandCnt++
	return ("verifkey" + string(rune('a'+verifRandCnt%26)))[9-n:]
}

var verifErrDel = errors.New("redis down")

// H06a: the life of one failed cache removal. AddCleanTask registers the
// removal; every time the wheel fires the pending timer (clean(key, value) is
// the wheel's execute callback) the removal is attempted with a symbolic
// outcome. Oracle = the statement's last sentence: the first retry is armed
// 1 s after the failure; every failed attempt arms exactly one further retry of
// the same removal (same timer key; that it is the same task shows when it is
// fired in the next round) with a strictly larger delay; a successful attempt arms nothing; the removal is attempted
// exactly once per firing. The retry schedule is finite (it ends with the 1 h
// attempt, after which the code reports and gives up): once an attempt has
// been made with a delay >= verifLastDelay nothing further is demanded.
const verifLastDelay = time.Hour

func Verif_C06_retry() {
	verifTimers = nil
	attempts := 0
	lastFailed := false
	task := func() error {
		attempts++
		lastFailed = verifBool("fail")
		if lastFailed {
			return verifErrDel
		}
		return nil
	}
	AddCleanTask(task, "k1", "k2")
	verifAssert(attempts == 0, "registering the retry does not itself attempt the removal")
	verifAssert(len(verifTimers) == 1, "a failed removal arms exactly one retry")
	cur := verifTimers[0]
	verifAssert(cur.delay == time.Second, "the first retry is due 1 s after the failure")
	rounds := verifParam("rounds")
	for i := 0; i < rounds; i++ {
		verifTimers = nil
		before := attempts
		clean(cur.key, cur.val) // the wheel fires the pending timer
		verifAssert(attempts == before+1, "a due retry attempts the removal exactly once")
		if !lastFailed {
			verifAssert(len(verifTimers) == 0, "after the first successful removal nothing is retried again")
			verifReach("succeeded")
			if i > 0 {
				verifReach("succeeded-after-retries")
			}
			return
		}
		if cur.delay >= verifLastDelay {
			verifReach("gave-up")
			return
		}
		verifAssert(len(verifTimers) == 1, "a failed attempt arms exactly one further retry")
		next := verifTimers[0]
		verifAssert(next.key == cur.key, "the further retry replaces the same timer")
		verifAssert(next.delay > cur.delay, "retry delays increase")
		cur = next
	}
	verifAssert(false, "the retry schedule ends within the bound")
}
