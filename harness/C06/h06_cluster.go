package cache

import (
	"context"
	"errors"
	"sync"
	"time"

	"github.com/gotid/god/lib/hash"
	"github.com/gotid/god/lib/store/redis"
	"github.com/gotid/god/lib/syncx"
)

// H06e: the cache cluster. Placement of keys on nodes is consistent hashing
// (property C13); here dispatcher.Get is replaced by an arbitrary but fixed
// placement: every key is assigned a symbolic node the first time it is looked
// up and keeps it.

//verif:stub (*github.com/gotid/god/lib/hash.ConsistentHash).Get => verifDispatch

var (
	verifNodes     []any          // the cluster's nodes (Cache values), empty = no node configured
	verifPlacement map[string]int // key -> node index, fixed at first lookup
)

func verifDispatch(h *hash.ConsistentHash, v any) (any, bool) {
	if len(verifNodes) == 0 {
		return nil, false
	}
	key := v.(string)
	i, ok := verifPlacement[key]
	if !ok {
		i = verifChoose("node", len(verifNodes))
		verifPlacement[key] = i
	}
	return verifNodes[i], true
}

var verifErrNoNode = errors.New("model: no cache node")

// Rows are written through the cluster (SetCtx), a subset of the keys is
// removed through the cluster (DelCtx: 0..3 keys, so the single-key and the
// grouped multi-key branch), Redis possibly down at any DEL and back when the
// wheel fires the retries; then every key is read back through the cluster:
// removed keys are not found, the others still return their rows.
func Verif_C06_cluster() {
	verifRedis = verifRedisModel{data: map[string]verifEntry{}}
	verifAroundLog = nil
	verifTimers = nil
	verifPlacement = map[string]int{}
	verifNodes = nil
	nn := verifParam("nodes")
	for i := 0; i < nn; i++ {
		verifNodes = append(verifNodes, node{
			rds:            &redis.Redis{Addr: string([]byte{'n', byte('0' + i)}), Type: redis.NodeType},
			expire:         time.Hour,
			notFoundExpire: time.Minute,
			barrier:        syncx.NewSingleFlight(),
			lock:           new(sync.Mutex),
			stat:           &Stat{name: "verif"},
			errNotFound:    verifErrNoRows,
		})
	}
	c := cluster{dispatcher: hash.NewConsistentHash(), errNotFound: verifErrNoNode}
	ctx := context.Background()
	keys := []string{"k1", "k2", "k3"}
	rows := []string{"ra", "rb", "rc"}
	for i, k := range keys {
		row := rows[i]
		verifAssert(c.SetCtx(ctx, k, &row) == nil, "cluster set: succeeds")
	}
	// which keys are removed: any subset, in key order
	var del []string
	removed := make([]bool, len(keys))
	for i, k := range keys {
		if verifBool("remove") {
			del = append(del, k)
			removed[i] = true
		}
	}
	verifRedis.faults = verifBool("faults")
	err := c.DelCtx(ctx, del...)
	verifRedis.faults = false
	verifAssert(err == nil, "cluster del: every key has a node, no error")
	if verifRedis.delFailed > 0 {
		verifAssert(len(verifTimers) > 0, "cluster del failed on a node: a retry is armed")
		pending := verifTimers
		verifTimers = nil
		for _, t := range pending {
			clean(t.key, t.val) // Redis is back when the wheel fires the retries
		}
		verifReach("cluster-del-retried")
	}
	for i, k := range keys {
		var got string
		err := c.GetCtx(ctx, k, &got)
		if removed[i] {
			verifAssert(err == verifErrNoRows, "cluster: a removed key is not found afterwards")
		} else {
			verifAssert(err == nil && got == rows[i], "cluster: a key that was not named keeps its row")
		}
	}
	switch len(del) {
	case 1:
		verifReach("cluster-del-one")
	case 2, 3:
		verifReach("cluster-del-many")
	}
}

// A cluster without nodes reports the failure instead of pretending success.
func Verif_C06_cluster_empty() {
	verifNodes = nil
	verifPlacement = map[string]int{}
	c := cluster{dispatcher: hash.NewConsistentHash(), errNotFound: verifErrNoNode}
	ctx := context.Background()
	n := 1 + verifChoose("nkeys", 2)
	err := c.DelCtx(ctx, []string{"k1", "k2"}[:n]...)
	verifAssert(err != nil, "cluster del without a node for the key: an error is returned")
	verifReach("cluster-no-node")
}
