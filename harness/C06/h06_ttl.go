package mathx

import (
	"math"
	"math/rand"
	"time"
)

// verifSrc is the random source of the Unstable under test: every 63-bit
// value. math/rand's Float64 turns a draw x into float64(x)/2^63 and resamples
// when that rounds to 1.0 (engine: intr_rand.go assumes the draw is not one of
// those; natively the real Float64 runs over this source).
type verifSrc struct{}

func (verifSrc) Int63() int64 {
	x := verifInt64("rnd")
	verifAssume(x >= 0)
	return x
}
func (verifSrc) Seed(int64) {}

// whole seconds, rounded up, in integer arithmetic (d >= 0)
func verifCeilSec(d time.Duration) int {
	return int(d/time.Second) + verifIte(d%time.Second != 0, 1, 0)
}

var verifBasesMs = []int{604800000, 60000, 1000, 1500, 3600000, 86400000, 2592000000, 7000}

// H06d: the TTL kernel. case 0: whole-second rounding of any duration below
// 2^50 ns (13 days). cases 1..: the jitter NewUnstable(0.05).AroundDuration(base)
// for concrete expiries (the cache's defaults 7 d and 1 min first), every
// random draw: within +/-5% of base, and so is the TTL in whole seconds.
func Verif_C06_ttl() {
	c := verifCase(verifParam("bases") + 1)
	if c == 0 {
		d := time.Duration(verifInt64("d"))
		verifAssume(d > 0)
		verifAssume(d < 1<<50)
		verifAssert(int(math.Ceil(d.Seconds())) == verifCeilSec(d), "whole-second TTL is the integer ceiling of the duration")
		verifReach("ceil")
		return
	}
	base := time.Duration(verifBasesMs[c-1]) * time.Millisecond
	u := NewUnstable(0.05) // the deviation the cache node is built with (expireDeviation)
	u.r = rand.New(verifSrc{})
	d := u.AroundDuration(base)
	verifAssert(verifAnd(d >= base-base/20, d <= base+base/20), "jittered expiry within +/-5% of the configured expiry")
	ttl := int(math.Ceil(d.Seconds()))
	verifAssert(verifAnd(ttl >= verifCeilSec(base-base/20), ttl <= verifCeilSec(base+base/20)), "TTL within +/-5% of the configured expiry, rounded up to whole seconds")
	verifReach("jitter")
}
