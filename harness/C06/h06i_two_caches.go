package cache

import (
	"context"
	"time"

	"github.com/gotid/god/lib/store/redis"
)

// H06i: the retry queue is ONE timing wheel per process, shared by every cache
// node.  Two independent caches (two Redis servers) hold an entry under the same
// key name; a write removes it from both, and both removals fail.  "If removing a
// key from the cache fails, the removal is retried in the background ... until
// it first succeeds": each failed removal keeps ITS OWN retry - two retries are
// pending, and once Redis is back both entries are gone.  The recorder of
// h06_cleaner.go behaves like the real wheel: a timer set under a key that is
// still pending replaces that entry.
func Verif_C06_two_caches() {
	E := time.Duration(verifParam("expireMs")) * time.Millisecond
	NF := time.Duration(verifParam("notFoundMs")) * time.Millisecond
	a := verifNewNode(E, NF, redis.NodeType)
	b := a
	b.rds = &redis.Redis{Addr: "model-b:6379", Type: redis.NodeType}
	keys := []string{"k"}
	if verifBool("twoKeys") {
		keys = []string{"k", "j"}
	}
	for _, k := range keys {
		verifRedis.data[verifAt(a.rds, k)] = verifEntry{verifEnc("ab"), 1}
		verifRedis.data[verifAt(b.rds, k)] = verifEntry{verifEnc("ab"), 1}
	}
	verifRedis.down = true
	a.DelCtx(context.Background(), keys...)
	b.DelCtx(context.Background(), keys...)
	verifAssert(len(verifTimers) == 2, "two failed removals on two caches arm two retries, also when the key names are the same")
	verifRedis.down = false
	for round := 0; round < 2 && len(verifTimers) > 0; round++ {
		pending := verifTimers
		verifTimers = nil
		for _, t := range pending {
			clean(t.key, t.val)
		}
	}
	verifAssert(len(verifRedis.data) == 0, "once Redis is back every failed removal has been retried: the entry is gone from both caches")
	verifAssert(len(verifTimers) == 0, "nothing is retried after the successful retries")
	verifReach("two-caches")
}
