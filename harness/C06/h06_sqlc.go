package sqlc

import (
	"context"
	"database/sql"
	"errors"
	"time"

	"github.com/gotid/god/lib/collection"
	"github.com/gotid/god/lib/mathx"
	"github.com/gotid/god/lib/store/cache"
	"github.com/gotid/god/lib/store/redis"
	"github.com/gotid/god/lib/store/sqlx"
	"github.com/gotid/god/lib/syncx"
	"github.com/gotid/god/lib/threading"
)

// Same environment as harness/C06/h06_node.go (stubs must live in the package
// of the harness): model Redis behind the repository's redis wrapper, model
// JSON for rows that are strings over 'a'..'z', jitter = symbolic duration
// within +/-5%, cleaner timers recorded.

//verif:stub (*github.com/gotid/god/lib/store/redis.Redis).GetCtx => verifRedisGet
//verif:stub (*github.com/gotid/god/lib/store/redis.Redis).SetExCtx => verifRedisSetEx
//verif:stub (*github.com/gotid/god/lib/store/redis.Redis).DelCtx => verifRedisDel
//verif:stub (github.com/gotid/god/lib/mathx.Unstable).AroundDuration => verifAround
//verif:stub github.com/gotid/god/lib/jsonx.Marshal => verifMarshal
//verif:stub github.com/gotid/god/lib/jsonx.Unmarshal => verifUnmarshal
//verif:stub (*github.com/gotid/god/lib/collection.TimingWheel).SetTimer => verifSetTimer
//verif:stub (*github.com/gotid/god/lib/threading.TaskRunner).Schedule => verifSchedule
//verif:stub github.com/gotid/god/lib/stringx.Randn => verifRandn

type verifEntry struct {
	val string
	ttl int
}

var (
	verifData      map[string]verifEntry
	verifRedisDown bool
	verifTimers    []time.Duration
	verifErrRedis  = errors.New("redis: connection refused")
	verifErrJSON   = errors.New("model json: syntax error")
)

func verifRedisGet(r *redis.Redis, ctx context.Context, key string) (string, error) {
	if verifRedisDown {
		return "", verifErrRedis
	}
	return verifData[key].val, nil
}

func verifRedisSetEx(r *redis.Redis, ctx context.Context, key, value string, seconds int) error {
	if verifRedisDown {
		return verifErrRedis
	}
	verifData[key] = verifEntry{value, seconds}
	return nil
}

func verifRedisDel(r *redis.Redis, ctx context.Context, keys ...string) (int, error) {
	if verifRedisDown {
		return 0, verifErrRedis
	}
	cnt := 0
	for _, k := range keys {
		if _, ok := verifData[k]; ok {
			delete(verifData, k)
			cnt++
		}
	}
	return cnt, nil
}

func verifAround(u mathx.Unstable, base time.Duration) time.Duration {
	d := time.Duration(verifInt64("around"))
	verifAssume(d >= base-base/20)
	verifAssume(d <= base+base/20)
	return d
}

func verifSetTimer(w *collection.TimingWheel, key, value any, delay time.Duration) error {
	if delay <= 0 || key == nil {
		return collection.ErrArgument
	}
	verifTimers = append(verifTimers, delay)
	return nil
}

func verifSchedule(r *threading.TaskRunner, task func()) { task() }

func verifRandn(n int) string { return "verifkey"[:n] }

func verifRowOK(s string) bool {
	ok := true
	for i := 0; i < len(s); i++ {
		ok = verifAnd(ok, verifAnd(s[i] >= 'a', s[i] <= 'z'))
	}
	return ok
}

func verifEnc(row string) string { return "\"" + row + "\"" }

func verifMarshal(v any) ([]byte, error) {
	switch x := v.(type) {
	case *string:
		return []byte(verifEnc(*x)), nil
	case *any:
		if s, ok := (*x).(string); ok {
			return []byte(verifEnc(s)), nil
		}
	case string:
		return []byte(verifEnc(x)), nil
	}
	panic("verif: value outside the JSON model")
}

func verifUnmarshal(data []byte, v any) error {
	s := string(data)
	n := len(s)
	if n < 2 || !verifAnd(verifAnd(s[0] == '"', s[n-1] == '"'), verifRowOK(s[1:n-1])) {
		return verifErrJSON
	}
	row := s[1 : n-1]
	switch x := v.(type) {
	case *string:
		*x = row
		return nil
	case *any:
		*x = row
		return nil
	}
	panic("verif: target outside the JSON model")
}

// ---- model database: one table, at most one row (primary key "p", unique
// index column "a", payload = the row string) ---------------------------------

type verifDB struct {
	has     bool
	row     string
	queries int
}

const (
	verifPK     = "p"
	verifPKKey  = "cache:t:id:p"
	verifIdxKey = "cache:t:idx:a"
)

func verifKeyer(primary any) string { return "cache:t:id:" + primary.(string) }

// H06c: bounded coherent histories through sqlc.CachedConn over the real cache
// node over the model Redis. Operations: 0 QueryRow by primary key, 1
// QueryRowIndex by the unique index, 2 Exec writing a new row value (insert or
// update) naming both keys, 3 Exec deleting the row naming both keys, 4
// DelCache of both keys, 5 SetCache of the primary key with the database's
// current row. Every read must return the database's current row, or ErrNotFound
// if there is none. A last operation may be an Exec while Redis is down for the
// DEL: then a retry must be armed (what reads return until it runs is not
// constrained by the statement).
func Verif_C06_history() {
	verifData = map[string]verifEntry{}
	verifRedisDown = false
	verifTimers = nil
	rds := &redis.Redis{Addr: "model:6379", Type: redis.NodeType}
	c := cache.NewNode(rds, syncx.NewSingleFlight(), &cache.Stat{}, sql.ErrNoRows)
	cc := NewConnWithCache(nil, c)
	db := &verifDB{}
	// case = (initial database content, first operation): fan-out over workers
	cs := verifCase(12)
	if cs%2 == 1 {
		db.has, db.row = true, "zz"
	}
	firstOp := cs / 2

	byPK := func(conn sqlx.Conn, v any) error {
		db.queries++
		if !db.has {
			return sqlx.ErrNotFound
		}
		*v.(*string) = db.row
		return nil
	}
	byIndex := func(conn sqlx.Conn, v any) (any, error) {
		db.queries++
		if !db.has {
			return nil, sqlx.ErrNotFound
		}
		*v.(*string) = db.row
		return verifPK, nil
	}
	byPrimary := func(conn sqlx.Conn, v, primary any) error {
		db.queries++
		if !db.has || primary.(string) != verifPK {
			return sqlx.ErrNotFound
		}
		*v.(*string) = db.row
		return nil
	}
	checkRead := func(got string, err error, what string) {
		if db.has {
			verifAssert(err == nil, what+": the row exists and is returned")
			verifAssert(got == db.row, what+": the database's current row is returned")
		} else {
			verifAssert(err == ErrNotFound, what+": no row, not-found is returned")
		}
	}

	ops := verifParam("ops")
	writes := 0
	for i := 0; i < ops; i++ {
		op := firstOp
		if i > 0 {
			op = verifChoose("op", 6)
		}
		switch op {
		case 0:
			var got string
			q0 := db.queries
			err := cc.QueryRow(&got, verifPKKey, byPK)
			checkRead(got, err, "QueryRow")
			verifAssert(db.queries <= q0+1, "QueryRow: at most one database query")
			verifReach("read-pk")
		case 1:
			var got string
			err := cc.QueryRowIndex(&got, verifIdxKey, verifKeyer, byIndex, byPrimary)
			checkRead(got, err, "QueryRowIndex")
			verifReach("read-index")
		case 2:
			writes++
			val := string([]byte{'r', byte('a' + writes)})
			// optionally another reader of the key overlaps the write: it runs after Exec was
			// called and before the database statement takes effect (it may see the old row -
			// the write is not completed - and caches what it saw)
			overlap := verifChoose("overlappingReader", 2) == 1
			_, err := cc.Exec(func(conn sqlx.Conn) (sql.Result, error) {
				if overlap {
					var seen string
					cc.QueryRow(&seen, verifPKKey, byPK)
				}
				db.has, db.row = true, val
				return nil, nil
			}, verifPKKey, verifIdxKey)
			verifAssert(err == nil, "Exec(write): succeeds")
			if overlap {
				var got string
				err := cc.QueryRow(&got, verifPKKey, byPK)
				checkRead(got, err, "QueryRow after a completed write that a reader overlapped")
				verifReach("write-overlapped")
			}
			verifReach("write")
		case 3:
			_, err := cc.Exec(func(conn sqlx.Conn) (sql.Result, error) {
				db.has, db.row = false, ""
				return nil, nil
			}, verifPKKey, verifIdxKey)
			verifAssert(err == nil, "Exec(delete): succeeds")
			verifReach("delete")
		case 4:
			verifAssert(cc.DelCache(verifPKKey, verifIdxKey) == nil, "DelCache: succeeds")
		case 5:
			if !db.has {
				verifAssume(false) // SetCache is only meaningful with the current row
			}
			row := db.row
			verifAssert(cc.SetCache(verifPKKey, &row) == nil, "SetCache: succeeds")
			verifReach("set-cache")
		}
	}
	if verifChoose("faultyWrite", 2) == 1 {
		verifRedisDown = true
		cc.Exec(func(conn sqlx.Conn) (sql.Result, error) {
			db.has, db.row = true, "qq"
			return nil, nil
		}, verifPKKey, verifIdxKey)
		verifRedisDown = false
		verifAssert(len(verifTimers) == 1 && verifTimers[0] == time.Second, "Exec while Redis is down: a removal retry is armed, due in 1 s")
		verifReach("write-redis-down")
	}
}
