package cache

import (
	"context"
	"errors"
	"math"
	"sync"
	"time"

	"github.com/gotid/god/lib/mathx"
	"github.com/gotid/god/lib/store/redis"
	"github.com/gotid/god/lib/syncx"
)

// ---- model Redis -----------------------------------------------------------
// The repository's redis wrapper (lib/store/redis) is replaced at the methods
// node.go calls. The model is a map key -> (value, ttl in seconds); expiry does
// not happen by itself (no time passes inside a harness). A "down" Redis makes
// the call fail without effect. GetCtx of a missing key returns ("", nil), as
// the wrapper does for redis.Nil.

//verif:stub (*github.com/gotid/god/lib/store/redis.Redis).GetCtx => verifRedisGet
//verif:stub (*github.com/gotid/god/lib/store/redis.Redis).SetExCtx => verifRedisSetEx
//verif:stub (*github.com/gotid/god/lib/store/redis.Redis).DelCtx => verifRedisDel
//verif:stub (github.com/gotid/god/lib/mathx.Unstable).AroundDuration => verifAround
//verif:stub github.com/gotid/god/lib/jsonx.Marshal => verifMarshal
//verif:stub github.com/gotid/god/lib/jsonx.Unmarshal => verifUnmarshal

type verifEntry struct {
	val string
	ttl int
}

type verifRedisModel struct {
	data             map[string]verifEntry
	faults           bool // symbolic failure possible at every call
	down             bool // deterministic: every call fails
	gets, sets, dels int
	getFailed        int
	delFailed        int
}

var (
	verifRedis     verifRedisModel
	verifErrRedis  = errors.New("redis: connection refused")
	verifErrNoRows = errors.New("model db: no rows")
	verifErrDB     = errors.New("model db: down")
	verifErrJSON   = errors.New("model json: syntax error")
)

// one map for all model Redis instances: slot = address + "/" + key
const verifAddr = "model:6379"

func verifAt(r *redis.Redis, key string) string { return r.Addr + "/" + key }

// slot of key on the single-node harnesses' Redis
func verifSlot(key string) string { return verifAddr + "/" + key }

func verifRedisFails(what string) bool {
	if verifRedis.down {
		return true
	}
	return verifRedis.faults && verifBool(what)
}

func verifRedisGet(r *redis.Redis, ctx context.Context, key string) (string, error) {
	verifRedis.gets++
	if verifRedisFails("getFault") {
		verifRedis.getFailed++
		return "", verifErrRedis
	}
	return verifRedis.data[verifAt(r, key)].val, nil
}

func verifRedisSetEx(r *redis.Redis, ctx context.Context, key, value string, seconds int) error {
	verifRedis.sets++
	if verifRedisFails("setFault") {
		return verifErrRedis
	}
	verifRedis.data[verifAt(r, key)] = verifEntry{value, seconds}
	return nil
}

func verifRedisDel(r *redis.Redis, ctx context.Context, keys ...string) (int, error) {
	verifRedis.dels++
	if err := ctx.Err(); err != nil {
		// as the real client: a command on a finished context fails with its error
		return 0, err
	}
	if verifRedisFails("delFault") {
		verifRedis.delFailed++
		return 0, verifErrRedis
	}
	cnt := 0
	for _, k := range keys {
		if _, ok := verifRedis.data[verifAt(r, k)]; ok {
			delete(verifRedis.data, verifAt(r, k))
			cnt++
		}
	}
	return cnt, nil
}

// ---- TTL jitter ------------------------------------------------------------
// Unstable.AroundDuration(base) is replaced by a symbolic duration within
// +/-5% of base (the factor bound itself is H06d's obligation). Every call is
// logged so that the oracle knows which jittered duration a stored TTL must be
// the whole-second ceiling of.

type verifAroundCall struct{ base, d time.Duration }

var verifAroundLog []verifAroundCall

func verifAround(u mathx.Unstable, base time.Duration) time.Duration {
	d := time.Duration(verifInt64("around"))
	verifAssume(d >= base-base/20)
	verifAssume(d <= base+base/20)
	verifAroundLog = append(verifAroundLog, verifAroundCall{base, d})
	return d
}

// the jittered duration most recently drawn for base
func verifJitterOf(base time.Duration) (time.Duration, bool) {
	for i := len(verifAroundLog) - 1; i >= 0; i-- {
		if verifAroundLog[i].base == base {
			return verifAroundLog[i].d, true
		}
	}
	return 0, false
}

// ---- model JSON ------------------------------------------------------------
// Rows are strings over 'a'..'z' held in *string (index rows: a primary key
// string held in *any). Encoding: '"' + row + '"'. Everything else does not
// decode.

func verifRowOK(s string) bool {
	ok := true
	for i := 0; i < len(s); i++ {
		ok = verifAnd(ok, verifAnd(s[i] >= 'a', s[i] <= 'z'))
	}
	return ok
}

func verifEnc(row string) string { return "\"" + row + "\"" }

func verifMarshal(v any) ([]byte, error) {
	switch x := v.(type) {
	case *string:
		return []byte(verifEnc(*x)), nil
	case *any:
		if s, ok := (*x).(string); ok {
			return []byte(verifEnc(s)), nil
		}
	case string:
		return []byte(verifEnc(x)), nil
	}
	panic("verif: value outside the JSON model")
}

func verifDecodes(data string) bool {
	n := len(data)
	if n < 2 {
		return false
	}
	return verifAnd(verifAnd(data[0] == '"', data[n-1] == '"'), verifRowOK(data[1:n-1]))
}

func verifUnmarshal(data []byte, v any) error {
	s := string(data)
	if !verifDecodes(s) {
		return verifErrJSON
	}
	row := s[1 : len(s)-1]
	switch x := v.(type) {
	case *string:
		*x = row
		return nil
	case *any:
		*x = row
		return nil
	}
	panic("verif: target outside the JSON model")
}

// ---- the node under test -----------------------------------------------------

func verifNewNode(expire, notFound time.Duration, typ string) node {
	verifRedis = verifRedisModel{data: map[string]verifEntry{}}
	verifAroundLog = nil
	verifTimers = nil
	return node{
		rds:            &redis.Redis{Addr: verifAddr, Type: typ},
		expire:         expire,
		notFoundExpire: notFound,
		barrier:        syncx.NewSingleFlight(),
		lock:           new(sync.Mutex),
		stat:           &Stat{name: "verif"},
		errNotFound:    verifErrNoRows,
	}
}

func verifRow(name string, n int) string {
	s := verifStringN(name, n)
	verifAssume(verifRowOK(s))
	return s
}

// symbolic cache content for key: 0 absent, 1 placeholder, 2 a decodable row
// (any row, not necessarily the database's), 3 undecodable bytes
func verifSeedCache(key string) (kind int, cachedRow string) {
	kind = verifChoose("cached", 4)
	switch kind {
	case 1:
		verifRedis.data[verifSlot(key)] = verifEntry{notFoundPlaceholder, 1}
	case 2:
		cachedRow = verifRow("cachedRow", 2)
		verifRedis.data[verifSlot(key)] = verifEntry{verifEnc(cachedRow), 1}
	case 3:
		g := verifString("garbage", 3)
		verifAssume(len(g) > 0)
		verifAssume(g != notFoundPlaceholder)
		verifAssume(!verifDecodes(g))
		verifRedis.data[verifSlot(key)] = verifEntry{g, 1}
	}
	return
}

// The stored TTL must be the whole-second ceiling of the jittered duration
// drawn for the configured expiry `base`. It is compared with the very
// expression the statement's "rounded up to whole seconds" denotes on a
// time.Duration, int(math.Ceil(d.Seconds())); that this float64 expression is
// the integer ceiling of d/1e9 and that the jitter factor stays within +/-5% are
// H06d's obligations (float64 queries, kept out of this harness).
func verifTTLOK(key string, base time.Duration, what string) {
	d, ok := verifJitterOf(base)
	verifAssert(ok, what+": TTL is drawn around the configured expiry")
	ttl := verifRedis.data[verifSlot(key)].ttl
	verifAssert(ttl == int(math.Ceil(d.Seconds())), what+": stored TTL is the jittered expiry rounded up to whole seconds")
}

// H06b: one read (TakeCtx / TakeWithExpireCtx) of one key through the real
// node over the model Redis, from every cache content x database content x
// fault pattern, followed by a second read of the same key.
func Verif_C06_take() {
	E := time.Duration(verifParam("expireMs")) * time.Millisecond
	NF := time.Duration(verifParam("notFoundMs")) * time.Millisecond
	n := verifNewNode(E, NF, redis.NodeType)
	const key = "k"
	kind, cachedRow := verifSeedCache(key)

	// model database: one row or none, possibly down
	dbHas := verifBool("dbHas")
	dbRow := ""
	if dbHas {
		dbRow = verifRow("dbRow", 2)
	}
	dbDown := false
	queries := 0
	query := func(v any) error {
		queries++
		if dbDown {
			return verifErrDB
		}
		if !dbHas {
			return verifErrNoRows
		}
		*v.(*string) = dbRow
		return nil
	}
	withExpire := verifChoose("entry", 2) == 1
	take := func(dst *string) error {
		if withExpire {
			return n.TakeWithExpireCtx(context.Background(), dst, key, func(v any, expire time.Duration) error {
				return query(v)
			})
		}
		return n.TakeCtx(context.Background(), dst, key, query)
	}

	verifRedis.faults = verifBool("faults")
	if verifRedis.faults {
		dbDown = verifBool("dbDown")
	}
	var got string
	err := take(&got)

	switch {
	case verifRedis.getFailed > 0:
		// "a cache failure other than a miss is returned to the caller
		// instead of falling through to the database"
		verifAssert(err == verifErrRedis, "cache failure: the error is returned to the caller")
		verifAssert(queries == 0, "cache failure: the database is not queried")
		verifReach("cache-error")
		return
	case kind == 1:
		verifAssert(err == verifErrNoRows, "placeholder: not-found is returned")
		verifAssert(queries == 0, "placeholder: the database is not queried")
		verifReach("placeholder")
	case kind == 2:
		verifAssert(err == nil && got == cachedRow, "hit: the cached row is returned")
		verifAssert(queries == 0, "hit: the database is not queried")
		verifReach("hit")
	default: // absent or undecodable: exactly one database query decides
		verifAssert(queries == 1, "miss: the database is queried exactly once")
		if dbDown {
			verifAssert(err == verifErrDB, "miss, database down: its error is returned")
			_, cached := verifRedis.data[verifSlot(key)]
			verifAssert(!cached || kind == 3, "miss, database down: nothing is cached")
			verifReach("db-error")
			return
		}
		if dbHas {
			verifAssert(err == nil && got == dbRow, "miss: the database's row is returned")
		} else {
			verifAssert(err == verifErrNoRows, "miss, no row: not-found is returned")
		}
		if kind == 3 {
			verifReach("garbage-reloaded")
		}
	}
	if verifRedis.faults {
		// a failed SetEx/Del leaves the cache as it was: nothing more is
		// claimed about the second read than in the fault-free case below
		verifReach("faulty-write")
		return
	}

	// fault-free: what the cache now holds, and with which TTL
	e, cached := verifRedis.data[verifSlot(key)]
	switch {
	case kind == 1:
		verifAssert(cached && e.val == notFoundPlaceholder, "placeholder stays")
	case kind == 2:
		verifAssert(cached && e.val == verifEnc(cachedRow), "hit: cache unchanged")
	case dbHas:
		verifAssert(cached && e.val == verifEnc(dbRow), "miss: the row is cached")
		verifTTLOK(key, E, "row")
		verifReach("row-cached")
	default:
		verifAssert(cached && e.val == notFoundPlaceholder, "miss, no row: the not-found placeholder is cached")
		verifTTLOK(key, NF, "placeholder")
		verifReach("placeholder-cached")
	}

	// second read of the same key: served from the cache
	q0 := queries
	var got2 string
	err2 := take(&got2)
	verifAssert(queries == q0, "repeated read does not reach the database")
	verifAssert(err2 == err, "repeated read: same outcome")
	if err == nil {
		verifAssert(got2 == got, "repeated read: same row")
	}
	verifReach("second-read")
}

// H06b (second entry): GetCtx / SetCtx / DelCtx of the node over the model Redis.
func Verif_C06_ops() {
	E := time.Duration(verifParam("expireMs")) * time.Millisecond
	NF := time.Duration(verifParam("notFoundMs")) * time.Millisecond
	ctx := context.Background()
	switch verifChoose("op", 3) {
	case 0: // GetCtx from every cache content, Redis possibly down
		n := verifNewNode(E, NF, redis.NodeType)
		kind, cachedRow := verifSeedCache("k")
		verifRedis.faults = verifBool("faults")
		var got string
		err := n.GetCtx(ctx, "k", &got)
		switch {
		case verifRedis.getFailed > 0:
			verifAssert(err == verifErrRedis, "get, cache failure: the error is returned to the caller")
			verifReach("get-error")
		case kind == 2:
			verifAssert(err == nil && got == cachedRow, "get, hit: the cached row is returned")
			verifReach("get-hit")
		default:
			verifAssert(err == verifErrNoRows, "get, absent/placeholder/undecodable: not-found is returned")
			if kind == 3 && verifRedis.delFailed == 0 {
				_, cached := verifRedis.data[verifSlot("k")]
				verifAssert(!cached, "get, undecodable: the entry is removed")
				verifReach("get-garbage")
			}
		}
	case 1: // SetCtx stores the encoded row with the jittered TTL
		n := verifNewNode(E, NF, redis.NodeType)
		verifSeedCache("k")
		row := verifRow("row", 2)
		err := n.SetCtx(ctx, "k", &row)
		verifAssert(err == nil, "set: succeeds on a healthy Redis")
		verifAssert(verifRedis.data[verifSlot("k")].val == verifEnc(row), "set: the row is cached")
		verifTTLOK("k", E, "set")
		var got string
		verifAssert(n.GetCtx(ctx, "k", &got) == nil && got == row, "set: a following get returns the row")
		verifReach("set")
	case 2: // DelCtx of 1..2 keys, node or cluster Redis, Redis down at any of the DELs, then back
		typ := redis.NodeType
		if verifBool("clusterRedis") {
			typ = redis.ClusterType
		}
		n := verifNewNode(E, NF, typ)
		keys := []string{"k1", "k2"}[:1+verifChoose("nkeys", 2)]
		// each named key is cached or not (a write names the primary-key entry and the unique-index
		// entry; only what was read before is in the cache)
		for _, k := range keys {
			if verifBool("cached") {
				verifRedis.data[verifSlot(k)] = verifEntry{verifEnc("ab"), 1}
			}
		}
		verifRedis.faults = true
		// the request's own context, which ends when the request is over
		reqCtx := &verifReqCtx{ch: make(chan struct{})}
		n.DelCtx(reqCtx, keys...)
		reqCtx.cancel()
		if verifRedis.delFailed == 0 {
			verifAssert(len(verifRedis.data) == 0, "del: every named key is removed")
			verifReach("del-ok")
			return
		}
		verifAssert(len(verifTimers) > 0, "del failed: a retry is armed")
		for _, t := range verifTimers {
			verifAssert(t.delay == time.Second, "del failed: the first retry is due after 1 s")
		}
		// the wheel fires the pending retries; Redis may still be down at the
		// first firing ("down, then back") and is healthy from the second on
		for round := 0; round < 2 && len(verifTimers) > 0; round++ {
			verifRedis.faults = round == 0
			pending := verifTimers
			verifTimers = nil
			for _, t := range pending {
				armed, failed := len(verifTimers), verifRedis.delFailed
				clean(t.key, t.val)
				if verifRedis.delFailed > failed {
					// the retry itself failed: it is re-armed once, later than before ("increasing delays")
					verifAssert(len(verifTimers) == armed+1, "del failed: a retry that fails again arms exactly one further retry")
					for _, nt := range verifTimers[armed:] {
						verifAssert(nt.delay > t.delay, "del failed: a retry that fails again is re-armed with a longer delay")
					}
					verifReach("retry-failed-again")
				} else {
					verifAssert(len(verifTimers) == armed, "del failed: a retry that succeeds arms nothing further")
				}
			}
		}
		verifAssert(len(verifRedis.data) == 0, "del failed: every named key is removed once a retry succeeds")
		verifAssert(len(verifTimers) == 0, "del failed: nothing is retried after the successful retry")
		verifReach("del-retried")
	}
}


// verifReqCtx is a request-scoped context the harness cancels once the request
// is over: background retries must not depend on it.
type verifReqCtx struct {
	done bool
	ch   chan struct{}
}

func (c *verifReqCtx) Deadline() (time.Time, bool) { return time.Time{}, false }
func (c *verifReqCtx) Done() <-chan struct{}       { return c.ch }
func (c *verifReqCtx) Err() error {
	if c.done {
		return context.Canceled
	}
	return nil
}
func (c *verifReqCtx) Value(key any) any { return nil }
func (c *verifReqCtx) cancel() {
	if !c.done {
		c.done = true
		close(c.ch)
	}
}
