package cache

// H06g: the cache cluster is a transparent dispatcher.  Every single-key
// operation goes, with its arguments unchanged, to the node the key is placed
// on and returns that node's answer; a multi-key delete removes every named
// key on the node that holds it (each key exactly once, in one or more DelCtx
// calls of that node) and reports the nodes' failures; with no node for a key
// the cluster's not-found error is returned.  Placement is any key-deterministic
// function (symbolic choice per distinct key; the ring itself is C13).

import (
	"context"
	"errors"
	"time"

	"github.com/gotid/god/lib/hash"
)

//verif:stub (*github.com/gotid/god/lib/hash.ConsistentHash).Get => verifClusterDispatch

type verifCNode struct {
	id    int
	fail  bool
	dels  [][]string
	calls []string
	keys  []string
	ctxs  []context.Context
	vals  []any
	exps  []time.Duration
}

var (
	verifCNodes     []*verifCNode
	verifCAsked     []any
	verifCPlaced    []int
	verifCErrNode   = errors.New("verif: node failed")
	verifCErrAbsent = errors.New("verif: not found")
	verifCNoNode    bool
)

func verifClusterDispatch(h *hash.ConsistentHash, v any) (any, bool) {
	verifCAsked = append(verifCAsked, v)
	if verifCNoNode {
		verifCPlaced = append(verifCPlaced, -1)
		return nil, false
	}
	for j := 0; j < len(verifCPlaced); j++ {
		if verifCAsked[j] == v {
			verifCPlaced = append(verifCPlaced, verifCPlaced[j])
			return Cache(verifCNodes[verifCPlaced[j]]), true
		}
	}
	i := verifChoose("node", len(verifCNodes))
	verifCPlaced = append(verifCPlaced, i)
	return Cache(verifCNodes[i]), true
}

func verifPlaceOf(key string) int {
	for j := range verifCAsked {
		if verifCAsked[j] == any(key) {
			return verifCPlaced[j]
		}
	}
	return -2
}

func (n *verifCNode) rec(call string, ctx context.Context, key string, val any, exp time.Duration) error {
	n.calls = append(n.calls, call)
	n.ctxs = append(n.ctxs, ctx)
	n.keys = append(n.keys, key)
	n.vals = append(n.vals, val)
	n.exps = append(n.exps, exp)
	if n.fail {
		return verifCErrNode
	}
	return nil
}

func (n *verifCNode) Del(keys ...string) error { panic("verif: the cluster uses the Ctx forms") }
func (n *verifCNode) DelCtx(ctx context.Context, keys ...string) error {
	n.dels = append(n.dels, append([]string(nil), keys...))
	n.ctxs = append(n.ctxs, ctx)
	if n.fail {
		return verifCErrNode
	}
	return nil
}
func (n *verifCNode) Get(key string, val any) error { panic("verif: the cluster uses the Ctx forms") }
func (n *verifCNode) GetCtx(ctx context.Context, key string, val any) error {
	return n.rec("Get", ctx, key, val, 0)
}
func (n *verifCNode) IsNotFound(err error) bool { return false }
func (n *verifCNode) Set(key string, val any) error {
	panic("verif: the cluster uses the Ctx forms")
}
func (n *verifCNode) SetCtx(ctx context.Context, key string, val any) error {
	return n.rec("Set", ctx, key, val, 0)
}
func (n *verifCNode) SetWithExpire(key string, val any, expire time.Duration) error {
	panic("verif: the cluster uses the Ctx forms")
}
func (n *verifCNode) SetWithExpireCtx(ctx context.Context, key string, val any, expire time.Duration) error {
	return n.rec("SetWithExpire", ctx, key, val, expire)
}
func (n *verifCNode) Take(val any, key string, query func(val any) error) error {
	panic("verif: the cluster uses the Ctx forms")
}
func (n *verifCNode) TakeCtx(ctx context.Context, val any, key string, query func(val any) error) error {
	if err := n.rec("Take", ctx, key, val, 0); err != nil {
		return err
	}
	return query(val)
}
func (n *verifCNode) TakeWithExpire(val any, key string, query func(val any, expire time.Duration) error) error {
	panic("verif: the cluster uses the Ctx forms")
}
func (n *verifCNode) TakeWithExpireCtx(ctx context.Context, val any, key string, query func(val any, expire time.Duration) error) error {
	if err := n.rec("TakeWithExpire", ctx, key, val, 0); err != nil {
		return err
	}
	return query(val, 7*time.Second)
}

type verifCtxKey struct{}

func Verif_C06_cluster() {
	nn := verifParam("nodes")
	verifCNodes, verifCAsked, verifCPlaced = nil, nil, nil
	for i := 0; i < nn; i++ {
		verifCNodes = append(verifCNodes, &verifCNode{id: i, fail: verifChoose("fail", 2) == 1})
	}
	verifCNoNode = verifChoose("nonode", 2) == 1
	c := cluster{dispatcher: hash.NewConsistentHash(), errNotFound: verifCErrAbsent}
	ctx := context.WithValue(context.Background(), verifCtxKey{}, 1)
	op := verifCase(7)
	if op == 6 {
		verifClusterDel(c, ctx)
		return
	}
	key := verifStringN("key", 1)
	var dst int
	exp := time.Duration(verifInt64("exp"))
	plain := verifChoose("plain", 2) == 1
	queried := 0
	var err error
	want := ""
	switch op {
	case 0:
		want = "Get"
		if plain {
			err = c.Get(key, &dst)
		} else {
			err = c.GetCtx(ctx, key, &dst)
		}
	case 1:
		want = "Set"
		if plain {
			err = c.Set(key, &dst)
		} else {
			err = c.SetCtx(ctx, key, &dst)
		}
	case 2:
		want = "SetWithExpire"
		if plain {
			err = c.SetWithExpire(key, &dst, exp)
		} else {
			err = c.SetWithExpireCtx(ctx, key, &dst, exp)
		}
	case 3:
		want = "Take"
		q := func(v any) error { queried++; return nil }
		if plain {
			err = c.Take(&dst, key, q)
		} else {
			err = c.TakeCtx(ctx, &dst, key, q)
		}
	case 4:
		want = "TakeWithExpire"
		q := func(v any, e time.Duration) error { queried++; return nil }
		if plain {
			err = c.TakeWithExpire(&dst, key, q)
		} else {
			err = c.TakeWithExpireCtx(ctx, &dst, key, q)
		}
	case 5: // single-key delete
		if plain {
			err = c.Del(key)
		} else {
			err = c.DelCtx(ctx, key)
		}
	}
	total := 0
	for _, n := range verifCNodes {
		total += len(n.calls) + len(n.dels)
	}
	if verifCNoNode {
		verifAssert(err == verifCErrAbsent && total == 0, "no node for the key: the cluster's not-found error, no node is touched")
		verifReach("no-node")
		return
	}
	p := verifPlaceOf(key)
	verifAssert(p >= 0 && total == 1, "a single-key operation touches exactly one node")
	if p < 0 || total != 1 {
		return
	}
	n := verifCNodes[p]
	if op == 5 {
		verifAssert(len(n.dels) == 1 && len(n.dels[0]) == 1 && n.dels[0][0] == key, "a single-key delete goes to the key's node with that key")
	} else {
		verifAssert(len(n.calls) == 1 && n.calls[0] == want && n.keys[0] == key && n.vals[0] == any(&dst), "the operation reaches the key's node with the same key and destination")
		if op == 2 && len(n.exps) == 1 {
			verifAssert(n.exps[0] == exp, "the expiry is handed through unchanged")
		}
	}
	if !plain && len(n.ctxs) == 1 {
		verifAssert(n.ctxs[0] == ctx, "the caller's context is handed through")
	}
	if n.fail {
		verifAssert(err == verifCErrNode, "the node's failure is returned to the caller")
		verifAssert(queried == 0, "no database query after a failing cache node")
		verifReach("node-failed")
	} else {
		verifAssert(err == nil, "the node's success is returned")
		if op == 3 || op == 4 {
			verifAssert(queried == 1, "the query function is handed through to the node")
		}
		verifReach("node-ok")
	}
}

func verifClusterDel(c cluster, ctx context.Context) {
	nk := 2 + verifChoose("nkeys", verifParam("maxKeys")-1)
	keys := make([]string, nk)
	for i := range keys {
		keys[i] = verifStringN("k", 1)
	}
	err := c.DelCtx(ctx, keys...)
	if verifCNoNode {
		verifAssert(err != nil, "multi-key delete without nodes fails")
		verifReach("del-no-node")
		return
	}
	anyFail := false
	for _, k := range keys {
		p := verifPlaceOf(k)
		verifAssert(p >= 0, "every named key is looked up")
		if p < 0 {
			return
		}
		// deleted on its own node, and on no other
		for i, n := range verifCNodes {
			cnt := 0
			for _, d := range n.dels {
				for _, x := range d {
					if x == k {
						cnt++
					}
				}
			}
			same := 0
			for _, k2 := range keys {
				if k2 == k {
					same++
				}
			}
			if i == p {
				verifAssert(cnt == same, "a multi-key delete removes every named key on the node that holds it")
				anyFail = anyFail || n.fail
			} else {
				verifAssert(cnt == 0, "a key is never deleted on a node that does not hold it")
			}
		}
	}
	verifAssert((err != nil) == anyFail, "the multi-key delete fails iff a node holding one of the keys failed")
	verifReach("del-many")
}
