package cache

import (
	"context"
	"sync"
	"time"

	"github.com/gotid/god/lib/store/redis"
)

// H06h: "Concurrent reads of one uncached key cause at most one database query
// at a time" - with three readers as goroutines.  The first reader's query is
// held inside the database (a gate); the other two arrive meanwhile and wait on
// the single-flight barrier; then the first query ends - with the row, with
// "no rows", or with a database failure (symbolic choice).  Whatever the
// outcome, at no moment are two database queries for the key in progress, the
// waiting readers get the leader's result (the row, the not-found error, the
// failure) and - when the leader succeeded or found nothing - the database was
// asked once.  Every query yields once while "inside the database", so that
// queries started by different readers would overlap if nothing serialised them.
// Model Redis and seams of h06_node.go.
func Verif_C06_stampede() {
	E := time.Duration(verifParam("expireMs")) * time.Millisecond
	NF := time.Duration(verifParam("notFoundMs")) * time.Millisecond
	verifRedis = verifRedisModel{data: map[string]verifEntry{}}
	verifAroundLog = nil
	n := verifNewNode(E, NF, redis.NodeType)
	const key = "k"
	outcome := verifChoose("leaderOutcome", 3) // 0 row, 1 no rows, 2 database failure
	withExpire := verifBool("withExpire")

	var mu sync.Mutex
	inFlight, maxInFlight, queries := 0, 0, 0
	gate := make(chan struct{})
	entered := make(chan struct{})
	query := func(v any) error {
		mu.Lock()
		queries++
		first := queries == 1
		inFlight++
		if inFlight > maxInFlight {
			maxInFlight = inFlight
		}
		mu.Unlock()
		if first {
			close(entered)
			<-gate
		} else {
			verifYield() // inside the database
		}
		mu.Lock()
		inFlight--
		mu.Unlock()
		switch outcome {
		case 1:
			return verifErrNoRows
		case 2:
			return verifErrDB
		}
		*v.(*string) = "ab"
		return nil
	}
	take := func(dst *string) error {
		if withExpire {
			return n.TakeWithExpireCtx(context.Background(), dst, key, func(v any, expire time.Duration) error { return query(v) })
		}
		return n.TakeCtx(context.Background(), dst, key, query)
	}

	var wg sync.WaitGroup
	var got [3]string
	var errs [3]error
	wg.Add(3)
	go func() { defer wg.Done(); errs[0] = take(&got[0]) }()
	<-entered // the first reader is inside the database
	for i := 1; i < 3; i++ {
		i := i
		go func() { defer wg.Done(); errs[i] = take(&got[i]) }()
	}
	verifYield() // the other two have arrived and wait
	verifYield()
	verifAssert(queries == 1, "readers arriving while a query for the key is in progress wait for it instead of querying")
	close(gate)
	wg.Wait()
	verifYield()

	verifAssert(maxInFlight <= 1, "never two database queries for one uncached key in progress at the same time")
	for i := 0; i < 3; i++ {
		switch outcome {
		case 0:
			verifAssert(errs[i] == nil && got[i] == "ab", "every concurrent reader gets the row")
		case 1:
			verifAssert(errs[i] == verifErrNoRows, "every concurrent reader gets the not-found error")
		default:
			verifAssert(errs[i] != nil, "a database failure is reported to every reader that waited for the failed query (or to a reader that asked again: one at a time)")
		}
	}
	if outcome != 2 {
		verifAssert(queries == 1, "three concurrent reads of one uncached key: the database is asked once")
	}
	switch outcome {
	case 0:
		verifReach("row")
	case 1:
		verifReach("no-rows")
	default:
		verifReach("db-failure")
	}
}
