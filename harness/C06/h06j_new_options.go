package cache

import (
	"context"
	"math/rand"
	"time"

	"github.com/gotid/god/lib/hash"
	"github.com/gotid/god/lib/mathx"
	"github.com/gotid/god/lib/store/redis"
	"github.com/gotid/god/lib/syncx"
)

// the jitter source's seed is environment; its AroundDuration is the seam of h06_node.go
//verif:stub github.com/gotid/god/lib/mathx.NewUnstable => verifJNewUnstable

func verifJNewUnstable(deviation float64) mathx.Unstable { return mathx.Unstable{} }

// the Redis client of a node configuration: no connection, no breaker (C12's subject)
//verif:stub (github.com/gotid/god/lib/store/redis.Config).NewRedis => verifJNewRedis

func verifJNewRedis(c redis.Config) *redis.Redis { return &redis.Redis{Addr: c.Host, Type: c.Type} }

// the ring: nodes are recorded, placement is H06e's arbitrary but fixed one (verifDispatch)
//verif:stub (*github.com/gotid/god/lib/hash.ConsistentHash).AddWithWeight => verifJAddWithWeight

func verifJAddWithWeight(h *hash.ConsistentHash, n any, weight int) { verifNodes = append(verifNodes, n) }

// NewNode seeds a private random source from the clock: environment (symbolic world only)
//verif:model math/rand.NewSource => verifJNewSource

type verifJSource struct{}

func (verifJSource) Int63() int64    { return 1 }
func (verifJSource) Seed(seed int64) {}

func verifJNewSource(seed int64) rand.Source { return verifJSource{} }

// H06j: the cache built by cache.New honours the configured expiries on EVERY
// node.  "Stored TTLs stay within +/-5% of the configured expiry (rounded up to
// whole seconds)" and "a not-found result is remembered until the placeholder
// expires" - for every placement of keys on cluster nodes: a cache of 1, 2 or 3
// nodes built with WithExpire(e) and WithNotFoundExpire(n) draws every row's TTL
// around e and every placeholder's around n whichever node a key lands on; e, n
// range over ordinary, one-second, sub-second and unset (default) values.
// Model Redis and seams of h06_node.go (the jitter is any duration within +/-5 %).
func Verif_C06_new_options() {
	verifRedis = verifRedisModel{data: map[string]verifEntry{}}
	verifAroundLog = nil
	verifTimers = nil
	verifNodes = nil
	verifPlacement = map[string]int{}
	nodes := 1 + verifCase(3)
	var conf Config
	for i := 0; i < nodes; i++ {
		conf = append(conf, NodeConfig{Config: redis.Config{Host: []string{"a:6379", "b:6379", "c:6379"}[i], Type: redis.NodeType}, Weight: 100})
	}
	// the configured expiries: ordinary ones, the smallest that is still a whole second,
	// sub-second ones (legal: the stored TTL is the drawn duration rounded UP to whole
	// seconds, i.e. 1 s), and "not configured" (zero or negative: the documented defaults)
	cfgs := [][2]time.Duration{
		{100 * time.Second, 10 * time.Second},
		{800 * time.Millisecond, 400 * time.Millisecond},
		{time.Second, time.Second},
		{0, 0},
		{-time.Second, -time.Minute},
	}
	cfg := cfgs[verifChoose("expiries", len(cfgs))]
	wantExpire, wantNotFound := cfg[0], cfg[1]
	if wantExpire <= 0 {
		wantExpire = 7 * 24 * time.Hour
	}
	if wantNotFound <= 0 {
		wantNotFound = time.Minute
	}
	if cfg[0] > 0 && cfg[0] < time.Second {
		verifReach("sub-second-expiries")
	}
	if cfg[0] <= 0 {
		verifReach("default-expiries")
	}
	c := New(conf, syncx.NewSingleFlight(), &Stat{name: "verif"}, verifErrNoRows,
		WithExpire(cfg[0]), WithNotFoundExpire(cfg[1]))

	// three keys: with several nodes each lands on an arbitrary node (symbolic placement)
	for _, k := range []string{"k1", "k2", "k3"} {
		row := "ab"
		verifAssert(c.SetCtx(context.Background(), k, &row) == nil, "Set succeeds")
	}
	// every stored TTL was drawn around the CONFIGURED expiry (that the stored value is the drawn
	// duration rounded up, and that the draw stays within +/-5 %, are H06b's and H06d's obligations)
	verifAssert(len(verifRedis.data) == 3, "every key is stored")
	verifAssert(len(verifAroundLog) == 3, "one TTL is drawn per stored row")
	for _, a := range verifAroundLog {
		verifAssert(a.base == wantExpire, "a row's TTL is drawn around the CONFIGURED expiry on whichever node it lands")
	}
	nodesUsed := map[string]bool{}
	for slot := range verifRedis.data {
		nodesUsed[slot[:1]] = true
	}
	if len(nodesUsed) > 1 {
		verifReach("keys-on-several-nodes")
	}

	// not-found placeholders
	verifRedis.data = map[string]verifEntry{}
	verifAroundLog = nil
	for _, k := range []string{"n1", "n2", "n3"} {
		var dst string
		err := c.TakeCtx(context.Background(), &dst, k, func(v any) error { return verifErrNoRows })
		verifAssert(err == verifErrNoRows, "a missing row is reported as not found")
	}
	verifAssert(len(verifRedis.data) == 3, "every missing key leaves a placeholder")
	for _, e := range verifRedis.data {
		verifAssert(e.val == "*", "the placeholder is stored")
	}
	verifAssert(len(verifAroundLog) == 3, "one TTL is drawn per placeholder")
	for _, a := range verifAroundLog {
		verifAssert(a.base == wantNotFound, "a placeholder's TTL is drawn around the CONFIGURED not-found expiry on whichever node it lands")
	}
	verifReach("options-honoured")
}
