package logx

// H19g: the real gzipFile (open, create <file>.gz, copy through a gzip writer,
// close, remove the original).  The other C19 harnesses replace gzipFile by a
// rename; here its file handling runs for real over the model file system, so
// that "every record ... is present, complete ... in exactly one of its backups
// (gzip-compressed when compression is on) ... for every pre-existing set of
// backup files" is decided also when the target name already exists.
//
// compress/gzip's byte-level work is outside the claim.  In the symbolic world
// the gzip writer/reader are a harness model (//verif:model: header 1f 8b, the
// data, trailer 00; a reader accepts exactly one well-formed member and nothing
// else); natively the real compress/gzip runs, where a stale tail after the
// member makes the reader fail with "invalid header".

import (
	"bytes"
	"compress/gzip"
	"errors"
	"io"
	"os"
)

//verif:model compress/gzip.NewWriter => verifGzNewWriter
//verif:model (*compress/gzip.Writer).Write => verifGzWrite
//verif:model (*compress/gzip.Writer).Close => verifGzClose
//verif:model compress/gzip.NewReader => verifGzNewReader
//verif:model (*compress/gzip.Reader).Read => verifGzRead
//verif:model io.Copy => verifCopy

var (
	verifGzW       = map[*gzip.Writer]io.Writer{}
	verifGzStarted = map[*gzip.Writer]bool{}
	verifGzR       = map[*gzip.Reader][]byte{}
	verifErrGz     = errors.New("gzip: invalid header")
)

func verifGzNewWriter(w io.Writer) *gzip.Writer {
	z := new(gzip.Writer)
	verifGzW[z] = w
	return z
}

func verifGzHeader(z *gzip.Writer) error {
	if verifGzStarted[z] {
		return nil
	}
	verifGzStarted[z] = true
	_, err := verifGzW[z].Write([]byte{0x1f, 0x8b})
	return err
}

func verifGzWrite(z *gzip.Writer, p []byte) (int, error) {
	if err := verifGzHeader(z); err != nil {
		return 0, err
	}
	return verifGzW[z].Write(p)
}

func verifGzClose(z *gzip.Writer) error {
	if err := verifGzHeader(z); err != nil {
		return err
	}
	_, err := verifGzW[z].Write([]byte{0})
	return err
}

func verifGzNewReader(r io.Reader) (*gzip.Reader, error) {
	var all []byte
	buf := make([]byte, 8)
	for {
		n, err := r.Read(buf)
		all = append(all, buf[:n]...)
		if err != nil {
			break
		}
	}
	if len(all) < 3 || all[0] != 0x1f || all[1] != 0x8b || all[len(all)-1] != 0 {
		return nil, verifErrGz
	}
	z := new(gzip.Reader)
	verifGzR[z] = all[2 : len(all)-1]
	return z, nil
}

func verifGzRead(z *gzip.Reader, p []byte) (int, error) {
	rest := verifGzR[z]
	if len(rest) == 0 {
		return 0, io.EOF
	}
	n := copy(p, rest)
	verifGzR[z] = rest[n:]
	return n, nil
}

// io.Copy from an *os.File (symbolic world: the file's whole content in one Write)
func verifCopy(dst io.Writer, src io.Reader) (int64, error) {
	f, ok := src.(*os.File)
	if !ok {
		return 0, errors.New("verif: io.Copy source is not a file")
	}
	data, err := os.ReadFile(f.Name())
	if err != nil {
		return 0, err
	}
	n, err := dst.Write(data)
	return int64(n), err
}

func verifGzip(data []byte) []byte {
	var b bytes.Buffer
	z := gzip.NewWriter(&b)
	z.Write(data)
	z.Close()
	return b.Bytes()
}

func verifGunzip(content []byte) ([]byte, error) {
	z, err := gzip.NewReader(bytes.NewReader(content))
	if err != nil {
		return nil, err
	}
	return io.ReadAll(z)
}

func Verif_C19_gzipfile() {
	dir, err := os.MkdirTemp("", "verif-c19g")
	verifAssume(err == nil)
	defer os.RemoveAll(dir)
	file := dir + "/access.log-2026-10-02"
	data := []byte(verifString("records", verifParam("maxLen")))
	verifAssume(os.WriteFile(file, data, 0o600) == nil)

	// what already carries the name of the archive
	switch verifCase(4) {
	case 0: // nothing
	case 1: // a longer archive left over from an earlier run
		verifAssume(os.WriteFile(file+gzipExt, verifGzip([]byte("stale records of an earlier run!")), 0o600) == nil)
		verifReach("over-longer-archive")
	case 2: // an empty file
		verifAssume(os.WriteFile(file+gzipExt, nil, 0o600) == nil)
	case 3: // a longer file that is no archive at all
		verifAssume(os.WriteFile(file+gzipExt, []byte("not a gzip stream, just some bytes of junk"), 0o600) == nil)
		verifReach("over-junk")
	}

	err = gzipFile(file)
	verifAssert(err == nil, "gzipFile succeeds")
	if err != nil {
		return
	}
	_, err = os.Stat(file)
	verifAssert(err != nil, "the uncompressed backup is gone after compression (stat fails)")
	verifAssert(os.IsNotExist(err), "the uncompressed backup is gone after compression")
	content, err := os.ReadFile(file + gzipExt)
	verifAssert(err == nil, "the compressed backup exists")
	if err != nil {
		return
	}
	got, err := verifGunzip(content)
	verifAssert(err == nil, "the compressed backup is one complete gzip stream and nothing else")
	if err != nil {
		return
	}
	verifAssert(string(got) == string(data), "the compressed backup holds exactly the records of the rotated file")
	verifReach("compressed")
}
