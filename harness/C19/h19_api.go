package logx

import "os"

// H19c: the same durability oracle through the public API: NewLogger, Write
// (queue to the writer goroutine), Close. (Write after Close is not examined:
// the statement is silent about it.) Every Write is followed by a yield, so
// each record is processed before Close ("accepted ... and processed before
// Close" in the statement).
func Verif_C19_api() {
	k := verifParam("records")
	cs := verifCase(4)
	compress := cs%2 == 1
	sized := cs/2 == 1

	dir, err := os.MkdirTemp("", "verif-c19-")
	verifAssume(err == nil)
	defer os.RemoveAll(dir)
	cur := dir + "/cur.log"

	sizeLimit := int64(-1)
	var rule RotateRule
	if sized {
		sizeLimit = verifInt64("maxSize")
		verifAssume(sizeLimit >= 1)
		verifAssume(sizeLimit <= 4)
		r := NewSizeLimitRotateRule(cur, "-", 0, 1, 0, compress).(*SizeLimitRotateRule)
		r.maxSize = sizeLimit
		rule = r
	} else {
		rule = &verifRule{base: cur}
	}
	l, err := NewLogger(cur, rule, compress)
	verifAssert(err == nil && l != nil, "NewLogger succeeds")

	reuse := verifChoose("callerReusesBuffer", 2) == 1
	if reuse {
		verifReach("buffer-reused")
	}
	// a burst: all records are queued before the writer goroutine gets to run (a backlog)
	burst := verifChoose("burst", 2) == 1
	if burst {
		verifReach("burst")
	}
	var recs [][]byte
	for j := 0; j < k; j++ {
		n := 1 + verifChoose("len", 2)
		rec := []byte(verifStringN("rec"+string(rune('1'+j)), n))
		// the caller's buffer: as fmt.Fprint or a pooled encoder do, the caller reuses it as soon as
		// Write has returned (io.Writer: "Write must not retain p"), while the record is still queued
		buf := append([]byte(nil), rec...)
		m, err := l.Write(buf)
		verifAssert(err == nil && m == len(rec), "Write accepts the record")
		if reuse {
			for i := range buf {
				buf[i] = '#'
			}
		}
		if !burst {
			verifYield() // the writer goroutine takes the record from the queue
		}
		recs = append(recs, rec)
	}
	if burst {
		verifYield() // now the writer goroutine works through its backlog
	}
	verifCheckLog(dir, cur, recs, sizeLimit, "after the writer goroutine has processed the queue")
	l.Close()
	verifCheckLog(dir, cur, recs, sizeLimit, "after Close")
	verifReach("api")
}
