package logx

import "os"

// H19k: the size rule with SEVERAL RECORDS PER SECOND.  The statement's
// quantifier lets size-triggered rotations be "at least a second apart, as
// backup names have one-second resolution" - that bounds the rotations the
// record sizes CALL FOR, not the clock: records may arrive within one second as
// long as no two of the rotations that the sizes require fall into the same
// second.  H19a's clock moves on at every reading, so a rotation that is not
// called for (and renames a backup over the previous one when it falls into the
// same second) goes unnoticed there.  Here the harness owns the second: before
// each record it stays or moves on one second (symbolic choice), a reference
// model of the size rule says which writes require a rotation, and histories in
// which two required rotations (or the logger's start and the first required
// rotation) share a second are excluded as outside the quantifier.  Oracle:
// verifCheckLog (every record complete and in order in the current file or
// exactly one backup; no file beyond the maximum by more than one record).
func Verif_C19_size_same_second() {
	k := verifParam("records")
	maxLen := verifParam("maxLen")
	compress := verifCase(2) == 1
	verifManualClock = true
	verifSec = 1
	defer func() { verifManualClock = false }()

	dir, err := os.MkdirTemp("", "verif-c19-")
	verifAssume(err == nil)
	defer os.RemoveAll(dir)
	cur := dir + "/cur.log"

	limit := verifInt64("maxSize")
	verifAssume(limit >= 1)
	verifAssume(limit <= int64(2*maxLen))
	r := NewSizeLimitRotateRule(cur, "-", 0, 1, 0, compress).(*SizeLimitRotateRule)
	r.maxSize = limit // bytes instead of megabytes
	l, err := NewLogger(cur, r, compress)
	verifAssert(err == nil && l != nil, "NewLogger succeeds")

	var recs [][]byte
	refSize := int64(0)  // reference: bytes in the current file
	startedAt := verifSec // second in which the current file was started
	required, sameSecond := 0, 0
	for j := 0; j < k; j++ {
		if verifChoose("nextSecond", 2) == 1 {
			verifSec++
		} else if j > 0 {
			sameSecond++
		}
		n := 1 + verifChoose("len", maxLen)
		rec := []byte(verifStringN("rec"+string(rune('1'+j)), n))
		if refSize+int64(n) > limit { // the size calls for a rotation before this record
			verifAssume(verifSec > startedAt) // required rotations at least a second apart
			required++
			startedAt = verifSec
			refSize = 0
		}
		refSize += int64(n)
		l.write(rec)
		verifYield()
		recs = append(recs, rec)
		verifCheckLog(dir, cur, recs, limit, "after a write")
		verifAssert(l.fp != nil, "the logger has an open current file after every write")
	}
	l.Close()
	verifCheckLog(dir, cur, recs, limit, "after Close")
	if required >= 1 && sameSecond >= 2 {
		verifReach("records-within-one-second-after-a-rotation")
	}
	if required >= 2 {
		verifReach("two-required-rotations")
	}
}
