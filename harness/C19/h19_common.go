package logx

import "os"

// gzip's byte-level work is outside the claim: compression is "rename to
// <file>.gz keeping the content".
//
//verif:stub github.com/gotid/god/lib/logx.gzipFile => verifGzipFile

func verifGzipFile(file string) error { return os.Rename(file, file+gzipExt) }

func verifTwo(n int) string { return string(rune('0'+n/10)) + string(rune('0'+n%10)) }
