package logx

import (
	"os"
	"path/filepath"
	"time"
)

// H19j: H19b's question - which files does the clean-up remove? - on a host
// whose local time zone is not UTC. Backups of the size rule are named after
// the LOCAL wall clock (RFC3339 with the local offset), those of the daily rule
// after the local date, and both are compared as strings with a boundary that
// rotatelogger.go derives from time.Now(); a boundary taken in another zone
// than the names shifts the retention window by the zone offset.
//
// The harness installs the zone as time.Local = time.FixedZone("verif", offset)
// in both worlds ("zone:local": the engine's frozen clock reading is located in
// time.Local; natively time.Now() uses the same variable). The earlier backups
// lie around the retention boundary, for the size rule also as far inside and
// outside the window as the zone offset is wide.
//
// Oracle (the statement, as in H19b): a file may disappear only if it is a
// backup that is older than the retention boundary (days > 0), or is not among
// the newest maxBackups backups (maxBackups > 0). The current file never
// disappears.
func Verif_C19_retention_zone() {
	cs := verifCase(16)
	zone := cs % 2
	sizeRule := (cs/2)%2 == 1
	gz := (cs/4)%2 == 1
	viaRotate := cs/8 == 1
	days := verifChoose("days", 3)
	maxBackups := 0
	if sizeRule {
		maxBackups = verifChoose("maxBackups", 3)
	}

	// zone offsets in seconds east of UTC (UTC itself is H19b), and the number
	// of whole hours that covers the offset
	offsets := [2]int{-8 * 3600, 5*3600 + 1800}
	wide := [2]int{8, 6}
	time.Local = time.FixedZone("verif", offsets[zone])
	if zone == 0 {
		verifReach("zone-west")
	} else {
		verifReach("zone-east")
	}

	dir, err := os.MkdirTemp("", "verif-c19-")
	verifAssume(err == nil)
	defer os.RemoveAll(dir)
	cur := dir + "/cur.log"
	verifAssume(os.WriteFile(cur, []byte("x"), 0o600) == nil)

	now := verifEarlyInSecond()
	var rule RotateRule
	if sizeRule {
		rule = NewSizeLimitRotateRule(cur, "-", days, 1, maxBackups, gz)
	} else {
		rule = DefaultRotateRule(cur, "-", days, gz)
	}
	l, err := NewLogger(cur, rule, gz)
	verifAssert(err == nil && l != nil, "NewLogger succeeds")

	// earlier backups (compressed ones when compression is on): ages in hours
	// (size rule) resp. days (daily rule) relative to the retention boundary
	h := wide[zone]
	ages := [7]int{-3, -2, -1, 0, 1, 2, 3}
	if sizeRule {
		ages = [7]int{-h - 1, -h, -1, 0, 1, h, h + 1}
	}
	boundary := now.Add(-time.Hour * time.Duration(hoursPerDay*days))
	var backups []verifBackup
	for _, a := range ages {
		if verifChoose("backup", 2) == 0 {
			continue
		}
		var name string
		if sizeRule {
			name = dir + "/cur-" + boundary.Add(time.Duration(a)*time.Hour).Format(fileTimeFormat) + ".log"
		} else {
			name = cur + "-" + boundary.Add(time.Duration(a)*hoursPerDay*time.Hour).Format(dateFormat)
		}
		if gz {
			name += gzipExt
		}
		// no earlier backup can carry the name the next rotation will use (a
		// backup is named after the moment its file was started)
		verifAssume(name != l.backup)
		verifAssume(name != l.backup+gzipExt)
		verifAssume(os.WriteFile(name, []byte("old"), 0o600) == nil)
		backups = append(backups, verifBackup{name, a})
	}

	if viaRotate {
		fresh := l.backup
		if gz {
			fresh += gzipExt
		}
		verifAssert(l.rotate() == nil, "rotate succeeds")
		verifYield() // compress + clean-up run in their own goroutine
		nowAge := hoursPerDay * days
		if !sizeRule {
			nowAge = days
		}
		backups = append(backups, verifBackup{fresh, nowAge})
		verifReach("rotate")
	} else {
		l.maybeDeleteOutdatedFiles()
		verifReach("cleanup")
	}

	after, err := filepath.Glob(dir + "/*")
	verifAssert(err == nil, "listing the log directory works")
	has := func(name string) bool {
		for _, n := range after {
			if n == name {
				return true
			}
		}
		return false
	}
	verifAssert(has(cur), "clean-up never removes the current file")
	for _, b := range backups {
		if has(b.name) {
			continue
		}
		verifReach("removed")
		newer := 0
		for _, o := range backups {
			if o.age > b.age {
				newer++
			}
		}
		old := days > 0 && b.age < 0
		beyond := maxBackups > 0 && newer >= maxBackups
		verifAssert(old || beyond, "clean-up removes only backups older than the retention days or beyond the maximum number of backups")
	}
	l.Close()
}
