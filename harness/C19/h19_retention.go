package logx

import (
	"os"
	"path/filepath"
	"time"
)

type verifBackup struct {
	name string
	age  int // timestamp in units (days / hours) relative to the retention boundary now-days*24h
}

// verifEarlyInSecond reads the clock at a moment in the first 0.4 s of a second
// (natively it waits for one; the engine's clock is frozen at a full second),
// so that the readings rotatelogger.go makes a few milliseconds later yield
// the same RFC3339 second and the same date as the harness's reading.
func verifEarlyInSecond() time.Time {
	for {
		t := time.Now()
		if t.Nanosecond() < 400000000 {
			return t
		}
		time.Sleep(time.Duration(1000000000 - t.Nanosecond()))
	}
}

// H19b: which files does the clean-up after a rotation remove? The clock is the
// real time.Now of rotatelogger.go (frozen in the engine, the wall clock in the
// native replay: every name below is derived from the harness's own reading);
// the directory holds the current file and an arbitrary set of earlier backups
// whose time stamps lie around the retention boundary.
//
// Oracle (the statement): a file may disappear only if it is a backup that is
// older than the retention boundary (days > 0), or is not among the newest
// maxBackups backups (maxBackups > 0). The current file never disappears.
func Verif_C19_retention() {
	span := verifParam("span")
	cs := verifCase(8)
	sizeRule := cs%2 == 1
	gz := (cs/2)%2 == 1
	viaRotate := cs/4 == 1
	days := verifChoose("days", 3)
	// the configured delimiter between the file name and the time stamp: the default "-", one
	// that sorts below it and one that sorts above it (backup names are compared as strings)
	delim := []string{"-", "+", "_"}[verifChoose("delimiter", 3)]
	if delim != "-" {
		verifReach("other-delimiter")
	}
	maxBackups := 0
	if sizeRule {
		maxBackups = verifChoose("maxBackups", 3)
	}

	dir, err := os.MkdirTemp("", "verif-c19-")
	verifAssume(err == nil)
	defer os.RemoveAll(dir)
	cur := dir + "/cur.log"
	verifAssume(os.WriteFile(cur, []byte("x"), 0o600) == nil)

	now := verifEarlyInSecond()
	var rule RotateRule
	if sizeRule {
		rule = NewSizeLimitRotateRule(cur, delim, days, 1, maxBackups, gz)
	} else {
		rule = DefaultRotateRule(cur, delim, days, gz)
	}
	l, err := NewLogger(cur, rule, gz)
	verifAssert(err == nil && l != nil, "NewLogger succeeds")

	// earlier backups: for every age in -span..span none, a plain one or a gzipped one
	boundary := now.Add(-time.Hour * time.Duration(hoursPerDay*days))
	var backups []verifBackup
	for a := -span; a <= span; a++ {
		kind := verifChoose("backup", 3)
		if kind == 0 {
			continue
		}
		var name string
		if sizeRule {
			name = dir + "/cur" + delim + boundary.Add(time.Duration(a)*time.Hour).Format(fileTimeFormat) + ".log"
		} else {
			name = cur + delim + boundary.Add(time.Duration(a)*hoursPerDay*time.Hour).Format(dateFormat)
		}
		if kind == 2 {
			name += gzipExt
		}
		// no earlier backup can carry the name the next rotation will use (a
		// backup is named after the moment its file was started)
		verifAssume(name != l.backup)
		verifAssume(name != l.backup+gzipExt)
		verifAssume(os.WriteFile(name, []byte("old"), 0o600) == nil)
		backups = append(backups, verifBackup{name, a})
	}

	if viaRotate {
		fresh := l.backup
		if gz {
			fresh += gzipExt
		}
		verifAssert(l.rotate() == nil, "rotate succeeds")
		verifYield() // compress + clean-up run in their own goroutine
		nowAge := hoursPerDay * days
		if !sizeRule {
			nowAge = days
		}
		backups = append(backups, verifBackup{fresh, nowAge})
		verifReach("rotate")
	} else {
		l.maybeDeleteOutdatedFiles()
		verifReach("cleanup")
	}

	after, err := filepath.Glob(dir + "/*")
	verifAssert(err == nil, "listing the log directory works")
	has := func(name string) bool {
		for _, n := range after {
			if n == name {
				return true
			}
		}
		return false
	}
	verifAssert(has(cur), "clean-up never removes the current file")
	for _, b := range backups {
		if has(b.name) {
			continue
		}
		verifReach("removed")
		newer := 0
		for _, o := range backups {
			if o.age > b.age {
				newer++
			}
		}
		old := days > 0 && b.age < 0
		beyond := maxBackups > 0 && newer >= maxBackups
		verifAssert(old || beyond, "clean-up removes only backups older than the retention days or beyond the maximum number of backups")
	}
	l.Close()
}
