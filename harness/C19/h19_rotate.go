package logx

import (
	"os"
	"path/filepath"
)

// Seams (besides gzipFile, see h19_common.go). The two clock readers of
// rotatelogger.go are replaced by a harness clock (one second later at every reading, so no two
// backup names collide: "size-triggered rotations at least a second apart";
// the date changes only when the harness says so).
//
//verif:stub github.com/gotid/god/lib/logx.getNowDateInRFC3339Format => verifNowRFC3339
//verif:stub github.com/gotid/god/lib/logx.getNowDate => verifNowDate

var (
	verifTick        int  // seconds read so far
	verifDay         int  // days elapsed
	verifManualClock bool // H19k: the second is set by the harness (verifSec), not advanced by reading
	verifSec         int
)

func verifNowRFC3339() string {
	if verifManualClock {
		return "2009-11-10T23:00:" + verifTwo(verifSec) + "Z"
	}
	verifTick++
	return "2009-11-10T23:00:" + verifTwo(verifTick) + "Z"
}

func verifNowDate() string { return "2009-11-" + verifTwo(10+verifDay) }

// verifRule: rotation decisions are arbitrary, backup names are distinct and
// increasing, nothing is ever outdated (retention is H19b's subject).
type verifRule struct {
	base   string
	n      int
	marked int
}

func (r *verifRule) BackupFilename() string  { r.n++; return r.base + "-b" + verifTwo(r.n) }
func (r *verifRule) MarkRotated()            { r.marked++ }
func (r *verifRule) OutdatedFiles() []string { return nil }
func (r *verifRule) ShallRotate(size int64) bool {
	return verifChoose("rotate", 2) == 1
}

// H19i: name and length of a file that carried a future backup's name before
// the logger started ("" = none).
var (
	verifForeignName string
	verifForeignLen  int
)

// verifCheckLog: the directory holds the current file and backups only; read in
// rotation order (backup names are chronological) and then the current file,
// the files are exactly the records in order, each record entirely in one file.
// sizeLimit >= 0: no file exceeds it by more than its last record.
func verifCheckLog(dir, cur string, recs [][]byte, sizeLimit int64, when string) {
	names, err := filepath.Glob(dir + "/*")
	verifAssert(err == nil, "listing the log directory works")
	hasCur := false
	var files []string
	for _, n := range names {
		if n == cur {
			hasCur = true
		} else {
			files = append(files, n)
		}
	}
	verifAssert(hasCur, "the current log file exists "+when)
	files = append(files, cur)
	ri := 0
	ok := true
	for _, f := range files {
		c, err := os.ReadFile(f)
		verifAssert(err == nil, "log files are readable")
		if f == verifForeignName && len(c) == verifForeignLen {
			// H19i: the foreign file that was there before the logger started has not
			// been replaced by a backup (it is longer than anything the logger writes
			// within the bounds): it is none of the logger's files.
			continue
		}
		pos, last := 0, 0
		for pos < len(c) {
			if ri >= len(recs) || pos+len(recs[ri]) > len(c) {
				ok = false // bytes that are no (complete) record
				break
			}
			r := recs[ri]
			for i := range r {
				ok = verifAnd(ok, c[pos+i] == r[i])
			}
			pos += len(r)
			last = len(r)
			ri++
		}
		if sizeLimit >= 0 {
			verifAssert(int64(len(c)-last) <= sizeLimit, "size rule: a file exceeds the maximum by at most one record")
		}
	}
	verifAssert(verifAnd(ok, ri == len(recs)), "every record is, complete and in order, in the current file or in exactly one backup "+when)
}

// H19a: write/rotate histories over the (model) file system.
func Verif_C19_rotate() { verifRotateHistories(verifCase(12), 0) }

// H19i: the same histories with a foreign file that already carries the name
// the first (foreignAt 1) or the second (foreignAt 2) rotation's backup will
// get. The unchanged code renames the current file over it (os.Rename
// replaces); the statement is silent about the foreign content, so the oracle
// accepts the file as long as it is untouched and as a backup once it has
// been replaced — what is checked is that every record written through the
// logger is still, complete and in order, in the current file or exactly one
// backup.
func Verif_C19_rotate_foreign() {
	c := verifCase(24)
	verifRotateHistories(c%12, 1+c/12)
}

func verifRotateHistories(cs, foreignAt int) {
	k := verifParam("records")
	maxLen := verifParam("maxLen")
	ruleKind := cs % 3 // 0 harness rule, 1 SizeLimitRotateRule, 2 DailyRotateRule
	compress := (cs/3)%2 == 1
	preExisting := cs/6 == 1

	dir, err := os.MkdirTemp("", "verif-c19-")
	verifAssume(err == nil)
	defer os.RemoveAll(dir)
	cur := dir + "/cur.log"

	var recs [][]byte
	if preExisting { // a log file left by an earlier run: its content counts as one record
		old := []byte(verifStringN("old", 1+verifChoose("oldLen", 2))) // 1 or 2 bytes: may already fill the size limit
		verifAssume(os.WriteFile(cur, old, 0o600) == nil)
		recs = append(recs, old)
	}
	sizeLimit := int64(-1)
	var rule RotateRule
	switch ruleKind {
	case 0:
		rule = &verifRule{base: cur}
	case 1:
		sizeLimit = verifInt64("maxSize")
		verifAssume(sizeLimit >= 1)
		verifAssume(sizeLimit <= int64(2*maxLen))
		r := NewSizeLimitRotateRule(cur, "-", 0, 1, 0, compress).(*SizeLimitRotateRule)
		r.maxSize = sizeLimit // bytes instead of megabytes
		rule = r
	default:
		rule = DefaultRotateRule(cur, "-", 0, compress)
	}
	// The names of the first two backups, as the stubbed clock readers and the
	// rules produce them (checked against l.backup below).
	var backups [2]string
	switch ruleKind {
	case 0:
		backups = [2]string{cur + "-b01", cur + "-b02"}
	case 1: // readings 1 (rule's rotatedTime), 2 (init), 3 (first rotation), 4 (MarkRotated)
		backups = [2]string{dir + "/cur-2009-11-10T23:00:02Z.log", dir + "/cur-2009-11-10T23:00:03Z.log"}
	default: // named after the day the records were written; the first rotation happens on day 1
		backups = [2]string{cur + "-2009-11-10", cur + "-2009-11-11"}
	}
	if foreignAt > 0 {
		verifForeignName = backups[foreignAt-1]
		verifForeignLen = 2 + k*maxLen + 1 // longer than all the logger can write within the bounds
		foreign := make([]byte, verifForeignLen)
		for i := range foreign {
			foreign[i] = '#'
		}
		verifAssume(os.WriteFile(verifForeignName, foreign, 0o600) == nil)
	}
	l, err := NewLogger(cur, rule, compress)
	verifAssert(err == nil && l != nil, "NewLogger succeeds")
	if foreignAt > 0 {
		verifAssert(l.backup == backups[0], "harness: the first backup's name is the predicted one")
	}
	rotations := 0
	lastBackup := l.backup

	for j := 0; j < k; j++ {
		if ruleKind == 2 && verifChoose("midnight", 2) == 1 {
			verifDay++
		}
		n := 1 + verifChoose("len", maxLen)
		rec := []byte(verifStringN("rec"+string(rune('1'+j)), n))
		nBefore := 0
		if b, err := filepath.Glob(dir + "/*"); err == nil {
			nBefore = len(b)
		}
		l.write(rec)
		verifYield() // post-rotation work (compress, clean-up) runs in its own goroutine
		recs = append(recs, rec)
		if b, err := filepath.Glob(dir + "/*"); err == nil && len(b) > nBefore {
			verifReach("rotated")
			if compress {
				verifReach("compressed")
			}
		}
		if foreignAt > 0 {
			if l.backup != lastBackup { // a rotation recorded the next backup's name
				lastBackup = l.backup
				rotations++
				if rotations == 1 {
					verifAssert(l.backup == backups[1], "harness: the second backup's name is the predicted one")
				}
				if rotations == foreignAt {
					verifReach("foreign-name-used")
				}
			}
		}
		verifCheckLog(dir, cur, recs, sizeLimit, "after a write")
		verifAssert(l.fp != nil, "the logger has an open current file after every write (also right after a rotation)")
	}
	l.Close()
	verifCheckLog(dir, cur, recs, sizeLimit, "after Close")
	if foreignAt > 0 && rotations < foreignAt {
		if c, err := os.ReadFile(verifForeignName); err == nil && len(c) == verifForeignLen {
			verifReach("foreign-kept")
		}
	}
}
