package logx

import (
	"os"
	"path/filepath"
)

// Seams (besides gzipFile, see h19_common.go). The two clock readers of
// rotatelogger.go are replaced by a harness clock (one second later at every reading, so no two
// backup names collide: "size-triggered rotations at least a second apart";
// the date changes only when the harness says so).
//
//verif:stub github.com/gotid/god/lib/logx.getNowDateInRFC3339Format => verifNowRFC3339
//verif:stub github.com/gotid/god/lib/logx.getNowDate => verifNowDate

var (
	verifTick int // seconds read so far
	verifDay  int // days elapsed
)

func verifNowRFC3339() string {
	verifTick++
	return "2009-11-10T23:00:" + verifTwo(verifTick) + "Z"
}

func verifNowDate() string { return "2009-11-" + verifTwo(10+verifDay) }

// verifRule: rotation decisions are arbitrary, backup names are distinct and
// increasing, nothing is ever outdated (retention is H19b's subject).
type verifRule struct {
	base   string
	n      int
	marked int
}

func (r *verifRule) BackupFilename() string  { r.n++; return r.base + "-b" + verifTwo(r.n) }
func (r *verifRule) MarkRotated()            { r.marked++ }
func (r *verifRule) OutdatedFiles() []string { return nil }
func (r *verifRule) ShallRotate(size int64) bool {
	return verifChoose("rotate", 2) == 1
}

// verifCheckLog: the directory holds the current file and backups only; read in
// rotation order (backup names are chronological) and then the current file,
// the files are exactly the records in order, each record entirely in one file.
// sizeLimit >= 0: no file exceeds it by more than its last record.
func verifCheckLog(dir, cur string, recs [][]byte, sizeLimit int64, when string) {
	names, err := filepath.Glob(dir + "/*")
	verifAssert(err == nil, "listing the log directory works")
	hasCur := false
	var files []string
	for _, n := range names {
		if n == cur {
			hasCur = true
		} else {
			files = append(files, n)
		}
	}
	verifAssert(hasCur, "the current log file exists "+when)
	files = append(files, cur)
	ri := 0
	ok := true
	for _, f := range files {
		c, err := os.ReadFile(f)
		verifAssert(err == nil, "log files are readable")
		pos, last := 0, 0
		for pos < len(c) {
			if ri >= len(recs) || pos+len(recs[ri]) > len(c) {
				ok = false // bytes that are no (complete) record
				break
			}
			r := recs[ri]
			for i := range r {
				ok = verifAnd(ok, c[pos+i] == r[i])
			}
			pos += len(r)
			last = len(r)
			ri++
		}
		if sizeLimit >= 0 {
			verifAssert(int64(len(c)-last) <= sizeLimit, "size rule: a file exceeds the maximum by at most one record")
		}
	}
	verifAssert(verifAnd(ok, ri == len(recs)), "every record is, complete and in order, in the current file or in exactly one backup "+when)
}

// H19a: write/rotate histories over the (model) file system.
func Verif_C19_rotate() {
	k := verifParam("records")
	maxLen := verifParam("maxLen")
	cs := verifCase(12)
	ruleKind := cs % 3 // 0 harness rule, 1 SizeLimitRotateRule, 2 DailyRotateRule
	compress := (cs/3)%2 == 1
	preExisting := cs/6 == 1

	dir, err := os.MkdirTemp("", "verif-c19-")
	verifAssume(err == nil)
	defer os.RemoveAll(dir)
	cur := dir + "/cur.log"

	var recs [][]byte
	if preExisting { // a log file left by an earlier run: its content counts as one record
		old := []byte(verifStringN("old", 1+verifChoose("oldLen", 2))) // 1 or 2 bytes: may already fill the size limit
		verifAssume(os.WriteFile(cur, old, 0o600) == nil)
		recs = append(recs, old)
	}
	sizeLimit := int64(-1)
	var rule RotateRule
	switch ruleKind {
	case 0:
		rule = &verifRule{base: cur}
	case 1:
		sizeLimit = verifInt64("maxSize")
		verifAssume(sizeLimit >= 1)
		verifAssume(sizeLimit <= int64(2*maxLen))
		r := NewSizeLimitRotateRule(cur, "-", 0, 1, 0, compress).(*SizeLimitRotateRule)
		r.maxSize = sizeLimit // bytes instead of megabytes
		rule = r
	default:
		rule = DefaultRotateRule(cur, "-", 0, compress)
	}
	l, err := NewLogger(cur, rule, compress)
	verifAssert(err == nil && l != nil, "NewLogger succeeds")

	for j := 0; j < k; j++ {
		if ruleKind == 2 && verifChoose("midnight", 2) == 1 {
			verifDay++
		}
		n := 1 + verifChoose("len", maxLen)
		rec := []byte(verifStringN("rec"+string(rune('1'+j)), n))
		nBefore := 0
		if b, err := filepath.Glob(dir + "/*"); err == nil {
			nBefore = len(b)
		}
		l.write(rec)
		verifYield() // post-rotation work (compress, clean-up) runs in its own goroutine
		recs = append(recs, rec)
		if b, err := filepath.Glob(dir + "/*"); err == nil && len(b) > nBefore {
			verifReach("rotated")
			if compress {
				verifReach("compressed")
			}
		}
		verifCheckLog(dir, cur, recs, sizeLimit, "after a write")
		verifAssert(l.fp != nil, "the logger has an open current file after every write (also right after a rotation)")
	}
	l.Close()
	verifCheckLog(dir, cur, recs, sizeLimit, "after Close")
}
