package limit

// H08c6: one PeriodLimit shared by two concurrent callers, each taking its own
// key ("independently per key and whatever the interleaving of concurrent
// callers").  The limiter runs over the real Redis wrapper and breaker (as in
// H08c5, whose fake node and stubs this file uses); the caller hands the key it
// means through the context, and the fake node checks that the EVAL it receives
// on behalf of that caller names exactly that key.  Interleavings: every
// schedule with a bounded number of preemptions at the synchronisation
// operations of the code under test (the breaker's locks lie between the
// limiter building its arguments and go-redis receiving them).

import (
	"context"
	"sync"

	"github.com/gotid/god/lib/store/redis"
)

type verifWantKey struct{}

func Verif_C08_period_concurrent() {
	verifBrkDraws = 0
	node := &verifEvalNode{}
	verifTheNode = node
	var mu sync.Mutex
	wrong, calls := 0, 0
	node.onEval = func(ctx context.Context, keys []string) {
		mu.Lock()
		defer mu.Unlock()
		calls++
		want, _ := ctx.Value(verifWantKey{}).(string)
		if len(keys) != 1 || keys[0] != "p:"+want {
			wrong++
		}
	}
	node.reply, node.err = int64(1), nil // the script allows
	pl := NewPeriodLimit(60, 10, redis.New("verif:6379"), "p:")
	takes := verifParam("takes")
	var wg sync.WaitGroup
	codes := make([][]int, 2)
	for g := 0; g < 2; g++ {
		g := g
		key := []string{"alice", "bob"}[g]
		wg.Add(1)
		go func() {
			defer wg.Done()
			ctx := context.WithValue(context.Background(), verifWantKey{}, key)
			for i := 0; i < takes; i++ {
				c, err := pl.TakeCtx(ctx, key)
				if err != nil {
					c = -1
				}
				codes[g] = append(codes[g], c)
			}
		}()
	}
	wg.Wait()
	verifAssert(calls == 2*takes, "every take is one EVAL")
	verifAssert(wrong == 0, "a take is counted on the key of its own caller, whatever the interleaving of concurrent callers")
	for g := 0; g < 2; g++ {
		for _, c := range codes[g] {
			verifAssert(c == Allowed, "each caller gets the answer of its own take")
		}
	}
	verifReach("two-callers")
}
