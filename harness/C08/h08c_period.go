package limit

import (
	"context"
	"errors"
	"strconv"
	"time"

	"github.com/gotid/god/lib/store/redis"
)

var verifErrRedis = errors.New("verif: redis unreachable")

// H08c1: PeriodLimit.Take/TakeCtx hands the period script, the prefixed key and
// (quota, window) to Redis and maps the script's reply to the public codes.
func Verif_C08_take() {
	verifResetEnv()
	period := []int{1, 60, 3600, 86400}[verifChoose("period", 4)]
	quota := []int{1, 2, 7, 1000000}[verifChoose("quota", 4)]
	prefix := verifString("prefix", 1)
	key := verifString("key", 2)
	pl := NewPeriodLimit(period, quota, new(redis.Redis), prefix)
	verifAssert(pl.calcExpireSeconds() == period, "without Align the window handed to Redis is the whole period")

	// the reply of the script, as the Redis client reports it
	kind := verifChoose("reply", 5)
	code := int64(0)
	switch kind {
	case 0: // an integer reply: any int64
		code = verifInt64("code")
		verifReply = code
	case 1: // a reply that is not an integer
		verifReply = "1"
	case 2: // nil reply
		verifReply = nil
	case 3: // an integer of another Go type is not what the client returns for Lua integers
		verifReply = int(1)
	case 4: // transport/server error
		verifErr = verifErrRedis
	}

	var got int
	var err error
	if verifChoose("entry", 2) == 0 {
		got, err = pl.Take(key)
	} else {
		got, err = pl.TakeCtx(context.Background(), key)
	}

	// what Redis was asked
	verifAssert(verifEvalCalls == 1, "one script evaluation per take")
	verifAssert(verifEvalScript == periodScript, "the period script is evaluated")
	verifAssert(len(verifEvalKeys) == 1 && verifEvalKeys[0] == prefix+key, "KEYS = [keyPrefix+key]")
	argv, ok := verifFlatArgs(verifEvalArgs)
	verifAssert(ok && len(argv) == 2, "ARGV has two string elements")
	verifAssert(argv[0] == strconv.Itoa(quota), "ARGV[1] = quota")
	verifAssert(argv[1] == strconv.Itoa(period), "ARGV[2] = window in seconds (the period when not aligned)")

	// how the reply is reported
	switch kind {
	case 0:
		want := verifIte(code == 0, OverQuota, verifIte(code == 1, Allowed, verifIte(code == 2, HitQuota, Unknown)))
		verifAssert(got == want, "reply 0 => OverQuota, 1 => Allowed, 2 => HitQuota, any other integer => Unknown")
		known := verifOr(verifOr(code == 0, code == 1), code == 2)
		verifAssert(verifImplies(known, err == nil), "a known reply code is reported without error")
		verifAssert(verifImplies(!known, err == ErrUnknownCode), "an unknown reply code is reported as ErrUnknownCode")
		switch got {
		case OverQuota:
			verifReach("over-quota")
		case Allowed:
			verifReach("allowed")
		case HitQuota:
			verifReach("hit-quota")
		default:
			verifReach("unknown-code")
		}
	case 1, 2, 3:
		verifAssert(got == Unknown && err == ErrUnknownCode, "a non-int64 reply => (Unknown, ErrUnknownCode)")
		verifReach("non-integer-reply")
	case 4:
		verifAssert(got == Unknown && err == verifErrRedis, "a Redis error => (Unknown, that error)")
		verifReach("redis-error")
	}
}

// H08c2: calcExpireSeconds with Align(): the window handed to Redis ends at the
// next boundary of the period in local time.
//
// The clock is read by the code under test itself (time.Now); the zone is the
// fixed zone the harness installs as time.Local (in both worlds).
// Symbolic world: the engine's time.Now returns the reading of verifTimeNow,
// i.e. the symbolic second "unix" drawn here. Native world: time.Now is the
// real clock and cannot be set, so the harness observes the reading by
// bracketing the call between two readings of its own (retrying when a second
// boundary was crossed) and the oracle is checked at the real current time.
var verifClockSec, verifClockNsec int64

func verifTimeNow() (sec, nsec int64) { return verifClockSec, verifClockNsec }

func Verif_C08_align() { verifAlign([]int{1, 60, 3600, 86400}[verifCase(4)]) }

func verifAlign(period int) {
	verifResetEnv()
	offset := verifInt("zoneOffset")
	verifAssume(offset >= -12*3600)
	verifAssume(offset <= 14*3600)
	oldLocal := time.Local
	time.Local = time.FixedZone("verif", offset)
	defer func() { time.Local = oldLocal }()

	aligned := verifChoose("align", 2) == 1
	var pl *PeriodLimit
	if aligned {
		pl = NewPeriodLimit(period, 1, new(redis.Redis), "", Align())
	} else {
		pl = NewPeriodLimit(period, 1, new(redis.Redis), "")
	}

	var unix int64
	var r int
	if verifSymbolic() {
		unix = verifInt64("unix")
		verifAssume(unix >= 0)
		verifAssume(unix < int64(1)<<verifParam("unixBits"))
		verifAssume(unix+int64(offset) >= 0) // local time not before 1970-01-01 00:00
		verifClockSec = unix
		verifClockNsec = verifInt64("nsec")
		verifAssume(verifClockNsec >= 0)
		verifAssume(verifClockNsec < 1000000000)
		r = pl.calcExpireSeconds()
	} else {
		after := int64(-1)
		for try := 0; try < 5 && unix != after; try++ {
			unix = time.Now().Unix()
			r = pl.calcExpireSeconds()
			after = time.Now().Unix()
		}
		verifAssume(unix == after)
		verifAssume(unix+int64(offset) >= 0)
	}
	local := unix + int64(offset)

	if !aligned {
		verifAssert(r == period, "without Align the window is the whole period")
		verifReach("not-aligned")
		return
	}
	verifAssert(r >= 1, "aligned window is at least one second")
	verifAssert(r <= period, "aligned window is at most the period")
	// both just proved; restated as path facts so that the engine's range
	// analysis evaluates the modulo below in a narrow bit-width
	verifAssume(r >= 1)
	verifAssume(r <= period)
	verifAssert((local+int64(r))%int64(period) == 0, "aligned window ends on a local period boundary")
	if r == period {
		verifReach("on-boundary")
	} else {
		verifReach("inside-period")
	}
}

