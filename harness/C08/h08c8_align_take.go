package limit

import (
	"strconv"
	"time"

	"github.com/gotid/god/lib/store/redis"
)

// H08c8: with Align() the window a take hands to Redis is the time left until
// the next local period boundary AT THE MOMENT OF THE TAKE - not at the moment
// the limiter was built, and not at the moment of an earlier take.  One limiter,
// built at one instant, takes at later instants (the clock moves between them).
// H08c2 decides what calcExpireSeconds computes for a given clock reading; this
// harness decides that every Take asks for it afresh.  Clock as in H08c2:
// engine = verifTimeNow, native = the real clock (the harness sleeps one second
// between the steps and brackets each take between two readings).
func Verif_C08_align_take() {
	verifResetEnv()
	oldLocal := time.Local
	time.Local = time.FixedZone("verif", 0)
	defer func() { time.Local = oldLocal }()

	period := []int{2, 60, 3600}[verifCase(3)]
	if verifSymbolic() {
		// built 1 s, 2 s or half a period before a boundary, or on it
		verifClockSec = int64(1000*3600) - int64([]int{1, 2, period / 2, 0}[verifChoose("builtBeforeBoundary", 4)])
		verifClockNsec = 0
	}
	pl := NewPeriodLimit(period, 5, new(redis.Redis), "p:", Align())
	verifReply = int64(1)

	takes := verifParam("takes")
	distinct := false
	last := ""
	for i := 0; i < takes; i++ {
		// the clock moves on between construction and take, and between takes
		if verifSymbolic() {
			verifClockSec += int64(1 + verifChoose("advance", 2))
		} else {
			time.Sleep(time.Second)
		}
		var unix int64
		var argv []string
		ok := false
		for try := 0; try < 5 && !ok; try++ {
			verifEvalCalls = 0
			if verifSymbolic() {
				unix = verifClockSec
			} else {
				unix = time.Now().Unix()
			}
			code, err := pl.Take("k")
			verifAssert(err == nil && code == Allowed, "reply 1 is Allowed")
			verifAssert(verifEvalCalls == 1, "one script evaluation per take")
			argv, _ = verifFlatArgs(verifEvalArgs)
			ok = verifSymbolic() || time.Now().Unix() == unix
		}
		verifAssume(ok)
		verifAssert(len(argv) == 2 && argv[0] == "5", "ARGV = [quota, window]")
		if len(argv) != 2 {
			return
		}
		want := period - int(unix%int64(period))
		verifAssert(argv[1] == strconv.Itoa(want), "aligned: the window handed to Redis is the time left to the next period boundary at the moment of this take")
		if i > 0 && argv[1] != last {
			distinct = true
		}
		last = argv[1]
	}
	if distinct {
		verifReach("window-differs-between-takes")
	}
}
