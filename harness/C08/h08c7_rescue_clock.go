package limit

// H08c7: during an outage the in-process bucket counts time on the CALLER's
// clock ("with time counted in whole seconds of the clock supplied by the
// caller ... an in-process bucket of the same rate and burst").  Redis is down
// from the first request; a scripted outage history on the caller's clock -
// drain the bucket at one instant, then come back a full refill later - must be
// answered exactly like a reference bucket of the same rate and burst fed the
// same (now, n).  The whole history is one obligation, so that a counterexample
// is replayed natively over all of it (a wall clock that barely moves between
// the calls cannot refill the bucket).  Uses the environment of h08c_env.go.

import (
	"time"

	"github.com/gotid/god/lib/store/redis"
)

func Verif_C08_rescue_clock() {
	verifResetEnv()
	cfg := verifCfgs[verifCase(3)]
	rate, burst := cfg[0], cfg[1]
	tl := NewTokenLimiter(rate, burst, new(redis.Redis), "k")
	ref := verifRefBucket(rate, burst)
	verifErr = verifErrDown // every EVAL fails: Redis is unreachable

	t0 := time.Unix(1700000000, 0)
	refill := time.Duration(burst/rate+1) * time.Second // at least one full refill later
	type req struct {
		now time.Time
		n   int
	}
	hist := []req{
		{t0, burst},             // drains the bucket
		{t0, 1},                 // same instant: nothing left
		{t0.Add(refill), burst}, // a full refill later on the caller's clock: granted again
		{t0.Add(refill), 1},     // and drained again
	}
	same := true
	granted := 0
	for _, r := range hist {
		got := tl.AllowN(r.now, r.n)
		want := ref.AllowN(r.now, r.n)
		same = verifAnd(same, got == want)
		if got {
			granted++
		}
	}
	verifAssert(same, "during an outage every request is answered like an in-process bucket of the same rate and burst on the caller's clock")
	verifAssert(!verifAlive(tl) && verifMonitorStarted(tl), "the limiter stays on the in-process bucket while Redis is down")
	verifReach("outage-history")

	// let Redis come back so that the monitor and its ticker finish (as H08c3 does)
	verifPingCh <- true
	for w := 0; w < 30 && !(verifAlive(tl) && !verifMonitorStarted(tl)); w++ {
		verifYield()
	}
	verifAssert(verifAlive(tl) && !verifMonitorStarted(tl), "a successful ping ends the outage")
}
