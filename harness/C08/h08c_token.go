package limit

import (
	"context"
	"errors"
	"fmt"
	"strconv"
	"sync"
	"sync/atomic"
	"time"

	"github.com/gotid/god/lib/store/redis"
	xrate "golang.org/x/time/rate"
)

var verifErrDown = errors.New("verif: connection refused")

// rate/burst configurations (2*burst >= rate, the property's precondition):
// rate 7 does not divide one second evenly, rate 1000 > burst is excluded by
// the precondition, so burst 2500.
var verifCfgs = [][2]int{{1, 1}, {7, 4}, {1000, 2500}}

// the in-process bucket the statement speaks of: one event every Second/rate,
// capacity burst
func verifRefBucket(rate, burst int) *xrate.Limiter {
	return xrate.NewLimiter(xrate.Every(time.Second/time.Duration(rate)), burst)
}

func verifMonitorStarted(tl *TokenLimiter) bool {
	tl.rescueLock.Lock()
	defer tl.rescueLock.Unlock()
	return tl.monitorStarted
}

func verifAlive(tl *TokenLimiter) bool { return atomic.LoadUint32(&tl.redisAlive) == 1 }

// request i of a history: distinct n and clock seconds (with a sub-second part
// that must not leak into ARGV)
func verifRequest(i int) (now time.Time, sec int64, n int) {
	n = []int{1, 3, 2, 5}[i%4]
	sec = 1700000000 + []int64{0, 0, 7, 1}[i%4]
	return time.Unix(sec, 999999999), sec, n
}

// H08c3: reserveN / startMonitor / waitForRedis over a history of requests,
// Redis answers (or faults) and monitor pings.
func Verif_C08_token() {
	verifResetEnv()
	cfg := verifCfgs[verifCase(3)]
	rate, burst := cfg[0], cfg[1]
	key := verifStringN("key", 2)
	tl := NewTokenLimiter(rate, burst, new(redis.Redis), key)
	ref := verifRefBucket(rate, burst)
	verifAssert(tl.rescueLimiter.Burst() == burst, "the in-process bucket has the same burst")
	verifAssert(tl.rescueLimiter.Limit() == xrate.Every(time.Second/time.Duration(rate)), "the in-process bucket refills one token every Second/rate")
	verifAssert(verifAlive(tl) && !verifMonitorStarted(tl), "a new limiter uses Redis and has no monitor")

	down := false      // reference state: the limiter has switched to the in-process bucket
	recovered := false // a successful ping has happened
	steps := verifParam("steps")
	for i := 0; i < steps; i++ {
		if down && verifChoose("tick", 2) == 1 {
			// the monitor's ticker fires: it pings, the harness hands it the answer
			ok := verifChoose("pingOK", 2) == 1
			verifPingCh <- ok
			if ok {
				for w := 0; w < 30 && !(verifAlive(tl) && !verifMonitorStarted(tl)); w++ {
					verifYield()
				}
				verifAssert(verifAlive(tl), "after the first successful ping Redis is considered alive again")
				verifAssert(!verifMonitorStarted(tl), "after the first successful ping the monitor has exited")
				down, recovered = false, true
				verifReach("recovered")
			} else {
				verifYield()
				verifAssert(!verifAlive(tl) && verifMonitorStarted(tl), "a failed ping changes nothing: still in-process, monitor still running")
				verifReach("ping-failed")
			}
			continue
		}

		now, sec, n := verifRequest(i)
		kind := 0
		code := int64(0)
		verifReply, verifErr = nil, nil
		if !down {
			kind = verifChoose("reply", 9)
			switch kind {
			case 0: // the script's integer reply
				code = verifInt64("code")
				verifReply = code
			case 1: // Lua false arrives as redis.Nil
				verifErr = redis.Nil
			case 2:
				verifErr = context.Canceled
			case 3:
				verifErr = context.DeadlineExceeded
			case 4:
				verifErr = fmt.Errorf("eval: %w", context.DeadlineExceeded)
			case 5: // any other error
				verifErr = verifErrDown
			case 6: // replies that are not an int64
				verifReply = "OK"
			case 7:
				verifReply = nil
			case 8:
				verifReply = int(1)
			}
		}
		before := atomic.LoadInt32(&verifEvalCalls)
		var got bool
		if i%2 == 0 {
			got = tl.AllowN(now, n)
		} else {
			got = tl.AllowNCtx(context.Background(), now, n)
		}
		asked := atomic.LoadInt32(&verifEvalCalls) - before

		if down {
			verifAssert(asked == 0, "while switched to the in-process bucket Redis is not asked")
			verifAssert(got == ref.AllowN(now, n), "while switched, the answer is the in-process bucket's for the same (now, n)")
			verifAssert(!verifAlive(tl) && verifMonitorStarted(tl), "stays switched until a ping succeeds")
			verifReach("served-in-process")
			continue
		}

		verifAssert(asked == 1, "while Redis is considered alive every request asks it exactly once")
		if recovered {
			verifReach("redis-again")
		}
		verifAssert(verifEvalScript == script, "the token script is evaluated")
		verifAssert(len(verifEvalKeys) == 2 && verifEvalKeys[0] == "{"+key+"}.tokens" && verifEvalKeys[1] == "{"+key+"}.ts",
			"KEYS = [{key}.tokens, {key}.ts]")
		argv, flat := verifFlatArgs(verifEvalArgs)
		verifAssert(flat && len(argv) == 4, "ARGV has four string elements")
		verifAssert(argv[0] == strconv.Itoa(rate), "ARGV[1] = rate")
		verifAssert(argv[1] == strconv.Itoa(burst), "ARGV[2] = burst")
		verifAssert(argv[2] == strconv.FormatInt(sec, 10), "ARGV[3] = now in whole seconds")
		verifAssert(argv[3] == strconv.Itoa(n), "ARGV[4] = n")

		switch kind {
		case 0:
			verifAssert(got == (code == 1), "an integer reply grants iff it is 1")
			if got {
				verifReach("granted")
			} else {
				verifReach("denied")
			}
		case 1:
			verifAssert(!got, "redis.Nil (Lua false) denies")
			verifReach("nil-reply")
		case 2, 3, 4:
			verifAssert(!got, "a cancelled or timed-out context denies")
			verifReach("ctx-error")
		default:
			// Redis unreachable or talking nonsense: the in-process bucket takes over
			verifAssert(got == ref.AllowN(now, n), "on a Redis fault the answer is the in-process bucket's for the same (now, n)")
			down = true
			if kind == 5 {
				verifReach("fallback-error")
			} else {
				verifReach("fallback-bad-reply")
			}
		}
		if down {
			verifAssert(!verifAlive(tl), "a Redis fault switches to the in-process bucket")
			verifAssert(verifMonitorStarted(tl), "a Redis fault starts the monitor")
		} else {
			verifAssert(verifAlive(tl), "no switch without a Redis fault")
			verifAssert(!verifMonitorStarted(tl), "no monitor without a Redis fault")
		}
	}

	// let Redis come back so that the monitor finishes, then make sure nobody
	// pings any more (more than two ticker periods)
	if down {
		verifPingCh <- true
		for w := 0; w < 30 && !(verifAlive(tl) && !verifMonitorStarted(tl)); w++ {
			verifYield()
		}
		verifAssert(verifAlive(tl) && !verifMonitorStarted(tl), "a successful ping ends the outage")
	}
	time.Sleep(5 * pingInterval / 2)
	verifYield()
	verifAssert(atomic.LoadInt32(&verifPingEntered) == atomic.LoadInt32(&verifPingDone), "no monitor is pinging after the recovery")
}

// H08c4: two requests are in flight in EvalCtx when Redis fails both: both
// call startMonitor, exactly one monitor goroutine may result.
func Verif_C08_monitor_once() {
	verifResetEnv()
	cfg := verifCfgs[verifChoose("cfg", 3)]
	rate, burst := cfg[0], cfg[1]
	tl := NewTokenLimiter(rate, burst, new(redis.Redis), "k")
	ref := verifRefBucket(rate, burst)
	now, _, n := verifRequest(verifChoose("req", 4))

	gate := make(chan struct{})
	verifEvalGate = gate
	if verifChoose("fault", 2) == 0 {
		verifErr = verifErrDown
	} else {
		verifReply = "garbage"
	}
	var wg sync.WaitGroup
	var res [2]bool
	for i := 0; i < 2; i++ {
		wg.Add(1)
		go func(i int) {
			defer wg.Done()
			res[i] = tl.AllowN(now, n)
		}(i)
	}
	for w := 0; w < 30 && atomic.LoadInt32(&verifEvalCalls) < 2; w++ {
		verifYield()
	}
	verifAssert(atomic.LoadInt32(&verifEvalCalls) == 2, "both requests are asking Redis")
	verifReach("both-in-flight")
	close(gate) // Redis fails both
	wg.Wait()

	w1 := ref.AllowN(now, n)
	w2 := ref.AllowN(now, n)
	verifAssert(verifOr(verifAnd(res[0] == w1, res[1] == w2), verifAnd(res[0] == w2, res[1] == w1)), "both are answered by the in-process bucket, one after the other")
	verifAssert(!verifAlive(tl) && verifMonitorStarted(tl), "switched, monitor running")

	// one successful ping must end the outage completely ...
	verifPingCh <- true
	for w := 0; w < 30 && !(verifAlive(tl) && !verifMonitorStarted(tl)); w++ {
		verifYield()
	}
	verifAssert(verifAlive(tl) && !verifMonitorStarted(tl), "a successful ping ends the outage")
	// ... i.e. there was one monitor: a second one would come back for a ping
	// of its own within a ticker period
	time.Sleep(5 * pingInterval / 2)
	verifYield()
	verifAssert(atomic.LoadInt32(&verifPingEntered) == 1, "exactly one monitor was started by the two failing requests")
	verifReach("single-monitor")
}
