package limit

// H08c5: the token limiter over the REAL Redis wrapper and its REAL per-address
// breaker (breaker.New: Google SRE breaker over a rolling window).  Only the
// go-redis node behind the wrapper is a harness fake (redis.getRedis is stubbed,
// as in harness/C12).  A denial of the token script is Lua `false`, which
// go-redis reports as the error redis.Nil: however many denials Redis sends,
// they are answers of a reachable server, so the limiter must keep asking Redis
// ("the in-process bucket is used only while Redis is unreachable") - the
// breaker must not count them as failures, must never need its random draw and
// the limiter must not start its monitor.  Grants and denials are interleaved
// in every order (symbolic choice per request).

import (
	"context"
	"errors"
	"sync/atomic"
	"time"

	red "github.com/go-redis/redis/v8"
	"github.com/gotid/god/lib/mathx"
	"github.com/gotid/god/lib/store/redis"
)

//verif:stub github.com/gotid/god/lib/store/redis.getRedis => verifGetNode
//verif:stub github.com/gotid/god/lib/timex.Now => verifBrkNow
//verif:stub github.com/gotid/god/lib/timex.Since => verifBrkSince
//verif:stub github.com/gotid/god/lib/mathx.NewProba => verifBrkNewProba
//verif:stub (*github.com/gotid/god/lib/mathx.Proba).TrueOnProba => verifBrkCoin

var (
	verifBrkClock = time.Hour
	verifBrkDraws int
)

func verifBrkNow() time.Duration                  { return verifBrkClock }
func verifBrkSince(t time.Duration) time.Duration { return verifBrkClock - t }
func verifBrkNewProba() *mathx.Proba              { return &mathx.Proba{} }

// the worst draw: whenever the breaker asks, it rejects
func verifBrkCoin(p *mathx.Proba, proba float64) bool { verifBrkDraws++; return true }

// verifEvalNode: the go-redis node; everything but Eval is outside the harness
// (nil embedded interface: any other command panics, i.e. fails the check).
type verifEvalNode struct {
	red.Cmdable
	evals  int
	script string
	keys   []string
	nargs  int
	reply  any
	err    error
	onEval func(ctx context.Context, keys []string) // optional observer (H08c6)
}

func (n *verifEvalNode) Eval(ctx context.Context, script string, keys []string, args ...interface{}) *red.Cmd {
	n.evals++
	if n.onEval != nil {
		n.onEval(ctx, keys)
	}
	n.script, n.keys, n.nargs = script, keys, len(args)
	if len(args) == 1 { // go-redis expands a single []string argument into its elements
		if ss, ok := args[0].([]string); ok {
			n.nargs = len(ss)
		}
	}
	if n.err != nil {
		return red.NewCmdResult(nil, n.err)
	}
	return red.NewCmdResult(n.reply, nil)
}

var verifTheNode *verifEvalNode

func verifGetNode(r *redis.Redis) (redis.Node, error) {
	if verifTheNode == nil {
		return nil, errors.New("verif: no node")
	}
	return verifTheNode, nil
}

func verifBrkAlive(tl *TokenLimiter) bool { return atomic.LoadUint32(&tl.redisAlive) == 1 }

func verifBrkMonitor(tl *TokenLimiter) bool {
	tl.rescueLock.Lock()
	defer tl.rescueLock.Unlock()
	return tl.monitorStarted
}

func Verif_C08_denials_keep_redis() {
	verifBrkDraws = 0
	verifBrkClock = time.Hour
	verifTheNode = &verifEvalNode{}
	cfg := [][2]int{{1, 1}, {7, 4}, {1000, 2500}}[verifCase(3)]
	rate, burst := cfg[0], cfg[1]
	tl := NewTokenLimiter(rate, burst, redis.New("verif:6379"), "k")

	reqs := verifParam("requests")
	denials := 0
	for i := 0; i < reqs; i++ {
		// the clock stands still or moves by one breaker bucket: all requests stay
		// within the breaker's 10 s window (the worst case for accumulated "failures")
		if verifParam("advance") == 1 && verifChoose("adv", 2) == 1 {
			verifBrkClock += 250 * time.Millisecond
		}

		// every history ends with a run of denials
		deny := i >= reqs-verifParam("tailDenials") || verifChoose("deny", 2) == 1
		if deny {
			verifTheNode.reply, verifTheNode.err = nil, redis.Nil
			denials++
		} else {
			verifTheNode.reply, verifTheNode.err = int64(1), nil
		}
		n := []int{1, 3, 2, 5}[i%4]
		now := time.Unix(1700000000+int64(i), 999999999)
		before := verifTheNode.evals
		var got bool
		if i%2 == 0 {
			got = tl.AllowN(now, n)
		} else {
			got = tl.AllowNCtx(context.Background(), now, n)
		}
		verifAssert(verifTheNode.evals == before+1, "every request is decided by Redis: one EVAL per request, also after any number of denials")
		verifAssert(verifTheNode.script == script && len(verifTheNode.keys) == 2 && verifTheNode.nargs == 4, "the EVAL carries the token script, 2 KEYS and 4 ARGV")
		verifAssert(got == !deny, "the answer is Redis's answer (granted iff the script returned 1)")
		verifAssert(verifBrkAlive(tl) && !verifBrkMonitor(tl), "denials (redis.Nil) never switch the limiter to its in-process bucket")
		verifAssert(verifBrkDraws == 0, "denials (redis.Nil) are not failures for the client's breaker: it never needs a random draw")
	}
	if denials >= 7 {
		verifReach("many-denials")
	}
	if denials == reqs {
		verifReach("only-denials")
	}
}
