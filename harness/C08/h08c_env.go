package limit

// Environment of the H08c "Go glue" harnesses: the two Redis calls lib/limit
// makes are replaced by harness functions (symbolically and, through
// trampolines, in the native replay).

import (
	"context"
	"sync"
	"sync/atomic"

	"github.com/gotid/god/lib/store/redis"
)

//verif:stub (*github.com/gotid/god/lib/store/redis.Redis).EvalCtx => verifEvalCtx
//verif:stub (*github.com/gotid/god/lib/store/redis.Redis).Ping => verifPing

var (
	verifMu sync.Mutex // guards the recorded arguments (two callers in H08c4)

	// what the next EvalCtx call answers
	verifReply any
	verifErr   error
	// when non-nil, EvalCtx waits on it before answering ("request in flight")
	verifEvalGate chan struct{}

	verifEvalCalls  int32 // calls entered
	verifEvalScript string
	verifEvalKeys   []string
	verifEvalArgs   []any

	// Ping: the monitor's ping takes the answer the harness hands over on this
	// unbuffered channel, so the harness decides when a ping happens and what it
	// returns, in both worlds, independently of real time.
	verifPingCh      = make(chan bool)
	verifPingEntered int32 // Ping calls entered
	verifPingDone    int32 // Ping calls answered
)

func verifResetEnv() {
	verifReply, verifErr, verifEvalGate = nil, nil, nil
	verifEvalCalls, verifPingEntered, verifPingDone = 0, 0, 0
	verifEvalScript, verifEvalKeys, verifEvalArgs = "", nil, nil
	verifPingCh = make(chan bool)
}

func verifEvalCtx(r *redis.Redis, ctx context.Context, script string, keys []string, args ...any) (any, error) {
	verifMu.Lock()
	verifEvalScript, verifEvalKeys, verifEvalArgs = script, keys, args
	reply, err, gate := verifReply, verifErr, verifEvalGate
	verifMu.Unlock()
	atomic.AddInt32(&verifEvalCalls, 1)
	if gate != nil {
		<-gate
	}
	return reply, err
}

func verifPing(r *redis.Redis) bool {
	atomic.AddInt32(&verifPingEntered, 1)
	ok := <-verifPingCh
	atomic.AddInt32(&verifPingDone, 1)
	return ok
}

// verifFlatArgs is the argument vector Redis receives for `args ...any`:
// go-redis expands a single []string argument into its elements, otherwise
// every argument is one element. ok is false for anything but strings.
func verifFlatArgs(args []any) (out []string, ok bool) {
	if len(args) == 1 {
		if ss, is := args[0].([]string); is {
			return ss, true
		}
	}
	for _, a := range args {
		s, is := a.(string)
		if !is {
			return nil, false
		}
		out = append(out, s)
	}
	return out, true
}
