package collection

import "time"

// H17f: several keys whose timers fall due on the same wheel tick.  Keys set in
// the same second with the same expiry share a slot of the wheel; each of them
// must be dropped at its own tick ("an entry is dropped for age only between
// 95% and 105% of its expiry ... and not at any other time") - none may be left
// behind for a later revolution because another key of the slot fired first.
// Real 300-slot wheel, harness ticker, exact TTLs (stubs of h17_cache.go).
func Verif_C17_coslotted() {
	verifExactTTL = true
	phases := []int{0, 150, 297, 298, 299}
	phase := phases[verifCase(len(phases))]
	e := time.Duration(2+verifChoose("expiry", 2)) * time.Second
	cache, err := NewCache(e)
	verifAssert(err == nil, "cache is created")
	cache.timingWheel.tickedPos = phase
	n := 2 + verifChoose("keys", verifParam("maxKeys")-1)
	keys := []string{"a", "b", "c", "d"}[:n]
	for i, k := range keys {
		cache.Set(k, i)
		verifYield()
	}
	fireTick := int(e / time.Second)
	for tick := 0; tick <= fireTick+1; tick++ {
		for i, k := range keys {
			v, ok := cache.Get(k)
			if tick < fireTick {
				verifAssert(ok && v == i, "co-slotted entries are all present before their expiry tick")
			} else {
				verifAssert(!ok, "co-slotted entries are ALL dropped at their expiry tick, not just the first of the slot")
			}
		}
		verifCacheTick()
	}
	verifAssert(cache.size() == 0, "nothing is left in the cache after the common expiry")
	verifReach("coslotted")
}
