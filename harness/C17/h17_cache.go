package collection

import (
	"errors"
	"time"

	"github.com/gotid/god/lib/mathx"
	"github.com/gotid/god/lib/timex"
)

//verif:stub github.com/gotid/god/lib/timex.NewTicker => verifCacheTicker
//verif:stub github.com/gotid/god/lib/collection.newCacheStat => verifNewCacheStat
//verif:stub github.com/gotid/god/lib/mathx.NewUnstable => verifNewUnstable
//verif:stub (github.com/gotid/god/lib/mathx.Unstable).AroundDuration => verifAround

// The cache's real 300-slot / 1 s wheel is driven by this ticker.
type verifCTicker struct{ c chan time.Time }

func (t *verifCTicker) Chan() <-chan time.Time { return t.c }
func (t *verifCTicker) Stop()                  {}

var (
	verifTk         *verifCTicker
	verifLastAround time.Duration
	verifExactTTL   bool // LRU harness: expiry jitter is irrelevant there, keep the base
)

func verifCacheTicker(d time.Duration) timex.Ticker {
	verifTk = &verifCTicker{c: make(chan time.Time)}
	return verifTk
}

// no stat loop (it only logs)
func verifNewCacheStat(name string, sizeCallback func() int) *cacheStat {
	return &cacheStat{name: name, sizeCallback: sizeCallback}
}

func verifNewUnstable(deviation float64) mathx.Unstable { return mathx.Unstable{} }

// AroundDuration returns an arbitrary duration within ±5 % of the base (the
// factor bound itself is C06's kernel); the harness remembers the last one.
func verifAround(u mathx.Unstable, base time.Duration) time.Duration {
	if verifExactTTL {
		verifLastAround = base
		return base
	}
	d := time.Duration(verifInt64("around"))
	verifAssume(d >= base-base/20)
	verifAssume(d <= base+base/20)
	verifLastAround = d
	return d
}

func verifCacheTick() {
	verifTk.c <- time.Time{}
	verifYield()
}

// H17b: expiry window through the real wheel. One key, expiry e ∈ {2,3,4} s,
// wheel phase chosen near and far from the wrap-around; Set at tick 0 and
// optionally re-Set (the MoveTimer path) at tick a before it expires. The entry
// is present at every tick before floor(d/1s) after the LAST Set and absent
// from that tick on, where d ∈ [0.95e, 1.05e] is the jittered expiry.
func Verif_C17_expiry() {
	phases := []int{0, 1, 150, 295, 296, 297, 298, 299}
	c := verifCase(len(phases) * 3)
	phase := phases[c/3]
	e := time.Duration(c%3+2) * time.Second
	cache, err := NewCache(e)
	verifAssert(err == nil, "cache is created")
	cache.timingWheel.tickedPos = phase
	cache.Set("k", 1)
	verifYield()
	d := verifLastAround
	elapsed := 0 // ticks since the last Set
	want := 1
	reset := verifChoose("reset", 2) == 1
	if reset {
		a := verifChoose("resetAt", 3)
		verifAssume(time.Duration(a)*time.Second < d-time.Second) // strictly before the tick it would expire in
		for i := 0; i < a; i++ {
			verifCacheTick()
			v, ok := cache.Get("k")
			verifAssert(ok && v == 1, "entry present before its expiry tick")
		}
		// the re-Set stores a new value or the value already there: either way the
		// entry's age counts from this Set
		want = 1 + verifChoose("resetValue", 2)
		cache.Set("k", want)
		verifYield()
		d = verifLastAround
		if want == 1 {
			verifReach("re-set-same-value")
		}
		verifReach("re-set")
	}
	fireTick := int(d / time.Second)
	for elapsed < 6 {
		v, ok := cache.Get("k")
		if elapsed < fireTick {
			verifAssert(ok && v == want, "entry is not dropped before 95% of its expiry after the last Set (tick granularity)")
		} else {
			verifAssert(!ok, "entry is dropped once its jittered expiry (≤105%) has passed")
		}
		verifCacheTick()
		elapsed++
	}
	_, ok := cache.Get("k")
	verifAssert(!ok, "entry is gone after 105% of its expiry")
	verifAssert(time.Duration(fireTick)*time.Second >= e-e/20-time.Second && time.Duration(fireTick)*time.Second <= e+e/20, "drop tick lies within [95%,105%] of the expiry, to tick granularity")
	verifReach("expired")
}

var verifErrFetch = errors.New("fetch failed")

// H17a/c: LRU order, size bound, freshness and sequential Take, against a
// reference recency list. limit ∈ {1,2}; ops over keys {a,b,c}.
func Verif_C17_lru() {
	// case = (limit-1, first op, first key)
	c := verifCase(2 * 5 * 3)
	limit := c/15 + 1
	firstOp, firstKey := (c/3)%5, c%3
	verifExactTTL = true
	cache, err := NewCache(time.Minute, WithLimit(limit))
	verifAssert(err == nil, "cache is created")
	keys := []string{"a", "b", "c"}
	var order []string        // reference recency list, most recent first
	model := map[string]int{} // reference contents
	touch := func(k string) {
		for i, x := range order {
			if x == k {
				order = append(order[:i], order[i+1:]...)
				break
			}
		}
		order = append([]string{k}, order...)
		if len(order) > limit {
			ev := order[len(order)-1]
			order = order[:len(order)-1]
			delete(model, ev)
		}
	}
	drop := func(k string) {
		for i, x := range order {
			if x == k {
				order = append(order[:i], order[i+1:]...)
				break
			}
		}
		delete(model, k)
	}
	ops := verifParam("ops")
	for i := 0; i < ops; i++ {
		ki, op := firstKey, firstOp
		if i > 0 {
			ki, op = verifChoose("key", 3), verifChoose("op", 5)
		}
		k := keys[ki]
		switch op {
		case 0: // Set
			cache.Set(k, 10+i)
			model[k] = 10 + i
			touch(k)
		case 1: // Get
			v, ok := cache.Get(k)
			mv, mok := model[k]
			verifAssert(ok == mok, "Get: present iff set and not since deleted/evicted")
			if ok && mok {
				verifAssert(v == mv, "Get: returns the most recently set value")
				touch(k)
			}
		case 2: // Del
			cache.Del(k)
			drop(k)
		case 3: // Take, fetch succeeds
			calls := 0
			v, err := cache.Take(k, func() (any, error) { calls++; return 100 + i, nil })
			mv, mok := model[k]
			verifAssert(err == nil, "Take: no error when fetch succeeds")
			if mok {
				verifAssert(calls == 0 && v == mv, "Take: cached value returned without fetching")
			} else {
				verifAssert(calls == 1 && v == 100+i, "Take: fetch runs once on a miss and its value is returned")
				model[k] = 100 + i
			}
			touch(k)
		case 4: // Take, fetch fails
			calls := 0
			_, err := cache.Take(k, func() (any, error) { calls++; return nil, verifErrFetch })
			_, mok := model[k]
			if mok {
				verifAssert(calls == 0 && err == nil, "Take: cached value returned without fetching")
				touch(k)
			} else {
				verifAssert(calls == 1 && err == verifErrFetch, "Take: the fetch error is returned")
				_, ok := cache.doGet(k)
				verifAssert(!ok, "Take: a failed fetch is not cached")
			}
		}
		verifYield()
		verifAssert(cache.size() <= limit, "never more entries than the limit")
		verifAssert(cache.size() == len(model), "contents agree with the LRU reference (evicts the least recently set/read/taken)")
	}
	for _, k := range keys {
		v, ok := cache.doGet(k)
		mv, mok := model[k]
		verifAssert(ok == mok && (!ok || v == mv), "final contents equal the reference")
	}
	verifReach("lru-done")
}

// H17c: two concurrent Take callers of one uncached key: the second arrives
// while the first's fetch is in progress. The fetch runs at most once, both get
// its result, and it is cached only on success.
func Verif_C17_take2() {
	verifExactTTL = true
	cache, err := NewCache(time.Minute)
	verifAssert(err == nil, "cache is created")
	fails := verifChoose("fetchFails", 2) == 1
	calls := 0
	release := make(chan struct{})
	fetch := func() (any, error) {
		calls++
		<-release // held until the second caller has arrived
		if fails {
			return nil, verifErrFetch
		}
		return 42, nil
	}
	var v1, v2 any
	var e1, e2 error
	done := make(chan struct{}, 2)
	go func() { v1, e1 = cache.Take("k", fetch); done <- struct{}{} }()
	verifYield()
	go func() { v2, e2 = cache.Take("k", fetch); done <- struct{}{} }()
	verifYield() // the second caller is now waiting on the first's flight
	close(release)
	<-done
	<-done
	verifYield()
	verifAssert(calls == 1, "concurrent Take callers of one key run the fetch at most once")
	if fails {
		verifAssert(e1 == verifErrFetch && e2 == verifErrFetch, "both callers get the fetch error")
		_, ok := cache.Get("k")
		verifAssert(!ok, "a failed fetch is not cached")
	} else {
		verifAssert(e1 == nil && e2 == nil && v1 == 42 && v2 == 42, "both callers get the fetched value")
		v, ok := cache.Get("k")
		verifAssert(ok && v == 42, "a successful fetch is cached")
	}
	// a later Take executes afresh only if nothing is cached
	_, e3 := cache.Take("k", fetch)
	if fails {
		verifAssert(calls == 2 && e3 == verifErrFetch, "after a failed fetch a later Take fetches again")
	} else {
		verifAssert(calls == 1 && e3 == nil, "after a successful fetch a later Take is served from the cache")
	}
	verifReach("take2")
}

// H17d: two concurrent Take callers of one uncached key with an instantaneous,
// successful fetch, under every interleaving with a bounded number of
// preemptions at synchronisation operations (sched_fork): the fetch runs
// exactly once and both callers get its value — in particular when the second
// caller misses the cache before the first caller's flight has stored the
// value and enters the single-flight group only after that flight is over.
func Verif_C17_take_race() {
	verifExactTTL = true
	cache, err := NewCache(time.Minute)
	verifAssert(err == nil, "cache is created")
	calls := 0
	fetch := func() (any, error) {
		calls++
		return 42, nil
	}
	var v1, v2 any
	var e1, e2 error
	done := make(chan struct{}, 2)
	go func() { v1, e1 = cache.Take("k", fetch); done <- struct{}{} }()
	go func() { v2, e2 = cache.Take("k", fetch); done <- struct{}{} }()
	<-done
	<-done
	verifYield()
	verifAssert(e1 == nil && e2 == nil && v1 == 42 && v2 == 42, "both concurrent Take callers get the fetched value")
	verifAssert(calls == 1, "the fetch function runs at most once among concurrent Take callers of one key, whatever the interleaving")
	verifReach("take-race")
}
