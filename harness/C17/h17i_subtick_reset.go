package collection

import "time"

// H17i: a cached key is set again with an expiry SHORTER than one wheel tick
// (SetWithExpire(k, v, d) with 0 < d < 1 s on an existing key - the only path
// into moveTask's "delay < interval" branch, which fires the expiry callback at
// once).  The callback is Cache.Del, which calls back into the wheel
// (RemoveTimer): whatever runs it must not be the wheel's own goroutine.  The
// re-set entry is dropped within one tick (its expiry, to the wheel's
// granularity), every OTHER entry still expires on schedule ("an entry is
// dropped for age only between 95% and 105% of its expiry") and later cache
// operations still return.  Real 300-slot wheel with its run loop, harness
// ticker, exact TTLs (stubs of h17_cache.go), GoSafe NOT inlined.
func Verif_C17_subtick_reset() {
	verifExactTTL = true
	phase := []int{0, 150, 299}[verifCase(3)]
	cache, err := NewCache(time.Minute)
	verifAssert(err == nil, "cache is created")
	cache.timingWheel.tickedPos = phase

	cache.SetWithExpire("victim", 1, 2*time.Second)
	verifYield()
	cache.SetWithExpire("k", 2, 30*time.Second)
	verifYield()
	if verifBool("tickBefore") {
		verifCacheTick() // t = 1 s
	}
	// the re-set with a sub-tick expiry
	d := time.Duration(verifInt64("subTickExpiry"))
	verifAssume(d > 0)
	verifAssume(d < time.Second)
	cache.SetWithExpire("k", 3, d)
	verifCacheSettle(cache, 1)

	// later operations still return
	returned := false
	go func() {
		cache.SetWithExpire("late", 4, 30*time.Second)
		returned = true
	}()
	for i := 0; i < 40 && !returned; i++ {
		verifYield()
	}
	verifAssert(returned, "a Set after a sub-tick re-Set of a cached key returns (the wheel still serves its channels)")
	if !returned {
		return
	}
	for t := 0; t < 3; t++ {
		verifCacheTick()
		verifCacheSettle(cache, 1)
	}
	_, ok := cache.Get("k")
	verifAssert(!ok, "the entry re-set with a sub-tick expiry is dropped within a tick")
	_, ok = cache.Get("victim")
	verifAssert(!ok, "another entry still expires on schedule after a sub-tick re-Set (the wheel keeps ticking)")
	v, ok := cache.Get("late")
	verifAssert(ok && v == 4, "an entry set afterwards is served")
	verifReach("subtick-reset")
}

// H17i, second entry: in a cache WITH A LIMIT a key is deleted (or evicted) and
// set again at once.  Removing the old entry's timer and arming the new entry's
// timer are two messages to the wheel: whatever their order and whichever
// goroutine sends them, the new entry must still be dropped at its own expiry -
// a late removal of the OLD timer must not cancel the new one.
func Verif_C17_del_then_set() {
	verifExactTTL = true
	cs := verifCase(2)
	cache, err := NewCache(time.Minute, WithLimit(2))
	verifAssert(err == nil, "cache is created")
	cache.SetWithExpire("k", 1, 2*time.Second)
	verifYield()
	if cs == 0 {
		cache.Del("k") // explicit removal ...
	} else {
		cache.SetWithExpire("x", 8, 30*time.Second) // ... or eviction: the limit is 2
		cache.SetWithExpire("y", 9, 30*time.Second)
	}
	cache.SetWithExpire("k", 2, 2*time.Second) // ... and the key is set again at once
	verifCacheSettle(cache, 2)
	v, ok := cache.Get("k")
	verifAssert(ok && v == 2, "the key set again is served with its new value")
	for t := 0; t < 4; t++ {
		verifCacheTick()
		verifYield()
	}
	verifYield()
	_, ok = cache.Get("k")
	verifAssert(!ok, "an entry set again right after its deletion / eviction is still dropped at its own expiry")
	verifReach("del-then-set")
}
