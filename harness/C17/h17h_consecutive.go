package collection

import "time"

// H17h: entries falling due on CONSECUTIVE wheel ticks while the expiry
// callbacks of the earlier tick have not finished.  The wheel runs the due
// callbacks of a tick (Cache.Del of each key) in a goroutine of their own; Del
// needs the cache lock and then the wheel's remove channel, so under contention
// the next tick is regularly scanned while the previous tick's goroutine is
// still busy.  Whatever the overlap, every expired entry must be dropped ("an
// entry is dropped for age only between 95% and 105% of its expiry after its
// last Set"; Get returns the value "unless that key has since been ...
// expired") and no unexpired entry may be touched.
//
// nE keys with a 2 s expiry and nL keys with a 3 s expiry (plus, optionally, a
// third group at 4 s) and one long-lived key, all set in the same second.
// Mode "held": the harness stands for a concurrent cache operation inside its
// critical section - it holds Cache.lock while ticks 2 and 3 (and 4) are
// delivered, so tick 2's callback goroutine cannot have finished when tick 3 is
// scanned; then it lets go and everything settles.  Mode "free": the same
// history with every tick's callbacks finishing before the next tick (baseline).
// Real 300-slot wheel, harness ticker, exact TTLs (stubs of h17_cache.go).
func verifTickNoYield() { verifTk.c <- time.Time{} }

// verifWheelSync returns when the wheel goroutine has finished everything sent
// to it before (it serves its channels one at a time, in order of arrival).
func verifWheelSync(c *Cache) { c.timingWheel.MoveTimer("no-such-key", time.Second) }

func verifCacheSettle(c *Cache, want int) {
	for i := 0; i < 40; i++ {
		verifYield()
		if c.size() == want {
			return
		}
	}
}

func Verif_C17_consecutive() {
	verifExactTTL = true
	phases := []int{0, 150, 297, 298, 299}
	cs := verifCase(2 * len(phases))
	held := cs%2 == 0
	phase := phases[cs/2]
	cache, err := NewCache(time.Minute)
	verifAssert(err == nil, "cache is created")
	cache.timingWheel.tickedPos = phase

	maxPer := verifParam("maxPerTick")
	groups := 2 + verifChoose("thirdGroup", 2) // expiries 2 s, 3 s (, 4 s)
	type ent struct {
		key    string
		val    int
		expiry int // seconds
	}
	var ents []ent
	names := [][]string{{"e1", "e2", "e3"}, {"l1", "l2", "l3"}, {"m1", "m2", "m3"}}
	for g := 0; g < groups; g++ {
		n := 1 + verifChoose("keys", maxPer)
		for i := 0; i < n; i++ {
			ents = append(ents, ent{names[g][i], 10*g + i, 2 + g})
		}
	}
	// set in an order that interleaves the groups when the choice says so
	if verifChoose("reverse", 2) == 1 {
		for i, j := 0, len(ents)-1; i < j; i, j = i+1, j-1 {
			ents[i], ents[j] = ents[j], ents[i]
		}
	}
	cache.SetWithExpire("keep", 99, 30*time.Second)
	verifYield()
	for _, e := range ents {
		cache.SetWithExpire(e.key, e.val, time.Duration(e.expiry)*time.Second)
		verifYield()
	}

	present := func(now int) {
		for _, e := range ents {
			v, ok := cache.Get(e.key)
			if now < e.expiry {
				verifAssert(ok && v == e.val, "an entry is not dropped before its expiry")
			}
		}
		v, ok := cache.Get("keep")
		verifAssert(ok && v == 99, "the long-lived entry is untouched")
	}

	verifCacheTick() // t = 1 s: nothing due
	present(1)
	verifAssert(cache.size() == len(ents)+1, "nothing is dropped at t=1s")

	last := 1 + groups // the tick at which the last group falls due
	if held {
		cache.lock.Lock()
		for t := 2; t <= last; t++ {
			verifTickNoYield()
		}
		verifWheelSync(cache)
		// every due tick has been scanned; none of their callbacks can have
		// finished (Del needs the lock held here)
		if len(cache.data) == len(ents)+1 {
			verifReach("next-tick-scanned-before-previous-callbacks-finished")
		}
		cache.lock.Unlock()
	} else {
		for t := 2; t <= last; t++ {
			verifCacheTick()
			left := 1
			for _, e := range ents {
				if e.expiry > t {
					left++
				}
			}
			verifCacheSettle(cache, left)
			present(t)
		}
		verifReach("callbacks-finished-between-ticks")
	}
	verifCacheSettle(cache, 1)
	// one more second: now every expiry lies more than 105 % behind
	verifCacheTick()
	verifCacheSettle(cache, 1)

	for _, e := range ents {
		_, ok := cache.Get(e.key)
		verifAssert(!ok, "an entry whose expiry (105 %) has passed is dropped, also when its tick was scanned while the previous tick's callbacks were still running")
	}
	v, ok := cache.Get("keep")
	verifAssert(ok && v == 99, "the long-lived entry is still served after the others expired")
	verifAssert(cache.size() == 1, "only the unexpired entry is left")
	verifReach("consecutive")
}
