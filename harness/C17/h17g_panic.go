package collection

import "time"

// H17g: a Take whose fetch does not succeed must not poison its key. The first
// Take of key "k" runs a fetch that panics (the caller recovers, as the recover
// middlewares of the servers do) or returns an error; nothing is cached by it.
// A later Take — of the same key, or of another key first and then of "k" —
// finds nothing cached, so it "otherwise runs the fetch function": the fetch
// runs exactly once, Take returns its value with a nil error and the value is
// cached (a following Get finds it, a third Take is served without fetching).
func Verif_C17_take_after_failure() {
	c := verifCase(4) // (no limit | limit 1) x (first fetch panics | fails)
	limited, panics := c/2 == 1, c%2 == 0
	verifExactTTL = true
	var cache *Cache
	var err error
	if limited {
		cache, err = NewCache(time.Minute, WithLimit(1))
	} else {
		cache, err = NewCache(time.Minute)
	}
	verifAssert(err == nil, "cache is created")

	first := 0
	if panics {
		_, panicked := verifExpectPanic(func() {
			cache.Take("k", func() (any, error) { first++; panic("boom") })
		})
		verifAssert(panicked, "the fetch's panic reaches the caller of Take")
		verifReach("fetch-panicked")
	} else {
		v, e := cache.Take("k", func() (any, error) { first++; return nil, verifErrFetch })
		verifAssert(e == verifErrFetch && v == nil, "Take: the fetch error is returned")
		verifReach("fetch-failed")
	}
	verifYield()
	verifAssert(first == 1, "the first fetch ran once")
	_, ok := cache.Get("k")
	verifAssert(!ok, "Take: a fetch that did not succeed is not cached")
	verifAssert(cache.size() == 0, "nothing is cached by a fetch that did not succeed")

	if verifChoose("otherKeyFirst", 2) == 1 {
		runs := 0
		v, e := cache.Take("j", func() (any, error) { runs++; return 9, nil })
		verifYield()
		verifAssert(runs == 1, "Take of another key runs its fetch once after a fetch that did not succeed")
		verifAssert(e == nil && v == 9, "Take of another key returns its fetch's value")
		g, ok := cache.Get("j")
		verifAssert(ok && g == 9, "the other key's successful fetch is cached")
		verifReach("other-key")
	}

	runs := 0
	v, e := cache.Take("k", func() (any, error) { runs++; return 7, nil })
	verifYield()
	verifAssert(runs == 1, "Take of an uncached key runs the fetch (exactly once), also after an earlier fetch for that key panicked or failed")
	verifAssert(e == nil && v == 7, "Take returns the value of the fetch it ran, with a nil error")
	g, ok := cache.Get("k")
	verifAssert(ok && g == 7, "the successful fetch is cached")
	if limited {
		verifAssert(cache.size() == 1, "never more entries than the limit")
	}

	// served from the cache from now on
	v, e = cache.Take("k", func() (any, error) { runs++; return 8, nil })
	verifAssert(runs == 1 && e == nil && v == 7, "Take returns the cached value when present, without fetching")
	verifReach("take-after-failure")
}
