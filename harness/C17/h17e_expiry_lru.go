package collection

import "time"

// H17e: expiry and the LRU bound together.  A limited cache holds a long-lived
// entry and a short-lived one; the short-lived one is dropped for age by the
// real wheel; then new keys arrive.  An entry that expired no longer counts
// against the limit: the cache evicts only when it really holds `limit`
// entries, and then the least recently used LIVE one.  Uses the stubs of
// h17_cache.go (harness ticker, exact TTLs).
func Verif_C17_expiry_lru() {
	verifExactTTL = true
	limit := 2 + verifCase(2) // 2 or 3
	cache, err := NewCache(time.Minute, WithLimit(limit))
	verifAssert(err == nil, "cache is created")
	// order of the first two Sets: the short-lived entry is the more or the less recently used one
	shortFirst := verifChoose("shortFirst", 2) == 1
	if shortFirst {
		cache.SetWithExpire("short", 1, 2*time.Second)
		cache.Set("old", 2)
	} else {
		cache.Set("old", 2)
		cache.SetWithExpire("short", 1, 2*time.Second)
	}
	verifYield()
	if verifChoose("touchShort", 2) == 1 {
		v, ok := cache.Get("short") // read: most recently used now
		verifAssert(ok && v == 1, "short-lived entry readable before its expiry")
	}
	for i := 0; i < 3; i++ {
		verifCacheTick()
	}
	_, ok := cache.Get("short")
	verifAssert(!ok, "the short-lived entry was dropped for age")
	verifAssert(cache.size() == 1, "only the long-lived entry is held after the expiry")
	// fill up to the limit: nothing may be evicted, the expired entry holds no slot
	for i := 0; i < limit-1; i++ {
		cache.Set(string(rune('n'+i)), 10+i)
		verifYield()
	}
	v, ok := cache.Get("old")
	verifAssert(ok && v == 2, "filling the cache up to its limit after an expiry evicts nothing: the long-lived entry is still there")
	verifAssert(cache.size() == limit, "the cache holds exactly limit entries")
	for i := 0; i < limit-1; i++ {
		v, ok := cache.Get(string(rune('n' + i)))
		verifAssert(ok && v == 10+i, "the new entries are there")
	}
	// one more key: now it is full, the least recently used live entry goes ("old" was read first above)
	cache.Set("z", 99)
	verifYield()
	_, ok = cache.Get("old")
	verifAssert(!ok && cache.size() == limit, "one key beyond the limit evicts the least recently used live entry and nothing else")
	verifReach("expiry-then-fill")
}
