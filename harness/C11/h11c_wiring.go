package sqlx

import (
	"context"
	"database/sql"
	"errors"

	"github.com/gotid/god/lib/breaker"
	oteltrace "go.opentelemetry.io/otel/trace"
)

// H11c: every query method of every session flavour hands the result set to the
// row mapper in the mode its name promises.  H11b decides what unmarshalRow /
// unmarshalRows do for a given strict flag ("in strict mode a result with fewer
// columns than destination fields is an error"); this harness decides that the
// 24 entry points - {connection, transaction session, prepared statement} x
// {QueryRow, QueryRows} x {strict, Partial} x {plain, Ctx} - reach the mapper
// with the single-row/multi-row function, strict == not Partial, the caller's
// destination, query text and arguments, and return the mapper's error.  The
// database/sql layer below (query / queryStmt: guard, QueryContext, rows.Close)
// is replaced by a function that hands the scanner a nil *sql.Rows; the mapper
// functions are replaced by recorders.  Composition with H11b gives the clause
// for the public API.

//verif:stub github.com/gotid/god/lib/store/sqlx.query => verifWQuery
//verif:stub github.com/gotid/god/lib/store/sqlx.queryStmt => verifWQueryStmt
//verif:stub github.com/gotid/god/lib/store/sqlx.unmarshalRow => verifWRow
//verif:stub github.com/gotid/god/lib/store/sqlx.unmarshalRows => verifWRows
//verif:stub github.com/gotid/god/lib/store/sqlx.startSpan => verifWStartSpan
//verif:stub github.com/gotid/god/lib/store/sqlx.endSpan => verifWEndSpan

// tracing is environment: the span helpers keep the caller's context and record nothing
func verifWStartSpan(ctx context.Context, method string) (context.Context, oteltrace.Span) {
	return ctx, nil
}
func verifWEndSpan(span oteltrace.Span, err error) {}

// the connection's breaker is C01's subject: here a breaker that admits every call
type verifWBreaker struct{}

func (verifWBreaker) Name() string                     { return "verif" }
func (verifWBreaker) Allow() (breaker.Promise, error) { return nil, nil }
func (verifWBreaker) Do(req func() error) error        { return req() }
func (verifWBreaker) DoWithAcceptable(req func() error, acceptable breaker.Acceptable) error {
	err := req()
	acceptable(err)
	return err
}
func (verifWBreaker) DoWithFallback(req func() error, fallback func(err error) error) error {
	return req()
}
func (verifWBreaker) DoWithFallbackAcceptable(req func() error, fallback func(err error) error, acceptable breaker.Acceptable) error {
	return req()
}

var verifW struct {
	queries, stmtQueries int
	rowCalls, rowsCalls  int
	strict               bool
	dest                 any
	scanErr              error
	q                    string
	args                 []any
	ctx                  context.Context
}

var verifErrScan = errors.New("verif: mapper verdict")

func verifWQuery(ctx context.Context, conn sessionConn, scanner func(*sql.Rows) error, q string, args ...any) error {
	verifW.queries++
	verifW.q, verifW.args, verifW.ctx = q, args, ctx
	return scanner(nil)
}

func verifWQueryStmt(ctx context.Context, conn stmtConn, scanner func(*sql.Rows) error, q string, args ...any) error {
	verifW.stmtQueries++
	verifW.q, verifW.args, verifW.ctx = q, args, ctx
	return scanner(nil)
}

func verifWRow(v any, scanner rowsScanner, strict bool) error {
	verifW.rowCalls++
	verifW.strict, verifW.dest = strict, v
	return verifW.scanErr
}

func verifWRows(v any, scanner rowsScanner, strict bool) error {
	verifW.rowsCalls++
	verifW.strict, verifW.dest = strict, v
	return verifW.scanErr
}

type verifWKey struct{}

func Verif_C11_wiring() {
	flavour := verifCase(3)
	rows := verifBool("rows")       // QueryRows... rather than QueryRow...
	partial := verifBool("partial") // ...Partial
	withCtx := verifBool("ctx")     // ...Ctx
	verifW.scanErr = []error{nil, ErrNotMatchDestination, ErrNotFound, verifErrScan}[verifChoose("mapperVerdict", 4)]
	ctx := context.WithValue(context.Background(), verifWKey{}, 1)

	var one struct {
		Name string `db:"name"`
		Age  int64  `db:"age"`
	}
	var many []struct {
		Name string `db:"name"`
		Age  int64  `db:"age"`
	}
	var dest any = &one
	if rows {
		dest = &many
	}

	var err error
	const q = "select name from t where id = ?"
	switch flavour {
	case 0, 1:
		var s Session
		if flavour == 0 {
			s = &commonConn{brk: verifWBreaker{}, provider: func() (*sql.DB, error) { return nil, nil }, onError: func(error) {}, beginTx: begin}
		} else {
			s = NewSessionFromTx(nil)
		}
		switch {
		case !rows && !partial && !withCtx:
			err = s.QueryRow(dest, q, 7)
		case !rows && !partial && withCtx:
			err = s.QueryRowCtx(ctx, dest, q, 7)
		case !rows && partial && !withCtx:
			err = s.QueryRowPartial(dest, q, 7)
		case !rows && partial && withCtx:
			err = s.QueryRowPartialCtx(ctx, dest, q, 7)
		case rows && !partial && !withCtx:
			err = s.QueryRows(dest, q, 7)
		case rows && !partial && withCtx:
			err = s.QueryRowsCtx(ctx, dest, q, 7)
		case rows && partial && !withCtx:
			err = s.QueryRowsPartial(dest, q, 7)
		default:
			err = s.QueryRowsPartialCtx(ctx, dest, q, 7)
		}
		verifAssert(verifW.queries == 1 && verifW.stmtQueries == 0, "a session query issues exactly one query")
		verifAssert(verifW.q == q, "the caller's query text is issued")
	default:
		var s StmtSession = statement{query: q}
		switch {
		case !rows && !partial && !withCtx:
			err = s.QueryRow(dest, 7)
		case !rows && !partial && withCtx:
			err = s.QueryRowCtx(ctx, dest, 7)
		case !rows && partial && !withCtx:
			err = s.QueryRowPartial(dest, 7)
		case !rows && partial && withCtx:
			err = s.QueryRowPartialCtx(ctx, dest, 7)
		case rows && !partial && !withCtx:
			err = s.QueryRows(dest, 7)
		case rows && !partial && withCtx:
			err = s.QueryRowsCtx(ctx, dest, 7)
		case rows && partial && !withCtx:
			err = s.QueryRowsPartial(dest, 7)
		default:
			err = s.QueryRowsPartialCtx(ctx, dest, 7)
		}
		verifAssert(verifW.queries == 0 && verifW.stmtQueries == 1, "a prepared-statement query issues exactly one statement query")
	}
	verifAssert(len(verifW.args) == 1 && verifW.args[0] == 7, "the caller's arguments are passed")
	if withCtx {
		verifAssert(verifW.ctx != nil && verifW.ctx.Value(verifWKey{}) == 1, "the caller's context (or one derived from it) reaches the driver")
	}
	if rows {
		verifAssert(verifW.rowsCalls == 1 && verifW.rowCalls == 0, "QueryRows*: the result set is mapped once, as a multi-row result")
	} else {
		verifAssert(verifW.rowCalls == 1 && verifW.rowsCalls == 0, "QueryRow*: the result set is mapped once, as a single-row result")
	}
	verifAssert(verifW.strict == !partial, "the result set is mapped in strict mode exactly by the methods not named Partial")
	verifAssert(verifW.dest == dest, "the result set is mapped into the caller's destination")
	verifAssert(err == verifW.scanErr, "the mapper's verdict (nil, ErrNotMatchDestination, ErrNotFound, ...) is what the caller gets")
	switch flavour {
	case 0:
		verifReach("connection")
	case 1:
		verifReach("transaction")
	default:
		verifReach("statement")
	}
}
