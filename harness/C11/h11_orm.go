package sqlx

// H11b: row mapping. A harness rowsScanner plays the driver: it has named
// columns and rows of symbolic values, and its Scan stores the i-th column's
// value through the i-th destination pointer (as database/sql does).

type verifCell struct {
	s string
	n int64
}

type verifRows struct {
	cols []string
	rows [][]verifCell // one verifCell per column
	pos  int
	scanErr error
}

func (r *verifRows) Columns() ([]string, error) { return r.cols, nil }
func (r *verifRows) Err() error                 { return nil }
func (r *verifRows) Next() bool {
	if r.pos < len(r.rows) {
		r.pos++
		return true
	}
	return false
}
func (r *verifRows) Scan(dest ...any) error {
	row := r.rows[r.pos-1]
	if len(dest) != len(row) {
		return verifErrBody // database/sql: "expected N destination arguments in Scan, not M"
	}
	for i, d := range dest {
		switch p := d.(type) {
		case *string:
			*p = row[i].s
		case *int64:
			*p = row[i].n
		case *any:
			*p = row[i].n
		default:
			return verifErrBegin
		}
	}
	return nil
}

type (
	verifTagged struct {
		Name string `db:"name"`
		Age  int64  `db:"age"`
	}
	// pointer fields and tags that are not all lower case
	verifTaggedPtr struct {
		Name *string `db:"userName"`
		Age  *int64  `db:"AGE"`
		Nick string  `db:"nickName"`
	}
	verifUntagged struct {
		Name string
		Age  int64
	}
	verifProfile struct {
		Age   int64
		Score int64
	}
	verifEmbedded struct {
		Name string
		verifProfile
	}
	// the embedded struct comes FIRST and is followed by further fields: positional
	// mapping is depth-first in declaration order
	verifEmbeddedFirst struct {
		verifProfile
		Name string
		Rank int64
	}
)

func verifRowOf(cols []string, name string, age, score, extra int64) []verifCell {
	row := make([]verifCell, len(cols))
	for i, c := range cols {
		switch c {
		case "name":
			row[i] = verifCell{s: name}
		case "age":
			row[i] = verifCell{n: age}
		case "score":
			row[i] = verifCell{n: score}
		default:
			row[i] = verifCell{n: extra}
		}
	}
	return row
}

func Verif_C11_rows() {
	name := verifStringN("name", 1)
	age, score, extra := verifInt64("age"), verifInt64("score"), verifInt64("extra")
	strict := verifChoose("strict", 2) == 1
	switch verifCase(9) {
	case 8: // a result buffer reused between two queries
		verifC11ReusedBuffer(name, age, score, extra)
	case 0: // tagged struct: by column name, independent of column order, extra columns ignored
		orders := [][]string{{"name", "age"}, {"age", "name"}, {"age", "extra", "name"}, {"extra", "name", "age"}}
		cols := orders[verifChoose("order", 4)]
		var dst verifTagged
		err := unmarshalRow(&dst, &verifRows{cols: cols, rows: [][]verifCell{verifRowOf(cols, name, age, score, extra)}}, strict)
		verifAssert(err == nil, "tagged: a result with all (or more) columns maps without error")
		verifAssert(dst.Name == name && dst.Age == age, "tagged: fields are filled by column name through db tags, independent of column order")
		verifReach("tagged")
	case 1: // tagged struct, missing column
		cols := [][]string{{"name"}, {"age"}}[verifChoose("which", 2)]
		var dst verifTagged
		err := unmarshalRow(&dst, &verifRows{cols: cols, rows: [][]verifCell{verifRowOf(cols, name, age, score, extra)}}, strict)
		if strict {
			verifAssert(err == ErrNotMatchDestination, "strict: fewer columns than destination fields is an error, not a partially filled struct")
			verifReach("strict-missing")
		} else if err == nil {
			verifAssert((cols[0] != "name" || dst.Name == name) && (cols[0] != "age" || dst.Age == age), "partial: the columns present are mapped by name")
		}
	case 2: // untagged struct: by position
		cols := []string{"c1", "c2"}
		var dst verifUntagged
		rows := &verifRows{cols: cols, rows: [][]verifCell{{{s: name}, {n: age}}}}
		err := unmarshalRow(&dst, rows, strict)
		verifAssert(err == nil && dst.Name == name && dst.Age == age, "untagged: fields are filled by position")
		verifReach("untagged")
	case 3: // embedded struct: flattened; strict counts flattened fields
		ncols := 2 + verifChoose("ncols", 2) // 2 or 3 columns for 3 flattened fields
		cols := []string{"c1", "c2", "c3"}[:ncols]
		row := []verifCell{{s: name}, {n: age}, {n: score}}[:ncols]
		var dst verifEmbedded
		err := unmarshalRow(&dst, &verifRows{cols: cols, rows: [][]verifCell{row}}, strict)
		if ncols == 3 {
			verifAssert(err == nil && dst.Name == name && dst.Age == age && dst.Score == score, "embedded: flattened fields are filled by position")
			verifReach("embedded")
		} else if strict {
			verifAssert(err == ErrNotMatchDestination, "strict: fewer columns than (flattened) destination fields is an error, not a partially filled struct")
			verifReach("strict-embedded")
		}
	case 5: // pointer fields and mixed-case tags: by column name, any column order
		orders := [][]string{{"userName", "AGE", "nickName"}, {"nickName", "AGE", "userName"}, {"AGE", "extra", "nickName", "userName"}}
		cols := orders[verifChoose("order", 3)]
		row := make([]verifCell, len(cols))
		nick := verifStringN("nick", 1)
		for i, c := range cols {
			switch c {
			case "userName":
				row[i] = verifCell{s: name}
			case "AGE":
				row[i] = verifCell{n: age}
			case "nickName":
				row[i] = verifCell{s: nick}
			default:
				row[i] = verifCell{n: extra}
			}
		}
		var dst verifTaggedPtr
		err := unmarshalRow(&dst, &verifRows{cols: cols, rows: [][]verifCell{row}}, strict)
		verifAssert(err == nil, "pointer fields: a result with all (or more) columns maps without error")
		verifAssert(dst.Name != nil && *dst.Name == name && dst.Age != nil && *dst.Age == age && dst.Nick == nick, "pointer fields and mixed-case tags are filled by column name, independent of column order")
		verifReach("tagged-ptr")
	case 6: // embedded struct first, further fields after it: Age, Score, Name, Rank by position
		var dst verifEmbeddedFirst
		cols := []string{"c1", "c2", "c3", "c4"}
		row := []verifCell{{n: age}, {n: score}, {s: name}, {n: extra}}
		err := unmarshalRow(&dst, &verifRows{cols: cols, rows: [][]verifCell{row}}, strict)
		verifAssert(err == nil && dst.Age == age && dst.Score == score && dst.Name == name && dst.Rank == extra, "embedded first: the embedded struct's fields sit where it is embedded (depth-first, declaration order)")
		var many []verifEmbeddedFirst
		err = unmarshalRows(&many, &verifRows{cols: cols, rows: [][]verifCell{row}}, strict)
		verifAssert(err == nil && len(many) == 1 && many[0].Age == age && many[0].Score == score && many[0].Name == name && many[0].Rank == extra, "embedded first: the same for a slice of such structs")
		verifReach("embedded-first")
	case 7: // two DIFFERENT destination types that print the same (function-local types of the same name), one after the other
		verifC11SameName(name, age, extra, strict)
	case 4: // empty result / slices
		var one verifTagged
		err := unmarshalRow(&one, &verifRows{cols: []string{"name", "age"}}, strict)
		verifAssert(err == ErrNotFound, "a single-row query reports ErrNotFound on an empty result")
		// ... whatever the result's columns are: an empty result with fewer (or other) columns than
		// the destination has fields is still "not found", in strict and in partial mode
		var oneFew verifTagged
		err = unmarshalRow(&oneFew, &verifRows{cols: []string{"name"}}, strict)
		verifAssert(err == ErrNotFound, "a single-row query reports ErrNotFound on an empty result, also when the result has fewer columns than the destination has fields")
		var oneU verifEmbedded
		err = unmarshalRow(&oneU, &verifRows{cols: []string{"c1"}}, strict)
		verifAssert(err == ErrNotFound, "a single-row query reports ErrNotFound on an empty result (untagged, embedded destination, one column)")
		var onePrim int64
		err = unmarshalRow(&onePrim, &verifRows{cols: []string{"c1", "c2"}}, strict)
		verifAssert(err == ErrNotFound, "a single-row query reports ErrNotFound on an empty result (primitive destination)")
		var many []verifTagged
		cols := []string{"age", "name"}
		err = unmarshalRows(&many, &verifRows{cols: cols, rows: [][]verifCell{verifRowOf(cols, name, age, 0, 0), verifRowOf(cols, name, score, 0, 0)}}, strict)
		verifAssert(err == nil && len(many) == 2, "rows: every row is mapped")
		if err == nil && len(many) == 2 {
			verifAssert(many[0].Name == name && many[0].Age == age && many[1].Age == score, "rows: each element is filled by column name, in row order")
		}
		var none []verifTagged
		err = unmarshalRows(&none, &verifRows{cols: cols}, strict)
		verifAssert(err == nil && len(none) == 0, "rows: an empty result is an empty slice, not an error")
		var manyE []verifEmbedded
		err = unmarshalRows(&manyE, &verifRows{cols: []string{"c1", "c2"}, rows: [][]verifCell{{{s: name}, {n: age}}}}, true)
		verifAssert(err == ErrNotMatchDestination, "strict rows: fewer columns than flattened destination fields is an error")
		// the same into a destination that already holds rows (a caller accumulating pages into one slice)
		acc := []verifTagged{{Name: "kept", Age: 7}}
		err = unmarshalRows(&acc, &verifRows{cols: []string{"name"}, rows: [][]verifCell{{{s: name}}, {{s: name}}}}, strict)
		if strict {
			verifAssert(err == ErrNotMatchDestination, "strict rows: fewer columns than destination fields is an error also when the destination slice already holds elements")
			verifAssert(len(acc) == 1 && acc[0].Name == "kept" && acc[0].Age == 7, "strict rows: a rejected result adds no partially filled struct")
			verifReach("strict-nonempty-destination")
		} else {
			verifAssert(err == nil && len(acc) == 3 && acc[0].Name == "kept" && acc[1].Name == name && acc[1].Age == 0, "partial rows are appended after the elements already there")
		}
		var accU []verifUntagged
		accU = append(accU, verifUntagged{Name: "kept", Age: 7})
		err = unmarshalRows(&accU, &verifRows{cols: []string{"c1"}, rows: [][]verifCell{{{s: name}}}}, strict)
		if strict {
			verifAssert(err == ErrNotMatchDestination && len(accU) == 1, "strict rows (positional): the same")
		}
		verifReach("rows")
	}
}

// Case 7: in one run (one process, shared package state) a row is mapped into two
// distinct struct types whose reflect.Type.String() coincide: function-local types
// declared under the same name in two functions print "sqlx.verifLocal" both, have
// the same Name() and PkgPath() and are nevertheless different types with different
// tag layouts.  Each must be filled by ITS OWN db tags (by position when untagged),
// whichever was mapped first.
func verifSwappedA(rows *verifRows, strict bool) (first, last string, err error) {
	type verifLocal struct {
		First string `db:"first"`
		Last  string `db:"last"`
	}
	var dst verifLocal
	err = unmarshalRow(&dst, rows, strict)
	return dst.First, dst.Last, err
}

func verifSwappedB(rows *verifRows, strict bool) (first, last string, err error) {
	type verifLocal struct {
		Last  string `db:"last"`
		First string `db:"first"`
	}
	var dst []verifLocal
	err = unmarshalRows(&dst, rows, strict)
	if err != nil || len(dst) != 1 {
		return "", "", verifErrBody
	}
	return dst[0].First, dst[0].Last, nil
}

func verifPairTagged(rows *verifRows, strict bool) (name string, age int64, err error) {
	type verifLocal struct {
		Name string `db:"name"`
		Age  int64  `db:"age"`
	}
	var dst verifLocal
	err = unmarshalRow(&dst, rows, strict)
	return dst.Name, dst.Age, err
}

func verifPairUntagged(rows *verifRows, strict bool) (name string, age int64, err error) {
	type verifLocal struct {
		Name string
		Age  int64
	}
	var dst verifLocal
	err = unmarshalRow(&dst, rows, strict)
	return dst.Name, dst.Age, err
}

func verifC11SameName(name string, age, extra int64, strict bool) {
	bFirst := verifChoose("second-type-first", 2) == 1
	if verifChoose("pair", 2) == 0 {
		// same tags, opposite field order
		last := verifStringN("last", 1)
		orders := [][]string{{"first", "last"}, {"last", "first"}, {"last", "extra", "first"}}
		cols := orders[verifChoose("order", 3)]
		mk := func() *verifRows {
			row := make([]verifCell, len(cols))
			for i, c := range cols {
				switch c {
				case "first":
					row[i] = verifCell{s: name}
				case "last":
					row[i] = verifCell{s: last}
				default:
					row[i] = verifCell{n: extra}
				}
			}
			return &verifRows{cols: cols, rows: [][]verifCell{row}}
		}
		for k := 0; k < 2; k++ {
			if (k == 0) != bFirst {
				f, l, err := verifSwappedA(mk(), strict)
				verifAssert(err == nil, "same-name types: type A maps without error")
				verifAssert(f == name && l == last, "same-name types: type A (First,Last) is filled by column name through its own db tags")
			} else {
				f, l, err := verifSwappedB(mk(), strict)
				verifAssert(err == nil, "same-name types: a slice of type B maps without error")
				verifAssert(f == name && l == last, "same-name types: type B (Last,First) is filled by column name through its own db tags")
			}
		}
		verifReach("same-name-swapped")
		return
	}
	// a tagged and an untagged type of the same name; the untagged one is filled by
	// position even when the column names happen to be the other type's tags
	for k := 0; k < 2; k++ {
		if (k == 0) != bFirst {
			cols := [][]string{{"age", "name"}, {"name", "extra", "age"}}[verifChoose("order", 2)]
			n, a, err := verifPairTagged(&verifRows{cols: cols, rows: [][]verifCell{verifRowOf(cols, name, age, 0, extra)}}, strict)
			verifAssert(err == nil, "same-name types: the tagged type maps without error")
			verifAssert(n == name && a == age, "same-name types: the tagged type is filled by column name")
		} else {
			cols := []string{"age", "name"}
			n, a, err := verifPairUntagged(&verifRows{cols: cols, rows: [][]verifCell{{{s: name}, {n: age}}}}, strict)
			verifAssert(err == nil, "same-name types: the untagged type maps without error")
			verifAssert(n == name && a == age, "same-name types: the untagged type is filled by position")
		}
	}
	verifReach("same-name-tagged-untagged")
}

// Case 8: the caller reuses one result buffer for two multi-row queries
// (buf = buf[:0] in between, so the spare capacity still holds the first
// query's elements).  "A query result is copied into the destination": every
// element of the second result is built from ITS OWN row only - a column absent
// from the second (partial) result leaves the field zero, and a pointer field is
// a fresh object, so rows the caller copied out of the first result are not
// rewritten by the second query.
type verifReusedRow struct {
	Name string `db:"name"`
	Age  int64  `db:"age"`
	Ref  *int64 `db:"ref"`
}

func verifC11ReusedBuffer(name string, age, score, extra int64) {
	var buf []verifReusedRow
	cols := []string{"name", "age", "ref"}
	first := [][]verifCell{{{s: name}, {n: age}, {n: extra}}, {{s: name}, {n: score}, {n: extra}}}
	err := unmarshalRows(&buf, &verifRows{cols: cols, rows: first}, true)
	verifAssert(err == nil && len(buf) == 2 && buf[0].Age == age && buf[1].Age == score && buf[0].Ref != nil && *buf[0].Ref == extra, "rows: first result mapped")
	if err != nil || len(buf) != 2 || buf[0].Ref == nil {
		return
	}
	kept := buf[0] // the caller copies a row out
	buf = buf[:0]

	nrows := 1 + verifChoose("rows2", 2)
	if verifChoose("secondResult", 2) == 0 {
		// partial result without the age and ref columns
		cols2 := []string{"name"}
		second := [][]verifCell{{{s: name}}, {{s: name}}}[:nrows]
		err = unmarshalRowsPartialForVerif(&buf, &verifRows{cols: cols2, rows: second})
		verifAssert(err == nil && len(buf) == nrows, "rows: partial second result mapped into the reused buffer")
		for i := 0; i < len(buf) && i < nrows; i++ {
			verifAssert(buf[i].Name == name, "reused buffer: the column present is mapped")
			// (the mapper allocates pointer fields up front, also for absent columns: nil or a pointer to zero)
			verifAssert(buf[i].Age == 0 && (buf[i].Ref == nil || *buf[i].Ref == 0), "reused buffer: a field whose column is absent from this result is zero, not the previous query's value")
			verifAssert(buf[i].Ref == nil || buf[i].Ref != kept.Ref, "reused buffer: a pointer field is not the object handed out with the previous result")
		}
		verifReach("reused-partial")
	} else {
		second := [][]verifCell{{{s: name}, {n: age + 1}, {n: extra + 1}}, {{s: name}, {n: age + 2}, {n: extra + 2}}}[:nrows]
		err = unmarshalRows(&buf, &verifRows{cols: cols, rows: second}, true)
		verifAssert(err == nil && len(buf) == nrows, "rows: second result mapped into the reused buffer")
		for i := 0; i < len(buf) && i < nrows; i++ {
			verifAssert(buf[i].Age == age+int64(i)+1 && buf[i].Ref != nil && *buf[i].Ref == extra+int64(i)+1, "reused buffer: each element holds its own row")
		}
		verifAssert(kept.Age == age && *kept.Ref == extra, "reused buffer: a row copied out of the first result is not rewritten by the second query (pointer fields are fresh objects)")
		verifReach("reused-full")
	}
}

func unmarshalRowsPartialForVerif(v any, rows rowsScanner) error { return unmarshalRows(v, rows, false) }
