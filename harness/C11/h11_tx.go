package sqlx

import (
	"context"
	"database/sql"
	"errors"
	"time"
)

// verifTx is the harness's driver transaction: it counts Commit/Rollback
// calls and returns the errors the harness chose.
type verifTx struct {
	Session
	commits, rollbacks   int
	commitErr, rollbackE error
}

func (t *verifTx) Commit() error   { t.commits++; return t.commitErr }
func (t *verifTx) Rollback() error { t.rollbacks++; return t.rollbackE }

// verifCtx is a context whose cancellation state the harness controls.
type verifCtx struct {
	done bool
	ch   chan struct{}
}

func (c *verifCtx) Deadline() (time.Time, bool) { return time.Time{}, false }
func (c *verifCtx) Done() <-chan struct{}       { return c.ch }
func (c *verifCtx) Err() error {
	if c.done {
		return context.Canceled
	}
	return nil
}
func (c *verifCtx) Value(key any) any { return nil }
func (c *verifCtx) cancel() {
	if !c.done {
		c.done = true
		close(c.ch)
	}
}

var (
	verifErrBegin    = errors.New("begin failed")
	verifErrCommit   = errors.New("commit failed")
	verifErrRollback = errors.New("rollback failed")
	verifErrBody     = errors.New("body failed")
)

// verifWrapped: an error that wraps another (errors.Is sees through it)
type verifWrapped struct{ inner error }

func (w verifWrapped) Error() string { return "driver: " + w.inner.Error() }
func (w verifWrapped) Unwrap() error { return w.inner }

// H11a: atomicity of transactOnConn/transact for every body outcome x driver fault.
func Verif_C11_transact() {
	tx := &verifTx{}
	beginFails := verifBool("beginFails")
	if verifBool("commitFails") {
		// whatever the driver reports: its own error, database/sql's "connection is
		// gone" or "transaction has already been committed or rolled back" (the
		// pool ended it underneath the caller), bare or wrapped
		switch verifChoose("commitError", 4) {
		case 0:
			tx.commitErr = verifErrCommit
		case 1:
			tx.commitErr = sql.ErrConnDone
		case 2:
			tx.commitErr = sql.ErrTxDone
			verifReach("commit-fails-txdone")
		case 3:
			tx.commitErr = verifWrapped{sql.ErrTxDone}
			verifReach("commit-fails-txdone")
		}
	}
	if verifBool("rollbackFails") {
		tx.rollbackE = verifErrRollback
	}
	body := verifChoose("body", 3) // 0 nil, 1 error, 2 panic
	// the caller's context: live, already cancelled, or cancelled while the body runs
	ctxMode := verifChoose("ctx", 3)
	vctx := &verifCtx{ch: make(chan struct{})}
	if ctxMode == 1 {
		vctx.cancel()
	}
	bodyRuns := 0
	b := func(*sql.DB) (trans, error) {
		if beginFails {
			return nil, verifErrBegin
		}
		return tx, nil
	}
	fn := func(ctx context.Context, s Session) error {
		bodyRuns++
		if ctxMode == 2 {
			vctx.cancel()
		}
		switch body {
		case 1:
			return verifErrBody
		case 2:
			// the panic value is whatever a failing body produces: a string, an error, or a
			// runtime error (index out of range, nil map write) - a program defect in the body
			// must not leave the transaction open
			switch verifChoose("panicValue", 4) {
			case 1:
				panic(verifErrBody)
			case 2:
				var xs []int
				idx := 3
				_ = xs[idx] // runtime error: index out of range
			case 3:
				var m map[string]int
				m["k"] = 1 // runtime error: assignment to entry in nil map
			}
			panic("body panicked")
		}
		return nil
	}
	var res error
	var panicked bool
	via := verifChoose("entry", 2)
	if via == 0 {
		_, panicked = verifExpectPanic(func() { res = transactOnConn(vctx, nil, b, fn) })
	} else {
		conn := &commonConn{
			provider: func() (*sql.DB, error) { return nil, nil },
			onError:  func(error) {},
		}
		_, panicked = verifExpectPanic(func() { res = transact(vctx, conn, b, fn) })
	}
	if beginFails {
		verifAssert(!panicked && res == verifErrBegin, "begin failure is returned")
		verifAssert(bodyRuns == 0 && tx.commits == 0 && tx.rollbacks == 0, "begin failure: nothing else happens")
		verifReach("begin-fails")
		return
	}
	verifAssert(bodyRuns == 1, "body runs exactly once")
	if !panicked && res == nil {
		verifAssert(tx.commits == 1 && tx.rollbacks == 0, "nil result means exactly one Commit and no Rollback")
		verifAssert(body == 0, "nil result only when the body returned nil")
	}
	switch body {
	case 0:
		verifAssert(!panicked, "body nil: no panic")
		verifAssert(tx.commits == 1 && tx.rollbacks == 0, "body nil: exactly one Commit, no Rollback")
		verifAssert(res == tx.commitErr, "body nil: result is the commit's own error")
		verifReach("commit")
	case 1:
		verifAssert(!panicked, "body error: no panic")
		verifAssert(tx.rollbacks == 1 && tx.commits == 0, "body error: exactly one Rollback, no Commit")
		if tx.rollbackE == nil {
			verifAssert(res == verifErrBody, "body error: result is the body's error")
		} else {
			verifAssert(res != nil && errors.Is(res, verifErrRollback), "body error + rollback error: result wraps the rollback error")
		}
		verifReach("rollback")
	case 2:
		verifAssert(tx.rollbacks == 1 && tx.commits == 0, "body panic: exactly one Rollback, no Commit")
		verifAssert(panicked || res != nil, "body panic: the caller learns of it (error or panic)")
		verifReach("panic")
	}
}
