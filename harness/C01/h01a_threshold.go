package breaker

import (
	"time"

	"github.com/gotid/god/lib/mathx"
)

//verif:stub github.com/gotid/god/lib/timex.Now => verifNow
//verif:stub github.com/gotid/god/lib/timex.Since => verifSince
//verif:stub github.com/gotid/god/lib/mathx.NewProba => verifNewProba
//verif:stub (*github.com/gotid/god/lib/mathx.Proba).TrueOnProba => verifCoin
//verif:stub (*github.com/gotid/god/lib/breaker.googleBreaker).history => verifHistory

var (
	verifClock     time.Duration
	verifAcc       int64
	verifTot       int64
	verifU         float64
	verifCoinCalls int
	verifLastP     float64
)

func verifNow() time.Duration                  { return verifClock }
func verifSince(t time.Duration) time.Duration { return verifClock - t }
func verifNewProba() *mathx.Proba              { return &mathx.Proba{} }

// the random draw: TrueOnProba(p) is "u < p" for a symbolic u in [0,1)
func verifCoin(p *mathx.Proba, proba float64) bool {
	verifCoinCalls++
	verifLastP = proba
	return verifU < proba
}

// the trailing-10s history as two symbolic integers (the window itself is
// checked in H01d / C09)
func verifHistory(b *googleBreaker) (int64, int64) { return verifAcc, verifTot }

// H01a: admission threshold of the real googleBreaker.accept (float64 kernel)
// for every history (accepts, total) and every random draw u.
func Verif_C01_threshold() {
	maxTotal := int64(verifParam("maxTotal"))
	acc := verifInt64("accepts")
	tot := verifInt64("total")
	verifAssume(acc >= 0)
	verifAssume(acc <= tot)
	verifAssume(tot < maxTotal)
	u := verifFloat64("u")
	verifAssume(u >= 0)
	verifAssume(u < 1)
	verifAcc, verifTot, verifU = acc, tot, u

	b := newGoogleBreaker()
	err := b.accept()

	verifAssert(err == nil || err == ErrServiceUnavailable, "accept returns nil or ErrServiceUnavailable")
	verifAssert(verifCoinCalls <= 1, "at most one random draw per decision")
	if err != nil {
		// (total-5) > 1.5*successes over the integers; equivalently: no excess => admitted for every u
		verifAssert(2*(tot-5) > 3*acc, "rejected only when (total-5) exceeds 1.5 x successes")
		verifAssert(verifCoinCalls == 1, "a rejection is the outcome of a random draw")
		verifReach("rejected")
		return
	}
	if verifCoinCalls == 0 {
		verifReach("admitted-without-draw")
	} else {
		verifReach("admitted-by-draw")
	}
}

// H01a2: a dependency that only fails (accepts = 0): every draw u below
// 1 - 7/(total+1) is rejected (the exact dropRatio is 1 - 6/(total+1); one unit
// of slack so that float rounding can never make the check over-demand).
func Verif_C01_onlyFailures() {
	maxTotal := int64(verifParam("maxTotal"))
	tot := verifInt64("total")
	verifAssume(tot >= 0)
	verifAssume(tot < maxTotal)
	u := verifFloat64("u")
	verifAssume(u >= 0)
	verifAssume(u < 1)
	verifAcc, verifTot, verifU = 0, tot, u

	b := newGoogleBreaker()
	err := b.accept()

	if err != nil {
		verifAssert(err == ErrServiceUnavailable, "rejection is ErrServiceUnavailable")
		verifReach("rejected")
		return
	}
	verifAssert(!(u < 1-7/float64(tot+1)), "only failures: admitted only if the draw is at least 1 - 7/(total+1)")
	if verifCoinCalls == 0 {
		verifAssert(tot <= 5, "only failures: more than 5 outcomes always consult the draw")
		verifReach("admitted-without-draw")
	} else {
		verifReach("admitted-by-draw")
	}
}
