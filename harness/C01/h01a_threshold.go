package breaker

import (
	"time"

	"github.com/gotid/god/lib/mathx"
)

//verif:stub github.com/gotid/god/lib/timex.Now => verifNow
//verif:stub github.com/gotid/god/lib/timex.Since => verifSince
//verif:stub github.com/gotid/god/lib/mathx.NewProba => verifNewProba
//verif:stub (*github.com/gotid/god/lib/mathx.Proba).TrueOnProba => verifCoin
//verif:stub (*github.com/gotid/god/lib/breaker.googleBreaker).history => verifHistory

var (
	verifClock     time.Duration
	verifAcc       int64
	verifTot       int64
	verifU         float64
	verifCoinCalls int
	verifLastP     float64
)

func verifNow() time.Duration                  { return verifClock }
func verifSince(t time.Duration) time.Duration { return verifClock - t }
func verifNewProba() *mathx.Proba              { return &mathx.Proba{} }

// the random draw: TrueOnProba(p) is "u < p" for a symbolic u in [0,1)
func verifCoin(p *mathx.Proba, proba float64) bool {
	verifCoinCalls++
	verifLastP = proba
	return verifU < proba
}

// the trailing-10s history as two symbolic integers (the window itself is
// checked in H01d / C09)
func verifHistory(b *googleBreaker) (int64, int64) { return verifAcc, verifTot }

// H01a: admission threshold of the real googleBreaker.accept (float64 kernel)
// for every history (accepts, total) and every random draw u.
func Verif_C01_threshold() {
	maxTotal := int64(verifParam("maxTotal"))
	acc := verifInt64("accepts")
	tot := verifInt64("total")
	verifAssume(acc >= 0)
	verifAssume(acc <= tot)
	verifAssume(tot < maxTotal)
	u := verifFloat64("u")
	verifAssume(u >= 0)
	verifAssume(u < 1)
	verifAcc, verifTot, verifU = acc, tot, u

	b := newGoogleBreaker()
	err := b.accept()

	verifAssert(err == nil || err == ErrServiceUnavailable, "accept returns nil or ErrServiceUnavailable")
	excess := 2*(tot-5) > 3*acc // (total-5) > 1.5*successes over the integers
	if err != nil {
		verifAssert(excess, "rejected only when (total-5) exceeds 1.5 x successes")
		verifAssert(verifCoinCalls == 1, "a rejection is the outcome of exactly one random draw")
		verifReach("rejected")
		return
	}
	if !excess {
		verifReach("admitted-no-excess")
		return
	}
	// admitted although there is an excess: only by the draw, u >= dropRatio
	verifAssert(verifCoinCalls == 1, "failure excess: admission is decided by the random draw")
	verifAssert(!(u < verifLastP), "failure excess: admitted only when the draw is not below dropRatio")
	if acc == 0 {
		// a dependency that only fails: dropRatio = 1 - 6/(total+1); one unit of slack for rounding
		verifAssert(verifLastP >= 1-7/float64(tot+1), "only failures: dropRatio >= 1 - 7/(total+1)")
		verifAssert(verifLastP <= 1, "dropRatio is a probability")
		verifReach("admitted-only-failures")
	}
	verifReach("admitted-by-draw")
}
