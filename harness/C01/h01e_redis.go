package redis

import (
	"context"
	"errors"

	red "github.com/go-redis/redis/v8"
)

var verifErrOther = errors.New("connection refused")

type verifRedisErr string

func (e verifRedisErr) Error() string { return string(e) }

// H01e (redis): nil, redis.Nil (key absent) and context.Canceled are benign;
// any other error counts as a failure.
func Verif_C01_redisAcceptable() {
	var err error
	benign := true
	switch verifChoose("err", 7) {
	case 1:
		err = red.Nil
	case 2:
		err = context.Canceled
	case 3:
		err, benign = verifErrOther, false
	case 4:
		err, benign = context.DeadlineExceeded, false
	case 5:
		err, benign = red.ErrClosed, false
	case 6:
		// same text as redis.Nil but another type: not the sentinel
		err, benign = verifRedisErr("redis: nil"), false
	}
	got := acceptable(err)
	if benign {
		verifAssert(got, "benign redis outcome never counts against the breaker")
		verifReach("benign")
	} else {
		verifAssert(!got, "other redis error counts as a failure")
		verifReach("failure")
	}
}
