package breaker

import "sync"

// H01r: the first use of a name from two goroutines at once.  Whatever the
// interleaving of the two Get/Do calls (preemption at the registry's lock
// operations), the name ends up with ONE breaker: both callers get the instance
// that stays registered, and the outcomes both record through the name are in
// the history of the breaker registered under it ("every admitted call records
// exactly one outcome ... via the named registry ... from any number of
// goroutines").  Uses the clock/coin stubs of h01f_registry.go.
func Verif_C01_registry_concurrent() {
	name := "svc"
	if verifCase(2) == 1 {
		name = "" // New() draws a random name for the breaker itself; the registry key is ""
	}
	var ba, bb Breaker
	ran := 0
	var mu sync.Mutex
	var wg sync.WaitGroup
	wg.Add(2)
	go func() {
		defer wg.Done()
		ba = Get(name)
		_ = Do(name, func() error { mu.Lock(); ran++; mu.Unlock(); return verifEFail })
	}()
	go func() {
		defer wg.Done()
		bb = Get(name)
		_ = Do(name, func() error { mu.Lock(); ran++; mu.Unlock(); return verifEFail })
	}()
	wg.Wait()
	reg := Get(name)
	verifAssert(ba == bb, "concurrent first use: both callers get the same breaker")
	verifAssert(ba == reg && bb == reg, "concurrent first use: the breaker the callers got is the one registered under the name")
	verifAssert(ran == 2, "two failures are below the protection threshold: both calls are admitted")
	a, t := verifHist(reg)
	verifAssert(a == 0 && t == 2, "both outcomes recorded through the name are in the history of the name's breaker")
	verifReach("done")
}
