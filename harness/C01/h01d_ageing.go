package breaker

import (
	"time"

	"github.com/gotid/god/lib/mathx"
)

//verif:stub github.com/gotid/god/lib/timex.Now => verifNow
//verif:stub github.com/gotid/god/lib/timex.Since => verifSince
//verif:stub github.com/gotid/god/lib/mathx.NewProba => verifNewProba
//verif:stub (*github.com/gotid/god/lib/mathx.Proba).TrueOnProba => verifCoin

var verifClock time.Duration

func verifNow() time.Duration                  { return verifClock }
func verifSince(t time.Duration) time.Duration { return verifClock - t }
func verifNewProba() *mathx.Proba              { return &mathx.Proba{} }

// worst case for the dependency: whenever the breaker draws, the draw rejects
func verifCoin(p *mathx.Proba, proba float64) bool { return true }

// H01d: ageing of recorded outcomes under the virtual clock, real
// newGoogleBreaker (40 x 250ms). Successes are recorded at creation time t0,
// a burst of failures at t1 = t0+d1, the admission decision is taken at
// T = t1+d2. Oracle: bucket epochs E(t) = floor((t-t0)/250ms); an outcome
// recorded at ta is part of the history at T iff E(ta) > E(T)-40.
func Verif_C01_ageing() {
	cases := verifParam("cases")
	c := verifCase(cases)
	sliceNs := int64(verifParam("d1SliceMs")) * int64(time.Millisecond)
	maxD2 := int64(verifParam("maxD2Ms")) * int64(time.Millisecond)
	// the statement's numbers, not the code's constants: trailing 10 s in 40 buckets
	const W = int64(10 * time.Second)
	const N = 40
	const I = W / N

	t0 := verifInt64("t0")
	verifAssume(t0 >= 0)
	verifAssume(t0 <= 1000000000)
	d1 := verifInt64("d1")
	verifAssume(d1 >= int64(c)*sliceNs)
	verifAssume(d1 < int64(c+1)*sliceNs)
	d2 := verifInt64("d2")
	verifAssume(d2 >= 0)
	verifAssume(d2 <= maxD2)
	nS := int64(3 * verifChoose("successes", 2))
	const nF = 8

	verifClock = time.Duration(t0)
	b := newGoogleBreaker()
	for i := int64(0); i < nS; i++ {
		b.markSuccess()
	}
	verifClock = time.Duration(t0 + d1)
	for i := 0; i < nF; i++ {
		b.markFailure()
	}
	verifClock = time.Duration(t0 + d1 + d2)
	acc, tot := b.history()
	err := b.accept()

	eT := (d1 + d2) / I
	e1 := d1 / I
	succVisible := 0 > eT-N
	failVisible := e1 > eT-N
	wantAcc := verifIte(succVisible, int(nS), 0)
	wantTot := wantAcc + verifIte(failVisible, nF, 0)
	verifAssert(int(acc) == wantAcc, "history: successes are exactly those of the last 40 bucket intervals")
	verifAssert(int(tot) == wantTot, "history: total is exactly the outcomes of the last 40 bucket intervals")
	if err != nil {
		verifAssert(d2 < W, "rejected only while failures are younger than 10s")
		verifReach("rejected")
	} else {
		if d2 >= W {
			verifReach("aged-out-admitted")
		} else {
			verifReach("admitted")
		}
	}
}
