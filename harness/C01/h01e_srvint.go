package serverinterceptors

import (
	"context"

	"github.com/gotid/god/lib/breaker"
	"google.golang.org/grpc"
	gcodes "google.golang.org/grpc/codes"
	"google.golang.org/grpc/status"
)

//verif:stub github.com/gotid/god/lib/breaker.DoWithAcceptable => verifDoWithAcceptable

var (
	verifBrkCalls int
	verifBrkName  string
	verifBrkAcc   breaker.Acceptable
)

// records what the interceptor hands to the breaker, then admits the call.
// (What the breaker does with the predicate is H01b.)
func verifDoWithAcceptable(name string, req func() error, acceptable breaker.Acceptable) error {
	verifBrkCalls++
	verifBrkName = name
	verifBrkAcc = acceptable
	return req()
}

// H01e (gRPC server): the unary and stream breaker interceptors protect the
// handler by the method's breaker and classify its error by the gRPC rule.
func Verif_C01_serverInterceptors() {
	c := gcodes.Code(verifUint32("code"))
	herr := status.New(c, "msg").Err()
	runs := 0
	var err error
	if verifChoose("kind", 2) == 0 {
		var resp interface{}
		resp, err = UnaryBreakerInterceptor(context.Background(), "req", &grpc.UnaryServerInfo{FullMethod: "/svc/Method"},
			func(ctx context.Context, req interface{}) (interface{}, error) {
				runs++
				return "resp", herr
			})
		verifAssert(resp == "resp", "unary: the handler's response is returned")
		verifReach("unary")
	} else {
		err = StreamBreakerInterceptor(nil, nil, &grpc.StreamServerInfo{FullMethod: "/svc/Method"},
			func(srv interface{}, stream grpc.ServerStream) error {
				runs++
				return herr
			})
		verifReach("stream")
	}
	verifAssert(verifBrkCalls == 1 && runs == 1, "one breaker call protects one handler run")
	verifAssert(verifBrkName == "/svc/Method", "the breaker is the method's")
	verifAssert(err == herr, "the handler's error is returned")
	bad := verifOr(verifOr(c == gcodes.DeadlineExceeded, c == gcodes.Internal),
		verifOr(verifOr(c == gcodes.Unavailable, c == gcodes.DataLoss), c == gcodes.Unimplemented))
	verifAssert(verifBrkAcc(herr) == !bad, "the outcome is a failure exactly for DeadlineExceeded/Internal/Unavailable/DataLoss/Unimplemented")
}
