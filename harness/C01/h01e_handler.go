package handler

import (
	"net/http"

	"github.com/gotid/god/lib/breaker"
	"github.com/gotid/god/lib/stat"
)

//verif:stub github.com/gotid/god/lib/breaker.New => verifNewBreaker

// verifBrk is the harness's breaker: it admits or rejects as the harness says
// and counts what the handler reports through the promise. (What a real breaker
// does with Accept/Reject is H01c.)
type verifBrk struct {
	admit            bool
	allows           int
	accepts, rejects int
}

var verifTheBrk *verifBrk

func verifNewBreaker(opts ...breaker.Option) breaker.Breaker {
	verifTheBrk = &verifBrk{}
	return verifTheBrk
}

type verifPromise struct{ b *verifBrk }

func (p verifPromise) Accept()              { p.b.accepts++ }
func (p verifPromise) Reject(reason string) { p.b.rejects++ }

func (b *verifBrk) Name() string { return "verif" }
func (b *verifBrk) Allow() (breaker.Promise, error) {
	b.allows++
	if !b.admit {
		return nil, breaker.ErrServiceUnavailable
	}
	return verifPromise{b}, nil
}
func (b *verifBrk) Do(req func() error) error { panic("not used by BreakerHandler") }
func (b *verifBrk) DoWithAcceptable(req func() error, acceptable breaker.Acceptable) error {
	panic("not used by BreakerHandler")
}
func (b *verifBrk) DoWithFallback(req func() error, fallback func(err error) error) error {
	panic("not used by BreakerHandler")
}
func (b *verifBrk) DoWithFallbackAcceptable(req func() error, fallback func(err error) error, acceptable breaker.Acceptable) error {
	panic("not used by BreakerHandler")
}

type verifRW struct {
	hdr   http.Header
	codes []int
}

func (w *verifRW) Header() http.Header         { return w.hdr }
func (w *verifRW) Write(b []byte) (int, error) { return len(b), nil }
func (w *verifRW) WriteHeader(code int)        { w.codes = append(w.codes, code) }

// H01e (http): BreakerHandler reports a failure to the breaker iff the inner
// handler answered with a status >= 500; a status below 500 (or no explicit
// status) is a success; a rejected request never reaches the inner handler and
// is answered 503. Exactly one outcome per admitted request, also when the
// inner handler panics.
func Verif_C01_breakerHandler() {
	mw := BreakerHandler("GET", "/path", stat.NewMetrics("verif"))
	brk := verifTheBrk
	brk.admit = verifChoose("admit", 2) == 1
	behaviour := verifChoose("inner", 3) // 0 no WriteHeader, 1 WriteHeader(code), 2 WriteHeader(code) then panic
	code := verifInt("code")
	verifAssume(code >= 100)
	verifAssume(code <= 999)
	innerRuns := 0
	inner := http.HandlerFunc(func(w http.ResponseWriter, r *http.Request) {
		innerRuns++
		if behaviour >= 1 {
			w.WriteHeader(code)
		}
		if behaviour == 2 {
			panic("inner handler panicked")
		}
	})
	w := &verifRW{hdr: http.Header{}}
	r := &http.Request{Method: "GET", RequestURI: "/path", RemoteAddr: "1.2.3.4:5", Header: http.Header{}}
	_, panicked := verifExpectPanic(func() { mw(inner).ServeHTTP(w, r) })

	verifAssert(brk.allows == 1, "the breaker is asked exactly once per request")
	if !brk.admit {
		verifAssert(innerRuns == 0, "rejected: the inner handler is not run")
		verifAssert(len(w.codes) == 1 && w.codes[0] == http.StatusServiceUnavailable, "rejected: answered 503")
		verifAssert(brk.accepts == 0 && brk.rejects == 0, "rejected: no outcome is reported")
		verifReach("rejected")
		return
	}
	verifAssert(innerRuns == 1, "admitted: the inner handler runs once")
	verifAssert(brk.accepts+brk.rejects == 1, "admitted: exactly one outcome is reported")
	verifAssert(panicked == (behaviour == 2), "a panic of the inner handler propagates")
	if behaviour == 0 {
		verifAssert(brk.accepts == 1, "no explicit status: success")
		verifReach("no-status")
		return
	}
	if code < 500 {
		verifAssert(brk.accepts == 1, "status below 500 never counts against the breaker")
		verifReach("below-500")
	} else {
		verifAssert(brk.rejects == 1, "status 5xx and above counts as a failure")
		verifReach("5xx")
	}
}
