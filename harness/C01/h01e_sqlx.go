package sqlx

import (
	"context"
	"database/sql"
	"errors"
)

var verifErrOther = errors.New("connection refused")

// H01e (sqlx): the breaker predicate of every sqlx connection.
// benign: nil, sql.ErrNoRows, sql.ErrTxDone, context.Canceled -> always acceptable,
// whatever the user's accept hook says; any other error is acceptable only if
// the user's hook says so.
func Verif_C01_sqlxAcceptable() {
	var err error
	benign := true
	switch verifChoose("err", 7) {
	case 1:
		err = sql.ErrNoRows
	case 2:
		err = sql.ErrTxDone
	case 3:
		err = context.Canceled
	case 4:
		err, benign = verifErrOther, false
	case 5:
		err, benign = sql.ErrConnDone, false
	case 6:
		err, benign = context.DeadlineExceeded, false
	}
	db := &commonConn{}
	hook := verifChoose("hook", 2) == 1
	hookAnswer := verifBool("hookAnswer")
	hookCalls := 0
	if hook {
		db.accept = func(e error) bool {
			hookCalls++
			verifAssert(e == err, "the user's hook is asked about the error itself")
			return hookAnswer
		}
	}
	got := db.acceptable(err)
	if benign {
		verifAssert(got, "benign sql outcome never counts against the breaker")
		verifReach("benign")
		return
	}
	if hook {
		verifAssert(got == hookAnswer, "other error: the user's accept hook decides")
		verifReach("hook")
	} else {
		verifAssert(!got, "other error without hook: counts as a failure")
		verifReach("failure")
	}
}
