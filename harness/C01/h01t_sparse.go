package breaker

import "time"

// H01t: ageing under SPARSE traffic - three recordings with two gaps.  A burst
// of 8 failures at ta, one success at tb = ta+d1, one success at tc = tb+d2, with
// both gaps anywhere between nothing and more than the whole window (so the
// window rotates twice, by any number of buckets each time, also by 2..39
// buckets across the end of the ring).  The history at tc is compared with the
// statement's definition: an outcome recorded at t belongs to the trailing 10 s
// at T iff its bucket epoch E(t) = floor((t-t0)/250ms) is greater than E(T)-40.
// "A dependency ... whose failures have aged out of that window is never cut
// off": once the burst is out of the window the breaker admits.  Clock and draw
// as in H01d (h01d_ageing.go).
func Verif_C01_sparse() {
	cases := verifParam("cases")
	c := verifCase(cases)
	sliceNs := int64(verifParam("d1SliceMs")) * int64(time.Millisecond)
	maxD2 := int64(verifParam("maxD2Ms")) * int64(time.Millisecond)
	const W = int64(10 * time.Second)
	const N = 40
	const I = W / N

	t0 := verifInt64("t0")
	verifAssume(t0 >= 0)
	verifAssume(t0 <= 1000000000)
	d0 := int64(verifChoose("firstBucket", verifParam("firstBuckets"))) * 13 * I // the burst starts in ring slot 0, 13 or 26
	d1 := verifInt64("d1")
	verifAssume(d1 >= int64(c)*sliceNs)
	verifAssume(d1 < int64(c+1)*sliceNs)
	d2 := verifInt64("d2")
	verifAssume(d2 >= 0)
	verifAssume(d2 <= maxD2)
	const nF = 8

	verifClock = time.Duration(t0)
	b := newGoogleBreaker()
	verifClock = time.Duration(t0 + d0)
	for i := 0; i < nF; i++ {
		b.markFailure()
	}
	verifClock = time.Duration(t0 + d0 + d1)
	b.markSuccess()
	verifClock = time.Duration(t0 + d0 + d1 + d2)
	b.markSuccess()
	acc, tot := b.history()
	err := b.accept()

	eA := d0 / I
	eB := (d0 + d1) / I
	eC := (d0 + d1 + d2) / I
	failVisible := eA > eC-N
	midVisible := eB > eC-N
	wantAcc := 1 + verifIte(midVisible, 1, 0)
	wantTot := wantAcc + verifIte(failVisible, nF, 0)
	verifAssert(int(acc) == wantAcc, "sparse traffic: successes are exactly those of the last 40 bucket intervals")
	verifAssert(int(tot) == wantTot, "sparse traffic: total is exactly the outcomes of the last 40 bucket intervals")
	if !failVisible {
		verifAssert(err == nil, "a dependency whose failures have aged out of the window is not cut off")
		verifReach("burst-aged-out")
		if midVisible {
			verifReach("aged-out-across-two-rotations")
		}
	} else if err != nil {
		verifReach("rejected")
	}
}
