package codes

import (
	"context"
	"errors"

	gcodes "google.golang.org/grpc/codes"
	"google.golang.org/grpc/status"
)

var verifErrPlain = errors.New("plain error")

// H01e (gRPC): Acceptable is false exactly for status errors whose code is
// DeadlineExceeded, Internal, Unavailable, DataLoss or Unimplemented; every other
// code (all 2^32 values), nil and non-status errors are benign.
// The real status.Code / status.New / (*Status).Err of grpc v1.50.1 are executed.
func Verif_C01_codesAcceptable() {
	switch verifChoose("kind", 4) {
	case 0:
		c := gcodes.Code(verifUint32("code"))
		err := status.New(c, "msg").Err() // nil when c == OK
		got := Acceptable(err)
		bad := verifOr(verifOr(c == gcodes.DeadlineExceeded, c == gcodes.Internal),
			verifOr(verifOr(c == gcodes.Unavailable, c == gcodes.DataLoss), c == gcodes.Unimplemented))
		verifAssert(got == !bad, "gRPC status: a failure exactly for DeadlineExceeded/Internal/Unavailable/DataLoss/Unimplemented")
		if got {
			verifReach("benign-code")
		} else {
			verifReach("failure-code")
		}
	case 1:
		verifAssert(Acceptable(nil), "nil error is benign")
		verifReach("nil")
	case 2:
		verifAssert(Acceptable(context.Canceled), "context.Canceled is benign")
		verifReach("canceled")
	case 3:
		verifAssert(Acceptable(verifErrPlain), "an error that carries no gRPC status has code Unknown: benign")
		verifReach("plain")
	}
}
