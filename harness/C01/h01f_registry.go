package breaker

import (
	"errors"
	"time"

	"github.com/gotid/god/lib/mathx"
)

//verif:stub github.com/gotid/god/lib/timex.Now => verifNow
//verif:stub github.com/gotid/god/lib/timex.Since => verifSince
//verif:stub github.com/gotid/god/lib/mathx.NewProba => verifNewProba
//verif:stub (*github.com/gotid/god/lib/mathx.Proba).TrueOnProba => verifCoin
//verif:stub github.com/gotid/god/lib/stringx.Rand => verifRand

var (
	verifClock time.Duration
	verifEFail = errors.New("dependency failed")
)

func verifNow() time.Duration                  { return verifClock }
func verifSince(t time.Duration) time.Duration { return verifClock - t }
func verifNewProba() *mathx.Proba              { return &mathx.Proba{} }

// New() names an unnamed breaker randomly (Get("") registers it under "")
func verifRand() string { return "random-name" }

// every draw rejects
func verifCoin(p *mathx.Proba, proba float64) bool { return true }

func verifHist(b Breaker) (int64, int64) {
	return b.(*circuitBreaker).throttle.(loggedThrottle).internalThrottle.(*googleBreaker).history()
}

// H01f: the named registry. Same name => same breaker (shared history);
// different names => independent breakers; NoBreakerFor(name) => never rejects.
func Verif_C01_registry() {
	maxLen := verifParam("maxLen")
	n1 := verifString("n1", maxLen)
	n2 := verifString("n2", maxLen)
	b1 := Get(n1)
	b2 := Get(n2)
	verifAssert(Get(n1) == b1 && Get(n2) == b2, "Get is stable: the same name yields the same breaker")

	// the dependency behind n1 fails 8 times (all admitted: the first 5 are protected,
	// later ones would be drawn - so record them through the name, while admitted)
	ran := 0
	for i := 0; i < 5; i++ {
		_ = Do(n1, func() error { ran++; return verifEFail })
	}
	verifAssert(ran == 5, "the first failures are admitted and run")
	for i := 0; i < 3; i++ {
		p, err := b1.Allow()
		if err == nil {
			p.Reject("failed")
		}
	}
	a1, t1 := verifHist(b1)
	verifAssert(a1 == 0 && t1 >= 6, "failures by name are recorded in that name's breaker")

	ran2 := 0
	err2 := Do(n2, func() error { ran2++; return nil })
	if n1 == n2 {
		verifAssert(b1 == b2, "equal names: one breaker")
		verifAssert(ran2 == 0 && err2 == ErrServiceUnavailable, "equal names: the failures recorded under the name cut the call off")
		verifReach("same")
	} else {
		verifAssert(b1 != b2, "different names: different breakers")
		verifAssert(ran2 == 1 && err2 == nil, "different names: failures of one name never cut off the other")
		a2, t2 := verifHist(b2)
		verifAssert(a2 == 1 && t2 == 1, "different names: independent histories")
		verifReach("different")
	}

	if verifChoose("disable", 2) == 1 {
		NoBreakerFor(n1)
		ran3 := 0
		err3 := Do(n1, func() error { ran3++; return nil })
		verifAssert(ran3 == 1 && err3 == nil, "NoBreakerFor: the name is never cut off")
		verifReach("disabled")
	}
}
