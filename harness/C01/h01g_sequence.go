package breaker

import (
	"errors"
	"time"

	"github.com/gotid/god/lib/mathx"
)

//verif:stub github.com/gotid/god/lib/timex.Now => verifNow
//verif:stub github.com/gotid/god/lib/timex.Since => verifSince
//verif:stub github.com/gotid/god/lib/mathx.NewProba => verifNewProba
//verif:stub (*github.com/gotid/god/lib/mathx.Proba).TrueOnProba => verifCoin

var (
	verifClock time.Duration
	verifEFail = errors.New("dependency failed")
	verifDraws int
)

func verifNow() time.Duration                  { return verifClock }
func verifSince(t time.Duration) time.Duration { return verifClock - t }
func verifNewProba() *mathx.Proba              { return &mathx.Proba{} }

// worst case for the dependency: every draw rejects (u = 0)
func verifCoin(p *mathx.Proba, proba float64) bool { verifDraws++; return true }

type verifOutcome struct {
	at time.Duration
	ok bool
}

// reference: outcomes recorded in the last 40 bucket intervals of 250 ms
func verifRefHistory(rec []verifOutcome, now time.Duration) (acc, tot int64) {
	const I = 250 * time.Millisecond
	const N = 40
	eNow := int64(now / I)
	for _, o := range rec {
		if int64(o.at/I) > eNow-N {
			tot++
			if o.ok {
				acc++
			}
		}
	}
	return
}

// H01g: end-to-end histories. A sequence of bursts of calls through Breaker.Do,
// separated by time advances; the reference is the list of recorded outcomes
// and the statement's rule over the trailing 10 s (40 buckets of 250 ms).
func Verif_C01_sequence() {
	steps := verifParam("steps")
	advances := []time.Duration{0, 2600 * time.Millisecond, 10 * time.Second}
	repeats := []int{1, 4}
	verifClock = 0
	brk := New(WithName("svc"))
	var rec []verifOutcome
	for s := 0; s < steps; s++ {
		var opt int
		if s == 0 {
			opt = verifCase(6)*3 + verifChoose("step0", 3)
		} else {
			opt = verifChoose("step", 18)
		}
		verifClock += advances[opt%3]
		behaviour := (opt / 3) % 3 // 0 nil, 1 error, 2 panic
		for r := 0; r < repeats[opt/9]; r++ {
			// reference history at this instant
			acc, tot := verifRefHistory(rec, verifClock)
			ran := false
			_, panicked := verifExpectPanic(func() {
				_ = brk.Do(func() error {
					ran = true
					switch behaviour {
					case 1:
						return verifEFail
					case 2:
						panic("dependency panicked")
					}
					return nil
				})
			})
			verifAssert(panicked == (ran && behaviour == 2), "a panic is the request's own")
			if !ran {
				verifAssert(2*(tot-5) > 3*acc, "rejected only when (total-5) exceeds 1.5 x successes over the trailing 10s")
				verifReach("rejected")
				continue
			}
			// admitted although every draw rejects: there was no draw that could reject
			if acc == 0 && tot > 6 {
				verifAssert(false, "only failures in the window (more than 6): a draw of 0 must reject")
			}
			if tot == acc {
				verifReach("only-successes-admitted")
			}
			if tot == 0 && len(rec) >= 6 {
				verifReach("aged-out-admitted")
			}
			rec = append(rec, verifOutcome{verifClock, behaviour == 0})
		}
	}
}
