package sqlx

// H01s: every call site of a sqlx connection hands the connection's own
// predicate to its breaker, so that the benign sql outcomes never count
// against it whichever method produced them.  The connection's breaker is a
// recorder; the connection provider (resp. the transaction opener) fails with
// the error under test, which is the earliest point at which a method can see
// an error: the method must return that error unchanged and the breaker must
// have been told "acceptable" exactly for the benign errors.  (Errors coming
// back from database/sql itself take the same return path inside the closure;
// database/sql is not executed.)

import (
	"context"
	"database/sql"

	"github.com/gotid/god/lib/breaker"
	oteltrace "go.opentelemetry.io/otel/trace"
)

//verif:stub github.com/gotid/god/lib/store/sqlx.startSpan => verifStartSpan
//verif:stub github.com/gotid/god/lib/store/sqlx.endSpan => verifEndSpan

func verifStartSpan(ctx context.Context, method string) (context.Context, oteltrace.Span) {
	return ctx, nil
}
func verifEndSpan(span oteltrace.Span, err error) {}

type verifRecBreaker struct {
	calls    int
	ran      int
	accepted []bool
}

func (b *verifRecBreaker) Name() string { return "verif" }
func (b *verifRecBreaker) Allow() (breaker.Promise, error) {
	panic("verif: Allow is not used by sqlx")
}
func (b *verifRecBreaker) Do(req func() error) error {
	// a call site using Do would count every error, also the benign ones
	return b.DoWithAcceptable(req, func(err error) bool { return err == nil })
}
func (b *verifRecBreaker) DoWithAcceptable(req func() error, acceptable breaker.Acceptable) error {
	b.calls++
	b.ran++
	err := req()
	b.accepted = append(b.accepted, acceptable(err))
	return err
}
func (b *verifRecBreaker) DoWithFallback(req func() error, fallback func(err error) error) error {
	return b.Do(req)
}
func (b *verifRecBreaker) DoWithFallbackAcceptable(req func() error, fallback func(err error) error, acceptable breaker.Acceptable) error {
	return b.DoWithAcceptable(req, acceptable)
}

type verifRow struct {
	A int `db:"a"`
}

func Verif_C01_sqlxSites() {
	var err error
	benign := true
	switch verifChoose("err", 6) {
	case 0:
		err = sql.ErrNoRows
	case 1:
		err = sql.ErrTxDone
	case 2:
		err = context.Canceled
	case 3:
		err, benign = verifErrOther, false
	case 4:
		err, benign = sql.ErrConnDone, false
	case 5:
		err, benign = context.DeadlineExceeded, false
	}
	brk := &verifRecBreaker{}
	onErr := 0
	db := &commonConn{
		brk:      brk,
		provider: func() (*sql.DB, error) { return nil, err },
		onError:  func(e error) { onErr++ },
		beginTx:  func(*sql.DB) (trans, error) { return nil, err },
	}
	viaBegin := false
	var got error
	var row verifRow
	var rows []verifRow
	switch verifCase(13) {
	case 0:
		_, got = db.Exec("q")
	case 1:
		_, got = db.ExecCtx(context.Background(), "q")
	case 2:
		_, got = db.Prepare("q")
	case 3:
		_, got = db.PrepareCtx(context.Background(), "q")
	case 4:
		got = db.QueryRow(&row, "q")
	case 5:
		got = db.QueryRowCtx(context.Background(), &row, "q")
	case 6:
		got = db.QueryRowPartial(&row, "q")
	case 7:
		got = db.QueryRowPartialCtx(context.Background(), &row, "q")
	case 8:
		got = db.QueryRows(&rows, "q")
	case 9:
		got = db.QueryRowsCtx(context.Background(), &rows, "q")
	case 10:
		got = db.QueryRowsPartial(&rows, "q")
	case 11:
		got = db.QueryRowsPartialCtx(context.Background(), &rows, "q")
	case 12: // Transact: the provider works, opening the transaction fails
		db.provider = func() (*sql.DB, error) { return nil, nil }
		viaBegin = true
		if verifChoose("ctxform", 2) == 0 {
			got = db.Transact(func(Session) error { return nil })
		} else {
			got = db.TransactCtx(context.Background(), func(context.Context, Session) error { return nil })
		}
	}
	verifAssert(got == err, "the method returns the error it met, unchanged")
	verifAssert(brk.calls == 1 && len(brk.accepted) == 1, "the method goes through the connection's breaker exactly once")
	if len(brk.accepted) != 1 {
		return
	}
	verifAssert(brk.accepted[0] == benign, "the breaker is told 'acceptable' exactly for sql.ErrNoRows, sql.ErrTxDone and context.Canceled, at every call site")
	if !viaBegin {
		verifAssert(onErr == 1, "a provider failure is reported to onError")
	}
	if benign {
		verifReach("benign")
	} else {
		verifReach("failure")
	}
}
