package breaker

import (
	"errors"
	"time"

	"github.com/gotid/god/lib/mathx"
)

//verif:stub github.com/gotid/god/lib/timex.Now => verifNow
//verif:stub github.com/gotid/god/lib/timex.Since => verifSince
//verif:stub github.com/gotid/god/lib/mathx.NewProba => verifNewProba
//verif:stub (*github.com/gotid/god/lib/mathx.Proba).TrueOnProba => verifCoin

var (
	verifClock      time.Duration
	verifCoinAnswer bool
	verifCoinCalls  int

	verifE1     = errors.New("e1")
	verifE2     = errors.New("e2")
	verifEFb    = errors.New("fallback result")
	verifEPanic = errors.New("panic value")
)

func verifNow() time.Duration                  { return verifClock }
func verifSince(t time.Duration) time.Duration { return verifClock - t }
func verifNewProba() *mathx.Proba              { return &mathx.Proba{} }

// the random draw is the harness's choice: this is how "admitted or not" is forced
func verifCoin(p *mathx.Proba, proba float64) bool {
	verifCoinCalls++
	return verifCoinAnswer
}

func verifGoogle(b Breaker) *googleBreaker {
	return b.(*circuitBreaker).throttle.(loggedThrottle).internalThrottle.(*googleBreaker)
}

// verifSetup: a breaker (direct or from the registry) with one of three
// recorded histories, and the draw.
func verifSetup(viaRegistry bool) (Breaker, *googleBreaker) {
	verifClock = 0
	var brk Breaker
	if viaRegistry {
		brk = Get("svc")
	} else {
		brk = New(WithName("svc"))
	}
	gb := verifGoogle(brk)
	switch verifChoose("history", 3) {
	case 1: // only failures: the draw is consulted
		for i := 0; i < 8; i++ {
			gb.markFailure()
		}
	case 2: // mixed, still an excess of failures
		for i := 0; i < 3; i++ {
			gb.markSuccess()
		}
		for i := 0; i < 12; i++ {
			gb.markFailure()
		}
	}
	verifCoinAnswer = verifBool("draw")
	return brk, gb
}

// H01b: outcome accounting of Do / DoWithAcceptable / DoWithFallback /
// DoWithFallbackAcceptable, on a Breaker and through the named registry.
func Verif_C01_accounting() {
	variant := verifCase(4)
	viaRegistry := verifChoose("registry", 2) == 1
	entry := variant
	if viaRegistry {
		entry += 4
	}
	brk, gb := verifSetup(viaRegistry)

	behaviour := verifChoose("req", 4) // 0 nil, 1 e1, 2 e2, 3 panic
	var reqErr error
	switch behaviour {
	case 1:
		reqErr = verifE1
	case 2:
		reqErr = verifE2
	}
	reqRuns := 0
	req := func() error {
		reqRuns++
		if behaviour == 3 {
			panic(verifEPanic)
		}
		return reqErr
	}
	// the caller's acceptable predicate: an arbitrary function of the error
	accNil, accE1, accE2 := true, false, false
	if variant == 1 || variant == 3 {
		accNil, accE1, accE2 = verifBool("accNil"), verifBool("accE1"), verifBool("accE2")
	}
	acceptable := func(err error) bool {
		switch err {
		case nil:
			return accNil
		case verifE1:
			return accE1
		}
		return accE2
	}
	fbRuns := 0
	var fbArg error
	var fallback func(err error) error
	fbPanics := false
	if variant >= 2 && verifChoose("fallback", 2) == 1 {
		// the fallback returns its own error, or panics (e.g. re-panics the rejection for a recover middleware)
		fbPanics = verifChoose("fallbackPanics", 2) == 1
		fallback = func(err error) error {
			fbRuns++
			fbArg = err
			if fbPanics {
				panic(verifEFb)
			}
			return verifEFb
		}
	}

	a0, t0 := gb.history()
	var res error
	v, panicked := verifExpectPanic(func() {
		switch entry {
		case 0:
			res = brk.Do(req)
		case 1:
			res = brk.DoWithAcceptable(req, acceptable)
		case 2:
			res = brk.DoWithFallback(req, fallback)
		case 3:
			res = brk.DoWithFallbackAcceptable(req, fallback, acceptable)
		case 4:
			res = Do("svc", req)
		case 5:
			res = DoWithAcceptable("svc", req, acceptable)
		case 6:
			res = DoWithFallback("svc", req, fallback)
		case 7:
			res = DoWithFallbackAcceptable("svc", req, fallback, acceptable)
		}
	})
	a1, t1 := gb.history()

	if verifCoinCalls > 0 && verifCoinAnswer {
		// rejected
		verifAssert(reqRuns == 0, "rejected: the protected function is not run")
		verifAssert(a1 == a0 && t1 == t0, "rejected: a call that was not admitted records no outcome, whatever its fallback does")
		if fallback != nil && fbPanics {
			verifAssert(panicked && v == any(verifEFb), "rejected: a panic of the fallback reaches the caller unchanged")
			verifAssert(fbRuns == 1 && fbArg == ErrServiceUnavailable, "rejected: the fallback receives ErrServiceUnavailable")
			verifReach("rejected-fallback-panics")
			return
		}
		verifAssert(!panicked, "rejected: no panic")
		if fallback != nil {
			verifAssert(fbRuns == 1 && fbArg == ErrServiceUnavailable, "rejected: the fallback receives ErrServiceUnavailable")
		} else {
			verifAssert(res != nil, "rejected without fallback: the caller gets an error")
		}
		verifReach("rejected")
		return
	}
	// admitted
	verifAssert(reqRuns == 1, "admitted: the protected function runs exactly once")
	verifAssert(t1 == t0+1, "admitted: exactly one outcome is recorded")
	if behaviour == 3 {
		verifAssert(a1 == a0, "panic: recorded as a failure")
		verifAssert(panicked && v == any(verifEPanic), "panic: re-raised to the caller")
		verifReach("panic")
		return
	}
	verifAssert(!panicked, "no panic unless the request panics")
	ok := acceptable(reqErr)
	if ok {
		verifAssert(a1 == a0+1, "acceptable outcome: recorded as a success")
		verifReach("success")
	} else {
		verifAssert(a1 == a0, "unacceptable error: recorded as a failure")
		verifReach("failure")
	}
}

// H01c: the same accounting through Allow() + Promise.Accept/Reject.
func Verif_C01_promise() {
	brk, gb := verifSetup(verifChoose("registry", 2) == 1)
	a0, t0 := gb.history()
	p, err := brk.Allow()
	if verifCoinCalls > 0 && verifCoinAnswer {
		verifAssert(err == ErrServiceUnavailable, "rejected: Allow returns ErrServiceUnavailable")
		a1, t1 := gb.history()
		verifAssert(a1 == a0 && t1 == t0, "rejected: nothing ran, nothing is recorded")
		verifReach("rejected")
		return
	}
	verifAssert(err == nil && p != nil, "admitted: Allow returns a promise and no error")
	if verifBool("succeeds") {
		p.Accept()
		a1, t1 := gb.history()
		verifAssert(t1 == t0+1 && a1 == a0+1, "Accept: exactly one success is recorded")
		verifReach("accept")
	} else {
		// any reason text, also the empty one (a caller with nothing to say still reports a failure)
		reason := verifString("reason", 2)
		p.Reject(reason)
		if len(reason) == 0 {
			verifReach("reject-empty-reason")
		}
		a1, t1 := gb.history()
		verifAssert(t1 == t0+1 && a1 == a0, "Reject: exactly one failure is recorded")
		verifReach("reject")
	}
}
