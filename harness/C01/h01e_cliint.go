package clientinterceptors

import (
	"context"

	"github.com/gotid/god/lib/breaker"
	"google.golang.org/grpc"
	gcodes "google.golang.org/grpc/codes"
	"google.golang.org/grpc/status"
)

//verif:stub github.com/gotid/god/lib/breaker.DoWithAcceptable => verifDoWithAcceptable

var (
	verifBrkCalls int
	verifBrkName  string
	verifBrkAcc   breaker.Acceptable
)

func verifDoWithAcceptable(name string, req func() error, acceptable breaker.Acceptable) error {
	verifBrkCalls++
	verifBrkName = name
	verifBrkAcc = acceptable
	return req()
}

// H01e (gRPC client): the client breaker interceptor protects the invocation
// and classifies its error by the gRPC rule.
func Verif_C01_clientInterceptor() {
	c := gcodes.Code(verifUint32("code"))
	herr := status.New(c, "msg").Err()
	runs := 0
	err := BreakerInterceptor(context.Background(), "/svc/Method", "req", "reply", &grpc.ClientConn{},
		func(ctx context.Context, method string, req, reply interface{}, cc *grpc.ClientConn, opts ...grpc.CallOption) error {
			runs++
			return herr
		})
	verifAssert(verifBrkCalls == 1 && runs == 1, "one breaker call protects one invocation")
	verifAssert(err == herr, "the invocation's error is returned")
	bad := verifOr(verifOr(c == gcodes.DeadlineExceeded, c == gcodes.Internal),
		verifOr(verifOr(c == gcodes.Unavailable, c == gcodes.DataLoss), c == gcodes.Unimplemented))
	verifAssert(verifBrkAcc(herr) == !bad, "the outcome is a failure exactly for DeadlineExceeded/Internal/Unavailable/DataLoss/Unimplemented")
	verifReach("client")
}
