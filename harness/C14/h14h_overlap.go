package p2c

import (
	"time"

	"github.com/gotid/god/lib/syncx"
	"google.golang.org/grpc/balancer"
)

// H14h: two calls in flight on ONE backend.  Both are picked (their completion
// callbacks built) before either completes; then the first completes, then
// the second.  "The success score moves towards 1000 on acceptable
// completions and towards 0 on unacceptable ones" is a statement about the
// score as it is WHEN a call completes: the second completion is compared with
// the score the first one left, not with the score at pick time.  Concrete
// completion spacing (real math.Exp in both worlds), symbolic score.
func Verif_C14_overlap() {
	gaps := []time.Duration{time.Microsecond, 100 * time.Millisecond, 10 * time.Second}
	cs := verifCase(4 * len(gaps))
	gap := gaps[cs/4]
	firstBad, secondBad := cs%4/2 == 1, cs%2 == 1
	c, other := verifConn(0), verifConn(1)
	verifLoads = map[*subConn]int64{}
	p := &p2cPicker{conns: []*subConn{c, other}, stamp: syncx.NewAtomicDuration()}
	const base = int64(50 * time.Second)
	c.last = base
	verifAssume(c.lag >= 1)
	verifAssume(c.inflight >= 2)
	verifClock = time.Duration(base)
	done1 := p.buildDoneFunc(c) // both calls are picked ...
	done2 := p.buildDoneFunc(c)
	complete := func(done func(balancer.DoneInfo), bad bool) {
		verifClock += gap
		p.stamp.Set(verifClock)
		info := balancer.DoneInfo{}
		if bad {
			info.Err, verifAcceptableAnswer = verifErr, false
		}
		done(info)
	}
	s0 := c.success
	complete(done1, firstBad) // ... before the first completes
	s1 := c.success
	complete(done2, secondBad)
	s2 := c.success
	verifAssert(s1 <= verifMaxScore && s2 <= verifMaxScore, "success score stays within [0,1000]")
	check := func(before, after uint64, bad bool) {
		if bad {
			verifAssert(after <= before, "an unacceptable completion never raises the success score, also when another call on the backend completed since it was picked")
			verifAssert(before == 0 || after < before, "an unacceptable completion strictly lowers a positive success score, also for overlapping calls (bounded time to unhealthy)")
		} else {
			verifAssert(after+1 >= before, "an acceptable completion never lowers the success score, also when another call on the backend completed since it was picked")
		}
	}
	check(s0, s1, firstBad)
	check(s1, s2, secondBad)
	if firstBad != secondBad {
		verifReach("overlap-mixed")
	}
	verifReach("overlap")
}
