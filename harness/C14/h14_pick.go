package p2c

import (
	"math/rand"
	"strconv"

	"github.com/gotid/god/lib/syncx"
	"google.golang.org/grpc/balancer"
	"google.golang.org/grpc/balancer/base"
	"google.golang.org/grpc/resolver"
)

func verifIndexOf(conns []*subConn, sc balancer.SubConn) int {
	for i, c := range conns {
		if c.conn == sc {
			return i
		}
	}
	return -1
}

// H14a — one Pick and its completion from an arbitrary picker state (and from
// the state Build produces): the pick is one of the ready connections, the
// in-flight count moves by +1 at the pick and -1 at the completion on exactly
// that connection. By induction over the events, in-flight = picks minus
// completions for every history (gRPC invokes each Done callback at most once).
func Verif_C14_pick() {
	// cases: arbitrary state with 1..maxSymConns connections, then the state
	// Build produces with 1..maxConns connections
	maxConns, maxSym := verifParam("maxConns"), verifParam("maxSymConns")
	cs := verifCase(maxSym + maxConns)
	n, viaBuild := cs+1, false
	if cs >= maxSym {
		n, viaBuild = cs-maxSym+1, true
	}

	verifLoads = map[*subConn]int64{}
	var p *p2cPicker
	if viaBuild {
		ready := map[balancer.SubConn]base.SubConnInfo{}
		for i := 0; i < n; i++ {
			ready[&verifSubConn{id: i}] = base.SubConnInfo{Address: resolver.Address{Addr: strconv.Itoa(i)}}
		}
		p = new(p2cPickerBuilder).Build(base.PickerBuildInfo{ReadySCs: ready}).(*p2cPicker)
		verifAssert(len(p.conns) == len(ready), "Build: one connection per ready SubConn")
		for _, c := range p.conns {
			_, isReady := ready[c.conn]
			verifAssert(isReady, "Build: every connection is a ready SubConn")
			verifAssert(c.inflight == 0, "Build: nothing in flight")
			verifAssert(c.success <= verifMaxScore, "Build: success score within [0,1000]")
		}
		for i, c := range p.conns {
			for j := 0; j < i; j++ {
				verifAssert(p.conns[j].conn != c.conn, "Build: connections are distinct")
			}
		}
		verifReach("built")
	} else {
		var conns []*subConn
		for i := 0; i < n; i++ {
			conns = append(conns, verifConn(i))
		}
		p = &p2cPicker{conns: conns, stamp: syncx.ForAtomicDuration(verifTime("stamp"))}
	}
	// the picker's random source is the harness's (Build seeds one from the wall clock)
	p.r = rand.New(verifSource{})
	conns := p.conns

	verifClock = verifTime("now")
	inflight0 := make([]int64, n)
	requests0 := make([]int64, n)
	pick0 := make([]int64, n)
	for i, c := range conns {
		inflight0[i], requests0[i], pick0[i] = c.inflight, c.requests, c.pick
	}

	res, err := p.Pick(balancer.PickInfo{})
	verifAssert(err == nil, "Pick succeeds when there are ready connections")
	k := verifIndexOf(conns, res.SubConn)
	verifAssert(k >= 0, "Pick returns one of the ready connections")
	if k < 0 {
		return
	}
	for i, c := range conns {
		d := int64(0)
		if i == k {
			d = 1
		}
		verifAssert(c.inflight == inflight0[i]+d, "Pick: in-flight +1 on the picked connection only")
		verifAssert(c.requests == requests0[i]+d, "Pick: request count +1 on the picked connection only")
	}
	verifAssert(res.Done != nil, "Pick returns a completion callback")
	verifAssert(conns[k].pick == int64(verifClock), "Pick stamps the picked connection with the time of the pick")
	if n == 2 {
		// with two connections both are candidates of every pick: one that has
		// not been picked for more than a second gets this pick (n >= 3: the
		// candidates are a random pair, "about once per second" is a frequency)
		const second = int64(1000000000)
		stale0 := int64(verifClock)-pick0[0] > second
		stale1 := int64(verifClock)-pick0[1] > second
		staleK := int64(verifClock)-pick0[k] > second
		verifAssert(verifImplies(verifOr(stale0, stale1), staleK), "Pick (2 connections): a connection not picked for more than a second is picked")
	}
	switch n {
	case 1:
		verifReach("pick-1")
	case 2:
		verifReach("pick-2")
	default:
		verifReach("pick-3+")
	}

	if n >= 3 && !viaBuild {
		// (the completion's own branches would multiply the pick paths; the
		// callback of a pick among 3+ connections is exercised from the Build state)
		return
	}
	// completion after an arbitrary delay with an arbitrary outcome
	adv := verifTime("adv")
	verifClock += adv
	info := balancer.DoneInfo{}
	switch verifChoose("outcome", 3) {
	case 1:
		info.Err, verifAcceptableAnswer = verifErr, true
	case 2:
		info.Err, verifAcceptableAnswer = verifErr, false
	}
	res.Done(info)
	for i, c := range conns {
		verifAssert(c.inflight == inflight0[i], "Done: in-flight -1 on the completed connection only")
	}
	verifReach("done")
}

// H14b — choose: the connection with the lower load wins unless the other one
// has not been picked for more than a second, in which case that one is picked;
// the picked connection's pick stamp is refreshed (so under sustained traffic
// every connection is picked again within a second plus one pick).
func Verif_C14_choose() {
	p := &p2cPicker{stamp: syncx.NewAtomicDuration()}
	c1, c2 := verifConn(1), verifConn(2)
	verifLoads = map[*subConn]int64{c1: verifInt64("load1"), c2: verifInt64("load2")}
	l1, l2 := verifLoads[c1], verifLoads[c2]
	now := verifTime("now")
	verifClock = now
	pick1, pick2 := c1.pick, c2.pick

	if verifBool("single") {
		got := p.choose(c1, nil)
		verifAssert(got == c1, "choose with one connection returns it")
		verifAssert(c1.pick == int64(now), "choose refreshes the pick stamp of the chosen connection")
		verifReach("single")
		return
	}

	got := p.choose(c1, c2)
	verifAssert(got == c1 || got == c2, "choose returns one of its two candidates")
	other, otherPick0 := c2, pick2
	if got == c2 {
		other, otherPick0 = c1, pick1
	}
	verifAssert(got.pick == int64(now), "choose refreshes the pick stamp of the chosen connection")
	verifAssert(other.pick == otherPick0, "choose leaves the pick stamp of the other connection alone")

	const second = int64(1000000000) // the statement's "about once per second" (not the code's constant)
	stale1 := int64(now)-pick1 > second
	stale2 := int64(now)-pick2 > second
	gotStale, otherStale := stale1, stale2
	gotLoad, otherLoad := l1, l2
	if got == c2 {
		gotStale, otherStale = stale2, stale1
		gotLoad, otherLoad = l2, l1
	}
	// lower load wins unless the other was not picked for > 1s
	verifAssert(verifOr(gotLoad <= otherLoad, gotStale), "choose: the higher-loaded connection is picked only if it was not picked for more than a second")
	verifAssert(verifOr(gotLoad >= otherLoad, !otherStale), "choose: the lower-loaded connection is passed over whenever the other was not picked for more than a second")
	// starvation freedom kernel
	verifAssert(verifImplies(verifOr(stale1, stale2), gotStale), "choose: if a candidate was not picked for more than a second, such a candidate is picked")
	if gotLoad > otherLoad {
		verifReach("force-pick")
	} else if gotLoad < otherLoad {
		verifReach("lower-load-wins")
	}
}
