package p2c

//verif:stub (*github.com/gotid/god/rpc/internal/balancer/p2c.subConn).load => verifConnLoad

// load() (sqrt of the latency estimate times in-flight+1, checked for real in
// H14d) is replaced by an arbitrary value per connection for the harnesses
// whose claims do not depend on it: any int64, fixed per connection when the
// harness registers one, fresh otherwise.
var verifLoads map[*subConn]int64

func verifConnLoad(c *subConn) int64 {
	if l, ok := verifLoads[c]; ok {
		return l
	}
	return verifInt64("load")
}
