package p2c

import (
	"math/rand"

	"github.com/gotid/god/lib/syncx"
	"google.golang.org/grpc/balancer"
)

// H14f: "a backend whose calls all fail ... is then chosen markedly less often"
// as an exact count.  N >= 3 connections, one of them unhealthy (any score
// <= 500) and - the worst case - with the lowest load, the others healthy (any
// score > 500, any loads above it).  The picker's random index draws are
// scripted: every tuple of draws a Pick can consume (up to pickTimes pairs) is
// played once, which weights every outcome of an ideal uniform source equally.
// The unhealthy connection must get strictly less than the fair share 1/N of
// those picks (it is picked only when every retry drew it again).
type verifScript struct {
	seq []int64
	i   int
}

func (s *verifScript) Int63() int64 {
	v := s.seq[s.i%len(s.seq)]
	s.i++
	return v << 32
}
func (s *verifScript) Seed(int64) {}

func Verif_C14_distribution() {
	n := 3 + verifCase(verifParam("sizes"))
	x := verifChoose("unhealthy", n) // which connection is the failing one
	verifLoads = map[*subConn]int64{}
	verifClock = verifTime("now")
	var conns []*subConn
	lowest := verifInt64("loadX")
	verifAssume(lowest >= 0)
	verifAssume(lowest < 1<<40)
	for i := 0; i < n; i++ {
		c := &subConn{conn: &verifSubConn{id: i}}
		c.success = verifUint64("success")
		c.pick = int64(verifClock) // picked just now: the once-per-second rule does not interfere
		if i == x {
			verifAssume(c.success <= 500)
			verifLoads[c] = lowest
		} else {
			verifAssume(c.success > 500)
			verifAssume(c.success <= verifMaxScore)
			l := verifInt64("load")
			verifAssume(l > lowest)
			verifAssume(l < 1<<41)
			verifLoads[c] = l
		}
		conns = append(conns, c)
	}
	script := &verifScript{}
	p := &p2cPicker{conns: conns, stamp: syncx.ForAtomicDuration(verifClock), r: rand.New(script)}

	count := make([]int, n)
	total := 0
	// all tuples (a1,b1,a2,b2,a3,b3), a in [0,n), b in [0,n-1)
	m := n * (n - 1)
	for t := 0; t < m*m*m; t++ {
		d1, d2, d3 := t%m, (t/m)%m, t/(m*m)
		script.seq = []int64{int64(d1 / (n - 1)), int64(d1 % (n - 1)), int64(d2 / (n - 1)), int64(d2 % (n - 1)), int64(d3 / (n - 1)), int64(d3 % (n - 1))}
		script.i = 0
		res, err := p.Pick(balancer.PickInfo{})
		k := verifIndexOf(conns, res.SubConn)
		if err != nil || k < 0 {
			verifAssert(false, "Pick returns one of the ready connections")
			return
		}
		count[k]++
		total++
	}
	verifAssert(total == m*m*m, "every draw tuple yields a pick")
	verifAssert(count[x]*n < total, "an unhealthy backend with healthy alternatives is chosen less often than its fair share 1/N, also when it has the lowest load")
	if n >= 4 {
		verifAssert(count[x]*n*2 <= total, "with four or more backends it gets at most half of its fair share")
	}
	verifReach("counted")
}
