package p2c

// H14d — healthy and load on an arbitrary connection state (the real load(),
// floating-point square root included).
func Verif_C14_health() {
	c := verifConn(0)
	success, inflight := c.success, c.inflight

	verifAssert(c.healthy() == (success > verifMaxScore/2), "healthy iff the success score is above 500")
	if success > verifMaxScore/2 {
		verifReach("healthy")
	} else {
		verifReach("unhealthy")
	}
	fresh := &subConn{success: verifMaxScore}
	verifAssert(fresh.healthy(), "a connection starts healthy (score 1000)")

	l := c.load()
	verifAssert(l != 0, "load is never 0")
	// load = floor(sqrt(latency estimate + 1)) * (in-flight + 1): at least in-flight + 1
	verifAssert(l >= inflight+1, "load grows with the number of in-flight calls (at least in-flight + 1)")
	verifReach("load")
}
