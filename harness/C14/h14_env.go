package p2c

import (
	"errors"
	"time"

	"google.golang.org/grpc/balancer"
)

//verif:stub github.com/gotid/god/lib/timex.Now => verifNow
//verif:stub github.com/gotid/god/rpc/internal/codes.Acceptable => verifAcceptable

// virtual clock: every reading of timex.Now in the code under test sees it.
var verifClock time.Duration

func verifNow() time.Duration { return verifClock }

// The classification of a completion error (codes.Acceptable looks at the gRPC
// status code, third-party) is chosen by the harness.
var verifAcceptableAnswer bool

func verifAcceptable(err error) bool { return verifAcceptableAnswer }

var verifErr = errors.New("rpc failed")

// verifSubConn is the harness's balancer.SubConn (identity only).
type verifSubConn struct {
	balancer.SubConn
	id int
}

// verifSource drives the picker's *rand.Rand: Int31() = Int63()>>32 is a
// symbolic value in [0,8), so Intn(n) = value % n takes every index in [0,n)
// for n <= 8 (math/rand itself is executed).
type verifSource struct{}

func (verifSource) Int63() int64 {
	i := verifInt64("rnd")
	verifAssume(i >= 0)
	verifAssume(i < 8)
	return i << 32
}
func (verifSource) Seed(int64) {}

// the statement's score range [0,1000] and health threshold 500 (not the code's constants)
const verifMaxScore = 1000

const verifMaxTime = int64(1) << 56 // ns; timex.Now is ~13 months (2^55 ns) plus uptime

// verifConn: a connection in an arbitrary state.
func verifConn(id int) *subConn {
	c := &subConn{conn: &verifSubConn{id: id}}
	c.lag = verifUint64("lag")
	verifAssume(c.lag <= 1<<40)
	c.inflight = verifInt64("inflight")
	verifAssume(c.inflight >= 0)
	verifAssume(c.inflight <= 1<<20)
	c.success = verifUint64("success")
	verifAssume(c.success <= verifMaxScore)
	c.requests = verifInt64("requests")
	verifAssume(c.requests >= 0)
	verifAssume(c.requests <= 1<<40)
	c.last = verifInt64("last")
	verifAssume(c.last >= 0)
	verifAssume(c.last <= verifMaxTime)
	c.pick = verifInt64("pick")
	verifAssume(c.pick >= 0)
	verifAssume(c.pick <= verifMaxTime)
	return c
}

func verifTime(name string) time.Duration {
	t := verifInt64(name)
	verifAssume(t >= 0)
	verifAssume(t <= verifMaxTime)
	return time.Duration(t)
}
