package p2c

import (
	"math"
	"time"

	"github.com/gotid/god/lib/syncx"
	"google.golang.org/grpc/balancer"
)

// H14c — one completion (the callback buildDoneFunc returns) from an arbitrary
// connection state, at an arbitrary time after the pick.
func Verif_C14_done() {
	cs := verifCase(3 * verifParam("statsCases"))
	outcome := cs % 3 // 0 no error, 1 acceptable error, 2 unacceptable error
	statsDue := cs >= 3 // (thorough tier) the once-a-minute statistics branch runs too
	c, other := verifConn(0), verifConn(1)
	verifLoads = map[*subConn]int64{}
	p := &p2cPicker{conns: []*subConn{c, other}, stamp: syncx.NewAtomicDuration()}

	start := verifTime("start")
	verifClock = start
	done := p.buildDoneFunc(c)
	verifClock = start + verifTime("adv") // non-decreasing time
	now := int64(verifClock)
	if statsDue {
		p.stamp.Set(0) // more than a minute ago whenever now >= 1min: the statistics branch runs too
	} else {
		p.stamp.Set(verifClock)
	}

	olag, oSuccess, inflight0, last0 := c.lag, c.success, c.inflight, c.last
	o := *other

	info := balancer.DoneInfo{}
	if outcome > 0 {
		info.Err, verifAcceptableAnswer = verifErr, outcome == 1
	}
	done(info)

	// the decay weight the statement speaks of: w = exp(-td/decay), td = time since
	// the previous completion, clamped at 0; w = 0 for the first sample.
	// Environment fact about math.Exp (an uninterpreted function in the engine;
	// the same argument gives the same term as in the code): for a non-positive
	// argument the result is in [0,1], and exp(0) = 1. (Stated after the call so
	// that the call's own integer branches are decided without floating point.)
	td := now - last0
	if td < 0 {
		td = 0
		verifReach("td-clamped")
	}
	w := math.Exp(float64(-td) / float64(decayTime))
	verifAssume(w >= 0)
	verifAssume(w <= 1)
	if td == 0 {
		verifAssume(w == 1)
	}
	if olag == 0 {
		w = 0
		verifReach("first-sample")
	}
	lag := now - int64(start)

	verifAssert(c.inflight == inflight0-1, "Done: in-flight -1")
	verifAssert(c.last == now, "Done: records the completion time")
	verifAssert(verifAnd(other.inflight == o.inflight, verifAnd(other.lag == o.lag, verifAnd(other.success == o.success, verifAnd(other.last == o.last, other.pick == o.pick)))),
		"Done: the other connections are untouched")

	// success score
	verifAssert(c.success <= verifMaxScore, "success score stays within [0,1000]")
	if outcome == 2 {
		verifAssert(c.success <= oSuccess, "unacceptable completion: success score moves towards 0")
		if td > 0 {
			// environment fact: exp(x) < 1 for x <= -1e-10 (td >= 1ns). Then the score
			// strictly decreases, so a backend whose calls all fail is unhealthy
			// (score <= 500) after at most 500 completions, whatever their spacing.
			verifAssume(w < 1)
			verifAssert(verifOr(oSuccess == 0, c.success < oSuccess), "unacceptable completion after a positive delay: success score strictly decreases (bounded time to unhealthy)")
			verifReach("strict-decrease")
		}
		verifReach("unacceptable")
	} else {
		// weakly: the uint64 truncation (and one rounding) can hold it in place
		verifAssert(c.success+1 >= oSuccess, "acceptable completion: success score moves towards 1000")
		verifReach("acceptable")
	}

	// latency estimate: the convex combination of the old estimate and the
	// observed latency with weight w (lemma: a convex combination lies between
	// its operands up to one rounding, so the estimate stays between the smallest
	// and largest observed latency)
	verifAssert(lag >= 0, "observed latency is non-negative")
	verifAssert(c.lag == uint64(float64(olag)*w+float64(lag)*(1-w)), "latency estimate = w*old + (1-w)*observed with w = exp(-td/decay), w = 0 on the first sample")
}

// H14e: health tracking with CONCRETE completion spacing, so that the decay
// weight is the real math.Exp value in both worlds (counterexamples replay
// natively): a backend whose calls all fail loses score on every completion —
// strictly, whatever the spacing from 1 µs to 10 s — so it is unhealthy after
// a bounded number of completions; and an acceptable completion never lowers
// the score by more than the truncation unit.
func Verif_C14_health() {
	// the negative gaps: a concurrent completion stamped the connection AFTER this one read the clock
	// (completions run lock-free), so the stored stamp is ahead of this completion's 'now'
	gaps := []time.Duration{time.Microsecond, time.Millisecond, 100 * time.Millisecond, time.Second, 10 * time.Second, -time.Microsecond, -50 * time.Millisecond}
	cs := verifCase(2 * len(gaps))
	gap := gaps[cs/2]
	unacceptable := cs%2 == 1
	c, other := verifConn(0), verifConn(1)
	verifLoads = map[*subConn]int64{}
	p := &p2cPicker{conns: []*subConn{c, other}, stamp: syncx.NewAtomicDuration()}
	// previous completion at a concrete instant, this one `gap` later; not the first sample
	const base = int64(50 * time.Second)
	c.last = base
	verifAssume(c.lag >= 1)
	verifAssume(c.success >= 1)
	verifClock = time.Duration(base)
	done := p.buildDoneFunc(c)
	verifClock = time.Duration(base) + gap
	p.stamp.Set(verifClock)
	oSuccess := c.success
	info := balancer.DoneInfo{}
	if unacceptable {
		info.Err, verifAcceptableAnswer = verifErr, false
	}
	done(info)
	verifAssert(c.success <= verifMaxScore, "success score stays within [0,1000]")
	if unacceptable && gap < 0 {
		verifAssert(c.success <= oSuccess, "an unacceptable completion never raises the success score, also when a concurrent completion's stamp is ahead of it")
		verifReach("health-down-reordered")
	} else if unacceptable {
		verifAssert(c.success < oSuccess, "an unacceptable completion strictly lowers a positive success score (a backend whose calls all fail becomes unhealthy after a bounded number of completions)")
		verifReach("health-down")
	} else {
		verifAssert(c.success+1 >= oSuccess, "an acceptable completion moves the success score towards 1000")
		verifReach("health-up")
	}
}
