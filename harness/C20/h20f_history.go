package format

// H20f: "the result depends on nothing but these inputs" - over a HISTORY of
// calls.  Two calls in one process: the first with any (template, identifier)
// of the shapes below, the second likewise and independently; the second call's
// result must be the reference's result for ITS OWN inputs (H20a's reference),
// and an invalid template is rejected whatever was formatted before it.
// Shapes: template = "go" + sep + "designer" + post, or (invalid) "go" + sep +
// "design" + post, sep of 0..1 and post of 0..1 free ASCII bytes; identifier of
// 0..idLen bytes over [A-Za-z0-9_].  The two calls may be given the same
// template with different identifiers, templates that are prefixes of each
// other, equal inputs, or unrelated ones.
func verifHistoryInput(k string, invalid bool) (tpl, id string, valid bool) {
	word := "designer"
	valid = true
	if invalid {
		word, valid = "design", false
	}
	tpl = "go" + verifString(k+"-sep", 1) + word + verifString(k+"-post", 1)
	id = verifString(k+"-id", verifParam("idLen"))
	verifASCII(tpl)
	verifIdentAlphabet(id)
	return
}

func Verif_C20_history() {
	c := verifCase(4) // which of the two calls has the invalid template
	tpl1, id1, _ := verifHistoryInput("first", c&1 != 0)
	tpl2, id2, _ := verifHistoryInput("second", c&2 != 0)
	_, panicked := verifExpectPanic(func() { FileNamingFormat(tpl1, id1) })
	verifAssert(!panicked, "FileNamingFormat never panics")

	valid := verifValid(tpl2)
	var got string
	var err error
	_, panicked = verifExpectPanic(func() { got, err = FileNamingFormat(tpl2, id2) })
	verifAssert(!panicked, "FileNamingFormat never panics (second call)")
	if panicked {
		return
	}
	verifAssert((err == nil) == valid, "second call: error exactly for an invalid template, whatever was formatted before")
	if err != nil {
		verifReach("second-rejected")
		return
	}
	want, ok := verifReference(tpl2, id2)
	verifAssert(ok && got == want, "second call: the file name is the one its own template and identifier determine, whatever was formatted before")
	if tpl1+id1 == tpl2+id2 && tpl1 != tpl2 {
		verifReach("same-concatenation")
	}
	verifReach("second-formatted")
}
