package format

// Reference model of C20's statement and input helpers shared by the template
// harnesses (H20a, H20c, H20f, H20h).  No stub directive lives here, so a harness
// that must not depend on the implementation's helper functions (H20h) can use
// the reference without the specification stub of h20_format.go.

const (
	verifLowerCase = 1
	verifUpperCase = 2
	verifTitleCase = 3
)

func verifIsUpper(b byte) bool { return b >= 'A' && b <= 'Z' }

// first case-insensitive occurrence of the lower-case word, or -1 (computed
// as a value: no branching on the template bytes)
func verifFindWord(tpl, word string) int {
	idx := -1
	for i := len(tpl) - len(word); i >= 0; i-- {
		m := true
		for j := 0; j < len(word); j++ {
			m = verifAnd(m, verifToLowerNoFork(tpl[i+j]) == word[j])
		}
		idx = verifIte(m, i, idx)
	}
	return idx
}

// casing of a template word (all letters): 0 = mixed
func verifCasing(w string) int {
	allLower, allUpper, restLower := true, true, true
	for i := 0; i < len(w); i++ {
		if verifIsUpper(w[i]) {
			allLower = false
			if i > 0 {
				restLower = false
			}
		} else {
			allUpper = false
		}
	}
	switch {
	case allLower:
		return verifLowerCase
	case allUpper:
		return verifUpperCase
	case verifIsUpper(w[0]) && restLower:
		return verifTitleCase
	}
	return 0
}

func verifWords(id string) []string {
	var words []string
	cur := ""
	for i := 0; i < len(id); i++ {
		c := id[i]
		if c == '_' || verifIsUpper(c) {
			if cur != "" {
				words = append(words, cur)
			}
			cur = ""
			if c == '_' {
				continue
			}
		}
		cur += string([]byte{c})
	}
	if cur != "" {
		words = append(words, cur)
	}
	return words
}

func verifApply(w string, casing int) string {
	out := make([]byte, len(w))
	for i := 0; i < len(w); i++ {
		switch {
		case casing == verifUpperCase, casing == verifTitleCase && i == 0:
			out[i] = verifToUpperNoFork(w[i])
		default:
			out[i] = verifToLowerNoFork(w[i])
		}
	}
	return string(out)
}

func verifReference(tpl, id string) (string, bool) {
	g, d := verifFindWord(tpl, "go"), verifFindWord(tpl, "designer")
	if g < 0 || d < 0 || g > d {
		return "", false
	}
	goCase, deCase := verifCasing(tpl[g:g+2]), verifCasing(tpl[d:d+8])
	if goCase == 0 || deCase == 0 {
		return "", false
	}
	out := tpl[:g]
	for i, w := range verifWords(id) {
		if i == 0 {
			out += verifApply(w, goCase)
		} else {
			out += tpl[g+2:d] + verifApply(w, deCase)
		}
	}
	return out + tpl[d+8:], true
}

// verifValid is the statement's validity condition as one formula (no
// branching on template bytes): some g < d with "go" first occurring at g,
// "designer" first occurring at d, and both words in one of the three casings.
func verifValid(tpl string) bool {
	lower := make([]byte, len(tpl))
	for i := range lower {
		lower[i] = verifToLowerNoFork(tpl[i])
	}
	matchAt := func(word string, i int) bool {
		m := true
		for j := 0; j < len(word); j++ {
			m = verifAnd(m, lower[i+j] == word[j])
		}
		return m
	}
	firstAt := func(word string, i int) bool {
		f := matchAt(word, i)
		for k := 0; k < i; k++ {
			f = verifAnd(f, !matchAt(word, k))
		}
		return f
	}
	casingOK := func(i, n int) bool {
		allLower, allUpper, restLower := true, true, true
		for k := i; k < i+n; k++ {
			up := verifAnd(tpl[k] >= 'A', tpl[k] <= 'Z')
			allLower = verifAnd(allLower, !up)
			allUpper = verifAnd(allUpper, up)
			if k > i {
				restLower = verifAnd(restLower, !up)
			}
		}
		return verifOr(allLower, verifOr(allUpper, restLower)) // restLower: first letter in either case
	}
	valid := false
	for g := 0; g+2 <= len(tpl); g++ {
		for d := g + 2; d+8 <= len(tpl); d++ {
			v := verifAnd(verifAnd(firstAt("go", g), firstAt("designer", d)), verifAnd(casingOK(g, 2), casingOK(d, 8)))
			valid = verifOr(valid, v)
		}
	}
	// 'designer' before 'go' is invalid whatever follows: covered, since firstAt
	// pins the first occurrences and only g < d is enumerated.
	return valid
}

func verifASCII(s string) {
	for i := 0; i < len(s); i++ {
		verifAssume(s[i] < 0x80)
	}
}

func verifIdentAlphabet(s string) {
	for i := 0; i < len(s); i++ {
		c := s[i]
		letter := verifOr(verifAnd(c >= 'a', c <= 'z'), verifAnd(c >= 'A', c <= 'Z'))
		verifAssume(verifOr(letter, verifOr(verifAnd(c >= '0', c <= '9'), c == '_')))
	}
}

func verifToUpperNoFork(b byte) byte {
	return byte(verifIte(verifAnd(b >= 'a', b <= 'z'), int(b)-32, int(b)))
}

func verifToLowerNoFork(b byte) byte {
	return byte(verifIte(verifAnd(b >= 'A', b <= 'Z'), int(b)+32, int(b)))
}

// a template letter: the given lower-case letter in either case
func verifLetter(name string, lower byte) string {
	s := verifStringN(name, 1)
	verifAssume(verifToLowerNoFork(s[0]) == lower)
	return s
}

