package format

// H20a: FileNamingFormat(template, identifier) against a reference written
// from the statement of C20:
//   * the 'go' word is the first case-insensitive occurrence of "go" in the
//     template, the 'designer' word the first occurrence of "designer"; the
//     template is valid iff both exist, 'go' comes first, and each word is
//     written all lower-case, all upper-case, or capitalised;
//   * the identifier's words are the maximal non-empty pieces obtained by
//     splitting at '_' and before every upper-case letter;
//   * result = prefix + join(words cased: first like 'go', others like
//     'designer'; separator = text between the two words) + suffix.
// Everything is ASCII (assumed); identifiers are over [A-Za-z0-9_] where the
// result is compared (for other ASCII bytes the statement does not say what
// "capitalised" does to a word such as "a-b": only "no error, no panic" is asserted).

//verif:stub command-line-arguments.asciiUpper => verifAsciiUpperSpec

// asciiUpper's byte loop forks three ways per symbolic template byte; in the
// template harnesses it is replaced by its specification, built without
// branching. That asciiUpper meets this specification is checked separately
// (Verif_C20_asciiupper, harness H20d), so the composition is sound.
func verifAsciiUpperSpec(s string) string {
	b := make([]byte, len(s))
	for i := 0; i < len(s); i++ {
		c := s[i]
		isLower := verifAnd(c >= 'a', c <= 'z')
		b[i] = byte(verifIte(isLower, int(c)-32, int(c)))
	}
	return string(b)
}

// Verif_C20_format.
// cases 0..maxTpl-9 (mode A): template of free ASCII bytes, lengths: case 0
// covers 0..9, case k>0 length 9+k; identifier of 0..identA bytes.
// The remaining 8 cases (mode B): template pre·G·O·through·D·E·S·I·G·N·E·R·post with
// every word letter in free case and pre/through/post 0..1 free bytes (case =
// which of them are present); identifier of 0..identB bytes over [A-Za-z0-9_]
// (identB+extraB for the shape go·x·designer), or of 0..identWide bytes over all of ASCII.
func Verif_C20_format() {
	maxTpl, identA, identB := verifParam("maxTpl"), verifParam("identA"), verifParam("identB")
	nA := maxTpl - 8
	c := verifCase(nA + 8)
	var tpl, id string
	wide := false
	if c < nA {
		if c == 0 {
			tpl = verifString("tpl", 9)
		} else {
			tpl = verifStringN("tpl", 9+c)
		}
		id = verifString("id", identA)
	} else {
		shape := c - nA
		if shape&1 != 0 {
			tpl += verifStringN("pre", 1)
		}
		tpl += verifLetter("g", 'g') + verifLetter("o", 'o')
		if shape&2 != 0 {
			tpl += verifStringN("through", 1)
		}
		for _, l := range []byte("designer") {
			tpl += verifLetter("d", l)
		}
		if shape&4 != 0 {
			tpl += verifStringN("post", 1)
		}
		wide = verifChoose("alphabet", 2) == 1
		switch {
		case wide:
			id = verifString("id", verifParam("identWide"))
		case shape == 2:
			id = verifString("id", identB+verifParam("extraB"))
		default:
			id = verifString("id", identB)
		}
	}
	verifASCII(tpl)
	verifASCII(id)
	if !wide {
		verifIdentAlphabet(id)
	}
	valid := verifValid(tpl)

	var got string
	var err error
	_, panicked := verifExpectPanic(func() { got, err = FileNamingFormat(tpl, id) })
	verifAssert(!panicked, "FileNamingFormat never panics")
	if panicked {
		return
	}
	verifAssert((err == nil) == valid, "error exactly for templates lacking go..designer in order or in mixed casing")
	if err != nil {
		verifReach("rejected")
		return
	}
	if wide {
		verifReach("wide-alphabet") // any ASCII identifier: formatted without error or panic
		return
	}
	// the path condition now fixes where the words are, their casing and the
	// class of every identifier byte: the step-by-step reference runs without forking
	want, ok := verifReference(tpl, id)
	verifAssert(ok && got == want, "file name = prefix + cased words joined by the text between go and designer + suffix")
	verifReach("formatted")
}

// H20c: templates with non-ASCII text around the (ASCII) words.  The words,
// their casing and the prefix/separator/suffix are found bytewise exactly as
// above (non-ASCII bytes never match a letter), so the statement fixes the
// result.  Concrete templates (the engine's case mapping is exact on concrete
// strings only), symbolic identifier.
var verifUnicodeTemplates = []string{
	"ɐgodesigner",   // U+0250: its upper-case form is one byte longer
	"goɐdesigner",   // the same rune as the separator
	"ıgo_designer",  // U+0131: its upper-case form is one byte shorter
	"go_designer_é", // U+00E9: same length in both cases
}

func Verif_C20_format_unicode() {
	tpl := verifUnicodeTemplates[verifCase(len(verifUnicodeTemplates))]
	id := verifString("id", verifParam("identU"))
	verifASCII(id)
	verifIdentAlphabet(id)
	var got string
	var err error
	_, panicked := verifExpectPanic(func() { got, err = FileNamingFormat(tpl, id) })
	verifAssert(!panicked, "FileNamingFormat never panics")
	if panicked {
		return
	}
	want, ok := verifReference(tpl, id)
	verifAssert((err == nil) == ok, "error exactly for templates lacking go..designer in order or in mixed casing")
	if err != nil {
		return
	}
	verifAssert(got == want, "file name = prefix + cased words joined by the text between go and designer + suffix")
	verifReach("formatted-unicode")
}
