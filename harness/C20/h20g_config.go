package config

// H20g: the generators take their template from config.NewConfig(style) and pass
// cfg.NamingFormat to format.FileNamingFormat.  "The file name is the template's
// prefix + the cased words + the template's suffix, depending on nothing but
// these inputs": the template must reach the formatter VERBATIM - NewConfig
// stores exactly the style it was given (the empty style selects the default
// "godesigner"), and rejects a style that is blank, without altering one that
// merely begins or ends with white space (those bytes are the prefix / suffix of
// the file name).
func verifIsSpace(b byte) bool {
	return b == ' ' || b == '\t' || b == '\n' || b == '\v' || b == '\f' || b == '\r'
}

func Verif_C20_config() {
	var style string
	if verifCase(2) == 0 {
		style = verifString("style", 3) // every ASCII string of 0..3 bytes
	} else {
		style = verifString("pre", 1) + "go_designer" + verifString("post", 1)
	}
	blank := true
	for i := 0; i < len(style); i++ {
		verifAssume(style[i] < 0x80)
		if !verifIsSpace(style[i]) {
			blank = false
		}
	}
	cfg, err := NewConfig(style)
	if len(style) == 0 {
		verifAssert(err == nil && cfg != nil && cfg.NamingFormat == DefaultFormat, "the empty style selects the default template")
		verifReach("default")
		return
	}
	if blank {
		verifAssert(err != nil, "a blank style is rejected")
		verifReach("blank")
		return
	}
	verifAssert(err == nil && cfg != nil, "a non-blank style is accepted")
	if cfg == nil {
		return
	}
	verifAssert(cfg.NamingFormat == style, "the template reaches the formatter verbatim (white space at its ends is part of the file name's prefix / suffix)")
	if verifIsSpace(style[0]) || verifIsSpace(style[len(style)-1]) {
		verifReach("space-at-the-border")
	}
	verifReach("accepted")
}
