package format

// H20e: identifiers with non-ASCII words (concrete examples; symbolic
// non-ASCII text is outside what the string model can encode). The expected
// names are written by hand from the statement: words split at '_' and before
// upper-case letters, first word in the casing of 'go', the others in the
// casing of 'designer', joined by the text between the two template words.
func Verif_C20_unicode_ident() {
	type tc struct{ tpl, id, want string }
	cases := []tc{
		{"Go_designer", "über_cool", "Über_cool"},
		{"GoDesigner", "测试_data", "测试Data"},
		{"go_Designer", "user_écran", "user_Écran"},
		{"GODESIGNER", "über_x", "ÜBERX"},
		{"go-designer", "ÉcranPlat", "écran-plat"},
		{"GoDesigner", "éa_ñb", "ÉaÑb"},
	}
	c := cases[verifCase(6)]
	var got string
	var err error
	_, panicked := verifExpectPanic(func() { got, err = FileNamingFormat(c.tpl, c.id) })
	verifAssert(!panicked, "never panics")
	verifAssert(err == nil, "a template with go then designer is accepted")
	verifAssert(got == c.want, "file name = prefix + cased words joined by the separator + suffix (non-ASCII identifier)")
	verifReach("unicode-ident")
}
