package format

// H20h: templates in which a word is directly preceded by a piece of itself
// ("ggo_designer", "goddesigner", "go_dedesigner", "logGo_Designer") or occurs
// twice.  "For every template containing the words 'go' then 'designer'": the
// words are the FIRST case-insensitive occurrences wherever they sit, also when
// the bytes before them look like the beginning of the same word - whatever
// search the implementation uses must find them.  Templates are concrete strings
// assembled from symbolic choices (so the check does not depend on how the
// implementation scans the template); identifier concrete or 0..2 symbolic bytes.
// Oracle: H20a's reference.
func Verif_C20_overlap() {
	pres := []string{"", "g", "G", "log"}
	seps := []string{"_", "d", "de", "D", "designe", "-de"}
	des := []string{"designer", "DESIGNER", "deSigner"}
	posts := []string{"", "_designer"}
	if verifParam("wide") == 1 {
		pres = []string{"", "g", "G", "gg", "lo", "log"}
		seps = []string{"", "_", "#", "d", "de", "des", "D", "desig", "designe", "-de"}
		des = []string{"designer", "DESIGNER", "Designer", "deSigner"}
		posts = []string{"", "s", "_designer", ".go"}
	}
	pre := pres[verifChoose("beforeGo", len(pres))]
	goW := []string{"go", "GO", "Go", "gO"}[verifChoose("go", 4)]
	sep := seps[verifChoose("between", len(seps))]
	deW := des[verifChoose("designer", len(des))]
	post := posts[verifChoose("after", len(posts))]
	tpl := pre + goW + sep + deW + post
	id := "user_info"
	if verifCase(2) == 1 {
		id = verifString("id", 2)
		verifIdentAlphabet(id)
	}
	want, valid := verifReference(tpl, id)
	var got string
	var err error
	_, panicked := verifExpectPanic(func() { got, err = FileNamingFormat(tpl, id) })
	verifAssert(!panicked, "FileNamingFormat never panics")
	if panicked {
		return
	}
	verifAssert((err == nil) == valid, "error exactly for templates lacking go..designer in order or in mixed casing - also when a word is preceded by a piece of itself")
	if err != nil {
		verifReach("rejected")
		return
	}
	verifAssert(got == want, "file name = prefix + cased words joined by the text between the FIRST go and the FIRST designer + suffix")
	if len(pre) > 0 && (pre[len(pre)-1] == 'g' || pre[len(pre)-1] == 'G') {
		verifReach("g-before-go")
	}
	if len(sep) > 0 && (sep[0] == 'd' || sep[0] == 'D') {
		verifReach("d-before-designer")
	}
	verifReach("formatted")
}
