package stringx

// H20b: String.ToCamel / String.ToSnake.
//
// String.Title calls golang.org/x/text/cases.Title(language.English,
// cases.NoLower) (third party, table driven).  It is replaced by its ASCII
// behaviour: the first letter of every word is upper-cased, nothing else
// changes (a word being a maximal run of letters, digits, '_' and '\'').
// On the strings the round-trip claim is about (runs of a-z) that is
// "upper-case the first letter".

//verif:stub (command-line-arguments.String).Title => verifTitle

func verifTitle(s String) string {
	src := s.source
	out := make([]byte, len(src))
	prevSep := true
	for i := 0; i < len(src); i++ {
		b := src[i]
		lower := verifAnd(b >= 'a', b <= 'z')
		out[i] = byte(verifIte(verifAnd(prevSep, lower), int(b)-32, int(b)))
		inWord := verifOr(verifOr(lower, verifAnd(b >= 'A', b <= 'Z')), verifOr(verifAnd(b >= '0', b <= '9'), verifOr(b == '_', b == '\'')))
		prevSep = !inWord
	}
	return string(out)
}

func Verif_C20_camel_snake() {
	maxWords, maxLen, anyLen := verifParam("maxWords"), verifParam("maxLen"), verifParam("anyLen")
	c := verifCase(maxWords + 1)
	if c < maxWords {
		// round trip: c+1 lower-case words joined by single underscores, at most maxLen bytes
		nw := c + 1
		s := ""
		for w := 0; w < nw; w++ {
			room := maxLen - len(s) - 2*(nw-1-w) // leave "_x" for each remaining word
			if w > 0 {
				s += "_"
				room--
			}
			if room < 1 {
				return
			}
			word := verifStringN("w", 1+verifChoose("wlen", room))
			for i := 0; i < len(word); i++ {
				verifAssume(word[i] >= 'a')
				verifAssume(word[i] <= 'z')
			}
			s += word
		}
		camel := From(s).ToCamel()
		back := From(camel).ToSnake()
		verifAssert(back == s, "ToSnake(ToCamel(s)) == s for lower-case words joined by single underscores")
		verifAssert(len(camel) == len(s)-(nw-1), "camel case drops exactly the underscores")
		verifReach("round-trip")
		return
	}
	// totality: any ASCII string of 0..anyLen bytes
	s := verifString("s", anyLen)
	for i := 0; i < len(s); i++ {
		verifAssume(s[i] < 0x80)
	}
	_, p1 := verifExpectPanic(func() { _ = From(s).ToCamel() })
	verifAssert(!p1, "ToCamel never panics")
	_, p2 := verifExpectPanic(func() { _ = From(s).ToSnake() })
	verifAssert(!p2, "ToSnake never panics")
	verifReach("total")
}
