package format

// H20d: the real asciiUpper (used by FileNamingFormat to locate the words
// without changing byte offsets) equals its specification on every string of
// up to 4 bytes — all byte values, including non-ASCII ones — and on 8 concrete
// longer texts with invalid UTF-8 (case 5), and keeps the
// length. The template harnesses (h20_format.go) replace asciiUpper by this
// same specification to avoid three-way forks per template byte; this harness
// closes that gap. No stub directive in this file: the real function runs.
func Verif_C20_asciiupper() {
	n := verifCase(6)
	var s string
	if n == 5 {
		// concrete texts with bytes that are not valid UTF-8, truncated and complete
		// multi-byte runes: whatever walks the text rune by rune must not re-encode them
		texts := []string{"\xff", "a\xc3b", "\xe5\x89go", "\u00e9z", "\x80\x80z", "[go\xc3designer]", "\xf0\x9f\x98\x80q\xf0\x9f", "z\xed\xa0\x80"}
		s = texts[verifChoose("text", len(texts))]
		verifReach("invalid-utf8")
	} else {
		s = verifStringN("s", n)
	}
	got := asciiUpper(s)
	verifAssert(len(got) == len(s), "asciiUpper keeps every byte offset")
	for i := 0; i < len(s); i++ {
		c := s[i]
		isLower := verifAnd(c >= 'a', c <= 'z')
		want := byte(verifIte(isLower, int(c)-32, int(c)))
		verifAssert(got[i] == want, "asciiUpper upper-cases exactly the ASCII lower-case letters")
	}
	verifReach("upper")
}
