package handler

import (
	"net/http"
	"time"

	"github.com/gotid/god/lib/load"
	"github.com/gotid/god/lib/stat"
)

//verif:stub github.com/gotid/god/lib/timex.Now => verif9Now
//verif:stub github.com/gotid/god/lib/timex.Since => verif9Since

// virtual clock for the real adaptive shedder behind the recorder (case 1)
var verif9Clock time.Duration

func verif9Now() time.Duration                  { return verif9Clock }
func verif9Since(t time.Duration) time.Duration { return verif9Clock - t }

// verif9Shedder: recording load.Shedder, see harness/C09/h09g_shed_interceptor.go.
type verif9Shedder struct {
	real        load.Shedder // nil: admit/reject by symbolic choice
	allows      int
	admitted    int
	rejected    int
	pass, fail  int
	outstanding int // admitted minus reports
	last        *verif9Promise
}

type verif9Promise struct {
	s          *verif9Shedder
	inner      load.Promise
	pass, fail int
}

func (s *verif9Shedder) Allow() (load.Promise, error) {
	s.allows++
	s.last = nil
	var inner load.Promise
	if s.real != nil {
		p, err := s.real.Allow()
		if err != nil {
			s.rejected++
			return nil, err
		}
		inner = p
	} else if verifChoose("admit", 2) == 0 {
		s.rejected++
		return nil, load.ErrServiceOverloaded
	}
	s.admitted++
	s.outstanding++
	s.last = &verif9Promise{s: s, inner: inner}
	return s.last, nil
}

func (p *verif9Promise) Pass() {
	p.pass++
	p.s.pass++
	p.s.outstanding--
	if p.inner != nil {
		p.inner.Pass()
	}
}

func (p *verif9Promise) Fail() {
	p.fail++
	p.s.fail++
	p.s.outstanding--
	if p.inner != nil {
		p.inner.Fail()
	}
}

type verif9RW struct {
	hdr   http.Header
	codes []int
}

func (w *verif9RW) Header() http.Header         { return w.hdr }
func (w *verif9RW) Write(b []byte) (int, error) { return len(b), nil }
func (w *verif9RW) WriteHeader(code int)        { w.codes = append(w.codes, code) }

// H09h: every request admitted by the shedder reports exactly one Pass or
// Fail through SheddingHandler, also when the inner handler panics (the panic
// unwinds through the middleware to the recover handler outside it), so the
// in-flight count is back to zero after the history. A rejected request is
// answered 503 without reaching the inner handler and reports nothing. Fail is
// reported exactly when the inner handler answered 503.
func Verif_C09_shedHandler() {
	sheddingStat = &load.SheddingStat{} // the statistics object without its logging goroutine
	verif9Clock = 1000 * time.Second

	sh := &verif9Shedder{}
	if verifCase(2) == 1 {
		sh.real = load.NewAdaptiveShedder(load.WithBuckets(3), load.WithWindow(3*time.Second))
		verifReach("real-shedder")
	}
	mw := SheddingHandler(sh, stat.NewMetrics("verif"))

	n := verifParam("requests")
	for i := 0; i < n; i++ {
		behaviour := verifChoose("inner", 4) // 0 no WriteHeader, 1 WriteHeader(code), 2 WriteHeader(code) then panic, 3 panic at once
		code := 0
		if behaviour == 1 || behaviour == 2 {
			code = verifInt("code")
			verifAssume(code >= 100)
			verifAssume(code <= 999)
		}
		runs := 0
		inner := http.HandlerFunc(func(w http.ResponseWriter, r *http.Request) {
			runs++
			verifAssert(sh.last != nil && sh.last.pass+sh.last.fail == 0, "the inner handler runs while its request is still in flight")
			verif9Clock += 5 * time.Millisecond
			if behaviour == 1 || behaviour == 2 {
				w.WriteHeader(code)
			}
			if behaviour >= 2 {
				panic("inner handler panicked")
			}
		})
		w := &verif9RW{hdr: http.Header{}}
		r := &http.Request{Method: "GET", RequestURI: "/path", RemoteAddr: "1.2.3.4:5", Header: http.Header{}}
		before := sh.allows
		beforeOut := sh.outstanding
		verifExpectPanic(func() { mw(inner).ServeHTTP(w, r) })

		verifAssert(sh.allows == before+1, "the shedder is asked exactly once per request")
		p := sh.last
		if p == nil {
			verifAssert(runs == 0, "rejected: the inner handler is not run")
			verifAssert(len(w.codes) == 1 && w.codes[0] == http.StatusServiceUnavailable, "rejected: answered 503")
			verifAssert(sh.outstanding == beforeOut, "rejected: nothing is reported")
			verifReach("rejected")
			continue
		}
		verifAssert(runs == 1, "admitted: the inner handler runs once")
		verifAssert(p.pass+p.fail >= 1, "admitted: the request reports Pass or Fail")
		verifAssert(p.pass+p.fail <= 1, "admitted: the request reports only once")
		verifAssert(sh.outstanding == beforeOut, "in-flight count is back to its value before the request")
		switch {
		case behaviour >= 2:
			verifReach("panic")
		case behaviour == 1 && code == http.StatusServiceUnavailable:
			verifAssert(p.fail == 1, "a 503 answer is reported as Fail")
			verifReach("fail")
		default:
			verifAssert(p.pass == 1, "any other answer is reported as Pass")
			verifReach("pass")
		}
		if sh.real != nil {
			verif9Clock += time.Duration(verifChoose("gap", 2)) * time.Second
		}
	}
	verifAssert(sh.pass+sh.fail == sh.admitted, "Pass+Fail equals the number of admitted requests")
	verifAssert(sh.admitted+sh.rejected == n, "every request was admitted or rejected")
	verifAssert(sh.outstanding == 0, "in-flight count is zero once every admitted request has reported")
}
