package serverinterceptors

import (
	"context"
	"errors"
	"time"

	"github.com/gotid/god/lib/load"
	"github.com/gotid/god/lib/stat"
	"google.golang.org/grpc"
	gcodes "google.golang.org/grpc/codes"
	"google.golang.org/grpc/status"
)

//verif:stub github.com/gotid/god/lib/timex.Now => verif9Now
//verif:stub github.com/gotid/god/lib/timex.Since => verif9Since

// virtual clock for the real adaptive shedder behind the recorder (mode "real")
var verif9Clock time.Duration

func verif9Now() time.Duration                  { return verif9Clock }
func verif9Since(t time.Duration) time.Duration { return verif9Clock - t }

// verif9Shedder is a recording load.Shedder. In mode "fake" it admits or
// rejects by symbolic choice; in mode "real" it asks a real
// load.NewAdaptiveShedder and forwards every Pass/Fail to the real promise,
// so the real shedder's in-flight count is the recorder's `outstanding`
// (H09c/H09d: +1 per admitted Allow, -1 per Pass or Fail).
type verif9Shedder struct {
	real        load.Shedder // nil in mode "fake"
	allows      int
	admitted    int
	rejected    int
	pass, fail  int
	outstanding int // admitted minus reports
	last        *verif9Promise
}

type verif9Promise struct {
	s          *verif9Shedder
	inner      load.Promise
	pass, fail int
}

func (s *verif9Shedder) Allow() (load.Promise, error) {
	s.allows++
	s.last = nil
	var inner load.Promise
	if s.real != nil {
		p, err := s.real.Allow()
		if err != nil {
			s.rejected++
			return nil, err
		}
		inner = p
	} else if verifChoose("admit", 2) == 0 {
		s.rejected++
		return nil, load.ErrServiceOverloaded
	}
	s.admitted++
	s.outstanding++
	s.last = &verif9Promise{s: s, inner: inner}
	return s.last, nil
}

func (p *verif9Promise) Pass() {
	p.pass++
	p.s.pass++
	p.s.outstanding--
	if p.inner != nil {
		p.inner.Pass()
	}
}

func (p *verif9Promise) Fail() {
	p.fail++
	p.s.fail++
	p.s.outstanding--
	if p.inner != nil {
		p.inner.Fail()
	}
}

var verif9ErrOther = errors.New("handler failed")

// H09g: every request admitted by the shedder reports exactly one Pass or
// Fail through the unary shedding interceptor - also when the handler panics
// and the panic unwinds through the interceptor into the crash interceptor
// that sits outside it (rpc/internal/server.go) - so the in-flight count is
// back to zero after the history. A rejected request never reaches the
// handler and reports nothing. Fail is reported exactly when the handler
// returned context.DeadlineExceeded itself.
func Verif_C09_shedInterceptor() {
	// the package's statistics object without its once-a-minute logging goroutine
	sheddingStat = &load.SheddingStat{}
	verif9Clock = 1000 * time.Second

	sh := &verif9Shedder{}
	if verifCase(2) == 1 {
		sh.real = load.NewAdaptiveShedder(load.WithBuckets(3), load.WithWindow(3*time.Second))
		verifReach("real-shedder")
	}
	shed := UnarySheddingInterceptor(sh, stat.NewMetrics("verif"))
	info := &grpc.UnaryServerInfo{FullMethod: "/svc/Method"}

	n := verifParam("requests")
	for i := 0; i < n; i++ {
		outcome := verifChoose("outcome", 5)
		runs := 0
		var handlerErr error
		switch outcome {
		case 1:
			handlerErr = context.DeadlineExceeded
		case 2:
			handlerErr = verif9ErrOther
		case 3:
			handlerErr = status.Error(gcodes.DeadlineExceeded, "deadline")
		}
		handler := func(ctx context.Context, req interface{}) (interface{}, error) {
			runs++
			verifAssert(sh.last != nil && sh.last.pass+sh.last.fail == 0, "the handler runs while its request is still in flight")
			verif9Clock += 5 * time.Millisecond
			if outcome == 4 {
				panic("handler panicked")
			}
			return "resp", handlerErr
		}
		before := sh.allows
		beforeOut := sh.outstanding
		// the real chain: crash interceptor outside, shedding interceptor inside
		_, err := UnaryCrashInterceptor(context.Background(), "req", info,
			func(ctx context.Context, req interface{}) (interface{}, error) {
				return shed(ctx, req, info, handler)
			})
		verifAssert(sh.allows == before+1, "the shedder is asked exactly once per request")
		p := sh.last
		if p == nil {
			verifAssert(runs == 0, "rejected: the handler is not run")
			verifAssert(err == load.ErrServiceOverloaded, "rejected: the shedder's error is returned")
			verifAssert(sh.outstanding == beforeOut, "rejected: nothing is reported")
			verifReach("rejected")
			continue
		}
		verifAssert(runs == 1, "admitted: the handler runs once")
		verifAssert(p.pass+p.fail >= 1, "admitted: the request reports Pass or Fail")
		verifAssert(p.pass+p.fail <= 1, "admitted: the request reports only once")
		verifAssert(sh.outstanding == beforeOut, "in-flight count is back to its value before the request")
		switch outcome {
		case 4:
			verifReach("panic")
		case 1:
			verifAssert(p.fail == 1, "context.DeadlineExceeded is reported as Fail")
			verifReach("fail")
		default:
			verifAssert(p.pass == 1, "any other completed call is reported as Pass")
			verifReach("pass")
		}
		if sh.real != nil {
			verif9Clock += time.Duration(verifChoose("gap", 2)) * time.Second
		}
	}
	verifAssert(sh.pass+sh.fail == sh.admitted, "Pass+Fail equals the number of admitted requests")
	verifAssert(sh.admitted+sh.rejected == n, "every request was admitted or rejected")
	verifAssert(sh.outstanding == 0, "in-flight count is zero once every admitted request has reported")
}
