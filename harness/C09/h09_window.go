package collection

import "time"

//verif:stub github.com/gotid/god/lib/timex.Now => verifNow
//verif:stub github.com/gotid/god/lib/timex.Since => verifSince

// virtual clock: every reading of timex.Now/Since in the code under test sees it.
var verifClock time.Duration

func verifNow() time.Duration                  { return verifClock }
func verifSince(t time.Duration) time.Duration { return verifClock - t }

// H09a: bounded histories of Add/Reduce separated by arbitrary time advances.
// Oracle (the statement's "last `size` bucket intervals, bucket-aligned"):
// with E(t) = floor((t - tCreate)/interval), an add at ta is visible to a
// reduction at T iff E(ta) > E(T) - size, and additionally E(ta) < E(T) when
// the current bucket is ignored.
// Add number j carries the value 2^j, so Sum identifies the exact set of adds seen.
func Verif_C09_window() {
	// case = (size-1, ignoreCurrent, first op) so that the fan-out uses the cores
	c := verifCase(verifParam("maxSize") * 4)
	size := c/4 + 1
	ignore := c%2 == 1
	firstOp := (c / 2) % 2
	I := time.Duration(verifParam("interval"))
	t0 := time.Duration(verifInt64("t0"))
	verifAssume(t0 >= 0)
	verifAssume(t0 <= 1000)
	verifClock = t0
	var rw *RollingWindow
	if ignore {
		rw = NewRollingWindow(size, I, IgnoreCurrentBucket())
	} else {
		rw = NewRollingWindow(size, I)
	}
	ops := verifParam("ops")
	var addT []time.Duration
	for i := 0; i < ops; i++ {
		adv := time.Duration(verifInt64("adv"))
		verifAssume(adv >= 0)
		verifAssume(adv <= time.Duration(size+2)*I)
		verifClock += adv
		op := firstOp
		if i > 0 {
			op = verifChoose("op", 2)
		}
		if op == 0 {
			rw.Add(float64(int64(1) << uint(len(addT))))
			addT = append(addT, verifClock)
			continue
		}
		var sum float64
		var cnt int64
		rw.Reduce(func(b *Bucket) {
			sum += b.Sum
			cnt += b.Count
		})
		eT := int((verifClock - t0) / I)
		wantMask, wantCnt := 0, 0
		for j, ta := range addT {
			ea := int((ta - t0) / I)
			vis := ea > eT-size
			if ignore {
				vis = verifAnd(vis, ea < eT)
			}
			wantMask += verifIte(vis, 1<<uint(j), 0)
			wantCnt += verifIte(vis, 1, 0)
		}
		verifAssert(int(cnt) == wantCnt, "reduce: Count equals the number of adds in the last size bucket intervals")
		verifAssert(int(sum) == wantMask, "reduce: Sum covers exactly the adds in the last size bucket intervals")
		verifReach("reduced")
	}
}
