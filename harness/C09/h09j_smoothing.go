package load

import "time"

// H09j: the smoothed in-flight count follows EVERY completion.  "Rejects under
// overload only when both the current and the smoothed number of in-flight
// requests exceed the capacity": the smoothed number must describe the recent
// in-flight history whatever the requests' outcomes were.  A burst of n requests
// is admitted while calm and completes in three phases, each phase reporting Pass
// or Fail (symbolic choice per phase); after every completion the smoothed count
// has moved from its old value towards the current count (never past it, never
// away), and once all have completed it has come down with them: after n
// completions from a start value a it is at most a*beta^n + (what the falling
// current counts contribute) - checked as "strictly below its value after the
// burst was admitted"; a cool-down of 60 single requests follows.  Then an overload
// arrives with the current in-flight count above the capacity but the smoothed
// count below it: the request must be admitted.  Concrete sizes (the float
// product with symbolic operands does not decide within the quick cap, see H09c
// where the drop predicate is decided for arbitrary values); outcomes symbolic.
func Verif_C09_smoothing() {
	overloaded := false
	old := systemOverloadChecker
	systemOverloadChecker = func(int64) bool { return overloaded }
	defer func() { systemOverloadChecker = old }()
	verifUseMaxF = true
	verifMaxF = 10
	verifClock = 1000 * time.Second
	n := []int{3, 40, 120}[verifCase(3)]
	as := NewAdaptiveShedder(WithBuckets(3), WithWindow(3*time.Second)).(*adaptiveShedder)
	as.avgFlying = float64([]int{0, 74, 200}[verifChoose("startAverage", 3)])

	ps := make([]Promise, 0, n)
	for i := 0; i < n; i++ {
		p, err := as.Allow()
		verifAssert(err == nil, "admitted while not overloaded")
		if err != nil {
			return
		}
		ps = append(ps, p)
	}
	start := as.avgFlying
	outcome := [3]bool{verifBool("phase1Pass"), verifBool("phase2Pass"), verifBool("phase3Pass")}
	fails := 0
	for i, p := range ps {
		before := as.avgFlying
		if outcome[3*i/n] {
			p.Pass()
		} else {
			p.Fail()
			fails++
		}
		f := float64(as.flying)
		na := as.avgFlying
		d0, d1 := before-f, na-f
		if d0 < 0 {
			d0 = -d0
		}
		if d1 < 0 {
			d1 = -d1
		}
		verifAssert(d1 <= d0, "a completion never moves the smoothed in-flight count away from the current count")
		verifAssert((na >= f) == (before >= f) || na == f, "a completion never moves the smoothed in-flight count past the current count")
		if d0 >= 1 {
			verifAssert(d1 < d0, "every completion, passed or failed, moves the smoothed in-flight count towards the current count")
		}
		// "smoothed": the history outweighs the newest sample - one completion moves the count at
		// most half of the way to the current count (the code documents a history weight of 0.9),
		// so a short burst is absorbed instead of being followed at once
		step := na - before
		if step < 0 {
			step = -step
		}
		verifAssert(step <= d1, "smoothed: a single completion moves the in-flight average at most half of the way to the current count")
	}
	verifAssert(as.flying == 0, "in-flight is back to zero once every admitted request has reported")
	if start >= 1 {
		verifAssert(as.avgFlying < start, "the smoothed count has come down with the completions")
	}
	// cool-down: 60 single requests, each completing with the last phase's outcome
	for i := 0; i < 60; i++ {
		p, err := as.Allow()
		verifAssert(err == nil, "admitted while not overloaded")
		if err != nil {
			return
		}
		before := as.avgFlying
		if outcome[2] {
			p.Pass()
		} else {
			p.Fail()
		}
		verifAssert(as.avgFlying <= before, "with nothing else in flight a completion does not raise the smoothed count")
		if before >= 1 {
			verifAssert(as.avgFlying < before, "with nothing else in flight every completion, passed or failed, lowers the smoothed count")
		}
	}
	if fails == n {
		verifReach("all-failed")
	}
	if fails > 0 && fails < n {
		verifReach("mixed-outcomes")
	}

	// overload now, current in-flight just above the capacity, smoothed count below it
	if as.avgFlying >= float64(verifMaxF) {
		return
	}
	for i := 0; i < int(verifMaxF)+1; i++ {
		p, err := as.Allow()
		verifAssert(err == nil, "admitted while not overloaded")
		if err != nil {
			return
		}
		_ = p
	}
	overloaded = true
	_, err := as.Allow()
	verifAssert(err == nil, "under overload a request is admitted while the smoothed in-flight count is within the capacity, even if the current count exceeds it")
	verifReach("overload-admitted")
}
