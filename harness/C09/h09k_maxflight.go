package load

import "time"

// H09k: the capacity estimate itself.  The other shedder harnesses replace
// maxFlight (by an arbitrary value for the drop predicate, by the formula for
// the window reductions), so the real function ran nowhere.  Here the real
// maxFlight runs on a real shedder (10 buckets of 100 ms: 10 buckets per
// second) whose window holds one complete bucket of P passes with an average
// latency of L ms: "the capacity estimated from the window (max passes per
// bucket x buckets per second x min average latency)" is P*10*L/1000, at
// least 1 - for peak rates below, at and above 1000 requests per second and
// not only multiples of it.  Concrete P and L (float kernel with symbolic
// operands does not decide within the quick cap, see H09d).

//verif:stub github.com/gotid/god/lib/timex.Now => verifKNow
//verif:stub github.com/gotid/god/lib/timex.Since => verifKSince

var verifKClock time.Duration

func verifKNow() time.Duration                  { return verifKClock }
func verifKSince(t time.Duration) time.Duration { return verifKClock - t }

func Verif_C09_maxflight() {
	verifKClock = 1000 * time.Second
	as := NewAdaptiveShedder(WithBuckets(10), WithWindow(time.Second)).(*adaptiveShedder)
	verifAssert(as.windows == 10, "ten buckets per second")
	empty := as.maxFlight() // the estimate of an empty window (built from the defaults; not claimed here)
	verifAssert(empty >= 1, "the capacity estimate is at least 1")
	ps := []int64{1, 3, 30, 99, 100, 250}
	ls := []int64{7, 100, 999}
	c := verifCase(len(ps) * len(ls))
	P, L := ps[c/len(ls)], ls[c%len(ls)]
	for i := int64(0); i < P; i++ {
		as.passCounter.Add(1)
		as.rtCounter.Add(float64(L))
	}
	verifAssert(as.maxFlight() == empty, "the bucket still being filled does not count")
	verifKClock += 100 * time.Millisecond // the bucket is complete
	got := as.maxFlight()
	// P*10*L/1000 = P*L/100, at least 1; one unit of rounding either way is not claimed
	num := P * L // capacity * 100
	verifAssert(got >= 1, "the capacity estimate is at least 1")
	verifAssert(got*100 > num-100 || (num < 100 && got == 1), "capacity >= max passes per bucket x buckets per second x min average latency (down to rounding)")
	verifAssert(got*100 < num+100 || (num < 100 && got == 1), "capacity <= max passes per bucket x buckets per second x min average latency (up to rounding)")
	if P*10 < 1000 && num >= 200 {
		verifReach("peak-below-1000-per-second")
	}
	verifReach("capacity-formula")
}
