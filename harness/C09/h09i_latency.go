package load

import (
	"time"

	"github.com/gotid/god/lib/collection"
)

// H09i: the latency an admitted request contributes to the capacity estimate.
// "capacity = max passes per bucket x buckets per second x min average latency":
// the latency recorded by Pass must never UNDERSTATE the request's latency (that
// would shrink the estimated capacity and reject under overload although the
// in-flight numbers do not exceed the real capacity) and overstates it by less
// than the 1 ms granularity the window works in - for every latency, also
// sub-millisecond and fractional ones.  Uses the clock stubs of h09_shedder.go.
func Verif_C09_latency() {
	old := systemOverloadChecker
	systemOverloadChecker = func(int64) bool { return false }
	defer func() { systemOverloadChecker = old }()
	verifUseMaxF = false
	verifClock = 1000 * time.Second
	as := NewAdaptiveShedder(WithBuckets(3), WithWindow(3*time.Second)).(*adaptiveShedder)
	p, err := as.Allow()
	verifAssert(err == nil, "admitted while not overloaded")
	// latency ranges in microseconds, one per worker (the float query is slow)
	ranges := [][2]int64{{0, 1000}, {1000, 2000}, {2000, 3000}, {3000, 10000}, {10000, 100000}, {100000, 1000000}, {1000000, 2500000}}
	r := ranges[verifCase(verifParam("ranges"))]
	lat := verifInt64("latencyNs")
	verifAssume(lat >= r[0]*1000)
	verifAssume(lat <= r[1]*1000)
	verifClock += time.Duration(lat)
	p.Pass()
	var sum float64
	var cnt int64
	as.rtCounter.Reduce(func(b *collection.Bucket) {
		sum += b.Sum
		cnt += b.Count
	})
	if cnt == 0 { // the latency moved the clock into the next bucket: look at it from there
		verifClock += time.Second
		as.rtCounter.Reduce(func(b *collection.Bucket) {
			sum += b.Sum
			cnt += b.Count
		})
	}
	verifAssert(cnt == 1, "one pass records one latency sample")
	ms := int64(sum)
	verifAssert(float64(ms) == sum && ms >= 0, "the recorded latency is a whole number of milliseconds")
	verifAssert(ms*int64(time.Millisecond) >= lat, "the recorded latency never understates the request's latency")
	verifAssert((ms-1)*int64(time.Millisecond) < lat, "the recorded latency overstates by less than one millisecond")
	if lat > 0 && lat < int64(time.Millisecond) {
		verifReach("sub-millisecond")
	}
	if lat%int64(time.Millisecond) == 0 {
		verifReach("whole-milliseconds")
	}
	verifAssert(as.flying == 0, "in-flight is back to zero")
}
