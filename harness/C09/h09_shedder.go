package load

import (
	"time"

	"github.com/gotid/god/lib/syncx"
)

//verif:stub github.com/gotid/god/lib/timex.Now => verifNow
//verif:stub github.com/gotid/god/lib/timex.Since => verifSince
//verif:stub (*github.com/gotid/god/lib/load.adaptiveShedder).maxFlight => verifMaxFlight

var (
	verifClock  time.Duration
	verifMaxF   int64
	verifUseMaxF bool
)

func verifNow() time.Duration                  { return verifClock }
func verifSince(t time.Duration) time.Duration { return verifClock - t }

// capacity estimate: an arbitrary value >= 1 for the drop-predicate harness,
// the real computation for the capacity harness.
func verifMaxFlight(as *adaptiveShedder) int64 {
	if verifUseMaxF {
		return verifMaxF
	}
	return verifRealMaxFlight(as)
}

func verifRealMaxFlight(as *adaptiveShedder) int64 {
	mp, rt := as.maxPass(), as.minRt()
	v := float64(mp*as.windows) * (rt / 1e3)
	if v < 1 {
		v = 1
	}
	return int64(v)
}

// H09c: the drop predicate from an arbitrary shedder state.
func Verif_C09_drop() {
	overloaded := verifBool("cpuOverloaded")
	old := systemOverloadChecker
	systemOverloadChecker = func(int64) bool { return overloaded }
	defer func() { systemOverloadChecker = old }()

	now := time.Duration(verifInt64("now"))
	verifAssume(now >= 0)
	verifAssume(now <= 100*time.Second)
	verifClock = now
	ot := time.Duration(verifInt64("overloadTime")) // 0 = never overloaded
	verifAssume(ot >= 0)
	verifAssume(ot <= now)
	dropped := verifBool("droppedRecently")
	flying := verifInt64("flying")
	verifAssume(flying >= 0)
	verifAssume(flying <= 1<<20)
	avg := verifFloat64("avgFlying")
	verifAssume(avg >= 0)
	verifAssume(avg <= 1<<20)
	verifMaxF = verifInt64("maxFlight")
	verifAssume(verifMaxF >= 1)
	verifAssume(verifMaxF <= 1<<20)
	verifUseMaxF = true

	as := NewAdaptiveShedder(WithBuckets(2), WithWindow(2*time.Second)).(*adaptiveShedder)
	as.flying = flying
	as.avgFlying = avg
	as.overloadTime = syncx.ForAtomicDuration(ot)
	as.droppedRecently = syncx.ForAtomicBool(dropped)

	p, err := as.Allow()
	rejected := err != nil
	if rejected {
		verifAssert(err == ErrServiceOverloaded && p == nil, "rejection is ErrServiceOverloaded without a promise")
		verifAssert(int64(avg) > verifMaxF, "rejected only when the smoothed in-flight count exceeds the capacity estimate")
		verifAssert(flying > verifMaxF, "rejected only when the current in-flight count exceeds the capacity estimate")
		verifAssert(overloaded || (ot != 0 && now-ot < time.Second), "rejected only under CPU overload or within one second of one")
		verifAssert(as.flying == flying, "a rejected request is not counted as in flight")
		verifReach("rejected")
		return
	}
	verifAssert(p != nil, "an admitted request gets a promise")
	verifAssert(as.flying == flying+1, "an admitted request is counted as in flight")
	verifReach("admitted")
	// completion returns the in-flight count and moves the average only now
	if verifChoose("outcome", 2) == 0 {
		p.Pass()
	} else {
		p.Fail()
	}
	verifAssert(as.flying == flying, "in-flight count returns to its start once the request reports Pass or Fail")
}

// never rejected while CPU is below the threshold and no overload was seen
// during the last second (separate harness so that the precondition is an
// assumption, not a branch).
func Verif_C09_calm() {
	old := systemOverloadChecker
	systemOverloadChecker = func(int64) bool { return false }
	defer func() { systemOverloadChecker = old }()
	now := time.Duration(verifInt64("now"))
	verifAssume(now >= 0)
	verifAssume(now <= 100*time.Second)
	verifClock = now
	ot := time.Duration(verifInt64("overloadTime"))
	verifAssume(ot >= 0)
	verifAssume(ot <= now)
	verifAssume(verifOr(ot == 0, now-ot >= time.Second))
	flying := verifInt64("flying")
	verifAssume(flying >= 0)
	verifAssume(flying <= 1<<20)
	avg := verifFloat64("avgFlying")
	verifAssume(avg >= 0)
	verifAssume(avg <= 1<<20)
	verifMaxF = verifInt64("maxFlight")
	verifAssume(verifMaxF >= 1)
	verifAssume(verifMaxF <= 1<<20)
	verifUseMaxF = true
	as := NewAdaptiveShedder(WithBuckets(2), WithWindow(2*time.Second)).(*adaptiveShedder)
	as.flying = flying
	as.avgFlying = avg
	as.overloadTime = syncx.ForAtomicDuration(ot)
	as.droppedRecently = syncx.ForAtomicBool(verifBool("droppedRecently"))
	_, err := as.Allow()
	verifAssert(err == nil, "never rejects while CPU is below the threshold and no overload was observed during the last second")
	verifReach("calm")
}

// H09d: in-flight conservation over a bounded trace, and the capacity terms
// maxPass / minRt against the definition, with the real rolling windows under
// the virtual clock (3 buckets of 1 s).
func Verif_C09_capacity() {
	old := systemOverloadChecker
	systemOverloadChecker = func(int64) bool { return false }
	defer func() { systemOverloadChecker = old }()
	verifUseMaxF = false
	verifClock = 1000 * time.Second
	as := NewAdaptiveShedder(WithBuckets(3), WithWindow(3*time.Second)).(*adaptiveShedder)
	verifAssert(as.windows == 1, "one bucket per second")
	n := verifParam("requests")
	// per-bucket reference: passes and latency sums of completed buckets
	type bucket struct {
		pass  int64
		rtSum int64
		cnt   int64
	}
	var hist []bucket // hist[e] = bucket of epoch e (seconds since creation)
	cur := 0
	hist = append(hist, bucket{})
	outstanding := 0
	for i := 0; i < n; i++ {
		if verifChoose("nextSecond", 2) == 1 {
			verifClock += time.Second
			cur++
			hist = append(hist, bucket{})
		}
		p, err := as.Allow()
		verifAssert(err == nil, "admitted while not overloaded")
		outstanding++
		// latencies are chosen from a small concrete set: the float division in
		// minRt with symbolic operands does not decide within the quick cap
		lat := []int64{1, 7, 999, 1500}[verifChoose("latency", 4)]
		start := verifClock
		verifClock += time.Duration(lat) * time.Millisecond
		for int((verifClock-1000*time.Second)/time.Second) > cur {
			cur++
			hist = append(hist, bucket{})
		}
		if verifChoose("pass", 2) == 1 {
			p.Pass()
			hist[cur].pass++
			hist[cur].rtSum += lat
			hist[cur].cnt++
		} else {
			p.Fail()
		}
		_ = start
		outstanding--
		verifAssert(as.flying == int64(outstanding), "in-flight equals admitted minus completed")
	}
	// compare twice: while the bucket written last is still the current one (it
	// must not count: the window "ignores the current bucket" for passes AND for
	// latencies), and again from a fresh second, when every written bucket is complete
	compare := func(when string) {
		wantMax := int64(1)
		wantMinRt := int64(1000)
		for e := cur - 2; e < cur; e++ { // the last size-1 = 2 complete buckets (current one ignored)
			if e < 0 || e >= len(hist) {
				continue
			}
			b := hist[e]
			if b.pass > wantMax {
				wantMax = b.pass
			}
			if b.cnt > 0 {
				avg := (2*b.rtSum + b.cnt) / (2 * b.cnt) // round half up of rtSum/cnt (non-negative)
				if avg < wantMinRt {
					wantMinRt = avg
				}
			}
		}
		verifAssert(as.maxPass() == int64(wantMax), "maxPass is max(1, largest pass count of a complete bucket in the window) "+when)
		rt := as.minRt()
		verifAssert(rt == float64(wantMinRt), "minRt is min(1000, smallest rounded average latency of a non-empty complete bucket in the window) "+when)
	}
	compare("(current bucket still filling)")
	if hist[cur].cnt > 0 {
		verifReach("current-bucket-nonempty")
	}
	verifClock += time.Second
	cur++
	hist = append(hist, bucket{})
	compare("(all written buckets complete)")
	verifAssert(as.flying == 0, "in-flight count is zero once every admitted request has reported")
	verifReach("capacity")
}

// H09f: a trace of 3 arrivals with symbolic CPU verdicts and symbolic
// non-decreasing times, starting from a fresh shedder whose in-flight numbers
// stay above the capacity estimate (so the drop predicate is never masked).
// The harness itself remembers when an overload was last OBSERVED: a request
// arriving while CPU is below the threshold and more than one second after
// that observation must be admitted, whatever was dropped in between.
func Verif_C09_trace() {
	verifUseMaxF = true
	verifMaxF = 1
	verdict := false
	old := systemOverloadChecker
	systemOverloadChecker = func(int64) bool { return verdict }
	defer func() { systemOverloadChecker = old }()
	verifClock = time.Duration(verifInt64("t0"))
	verifAssume(verifClock >= time.Second)
	verifAssume(verifClock <= 10*time.Second)
	as := NewAdaptiveShedder(WithBuckets(2), WithWindow(2*time.Second)).(*adaptiveShedder)
	as.flying = 100
	as.avgFlying = 100
	lastObs := time.Duration(0) // 0 = no overload observed yet
	n := verifParam("arrivals")
	for i := 0; i < n; i++ {
		adv := time.Duration(verifInt64("adv"))
		verifAssume(adv >= 0)
		verifAssume(adv <= 3*time.Second)
		verifClock += adv
		verdict = verifBool("overloaded")
		if verdict {
			lastObs = verifClock
		}
		calm := !verdict && (lastObs == 0 || verifClock-lastObs >= time.Second)
		_, err := as.Allow()
		if calm {
			verifAssert(err == nil, "never rejects while CPU is below the threshold and no overload was observed during the last second (trace)")
			verifReach("calm-admitted")
		}
		if err != nil {
			verifAssert(verdict || (lastObs != 0 && verifClock-lastObs < time.Second), "rejects only under overload or within one second of an observed overload (trace)")
			verifReach("trace-rejected")
		} else {
			as.flying = 100 // keep the in-flight numbers above capacity for the next arrival
		}
	}
}
