package handler

import (
	"net/http"
	"net/url"

	"github.com/golang-jwt/jwt/v4"
	"github.com/gotid/god/lib/mathx"
)

// randomness is environment: a jitter source, should the gate ever use one, draws nothing
//verif:stub github.com/gotid/god/lib/mathx.NewUnstable => verifGateUnstable

func verifGateUnstable(deviation float64) mathx.Unstable { return mathx.Unstable{} }

// H04i: the JWT gate decides EVERY request on that request's own token verdict.
// Two (thorough three) requests carrying the byte-identical Authorization header
// pass through ONE Authorize middleware; between them the parser's verdict
// changes in every way (a token that verified a moment ago is expired, revoked
// by a secret rotation, or not yet valid now; or the other way round).  "A
// handler behind the JWT gate runs iff the request's token parses under a
// configured secret and is valid" - now, for this request: an earlier admission
// or rejection of the same header must not decide a later request.  Uses the
// parser stub and the recording connection of h04_gates.go.
func Verif_C04_jwtgate_repeat() {
	n := verifParam("requests")
	sameHeader := verifBool("sameHeader")
	ran := 0
	next := http.HandlerFunc(func(hw http.ResponseWriter, hr *http.Request) {
		ran++
		hw.WriteHeader(http.StatusNoContent)
	})
	h := Authorize("new-secret")(next)
	prevAdmit := false
	for i := 0; i < n; i++ {
		parseOK := verifBool("parseOK")
		valid := verifBool("tokenValid")
		verifParseErr, verifTok = nil, nil
		if !parseOK {
			verifParseErr = verifErrParse
		} else {
			verifTok = &jwt.Token{Valid: valid, Claims: jwt.MapClaims{"uid": 7}}
		}
		hdr := "Bearer aaaa.bbbb.cccc"
		if !sameHeader && i > 0 {
			hdr = "Bearer aaaa.bbbb.dddd"
		}
		w := &verifGateRW{hdr: http.Header{}}
		req := &http.Request{Method: "GET", Header: http.Header{"Authorization": []string{hdr}}, URL: &url.URL{Path: "/"}}
		calls, before := verifParseCalls, ran
		h.ServeHTTP(w, req)

		admit := verifAnd(parseOK, valid)
		verifAssert(verifParseCalls == calls+1, "jwt: every request's token is parsed, also when the same header was seen before")
		verifAssert((ran == before+1) == admit, "jwt: handler runs iff THIS request's token parses under a configured secret and is valid (an earlier verdict on the same header does not count)")
		verifAssert(ran <= before+1, "jwt: handler runs at most once per request")
		if admit {
			verifAssert(len(w.codes) == 1 && w.codes[0] == http.StatusNoContent, "jwt: admitted request gets the handler's response")
		} else {
			verifAssert(len(w.codes) == 1 && w.codes[0] == http.StatusUnauthorized, "jwt: a rejected request gets exactly one 401")
		}
		if i > 0 && sameHeader {
			if prevAdmit && !admit {
				verifReach("admitted-then-rejected")
			}
			if !prevAdmit && admit {
				verifReach("rejected-then-admitted")
			}
		}
		prevAdmit = admit
	}
}
