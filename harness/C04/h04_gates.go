package handler

import (
	"errors"
	"net/http"
	"net/url"
	"time"

	"github.com/golang-jwt/jwt/v4"
	"github.com/gotid/god/api/httpx"
	"github.com/gotid/god/api/internal/security"
	"github.com/gotid/god/api/token"
	"github.com/gotid/god/lib/codec"
)

//verif:stub (*github.com/gotid/god/api/token.Parser).ParseToken => verifParseToken
//verif:stub github.com/gotid/god/lib/timex.Now => verifGateNow
//verif:stub github.com/gotid/god/api/internal/security.ParseContentSecurity => verifParseCS
//verif:stub github.com/gotid/god/api/internal/security.VerifySignature => verifVerifySig

// recording client connection (same model as harness/C02)
type verifGateRW struct {
	hdr   http.Header
	codes []int
	body  []byte
}

func (w *verifGateRW) Header() http.Header  { return w.hdr }
func (w *verifGateRW) WriteHeader(code int) { w.codes = append(w.codes, code) }
func (w *verifGateRW) Write(p []byte) (int, error) {
	if len(w.codes) == 0 {
		w.codes = append(w.codes, http.StatusOK)
	}
	w.body = append(w.body, p...)
	return len(p), nil
}

func verifGateNow() time.Duration { return 0 }

// ---- H04b: the JWT gate ----
// The token parser (H04a) is replaced by its verdict: parse error, or a token
// with a symbolic Valid flag and either MapClaims of <= 2 (thorough 3) entries
// drawn from registered and custom names, or claims of another type.

var (
	verifParseErr               error
	verifTok                    *jwt.Token
	verifParseCalls             int
	verifGotSecret, verifGotPrv string
	verifErrParse               = errors.New("signature is invalid")
	verifClaimNames             = []string{"exp", "sub", "aud", "uid", "role", "iat", "iss", "jti", "nbf"}
)

func verifParseToken(p *token.Parser, r *http.Request, secret, prevSecret string) (*jwt.Token, error) {
	verifParseCalls++
	verifGotSecret, verifGotPrv = secret, prevSecret
	if verifParseErr != nil {
		return nil, verifParseErr
	}
	return verifTok, nil
}

func verifRegisteredClaim(k string) bool {
	switch k {
	case "aud", "exp", "jti", "iat", "iss", "nbf", "sub":
		return true
	}
	return false
}

func Verif_C04_jwtgate() {
	w := &verifGateRW{hdr: http.Header{}}
	req := &http.Request{Method: "GET", Header: http.Header{}, URL: &url.URL{Path: "/"}}
	parseOK := verifBool("parseOK")
	valid := verifBool("tokenValid")
	mapClaims := verifBool("mapClaims")
	claims := jwt.MapClaims{}
	if !parseOK {
		verifParseErr = verifErrParse
	} else {
		verifTok = &jwt.Token{Valid: valid}
		if mapClaims {
			n := verifParam("claims")
			names := verifParam("claimNames")
			for i := 0; i < n; i++ {
				if verifBool("hasClaim") {
					claims[verifClaimNames[verifChoose("claimName", names)]] = 100 + i
				}
			}
			verifTok.Claims = claims
		} else {
			verifTok.Claims = &jwt.RegisteredClaims{}
		}
	}
	withPrev := verifBool("withPrevSecret")
	withCallback := verifBool("withCallback")
	cbCalls := 0
	var cbErr error
	var opts []AuthorizeOption
	if withPrev {
		opts = append(opts, WithPrevSecret("old-secret"))
	}
	if withCallback {
		opts = append(opts, WithUnauthorizedCallback(func(cw http.ResponseWriter, cr *http.Request, err error) {
			cbCalls++
			cbErr = err
		}))
	}
	ran := 0
	next := http.HandlerFunc(func(hw http.ResponseWriter, hr *http.Request) {
		ran++
		ctx := hr.Context()
		for k, v := range claims {
			if !verifRegisteredClaim(k) {
				verifAssert(ctx.Value(k) == v, "jwt: every non-registered claim of the token is visible in the request context")
				verifReach("claim-visible")
			}
		}
		hw.WriteHeader(http.StatusNoContent)
	})
	Authorize("new-secret", opts...)(next).ServeHTTP(w, req)

	verifAssert(verifParseCalls == 1, "jwt: the request's token is parsed once")
	verifAssert(verifGotSecret == "new-secret", "jwt: parsed with the configured secret")
	if withPrev {
		verifAssert(verifGotPrv == "old-secret", "jwt: parsed with the configured previous secret")
	} else {
		verifAssert(verifGotPrv == "", "jwt: no previous secret unless configured")
	}
	admit := verifAnd(parseOK, verifAnd(valid, mapClaims))
	verifAssert((ran == 1) == admit, "jwt: handler runs iff the token parses under a configured secret and is valid")
	verifAssert(ran <= 1, "jwt: handler runs at most once")
	if ran == 1 {
		verifAssert(len(w.codes) == 1 && w.codes[0] == http.StatusNoContent, "jwt: admitted request gets the handler's response")
		verifAssert(cbCalls == 0, "jwt: no unauthorized callback on an admitted request")
		verifReach("admitted")
	} else {
		verifAssert(len(w.codes) == 1 && w.codes[0] == http.StatusUnauthorized, "jwt: a rejected request gets exactly one 401")
		if withCallback {
			verifAssert(cbCalls == 1 && cbErr != nil, "jwt: the unauthorized callback is told once, with the reason")
		}
		verifReach("rejected")
	}
}

// ---- H04d: the content-security (signature) gate ----
// ParseContentSecurity / VerifySignature (H04c) are replaced by their outcome.

var (
	verifCSErr     error
	verifCSHeader  *security.ContentSecurityHeader
	verifSigCode   int
	verifCSCalls   int
	verifSigCalls  int
	verifSigHeader *security.ContentSecurityHeader
	verifSigTol    time.Duration
	verifErrCS     = errors.New("bad X-Content-Security header")
)

func verifParseCS(decryptors map[string]codec.RsaDecryptor, r *http.Request) (*security.ContentSecurityHeader, error) {
	verifCSCalls++
	if verifCSErr != nil {
		return nil, verifCSErr
	}
	return verifCSHeader, nil
}

func verifVerifySig(r *http.Request, h *security.ContentSecurityHeader, tolerance time.Duration) int {
	verifSigCalls++
	verifSigHeader, verifSigTol = h, tolerance
	return verifSigCode
}

func Verif_C04_csgate() {
	methods := []string{"GET", "POST", "PUT", "DELETE", "HEAD", "PATCH", "OPTIONS"}
	mi := verifCase(len(methods))
	method := methods[mi]
	guarded := mi < 4
	w := &verifGateRW{hdr: http.Header{}}
	cl := verifInt64("contentLength")
	req := &http.Request{Method: method, Header: http.Header{}, URL: &url.URL{Path: "/"}, ContentLength: cl}
	strict := verifBool("strict")
	parseOK := verifBool("parseOK")
	verifSigCode = verifInt("verifyCode")
	verifAssume(verifSigCode >= httpx.CodeSignaturePass)
	verifAssume(verifSigCode <= httpx.CodeSignatureInvalidToken)
	if parseOK {
		ct := verifInt("contentType")
		// encrypted bodies (CryptoHandler) are outside this harness
		verifAssume(!verifAnd(cl > 0, ct == security.EncryptionType))
		verifCSHeader = &security.ContentSecurityHeader{Key: []byte("k"), Timestamp: "1", ContentType: ct, Signature: "s"}
	} else {
		verifCSErr = verifErrCS
	}
	tol := 5 * time.Minute
	ran := 0
	next := http.HandlerFunc(func(hw http.ResponseWriter, hr *http.Request) {
		ran++
		verifAssert(hr == req, "signature gate: the handler sees the request")
		hw.WriteHeader(http.StatusNoContent)
	})
	ContentSecurityHandler(nil, tol, strict)(next).ServeHTTP(w, req)

	pass := verifAnd(parseOK, verifSigCode == httpx.CodeSignaturePass)
	admit := verifOr(!guarded, verifOr(pass, !strict))
	verifAssert((ran == 1) == admit, "signature gate: handler runs iff method is not GET/POST/PUT/DELETE, or the header parses and the signature verifies, or the gate is not strict")
	verifAssert(ran <= 1, "signature gate: handler runs at most once")
	if guarded {
		verifAssert(verifCSCalls == 1, "signature gate: the security header of a guarded method is parsed")
		if parseOK {
			verifAssert(verifSigCalls == 1 && verifSigHeader == verifCSHeader && verifSigTol == tol, "signature gate: the parsed header is verified with the configured tolerance")
		}
	}
	if ran == 1 {
		verifAssert(len(w.codes) == 1 && w.codes[0] == http.StatusNoContent, "signature gate: admitted request gets the handler's response")
		verifReach("admitted")
	} else {
		verifAssert(len(w.codes) == 1 && w.codes[0] == http.StatusForbidden, "signature gate: strict failure gets exactly one 403")
		verifReach("forbidden")
	}
}
