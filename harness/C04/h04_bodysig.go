package security

import (
	"hash"
	"io"
	"net/http"
)

//verif:model crypto/sha256.New => verifSha256New

// The body hash is modelled (symbolic world only) by an injective "digest":
// the bytes written so far. Natively the real SHA-256 runs; the assertion below
// ("equal signatures iff equal bodies") holds for it as well, collisions aside.
type verifDigest struct{ b []byte }

func (d *verifDigest) Write(p []byte) (int, error) { d.b = append(d.b, p...); return len(p), nil }
func (d *verifDigest) Sum(in []byte) []byte        { return append(in, d.b...) }
func (d *verifDigest) Reset()                      { d.b = nil }
func (d *verifDigest) Size() int                   { return 32 }
func (d *verifDigest) BlockSize() int              { return 64 }
func verifSha256New() hash.Hash                    { return &verifDigest{} }

type verifBody struct {
	data []byte
	pos  int
}

func (b *verifBody) Read(p []byte) (int, error) {
	if b.pos >= len(b.data) {
		return 0, io.EOF
	}
	n := copy(p, b.data[b.pos:])
	b.pos += n
	return n, nil
}
func (b *verifBody) Close() error { return nil }

// H04h: the body hash that enters the signed content covers the request body
// for every way the body's length is announced: exact Content-Length, unknown
// length (chunked transfer: -1) or a missing/zero header. Two requests get the
// same body signature iff their bodies are equal, and the handler still sees
// the whole body afterwards.
func Verif_C04_bodysig() {
	mk := func(name string) (*http.Request, string) {
		body := verifString(name, 2)
		r := &http.Request{Method: "POST", Header: http.Header{}, Body: &verifBody{data: []byte(body)}}
		switch verifChoose(name+".lengthKind", 3) {
		case 0:
			r.ContentLength = int64(len(body))
		case 1:
			r.ContentLength = -1 // chunked
		case 2:
			r.ContentLength = 0
		}
		return r, body
	}
	r1, b1 := mk("body1")
	r2, b2 := mk("body2")
	s1 := computeBodySignature(r1)
	s2 := computeBodySignature(r2)
	verifAssert((s1 == s2) == (b1 == b2), "the body hash in the signed content changes whenever the body changes, however its length is announced")
	left1, _ := io.ReadAll(r1.Body)
	left2, _ := io.ReadAll(r2.Body)
	verifAssert(string(left1) == b1 && string(left2) == b2, "the handler still sees the whole body after verification")
	verifReach("bodysig")
}
