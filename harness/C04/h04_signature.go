package security

import (
	"net/http"
	"net/url"
	"strconv"
	"time"

	"github.com/gotid/god/api/httpx"
)

//verif:stub github.com/gotid/god/lib/codec.HmacBase64 => verifHmac
//verif:stub github.com/gotid/god/api/internal/security.computeBodySignature => verifBodySig

// H04c: VerifySignature. The client signed (timestamp, method, path, query,
// body hash) with the session key; the request that arrives carries possibly
// different values. HMAC-SHA256+base64 and the SHA-256 body hash are replaced
// by injective functions of their arguments (the cryptographic assumption:
// no collisions), so "signature matches" means "signed content equals the
// request's content". strconv.ParseInt, the time window, getPathQuery and the
// content join are the real code. Fields contain no '\n' (the separator).

var verifReqBodyHash string

func verifHmac(key []byte, body string) string { return "mac(" + string(key) + "," + body + ")" }

func verifBodySig(r *http.Request) string { return verifReqBodyHash }

func verifNoNL(s string) {
	for i := 0; i < len(s); i++ {
		verifAssume(s[i] != '\n')
	}
}

func verifDigits(name string, n int) string {
	s := verifStringN(name, n)
	for i := 0; i < n; i++ {
		verifAssume(s[i] >= '0')
		verifAssume(s[i] <= '9')
	}
	return s
}

const verifNearMax = "92233720368547758" // MaxInt64 = 9223372036854775807

// verifTimestamp returns a timestamp string of the given shape, whether it is a
// valid int64 decimal, and its value.
//
//	shape 0: the decimal of now+delta for any int64 delta (wrapping): every int64
//	shape 1: 1..maxLen arbitrary bytes (sign, digits or anything else)
//	shape 2: optional '-' and 9223372036854775800..99 (around the int64 boundary)
func verifTimestamp(name string, shape int, now int64) (ts string, valid bool, seconds int64) {
	switch shape {
	case 0:
		seconds = now + verifInt64(name+".delta")
		return strconv.FormatInt(seconds, 10), true, seconds
	case 1:
		body := verifStringN(name, 1+verifChoose(name+".len", verifParam("maxLen")))
		verifNoNL(body)
		// reference reading of a decimal int64 literal: [+-] digit+
		i, neg := 0, false
		if body[0] == '+' {
			i = 1
		} else if body[0] == '-' {
			i, neg = 1, true
		}
		valid = i < len(body)
		for j := i; j < len(body); j++ {
			if body[j] < '0' || body[j] > '9' {
				valid = false
			}
		}
		if valid {
			for j := i; j < len(body); j++ {
				seconds = seconds*10 + int64(body[j]-'0')
			}
			if neg {
				seconds = -seconds
			}
		}
		return body, valid, seconds
	default:
		neg := verifBool(name + ".negative")
		last := verifDigits(name, 2)
		low := int64(last[0]-'0')*10 + int64(last[1]-'0')
		if neg {
			// -9223372036854775808 is the smallest int64
			if low <= 8 {
				return "-" + verifNearMax + last, true, -9223372036854775800 - low
			}
			return "-" + verifNearMax + last, false, 0
		}
		if low <= 7 {
			return verifNearMax + last, true, 9223372036854775800 + low
		}
		return verifNearMax + last, false, 0
	}
}

func Verif_C04_signature() {
	// case = (timestamp shape) x (tolerance 0s | 1s | 5min | 100 years)
	c := verifCase(12)
	shape := c / 4
	tol := []time.Duration{0, time.Second, 5 * time.Minute, 100 * 365 * 24 * time.Hour}[c%4]
	tolS := int64(tol / time.Second)
	now := time.Now().Unix()

	// what arrives
	ts, valid, seconds := verifTimestamp("timestamp", shape, now)
	method, path, query := verifStringN("method", 1), verifStringN("path", 2), verifStringN("query", 1)
	verifReqBodyHash = verifStringN("bodyHash", 1)
	// what the client signed
	sTS := ts
	if shape != 0 && verifBool("timestampReplaced") {
		sTS, _, _ = verifTimestamp("signedTimestamp", shape, now)
	}
	sMethod, sPath, sQuery, sBody := verifStringN("signedMethod", 1), verifStringN("signedPath", 2), verifStringN("signedQuery", 1), verifStringN("signedBodyHash", 1)
	for _, s := range []string{sMethod, sPath, sQuery, sBody, method, path, query, verifReqBodyHash} {
		verifNoNL(s)
	}
	key := []byte(verifStringN("key", 1))
	signed := sTS + "\n" + sMethod + "\n" + sPath + "\n" + sQuery + "\n" + sBody
	hdr := &ContentSecurityHeader{Key: key, Timestamp: ts, Signature: verifHmac(key, signed)}
	req := &http.Request{Method: method, Header: http.Header{}, URL: &url.URL{Path: path, RawQuery: query}}

	code := VerifySignature(req, hdr, tol)

	if !valid {
		verifAssert(code != httpx.CodeSignaturePass, "signature: a timestamp that is not an int64 decimal never passes")
		verifReach("bad-timestamp")
		return
	}
	// |seconds - now| <= tolerance over the integers: 0 <= now < 2^40 and tolerance < 2^32, so neither bound wraps
	inWindow := verifAnd(seconds >= now-tolS, seconds <= now+tolS)
	untampered := verifAnd(verifAnd(ts == sTS, method == sMethod), verifAnd(verifAnd(path == sPath, query == sQuery), verifReqBodyHash == sBody))
	verifAssert((code == httpx.CodeSignaturePass) == verifAnd(inWindow, untampered),
		"signature: passes iff the timestamp is within the tolerance of the server clock and timestamp, method, path, query and body hash are the signed ones")
	if code == httpx.CodeSignaturePass {
		verifReach("pass")
	} else if code == httpx.CodeSignatureWrongTime {
		verifAssert(!inWindow, "signature: wrong-time is reported only outside the window")
		verifReach("wrong-time")
	} else {
		verifReach("tampered")
	}
}
