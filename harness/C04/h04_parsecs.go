package security

import (
	"encoding/base64"
	"errors"
	"net/http"
	"net/url"

	"github.com/gotid/god/api/httpx"
	"github.com/gotid/god/lib/codec"
)

//verif:model (*encoding/base64.Encoding).DecodeString => verifB64Decode

// H04g: ParseContentSecurity - "the X-Content-Security header decrypts under a
// configured key". RSA is the harness's codec.RsaDecryptor (one per configured
// fingerprint, each with its own verdict and plaintext); header splitting,
// fingerprint lookup, field checks, key decoding and type parsing are the real
// code. base64 (symbolic world) is a table of true facts about the two key
// strings the harness uses; the native twin runs the real decoder on the same
// strings.

var verifErrRSA = errors.New("rsa: decryption error")

type verifDecryptor struct {
	ok    bool
	plain string
	calls int
	got   string
}

func (d *verifDecryptor) Decrypt(input []byte) ([]byte, error) { return nil, verifErrRSA }
func (d *verifDecryptor) DecryptBase64(input string) ([]byte, error) {
	d.calls++
	d.got = input
	if !d.ok {
		return nil, verifErrRSA
	}
	return []byte(d.plain), nil
}

const (
	verifKeyB64Good = "a2V5MQ==" // "key1"
	verifKeyB64Bad  = "a2V5M!=="
)

func verifB64Decode(enc *base64.Encoding, s string) ([]byte, error) {
	switch s {
	case verifKeyB64Good:
		return []byte("key1"), nil
	case verifKeyB64Bad:
		return nil, base64.CorruptInputError(5)
	case "":
		return []byte{}, nil
	}
	panic("verifB64Decode: input outside the model's table")
}

func Verif_C04_parsecs() {
	// secret plaintexts of the two configured keys
	keyValid := verifBool("keyValid")
	typeKind := verifChoose("type", 4) // "0", "1", not a number, absent
	mkPlain := func(ts string) string {
		p := "time=" + ts + "; key="
		if keyValid {
			p += verifKeyB64Good
		} else {
			p += verifKeyB64Bad
		}
		switch typeKind {
		case 0:
			p += "; type=0"
		case 1:
			p += "; type=1"
		case 2:
			p += "; type=x"
		}
		return p
	}
	d1 := &verifDecryptor{ok: verifBool("decrypt1OK"), plain: mkPlain("111")}
	d2 := &verifDecryptor{ok: verifBool("decrypt2OK"), plain: mkPlain("222")}
	decryptors := map[string]codec.RsaDecryptor{"fp1": d1, "fp2": d2}

	// the header
	fpKind := verifChoose("fingerprint", 4) // fp1, fp2, an unconfigured one, absent
	hasSecret, hasSig := verifBool("hasSecret"), verifBool("hasSignature")
	sig := "s" + verifStringN("sig", 1)
	verifAssume(sig[1] >= 'a')
	verifAssume(sig[1] <= 'z')
	hv := ""
	switch fpKind {
	case 0:
		hv = "fingerprint=fp1; "
	case 1:
		hv = "fingerprint=fp2; "
	case 2:
		hv = "fingerprint=fp3; "
	}
	if hasSecret {
		hv += "secret=c2VjcmV0; "
	}
	if hasSig {
		hv += "signature=" + sig
	}
	req := &http.Request{Method: "GET", Header: http.Header{}, URL: &url.URL{Path: "/"}}
	req.Header.Set(httpx.ContentSecurity, hv)

	h, err := ParseContentSecurity(decryptors, req)

	var used *verifDecryptor
	if fpKind == 0 {
		used = d1
	} else if fpKind == 1 {
		used = d2
	}
	want := used != nil && hasSecret && hasSig && used.ok && keyValid && typeKind <= 1
	verifAssert((err == nil) == want, "parse: succeeds iff fingerprint, secret and signature are present, the fingerprint is a configured key, the secret decrypts under that key, and the decrypted key/type are well-formed")
	verifAssert((h != nil) == (err == nil), "parse: a header is returned exactly on success")
	if used != nil && hasSecret && hasSig {
		other := d1
		if used == d1 {
			other = d2
		}
		verifAssert(used.calls == 1 && used.got == "c2VjcmV0" && other.calls == 0, "parse: the secret is decrypted once, with the key the fingerprint names")
	} else {
		verifAssert(d1.calls == 0 && d2.calls == 0, "parse: nothing is decrypted without fingerprint, secret and signature")
	}
	if err != nil {
		verifReach("rejected")
		return
	}
	wantTS := "111"
	if used == d2 {
		wantTS = "222"
	}
	verifAssert(string(h.Key) == "key1" && h.Timestamp == wantTS && h.ContentType == typeKind && h.Signature == sig,
		"parse: key, timestamp, type come from the decrypted secret of the named key; the signature from the header")
	verifReach("parsed")
}
