package auth

import (
	"context"
	"errors"

	"github.com/gotid/god/lib/collection"
	"google.golang.org/grpc/codes"
	"google.golang.org/grpc/metadata"
	"google.golang.org/grpc/status"
)

//verif:stub (*github.com/gotid/god/lib/collection.Cache).Take => verifTake

// H04e: the RPC authenticator's decision table. The incoming context is built
// with the real metadata.NewIncomingContext; the app->token store (cache in
// front of redis) is replaced by the harness: Take(app) yields either an error
// (store failure, or no token stored for the app: redis.Nil) or the stored token.

var (
	verifStoreErr   error
	verifStored     string
	verifTakeCalls  int
	verifTakeKey    string
	verifErrStore   = errors.New("store failure / no token stored for the app")
	verifStoredKind int
)

func verifTake(c *collection.Cache, key string, fetch func() (any, error)) (any, error) {
	verifTakeCalls++
	verifTakeKey = key
	if verifStoreErr != nil {
		return nil, verifStoreErr
	}
	return verifStored, nil
}

func Verif_C04_rpcauth() {
	strict := verifBool("strict")
	a := &Authenticator{cache: new(collection.Cache), key: "apps", strict: strict}

	// metadata: absent; or present with 0..2 app values and 0..1 token values
	ctx := context.Background()
	hasMD := verifBool("hasMetadata")
	nApp, nTok := 0, 0
	var app, token string
	if hasMD {
		md := metadata.MD{}
		nApp = verifChoose("appValues", 3)
		nTok = verifChoose("tokenValues", 2)
		if nApp > 0 {
			app = verifString("app", 2)
			vals := []string{app}
			if nApp > 1 {
				vals = append(vals, verifStringN("app2", 1))
			}
			md[appKey] = vals
		}
		if nTok > 0 {
			token = verifString("token", 2)
			md[tokenKey] = []string{token}
		}
		ctx = metadata.NewIncomingContext(ctx, md)
	}
	// store content for the app
	if verifBool("storeFails") {
		verifStoreErr = verifErrStore
	} else {
		verifStored = verifString("stored", 2)
	}

	err := a.Authenticate(ctx)
	code := status.Code(err)
	verifAssert((err == nil) == (code == codes.OK), "a rejection is a gRPC status error with a non-OK code")

	if !hasMD || nApp == 0 || nTok == 0 || len(app) == 0 || len(token) == 0 {
		verifAssert(err != nil, "a call lacking app/token metadata is rejected")
		verifAssert(code == codes.Unauthenticated, "lacking app/token metadata: status Unauthenticated")
		verifAssert(verifTakeCalls == 0, "lacking app/token metadata: the store is not consulted")
		verifReach("missing")
		return
	}
	verifAssert(verifTakeCalls == 1 && verifTakeKey == app, "the token stored for the call's (first) app value is looked up, once")
	if verifStoreErr != nil {
		verifAssert((err != nil) == strict, "no stored token / store failure: rejected only in strict mode")
		if strict {
			verifAssert(code == codes.Internal, "no stored token / store failure in strict mode: status Internal")
			verifReach("store-error-strict")
		} else {
			verifReach("store-error-lenient")
		}
		return
	}
	if token == verifStored {
		verifAssert(err == nil, "a call whose token matches the stored one is admitted")
		verifReach("match")
	} else {
		verifAssert(err != nil, "a call whose token differs from the stored one is rejected")
		verifAssert(code == codes.Unauthenticated, "token mismatch: status Unauthenticated")
		verifReach("mismatch")
	}
}
