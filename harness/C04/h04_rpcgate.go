package serverinterceptors

import (
	"context"
	"errors"

	"github.com/gotid/god/rpc/internal/auth"
	"google.golang.org/grpc"
	"google.golang.org/grpc/codes"
	"google.golang.org/grpc/status"
)

//verif:stub (*github.com/gotid/god/rpc/internal/auth.Authenticator).Authenticate => verifAuthenticate

// H04f: the RPC gates as composed by rpc/server.go: the authenticator's verdict
// (H04e) decides whether the handler is invoked at all; its status error is
// what the caller gets.

var (
	verifAuthErr   error
	verifAuthCalls int
	verifAuthCtx   context.Context
	verifErrRPC    = errors.New("handler's own error")
)

func verifAuthenticate(a *auth.Authenticator, ctx context.Context) error {
	verifAuthCalls++
	verifAuthCtx = ctx
	return verifAuthErr
}

type verifStream struct {
	grpc.ServerStream
	ctx context.Context
}

func (s *verifStream) Context() context.Context { return s.ctx }

type verifCtxKey struct{}

func Verif_C04_rpcgate() {
	stream := verifBool("stream")
	reject := verifChoose("verdict", 3) // 0 admitted, 1 Unauthenticated, 2 Internal
	switch reject {
	case 1:
		verifAuthErr = status.Error(codes.Unauthenticated, "denied")
	case 2:
		verifAuthErr = status.Error(codes.Internal, "store down")
	}
	handlerFails := verifBool("handlerFails")
	ctx := context.WithValue(context.Background(), verifCtxKey{}, 1)
	var authenticator *auth.Authenticator // Authenticate is replaced; never dereferenced
	ran := 0
	var err error
	var resp interface{}
	if stream {
		err = StreamAuthorizeInterceptor(authenticator)(nil, &verifStream{ctx: ctx}, &grpc.StreamServerInfo{}, func(srv interface{}, ss grpc.ServerStream) error {
			ran++
			if handlerFails {
				return verifErrRPC
			}
			return nil
		})
	} else {
		resp, err = UnaryAuthorizeInterceptor(authenticator)(ctx, "req", &grpc.UnaryServerInfo{}, func(c context.Context, req interface{}) (interface{}, error) {
			ran++
			if handlerFails {
				return nil, verifErrRPC
			}
			return "reply", nil
		})
	}
	verifAssert(verifAuthCalls == 1 && verifAuthCtx == ctx, "rpc gate: the call's own context is authenticated, once")
	if reject != 0 {
		verifAssert(ran == 0, "rpc gate: a rejected call never reaches the handler")
		verifAssert(err == verifAuthErr && resp == nil, "rpc gate: the caller gets the authenticator's status")
		verifReach("rejected")
		return
	}
	verifAssert(ran == 1, "rpc gate: an admitted call runs the handler once")
	if handlerFails {
		verifAssert(err == verifErrRPC, "rpc gate: admitted: the handler's error is the result")
	} else {
		verifAssert(err == nil && (stream || resp == interface{}("reply")), "rpc gate: admitted: the handler's reply is the result")
	}
	verifReach("admitted")
}
