package token

import (
	"errors"
	"net/http"
	"time"

	"github.com/golang-jwt/jwt/v4"
)

//verif:stub (*github.com/gotid/god/api/token.Parser).doParseToken => verifDoParse
//verif:stub github.com/gotid/god/lib/timex.Now => verifNow

// H04a: secret rotation. doParseToken (the JWT library call) is replaced by a
// verdict table chosen by the harness: the request's token verifies under
// `secret` iff verifVS, under `prevSecret` iff verifVP. Everything else
// (ParseToken, loadCount, incrCount on the sync.Map history) is the real code,
// started from an arbitrary history: each secret's counter absent or present
// with any uint64 value, any reset clock.

var (
	verifClock            time.Duration
	verifSecret, verifPrv string
	verifVS, verifVP      bool
	verifCalls            int
	verifOther            bool
	verifTokS, verifTokP  *jwt.Token
	verifErrBadToken      = errors.New("token does not verify under this secret")
)

func verifNow() time.Duration { return verifClock }

func verifDoParse(p *Parser, r *http.Request, secret string) (*jwt.Token, error) {
	verifCalls++
	if secret == verifSecret {
		if verifVS {
			return verifTokS, nil
		}
		return nil, verifErrBadToken
	}
	if secret == verifPrv {
		if verifVP {
			return verifTokP, nil
		}
		return nil, verifErrBadToken
	}
	verifOther = true
	return nil, verifErrBadToken
}

func verifCount(p *Parser, s string) (uint64, bool) {
	v, ok := p.history.Load(s)
	if !ok {
		return 0, false
	}
	return *v.(*uint64), true
}

func Verif_C04_rotation() {
	// secrets: 1 symbolic byte each; prevSecret may be absent, and may equal secret
	verifSecret = verifStringN("secret", 1)
	hasPrev := verifBool("hasPrev")
	verifPrv = ""
	if hasPrev {
		verifPrv = verifStringN("prev", 1)
	}
	verifVS, verifVP = verifBool("validUnderSecret"), verifBool("validUnderPrev")
	same := verifPrv == verifSecret
	if same {
		// one secret, one verdict
		verifVP = verifVS
	}
	verifTokS, verifTokP = &jwt.Token{Valid: true}, &jwt.Token{Valid: true}

	// arbitrary history
	p := &Parser{
		resetTime:     time.Duration(verifInt64("resetTime")),
		resetDuration: time.Duration(verifInt64("resetDuration")),
	}
	verifClock = time.Duration(verifInt64("now"))
	var preS, preP uint64
	hasS, hasP := verifBool("histHasSecret"), false
	if hasS {
		preS = verifUint64("countSecret")
		c := preS
		p.history.Store(verifSecret, &c)
	}
	if hasPrev && !same {
		hasP = verifBool("histHasPrev")
		if hasP {
			preP = verifUint64("countPrev")
			c := preP
			p.history.Store(verifPrv, &c)
		}
	}

	tok, err := p.ParseToken(&http.Request{}, verifSecret, verifPrv)

	verifAssert(!verifOther, "only the configured secrets are ever tried")
	if hasPrev {
		verifAssert((err == nil) == verifOr(verifVS, verifVP), "with a previous secret: accepted iff the token verifies under the current or the previous secret")
		verifReach("with-prev")
	} else {
		verifAssert((err == nil) == verifVS, "without a previous secret: accepted iff the token verifies under the current secret")
		verifAssert(verifCalls == 1, "without a previous secret exactly one secret is tried")
		verifReach("no-prev")
	}
	if err == nil {
		verifAssert(tok != nil, "accepted: the parsed token is returned")
		verifAssert(tok == verifTokS || tok == verifTokP, "accepted: the token is one that verified")
		if tok == verifTokS {
			verifAssert(verifVS, "accepted: returned token verified under the secret it was parsed with")
		} else {
			verifAssert(verifVP, "accepted: returned token verified under the secret it was parsed with")
		}
		verifReach("accepted")
	} else {
		verifAssert(tok == nil, "rejected: no token is returned")
		// a failed parse changes no counter
		cs, okS := verifCount(p, verifSecret)
		verifAssert(okS == hasS && cs == preS, "rejected: the current secret's counter is unchanged")
		if hasPrev && !same {
			cp, okP := verifCount(p, verifPrv)
			verifAssert(okP == hasP && cp == preP, "rejected: the previous secret's counter is unchanged")
		}
		verifReach("rejected")
	}
	if err == nil && hasPrev && !same {
		// a success never increases the counter of the secret that was not the one used
		cs, _ := verifCount(p, verifSecret)
		cp, _ := verifCount(p, verifPrv)
		if tok == verifTokS {
			verifAssert(cp == preP || cp == 0, "accepted under the current secret: the previous secret's counter is not increased")
		} else {
			verifAssert(cs == preS || cs == 0, "accepted under the previous secret: the current secret's counter is not increased")
		}
	}
}
