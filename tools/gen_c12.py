#!/usr/bin/env python3
"""Regenerates harness/C12/h12_fake_kv.go (a copy of the fake for package kv) and the
per-method reach tags in harness/C12/harness.json from the Go sources."""
import json, os, re, sys
root = os.path.join(os.path.dirname(os.path.abspath(__file__)), '..', 'harness', 'C12')
src = open(os.path.join(root, 'h12_fake_redis.go')).read()
open(os.path.join(root, 'h12_fake_kv.go'), 'w').write(src.replace('package redis', 'package kv', 1))
def names(f):
    return re.findall(r'^\t\t\{"([A-Za-z]+)", func', open(os.path.join(root, f)).read(), re.M)
p = os.path.join(root, 'harness.json')
d = json.load(open(p))
for h in d['harnesses']:
    fixed = [t for t in h.get('reach', []) if not t.startswith('m:')]
    if h['name'] == 'H12a':
        h['reach'] = fixed + ['m:' + n for n in names('h12a_wrapper.go')]
    if h['name'] == 'H12b' and os.path.exists(os.path.join(root, 'h12b_store.go')):
        h['reach'] = fixed + ['m:' + n for n in names('h12b_store.go')]
json.dump(d, open(p, 'w'), indent=1, ensure_ascii=False)
open(p, 'a').write('\n')
