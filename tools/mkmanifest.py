#!/usr/bin/env python3
"""Regenerates /verif/MANIFEST.json from tools/claims.json (one entry per claimed property) and
properties.jsonl (everything not claimed goes under not_applicable with its reason from claims.json['na'])."""
import json, os
root = os.path.dirname(os.path.dirname(os.path.abspath(__file__)))
claims = json.load(open(os.path.join(root, 'tools', 'claims.json')))
ids = [json.loads(l)['id'] for l in open(os.path.join(root, 'properties.jsonl'))]
base = json.load(open('/root/.vp/BASELINE.json'))
checks = []
for pid in ids:
    c = claims['claims'].get(pid)
    if not c:
        continue
    checks.append({
        "property_id": pid,
        "quick_cmd": f"bin/gosym check {pid} --tier quick",
        "thorough_cmd": f"bin/gosym check {pid} --tier thorough",
        "evidence_file": f"/verif/evidence/{pid}.json",
        "replay_cmd_template": f"bin/gosym replay {pid} {{path}}",
        "engine": "gosym",
        "level_claimed": {"category": "model_checking", "text": c['text'], "design_ref": c.get('design_ref', 'DESIGN.md §5 ' + pid)},
        "level_note": c['note'],
        "technique": c.get('technique', "bounded symbolic execution of the real functions' go/ssa form; path conditions and negated assertions decided by SMT (z3/cvc5), counterexamples replayed natively"),
    })
na = [{"property_id": pid, "reason": claims['na'].get(pid, "check not built yet in this session; see DESIGN.md")} for pid in ids if pid not in claims['claims']]
m = {
    "version": 1,
    "setup_cmd": "cd /verif/engine && GOFLAGS=-mod=mod GOPROXY=off GOSUMDB=off GOTOOLCHAIN=local go build -o ../bin/gosym ./cmd/gosym",
    "hooks": {"guard": "verif", "enable": "none needed: harnesses, nondet runtime and stub trampolines are injected through go/packages overlays and `go test -overlay`; no file in /repo carries the tag",
              "baseline_off_cmd": base['cmd'], "source_commits": [], "add_only": True},
    "engines": [{"name": "gosym", "path": "/verif/engine", "serves_properties": [c['property_id'] for c in checks],
                 "kind_free_text": "hand-written symbolic executor over go/ssa (x/tools v0.29.0) of /repo's current tree: DFS-by-replay path forking, bit-vector/IEEE terms, obligations pc∧¬assert to z3 4.8.12 (incremental) then cvc5 1.0 / z3 5.1.0; counterexamples and witness paths replayed natively with go test -overlay"}],
    "checks": checks,
    "not_applicable": na,
    "notes": "exit codes: 0 all obligations discharged; 1 natively reproduced violation (VIOLATION line); 2 inconclusive (never on the unchanged tree for registered bounds). Fix commits in /repo are listed in known_findings.json as status=fixed. See DESIGN.md.",
}
json.dump(m, open(os.path.join(root, 'MANIFEST.json'), 'w'), indent=1, ensure_ascii=False)
print("checks:", [c['property_id'] for c in checks], "n/a:", len(na))
