#!/bin/bash
# usage: nextseed.sh <PROP> <n>  — writes /tmp/p-<PROP>-<n>.txt (prompt, with the earlier seeds of the property as ideas to avoid)
# and creates the scratch worktree /tmp/seed-<PROP>-<n> of /repo's HEAD.
P=$1; N=$2
AVOID=$(python3 - "$P" <<'PY'
import json,glob,sys
out=[]
for m in sorted(glob.glob(f'/verif/seeded/{sys.argv[1]}-*/meta.json')):
    out.append(json.load(open(m))['breaks'])
print(' || '.join(out))
PY
)
python3 /verif/tools/seedprompt.py $P $N "$AVOID" > /tmp/p-$P-$N.txt
git -C /repo worktree add --detach /tmp/seed-$P-$N >/dev/null 2>&1 && echo "worktree /tmp/seed-$P-$N prompt /tmp/p-$P-$N.txt"
