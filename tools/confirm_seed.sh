#!/bin/bash
# usage: confirm_seed.sh <PROP> <n> <pkgs...>   (pkgs relative, e.g. ./lib/collection/)
# Confirms a seeded change in /tmp/seed-<PROP>-<n>: existing tests pass with it, demo fails with it and passes without,
# then runs the registered quick check against it and stores everything under /verif/seeded/<PROP>-<n>/.
export GOFLAGS=-mod=mod GOPROXY=off GOSUMDB=off GOTOOLCHAIN=local
P=$1; N=$2; shift 2; PKGS="$@"
WT=/tmp/seed-$P-$N; OUT=/verif/seeded/$P-$N; mkdir -p $OUT
cd $WT || exit 2
DEMOS=$(git status --short | grep '^??' | awk '{print $2}')
git diff > $OUT/patch.diff
for d in $DEMOS; do cp $d $OUT/$(basename $d).txt; done
echo "== existing tests with the change (demo files moved aside)"
for d in $DEMOS; do mv $d $d.aside; done
go test -vet=off -count=1 -p 4 $PKGS 2>&1 | tail -5 | tee $OUT/existing_tests.txt
for d in $DEMOS; do mv $d.aside $d; done
echo "== demo with the change (must FAIL)"
go test -vet=off -count=1 -p 4 -run 'Seed' $PKGS 2>&1 | tail -8 | tee $OUT/demo_with_change.txt
echo "== demo without the change (must PASS)"
git diff > /tmp/confirm_seed_${P}_${N}.patch; git checkout -q -- .
go test -vet=off -count=1 -p 4 -run 'Seed' $PKGS 2>&1 | tail -5 | tee $OUT/demo_without_change.txt
git apply /tmp/confirm_seed_${P}_${N}.patch
echo "== my check against the changed tree"
cd /verif && VERIF_REPO=$WT bin/gosym check $P --tier quick --no-evidence 2>&1 | grep -E "^(VIOLATION|KNOWN|INCONCLUSIVE|check)" | cut -c1-300 | tail -6 | tee $OUT/check_output.txt
