#!/usr/bin/env python3
"""Renders DESIGN.md §11 (what was built) from harness/*/harness.json, evidence/*.json and seeded/*/meta.json.
Replaces the text between the markers <!-- BUILT:BEGIN --> and <!-- BUILT:END --> (or BUILT_TABLE_PLACEHOLDER)."""
import json, os, glob, re
root = os.path.dirname(os.path.dirname(os.path.abspath(__file__)))
claims = json.load(open(f'{root}/tools/claims.json'))
out = []
seeds = {}
for m in sorted(glob.glob(f'{root}/seeded/*/meta.json')):
    d = json.load(open(m)); d['id'] = os.path.basename(os.path.dirname(m))
    seeds.setdefault(d['property'], []).append(d)
for pid in sorted(claims['claims']):
    hj = f'{root}/harness/{pid}/harness.json'
    if not os.path.exists(hj):
        continue
    spec = json.load(open(hj))
    ev = None
    if os.path.exists(f'{root}/evidence/{pid}.json'):
        ev = json.load(open(f'{root}/evidence/{pid}.json'))
    out.append(f'### {pid} — built\n')
    if ev:
        c = ev['coverage']
        out.append(f"Last registered run ({ev['tier']}): {c['states']} paths, {c['obligations']} obligations, all discharged = {c['obligations']==c['discharged']}, "
                   f"{c['traces_validated_against_impl']} native replays, wall {ev['wall_s']:.0f} s.\n")
    out.append('| harness | package · entry | bound | outside |\n|---|---|---|---|')
    for h in spec['harnesses']:
        pkg = h.get('pkg', h.get('dir', '')).replace('github.com/gotid/god/', '')
        out.append(f"| {h['name']} | {pkg} · `{h.get('entry', h.get('kind','-'))}` | {h.get('bounds','')} | {h.get('outside','')} |")
    out.append('')
    if pid in seeds:
        out.append('Seeded changes (independent sub-agents, property text only):\n')
        out.append('| id | what it breaks / needs | result | caught by |\n|---|---|---|---|')
        for s in seeds[pid]:
            out.append(f"| {s['id']} | {s['breaks']} — needs: {s['needs']} | {s['result']} | {'; '.join(s.get('caught_by', []))} |")
        out.append('')
text = '\n'.join(out)
p = f'{root}/DESIGN.md'
s = open(p).read()
if 'BUILT_TABLE_PLACEHOLDER' in s:
    s = s.replace('BUILT_TABLE_PLACEHOLDER', '<!-- BUILT:BEGIN -->\n' + text + '\n<!-- BUILT:END -->')
else:
    s = re.sub(r'<!-- BUILT:BEGIN -->.*<!-- BUILT:END -->', lambda m: '<!-- BUILT:BEGIN -->\n' + text + '\n<!-- BUILT:END -->', s, flags=re.S)
open(p, 'w').write(s)
print('rendered', len(out), 'lines')
