#!/usr/bin/env python3
import json, sys
pid, n = sys.argv[1], (sys.argv[2] if len(sys.argv) > 2 else "1")
AVOID = sys.argv[3] if len(sys.argv) > 3 else ""
for l in open('/verif/properties.jsonl'):
    p = json.loads(l)
    if p['id'] == pid:
        break
wt = f"/tmp/seed-{pid}-{n}"
print(f"""You are testing how robust a Go code base is against subtle regressions. The repository is gotid/god (a go-zero-style Go microservice toolkit). You have your own scratch git worktree of it at {wt} — work ONLY inside that directory (never touch /repo, never read or use anything under /verif or /work).

Here is a semantic property that the code base is supposed to satisfy:

  Title: {p['title']}
  Statement: {p['statement']}
  It must hold: {p['quantifier']['text']}
  Code it is anchored in: {', '.join(p['anchors']['files'])}

Task: produce ONE realistic change to the library source code (not to tests) in {wt} that BREAKS this property, yet still compiles and keeps the existing test suite of the affected packages passing — the kind of plausible bug a maintainer could introduce during a refactoring or optimisation. The change must need something specific to manifest: a particular input or boundary value, a multi-step sequence of operations, a particular phase/timing/interleaving, a fault at a particular point, or two cooperating sites that each look fine alone. It must NOT be something that ordinary use or the existing tests would expose at once. Prefer small edits (1–15 lines) in the anchored files. Do not add build tags, test hooks or dead code; do not touch *_test.go files, go.mod or go.sum.

Also write a demonstration: a new Go test file (e.g. zz_seed_demo_test.go in the affected package; in-package tests may use unexported identifiers) that FAILS with your change and PASSES on the original code. The demonstration should exercise the public or package-level behaviour the property talks about and explain in a comment which clause of the property is violated and what it needs to manifest.

Environment: no network. For every shell command: export GOFLAGS=-mod=mod GOPROXY=off GOSUMDB=off GOTOOLCHAIN=local . Run tests from the worktree root, e.g. `cd {wt} && go test -vet=off -count=1 ./lib/collection/`. Use at most 4 parallel test processes (`-p 4`), the machine is shared.

Steps:
1. Read the anchored code and the existing tests of those packages.
2. Make the change. Confirm `go build ./...` works for the affected packages and that the existing tests of every package you touched (and of packages that directly depend on the changed code, if quick) still pass: run them 2 times to rule out flakiness.
3. Write the demonstration test; confirm it fails with the change; then take the source change out with `git diff > {wt}.patch && git checkout -- <changed files>` (keep the demo test; do NOT use `git stash`: the stash is shared between worktrees and other people are working in sibling worktrees), confirm the demo passes on the original code, and restore the change with `git apply {wt}.patch`.
4. Leave the worktree with the change and the demonstration file in place (uncommitted is fine).

""" + (("Already known ideas that you must NOT reuse (find a different kind of change, preferably in a different function or clause of the property): " + AVOID + "\n\n") if AVOID else "") + """Final answer (concise): the unified diff of the source change, the path of the demonstration test, the exact commands you ran with their pass/fail outcomes, and one paragraph on what the bug needs in order to manifest and which clause of the property it violates. If after honest effort you cannot find a change that the existing tests do not catch, say so and describe the closest candidates.""")
