#!/bin/bash
# runs every registered quick (or $1) check sequentially and prints one summary line each
T=${1:-quick}
cd /verif
for p in $(python3 -c "import json;print(' '.join(c['property_id'] for c in json.load(open('MANIFEST.json'))['checks']))"); do
  s=$(date +%s); out=$(bin/gosym check $p --tier $T 2>&1); rc=$?
  echo "$p rc=$rc $(( $(date +%s)-s ))s $(echo "$out" | tail -1 | cut -c1-160)"
  if [ $rc -ne 0 ]; then echo "$out" | grep -E "^(VIOLATION|INCONCLUSIVE)" | cut -c1-300 | head -4; fi
done
