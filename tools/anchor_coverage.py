#!/usr/bin/env python3
"""For every property: functions declared in its anchored files (properties.jsonl anchors.files) that no harness of
that property executed symbolically (evidence coverage.functions_encoded). Blind spots = candidates for new harnesses."""
import json, re, os, sys
props=[json.loads(l) for l in open('/verif/properties.jsonl')]
fre=re.compile(r'^func\s+(?:\(\s*\w*\s*(\*?)\s*(\w+)(?:\[[^\]]*\])?\s*\)\s*)?(\w+)', re.M)
for p in props:
    pid=p['id']
    if len(sys.argv)>1 and pid not in sys.argv[1:]: continue
    try: ev=json.load(open(f'/verif/evidence/{pid}.json'))
    except Exception: print(pid,'no evidence'); continue
    enc=set(ev['coverage'].get('functions_encoded',[]))
    short=set()
    for f in enc:
        f=re.sub(r'\$\d+.*$','',f)           # closures
        m=re.match(r'^\(\*?(?:.*[./])?(\w+)\)\.(\w+)$',f)
        if m: short.add((m.group(1),m.group(2))); continue
        m=re.match(r'^(?:.*[./])?(\w+)$',f)
        if m: short.add((None,m.group(1)))
    missing={}
    for rel in p['anchors']['files']:
        path='/repo/'+rel
        if not os.path.exists(path): continue
        src=open(path).read()
        for star,recv,name in fre.findall(src):
            key=(recv or None,name)
            if key not in short:
                missing.setdefault(rel,[]).append((recv+'.' if recv else '')+name)
    print(f'== {pid}: {sum(len(v) for v in missing.values())} functions of the anchored files never executed')
    for rel,v in missing.items():
        print('  ',rel,':',', '.join(v[:60]),('…' if len(v)>60 else ''))
