package interp

import (
	"go/types"
	"math"

	"verif/engine/internal/term"
)

// parseFloatDecimal extends the strconv.ParseFloat model (intr_strconv.go) to
// decimal texts with a fraction and/or an exponent whose STRUCTURE is concrete
// and whose digits may be symbolic: digits [ '.' digits ] [ (e|E) [+|-] digits ].
// b is the text after an optional sign. ok=false: not of that shape (the caller
// keeps its old behaviour).
//
// Result (64-bit): mantissa M = all digits as an integer (at most 15 digits, so
// exact in float64), decimal exponent E = exponent - number of fraction digits,
// |E| <= 22 (10^|E| exact in float64): value = float64(M) * 10^E or
// float64(M) / 10^-E - one IEEE operation on two exact operands, hence the
// correctly rounded value of the decimal, which is what strconv returns
// (atof64exact computes exactly this). A symbolic exponent is concretised by
// forking over 0..8.
func (in *Interp) parseFloatDecimal(s Str, b []*term.Term, neg bool, bits int) (Value, bool) {
	isStruct := func(t *term.Term, cs ...byte) bool {
		if !t.IsConst() {
			return false
		}
		for _, c := range cs {
			if byte(t.U) == c {
				return true
			}
		}
		return false
	}
	shape := false
	for _, t := range b {
		if isStruct(t, '.', 'e', 'E') {
			shape = true
		}
	}
	if !shape {
		return nil, false
	}
	digit := func(t *term.Term) *term.Term {
		isDigit := term.And(term.ULe(term.BVC(8, '0'), t), term.ULe(t, term.BVC(8, '9')))
		if !in.Eng.Branch(isDigit) {
			panic(in.inconclusive("strconv.ParseFloat of a symbolic string with a non-digit where the decimal shape needs a digit"))
		}
		return term.ZExt(term.Sub(t, term.BVC(8, '0')), 64)
	}
	syntax := func() (Value, bool) {
		return Tuple{term.FC(64, 0), in.numError("ParseFloat", s, "invalid syntax")}, true
	}
	i := 0
	mant := term.BVC(64, 0)
	nd, frac := 0, 0
	for i < len(b) && !isStruct(b[i], '.', 'e', 'E') {
		mant = term.Add(term.Mul(mant, term.BVC(64, 10)), digit(b[i]))
		nd++
		i++
	}
	if i < len(b) && isStruct(b[i], '.') {
		i++
		for i < len(b) && !isStruct(b[i], 'e', 'E') {
			if isStruct(b[i], '.') {
				return syntax()
			}
			mant = term.Add(term.Mul(mant, term.BVC(64, 10)), digit(b[i]))
			nd++
			frac++
			i++
		}
	}
	if nd == 0 {
		return syntax()
	}
	if nd > 15 {
		panic(in.inconclusive("strconv.ParseFloat of a symbolic decimal with more than 15 digits"))
	}
	exp := 0
	if i < len(b) { // e | E
		i++
		eneg := false
		if i < len(b) && isStruct(b[i], '+', '-') {
			eneg = byte(b[i].U) == '-'
			i++
		}
		if i >= len(b) {
			return syntax()
		}
		ev := term.BVC(64, 0)
		for ; i < len(b); i++ {
			if isStruct(b[i], '.', 'e', 'E', '+', '-') {
				return syntax()
			}
			ev = term.Add(term.Mul(ev, term.BVC(64, 10)), digit(b[i]))
		}
		exp = in.concLen(ev, "strconv.ParseFloat exponent")
		if eneg {
			exp = -exp
		}
	}
	e10 := exp - frac
	if e10 < -22 || e10 > 22 {
		panic(in.inconclusive("strconv.ParseFloat of a symbolic decimal with decimal exponent %d (model: |E| <= 22)", e10))
	}
	if bits == 32 && e10 != 0 {
		panic(in.inconclusive("strconv.ParseFloat(_, 32) of a symbolic decimal with a fraction or exponent"))
	}
	f := term.SBVToF(mant, 64)
	switch {
	case e10 > 0:
		f = term.FMul(f, term.FC(64, math.Pow10(e10)))
	case e10 < 0:
		f = term.FDiv(f, term.FC(64, math.Pow10(-e10)))
	}
	if neg {
		f = term.FNeg(f)
	}
	if bits == 32 {
		f = term.FToF(term.FToF(f, 32), 64)
	}
	return Tuple{f, Iface{}}, true
}

func init() {
	// time.unitMap (time's package initialiser is not run): the unit table of
	// time.ParseDuration.
	foreignGlobals["time.unitMap"] = func(in *Interp, elem types.Type) Value {
		mt := elem.Underlying().(*types.Map)
		m := &MapObj{KT: mt.Key(), VT: mt.Elem(), ID: in.newID()}
		for _, u := range []struct {
			k string
			v uint64
		}{{"ns", 1}, {"us", 1e3}, {"µs", 1e3}, {"μs", 1e3}, {"ms", 1e6}, {"s", 1e9}, {"m", 60e9}, {"h", 3600e9}} {
			in.mapSet(m, StrOf(u.k), term.BVC(64, u.v))
		}
		return MapV{m}
	}
}
