package interp

import (
	"fmt"
	"go/types"

	"golang.org/x/tools/go/ssa"

	"verif/engine/internal/term"
)

// A model of package reflect over engine cells. A reflect.Type is an
// interface value Iface{T: rtypeT, V: RType{t}}; a reflect.Value is encoded in
// the real struct's three fields as (pointer to a cell holding RType, pointer
// to the cell holding the data, flag bits), so it can be stored, copied and
// passed like the real thing. Every Value's data lives in a cell: addressable
// values point at the variable's own cell, others at a private copy.
// Set* stores with exactly reflect's truncation (SetInt on an int8 keeps the
// low 8 bits), which is what the exactness checks of C05 rely on; the model is
// validated against the real package by native witness replays.

type RType struct{ T types.Type }

var rtypeT = opaqueType("reflect.rtype")

const (
	rvValid    = 1
	rvAddr     = 2
	rvSet      = 0 // settable = addressable and not read-only (see rvCanSet)
	rvStickyRO = 8  // reached through an unexported non-embedded field
	rvEmbedRO  = 16 // is itself an unexported embedded field
)

func rvCanSet(fl uint64) bool { return fl&rvAddr != 0 && fl&(rvStickyRO|rvEmbedRO) == 0 }

const (
	kInvalid = iota
	kBool
	kInt
	kInt8
	kInt16
	kInt32
	kInt64
	kUint
	kUint8
	kUint16
	kUint32
	kUint64
	kUintptr
	kFloat32
	kFloat64
	kComplex64
	kComplex128
	kArray
	kChan
	kFunc
	kInterface
	kMap
	kPointer
	kSlice
	kString
	kStruct
	kUnsafePointer
)

var kindNames = []string{"invalid", "bool", "int", "int8", "int16", "int32", "int64", "uint", "uint8", "uint16", "uint32", "uint64", "uintptr",
	"float32", "float64", "complex64", "complex128", "array", "chan", "func", "interface", "map", "ptr", "slice", "string", "struct", "unsafe.Pointer"}

func kindOf(t types.Type) int {
	if t == nil {
		return kInvalid
	}
	switch u := t.Underlying().(type) {
	case *types.Basic:
		switch u.Kind() {
		case types.Bool:
			return kBool
		case types.Int:
			return kInt
		case types.Int8:
			return kInt8
		case types.Int16:
			return kInt16
		case types.Int32:
			return kInt32
		case types.Int64:
			return kInt64
		case types.Uint:
			return kUint
		case types.Uint8:
			return kUint8
		case types.Uint16:
			return kUint16
		case types.Uint32:
			return kUint32
		case types.Uint64:
			return kUint64
		case types.Uintptr:
			return kUintptr
		case types.Float32:
			return kFloat32
		case types.Float64:
			return kFloat64
		case types.Complex64:
			return kComplex64
		case types.Complex128:
			return kComplex128
		case types.String:
			return kString
		case types.UnsafePointer:
			return kUnsafePointer
		}
	case *types.Array:
		return kArray
	case *types.Chan:
		return kChan
	case *types.Signature:
		return kFunc
	case *types.Interface:
		return kInterface
	case *types.Map:
		return kMap
	case *types.Pointer:
		return kPointer
	case *types.Slice:
		return kSlice
	case *types.Struct:
		return kStruct
	}
	return kInvalid
}

func (in *Interp) mkRType(t types.Type) Value {
	if t == nil {
		return Iface{}
	}
	return Iface{T: rtypeT, V: RType{t}}
}

func (in *Interp) rtypeArg(v Value) types.Type {
	iv, ok := v.(Iface)
	if !ok || iv.T == nil {
		panic(in.runtimePanic("reflect: nil Type"))
	}
	rt, ok := iv.V.(RType)
	if !ok {
		panic(in.bug("reflect: expected rtype, got %T", iv.V))
	}
	return rt.T
}

func (in *Interp) mkRV(t types.Type, c *Cell, flags uint64) Value {
	return StructV{[]Value{Ptr{&Cell{T: types.Typ[types.Invalid], V: RType{t}, ID: in.newID()}}, Ptr{c}, term.BVC(64, flags)}}
}

func (in *Interp) zeroRV() Value {
	return StructV{[]Value{Ptr{}, Ptr{}, term.BVC(64, 0)}}
}

// rvOfValue makes a non-addressable reflect.Value holding a copy of v.
func (in *Interp) rvOfValue(t types.Type, v Value) Value {
	c := in.newCell(t)
	in.store(c, v)
	return in.mkRV(t, c, rvValid)
}

type rvDec struct {
	t     types.Type
	c     *Cell
	flags uint64
}

func (in *Interp) decRV(v Value) rvDec {
	sv, ok := v.(StructV)
	if !ok || len(sv.F) != 3 {
		panic(in.bug("reflect.Value: unexpected representation %T", v))
	}
	p0, _ := sv.F[0].(Ptr)
	if p0.C == nil {
		return rvDec{}
	}
	rt, ok := p0.C.V.(RType)
	if !ok {
		panic(in.bug("reflect.Value: type cell does not hold an RType"))
	}
	p1, _ := sv.F[1].(Ptr)
	fl, _ := sv.F[2].(*term.Term)
	return rvDec{t: rt.T, c: p1.C, flags: fl.U}
}

func (in *Interp) rvMust(v Value, what string) rvDec {
	d := in.decRV(v)
	if d.t == nil {
		panic(&GoPanic{V: Iface{T: types.Typ[types.String], V: StrOf("reflect: call of " + what + " on zero Value")}, Msg: "reflect: call of " + what + " on zero Value", Stack: in.where()})
	}
	return d
}

func (in *Interp) reflPanic(msg string) *GoPanic {
	return &GoPanic{V: Iface{T: types.Typ[types.String], V: StrOf(msg)}, Msg: msg, Stack: in.where()}
}

func (in *Interp) rvSettable(d rvDec, what string) {
	if !rvCanSet(d.flags) {
		panic(in.reflPanic("reflect: " + what + " using unaddressable value or value obtained using unexported field"))
	}
}

func (in *Interp) rvInterface(d rvDec) Value {
	v := in.load(d.c)
	if _, ok := d.t.Underlying().(*types.Interface); ok {
		return v
	}
	return Iface{T: d.t, V: v}
}

func (in *Interp) structFieldType() (*types.Named, *types.Struct) {
	p := in.Prog.ImportedPackage("reflect")
	if p == nil {
		panic(in.bug("package reflect not loaded"))
	}
	nt := p.Type("StructField").Type().(*types.Named)
	return nt, nt.Underlying().(*types.Struct)
}

func (in *Interp) mkStructField(st *types.Struct, i int) Value {
	_, sf := in.structFieldType()
	f := st.Field(i)
	out := make([]Value, sf.NumFields())
	for k := 0; k < sf.NumFields(); k++ {
		switch sf.Field(k).Name() {
		case "Name":
			out[k] = StrOf(f.Name())
		case "PkgPath":
			if f.Exported() {
				out[k] = Str{}
			} else if f.Pkg() != nil {
				out[k] = StrOf(f.Pkg().Path())
			} else {
				out[k] = StrOf("main")
			}
		case "Type":
			out[k] = in.mkRType(f.Type())
		case "Tag":
			out[k] = StrOf(st.Tag(i))
		case "Offset":
			out[k] = term.BVC(64, uint64(8*i))
		case "Index":
			c := &Cell{T: types.Typ[types.Int], V: intC(i), ID: in.newID()}
			out[k] = Slice{[]*Cell{c}}
		case "Anonymous":
			out[k] = term.BoolC(f.Embedded())
		default:
			out[k] = in.zero(sf.Field(k).Type())
		}
	}
	return StructV{out}
}

// rtypeMethod dispatches a method call on a reflect.Type value.
func (in *Interp) rtypeMethod(rt RType, m *types.Func) FuncV {
	t := rt.T
	name := m.Name()
	nat := func(f func(args []Value) Value) FuncV {
		return FuncV{Native: func(in *Interp, args []Value) Value { in.IntrHit["(reflect.Type)."+name] = true; return f(args) }}
	}
	switch name {
	case "Kind":
		return nat(func([]Value) Value { return term.BVC(64, uint64(kindOf(t))) })
	case "Elem":
		return nat(func([]Value) Value {
			switch u := t.Underlying().(type) {
			case *types.Pointer:
				return in.mkRType(u.Elem())
			case *types.Slice:
				return in.mkRType(u.Elem())
			case *types.Array:
				return in.mkRType(u.Elem())
			case *types.Map:
				return in.mkRType(u.Elem())
			case *types.Chan:
				return in.mkRType(u.Elem())
			}
			panic(in.reflPanic("reflect: Elem of invalid type " + t.String()))
		})
	case "Key":
		return nat(func([]Value) Value {
			if u, ok := t.Underlying().(*types.Map); ok {
				return in.mkRType(u.Key())
			}
			panic(in.reflPanic("reflect: Key of non-map type " + t.String()))
		})
	case "Len":
		return nat(func([]Value) Value {
			if u, ok := t.Underlying().(*types.Array); ok {
				return intC(int(u.Len()))
			}
			panic(in.reflPanic("reflect: Len of non-array type " + t.String()))
		})
	case "Name":
		return nat(func([]Value) Value {
			switch x := t.(type) {
			case *types.Named:
				return StrOf(x.Obj().Name())
			case *types.Basic:
				return StrOf(x.Name())
			}
			return Str{}
		})
	case "PkgPath":
		return nat(func([]Value) Value {
			if x, ok := t.(*types.Named); ok && x.Obj().Pkg() != nil {
				return StrOf(x.Obj().Pkg().Path())
			}
			return Str{}
		})
	case "String":
		return nat(func([]Value) Value {
			return StrOf(types.TypeString(t, func(p *types.Package) string { return p.Name() }))
		})
	case "NumField":
		return nat(func([]Value) Value {
			if u, ok := t.Underlying().(*types.Struct); ok {
				return intC(u.NumFields())
			}
			panic(in.reflPanic("reflect: NumField of non-struct type " + t.String()))
		})
	case "Field":
		return nat(func(args []Value) Value {
			u, ok := t.Underlying().(*types.Struct)
			if !ok {
				panic(in.reflPanic("reflect: Field of non-struct type " + t.String()))
			}
			i := concreteInt(in, args[1], "reflect.Type.Field")
			if i < 0 || i >= u.NumFields() {
				panic(in.reflPanic("reflect: Field index out of bounds"))
			}
			return in.mkStructField(u, i)
		})
	case "NumMethod":
		return nat(func([]Value) Value { return intC(in.Prog.MethodSets.MethodSet(t).Len()) })
	case "Implements":
		return nat(func(args []Value) Value {
			u := in.rtypeArg(args[1])
			it, ok := u.Underlying().(*types.Interface)
			if !ok {
				panic(in.reflPanic("reflect: non-interface type passed to Type.Implements"))
			}
			return term.BoolC(types.Implements(t, it))
		})
	case "AssignableTo":
		return nat(func(args []Value) Value { return term.BoolC(types.AssignableTo(t, in.rtypeArg(args[1]))) })
	case "ConvertibleTo":
		return nat(func(args []Value) Value { return term.BoolC(types.ConvertibleTo(t, in.rtypeArg(args[1]))) })
	case "Comparable":
		return nat(func([]Value) Value { return term.BoolC(types.Comparable(t)) })
	case "Bits":
		return nat(func([]Value) Value {
			if s, ok := sortOf(t); ok && s.K != term.KBool {
				return intC(s.W)
			}
			panic(in.reflPanic("reflect: Bits of non-arithmetic Type " + t.String()))
		})
	}
	panic(in.inconclusive("reflect.Type method %s is not modelled", name))
}

func init() {
	regV := func(name string, f func(in *Interp, d rvDec, args []Value) Value) {
		reg("(reflect.Value)."+name, func(in *Interp, fn *ssa.Function, args []Value) Value {
			return f(in, in.rvMust(args[0], "reflect.Value."+name), args)
		})
	}
	reg("reflect.TypeOf", func(in *Interp, fn *ssa.Function, args []Value) Value {
		iv := args[0].(Iface)
		return in.mkRType(iv.T)
	})
	reg("reflect.ValueOf", func(in *Interp, fn *ssa.Function, args []Value) Value {
		iv := args[0].(Iface)
		if iv.T == nil {
			return in.zeroRV()
		}
		if iv.T == rtypeT || isOpaqueT(iv.T) {
			panic(in.inconclusive("reflect.ValueOf on an opaque value %s", iv.T))
		}
		return in.rvOfValue(iv.T, iv.V)
	})
	reg("reflect.New", func(in *Interp, fn *ssa.Function, args []Value) Value {
		t := in.rtypeArg(args[0])
		c := in.newCell(t)
		return in.rvOfValue(types.NewPointer(t), Ptr{c})
	})
	reg("reflect.Zero", func(in *Interp, fn *ssa.Function, args []Value) Value {
		t := in.rtypeArg(args[0])
		return in.rvOfValue(t, in.zero(t))
	})
	reg("reflect.Indirect", func(in *Interp, fn *ssa.Function, args []Value) Value {
		d := in.decRV(args[0])
		if d.t == nil || kindOf(d.t) != kPointer {
			return args[0]
		}
		return intrinsics["(reflect.Value).Elem"](in, fn, args)
	})
	reg("reflect.PtrTo", func(in *Interp, fn *ssa.Function, args []Value) Value {
		return in.mkRType(types.NewPointer(in.rtypeArg(args[0])))
	})
	reg("reflect.PointerTo", intrinsics["reflect.PtrTo"])
	reg("reflect.SliceOf", func(in *Interp, fn *ssa.Function, args []Value) Value {
		return in.mkRType(types.NewSlice(in.rtypeArg(args[0])))
	})
	reg("reflect.MapOf", func(in *Interp, fn *ssa.Function, args []Value) Value {
		return in.mkRType(types.NewMap(in.rtypeArg(args[0]), in.rtypeArg(args[1])))
	})
	reg("reflect.MakeSlice", func(in *Interp, fn *ssa.Function, args []Value) Value {
		t := in.rtypeArg(args[0])
		st, ok := t.Underlying().(*types.Slice)
		if !ok {
			panic(in.reflPanic("reflect.MakeSlice of non-slice type"))
		}
		n, cp := concreteInt(in, args[1], "reflect.MakeSlice"), concreteInt(in, args[2], "reflect.MakeSlice")
		if n < 0 || cp < n {
			panic(in.reflPanic("reflect.MakeSlice: bad len/cap"))
		}
		cells := make([]*Cell, cp)
		for i := range cells {
			cells[i] = in.newCell(st.Elem())
		}
		return in.rvOfValue(t, Slice{cells[:n]})
	})
	mkMap := func(in *Interp, fn *ssa.Function, args []Value) Value {
		t := in.rtypeArg(args[0])
		mt, ok := t.Underlying().(*types.Map)
		if !ok {
			panic(in.reflPanic("reflect.MakeMap of non-map type"))
		}
		return in.rvOfValue(t, MapV{&MapObj{KT: mt.Key(), VT: mt.Elem(), ID: in.newID()}})
	}
	reg("reflect.MakeMap", mkMap)
	reg("reflect.MakeMapWithSize", mkMap)
	reg("reflect.Append", func(in *Interp, fn *ssa.Function, args []Value) Value {
		d := in.rvMust(args[0], "reflect.Append")
		st, ok := d.t.Underlying().(*types.Slice)
		if !ok {
			panic(in.reflPanic("reflect.Append of non-slice"))
		}
		s := in.load(d.c).(Slice)
		cells := append([]*Cell{}, s.Cells...)
		for _, xc := range args[1].(Slice).Cells {
			xd := in.rvMust(in.load(xc), "reflect.Append")
			c := in.newCell(st.Elem())
			in.store(c, in.rvAssignable(xd, st.Elem()))
			cells = append(cells, c)
		}
		return in.rvOfValue(d.t, Slice{cells})
	})
	reg("reflect.DeepEqual", func(in *Interp, fn *ssa.Function, args []Value) Value {
		return in.equal(args[0], args[1])
	})
	reg("(reflect.Kind).String", func(in *Interp, fn *ssa.Function, args []Value) Value {
		k := concreteInt(in, args[0], "reflect.Kind.String")
		if k >= 0 && k < len(kindNames) {
			return StrOf(kindNames[k])
		}
		return StrOf(fmt.Sprintf("kind%d", k))
	})

	// ---- reflect.Value methods ----
	reg("(reflect.Value).IsValid", func(in *Interp, fn *ssa.Function, args []Value) Value {
		return term.BoolC(in.decRV(args[0]).t != nil)
	})
	reg("(reflect.Value).Kind", func(in *Interp, fn *ssa.Function, args []Value) Value {
		return term.BVC(64, uint64(kindOf(in.decRV(args[0]).t)))
	})
	regV("Type", func(in *Interp, d rvDec, args []Value) Value { return in.mkRType(d.t) })
	regV("CanSet", func(in *Interp, d rvDec, args []Value) Value { return term.BoolC(rvCanSet(d.flags)) })
	regV("CanAddr", func(in *Interp, d rvDec, args []Value) Value { return term.BoolC(d.flags&rvAddr != 0) })
	regV("CanInterface", func(in *Interp, d rvDec, args []Value) Value { return term.True })
	regV("Interface", func(in *Interp, d rvDec, args []Value) Value { return in.rvInterface(d) })
	regV("Elem", func(in *Interp, d rvDec, args []Value) Value {
		switch kindOf(d.t) {
		case kPointer:
			p := in.load(d.c).(Ptr)
			if p.C == nil {
				return in.zeroRV()
			}
			return in.mkRV(d.t.Underlying().(*types.Pointer).Elem(), p.C, rvValid|rvAddr|rvSet)
		case kInterface:
			iv := in.load(d.c).(Iface)
			if iv.T == nil {
				return in.zeroRV()
			}
			return in.rvOfValue(iv.T, iv.V)
		}
		panic(in.reflPanic("reflect: call of reflect.Value.Elem on " + kindNames[kindOf(d.t)] + " Value"))
	})
	regV("Addr", func(in *Interp, d rvDec, args []Value) Value {
		if d.flags&rvAddr == 0 {
			panic(in.reflPanic("reflect.Value.Addr of unaddressable value"))
		}
		return in.rvOfValue(types.NewPointer(d.t), Ptr{d.c})
	})
	regV("IsNil", func(in *Interp, d rvDec, args []Value) Value {
		switch kindOf(d.t) {
		case kPointer, kMap, kSlice, kChan, kFunc, kInterface, kUnsafePointer:
			return term.BoolC(in.isNilValue(in.load(d.c)))
		}
		panic(in.reflPanic("reflect: call of reflect.Value.IsNil on " + kindNames[kindOf(d.t)] + " Value"))
	})
	regV("IsZero", func(in *Interp, d rvDec, args []Value) Value {
		return in.equalOrNil(in.load(d.c), in.zero(d.t))
	})
	regV("NumField", func(in *Interp, d rvDec, args []Value) Value {
		if u, ok := d.t.Underlying().(*types.Struct); ok {
			return intC(u.NumFields())
		}
		panic(in.reflPanic("reflect: call of reflect.Value.NumField on non-struct Value"))
	})
	regV("Field", func(in *Interp, d rvDec, args []Value) Value {
		u, ok := d.t.Underlying().(*types.Struct)
		if !ok {
			panic(in.reflPanic("reflect: call of reflect.Value.Field on non-struct Value"))
		}
		i := concreteInt(in, args[1], "reflect.Value.Field")
		if i < 0 || i >= u.NumFields() {
			panic(in.reflPanic("reflect: Field index out of range"))
		}
		// as in reflect: sticky read-only is inherited, embed read-only is not
		fl := d.flags & (rvValid | rvAddr | rvStickyRO)
		if !u.Field(i).Exported() {
			if u.Field(i).Embedded() {
				fl |= rvEmbedRO
			} else {
				fl |= rvStickyRO
			}
		}
		return in.mkRV(u.Field(i).Type(), d.c.F[i], fl)
	})
	regV("Len", func(in *Interp, d rvDec, args []Value) Value {
		switch x := in.load(d.c).(type) {
		case Slice:
			return intC(len(x.Cells))
		case Str:
			return intC(len(x.B))
		case MapV:
			return intC(in.mapLen(x.M))
		case ArrayV:
			return intC(len(x.E))
		case ChanV:
			if x.C == nil {
				return intC(0)
			}
			return intC(len(x.C.Buf))
		}
		panic(in.reflPanic("reflect: call of reflect.Value.Len on " + kindNames[kindOf(d.t)] + " Value"))
	})
	regV("Cap", func(in *Interp, d rvDec, args []Value) Value {
		if x, ok := in.load(d.c).(Slice); ok {
			return intC(cap(x.Cells))
		}
		panic(in.reflPanic("reflect: call of reflect.Value.Cap on non-slice Value"))
	})
	regV("Index", func(in *Interp, d rvDec, args []Value) Value {
		i := concreteInt(in, args[1], "reflect.Value.Index")
		switch u := d.t.Underlying().(type) {
		case *types.Slice:
			s := in.load(d.c).(Slice)
			if i < 0 || i >= len(s.Cells) {
				panic(in.reflPanic("reflect: slice index out of range"))
			}
			return in.mkRV(u.Elem(), s.Cells[i], rvValid|rvAddr|rvSet)
		case *types.Array:
			if i < 0 || i >= len(d.c.F) {
				panic(in.reflPanic("reflect: array index out of range"))
			}
			return in.mkRV(u.Elem(), d.c.F[i], d.flags)
		case *types.Basic:
			s := in.load(d.c).(Str)
			if i < 0 || i >= len(s.B) {
				panic(in.reflPanic("reflect: string index out of range"))
			}
			return in.rvOfValue(types.Typ[types.Uint8], s.B[i])
		}
		panic(in.reflPanic("reflect: call of reflect.Value.Index on " + kindNames[kindOf(d.t)] + " Value"))
	})
	regV("MapKeys", func(in *Interp, d rvDec, args []Value) Value {
		mt, ok := d.t.Underlying().(*types.Map)
		if !ok {
			panic(in.reflPanic("reflect: call of reflect.Value.MapKeys on non-map Value"))
		}
		m := in.load(d.c).(MapV)
		vt, _ := in.structValueType()
		cells := []*Cell{}
		if m.M != nil {
			for _, e := range m.M.Entries {
				if e.Dead {
					continue
				}
				c := in.newCell(vt)
				in.store(c, in.rvOfValue(mt.Key(), e.K))
				cells = append(cells, c)
			}
		}
		return Slice{cells}
	})
	regV("MapIndex", func(in *Interp, d rvDec, args []Value) Value {
		mt, ok := d.t.Underlying().(*types.Map)
		if !ok {
			panic(in.reflPanic("reflect: call of reflect.Value.MapIndex on non-map Value"))
		}
		m := in.load(d.c).(MapV)
		kd := in.rvMust(args[1], "MapIndex key")
		v, found := in.mapGet(m.M, in.rvAssignable(kd, mt.Key()))
		if !found {
			return in.zeroRV()
		}
		return in.rvOfValue(mt.Elem(), v)
	})
	regV("SetMapIndex", func(in *Interp, d rvDec, args []Value) Value {
		mt, ok := d.t.Underlying().(*types.Map)
		if !ok {
			panic(in.reflPanic("reflect: call of reflect.Value.SetMapIndex on non-map Value"))
		}
		m := in.load(d.c).(MapV)
		if m.M == nil {
			panic(in.reflPanic("assignment to entry in nil map"))
		}
		kd := in.rvMust(args[1], "SetMapIndex key")
		k := in.rvAssignable(kd, mt.Key())
		vd := in.decRV(args[2])
		if vd.t == nil {
			in.mapDelete(m.M, k)
			return nil
		}
		in.mapSet(m.M, k, in.rvAssignable(vd, mt.Elem()))
		return nil
	})
	// getters
	regV("Int", func(in *Interp, d rvDec, args []Value) Value {
		k := kindOf(d.t)
		if k < kInt || k > kInt64 {
			panic(in.reflPanic("reflect: call of reflect.Value.Int on " + kindNames[k] + " Value"))
		}
		return term.SExt(tt(in.load(d.c)), 64)
	})
	regV("Uint", func(in *Interp, d rvDec, args []Value) Value {
		k := kindOf(d.t)
		if k < kUint || k > kUintptr {
			panic(in.reflPanic("reflect: call of reflect.Value.Uint on " + kindNames[k] + " Value"))
		}
		return term.ZExt(tt(in.load(d.c)), 64)
	})
	regV("Float", func(in *Interp, d rvDec, args []Value) Value {
		k := kindOf(d.t)
		if k != kFloat32 && k != kFloat64 {
			panic(in.reflPanic("reflect: call of reflect.Value.Float on " + kindNames[k] + " Value"))
		}
		return term.FToF(tt(in.load(d.c)), 64)
	})
	regV("Bool", func(in *Interp, d rvDec, args []Value) Value {
		if kindOf(d.t) != kBool {
			panic(in.reflPanic("reflect: call of reflect.Value.Bool on non-bool Value"))
		}
		return in.load(d.c)
	})
	reg("(reflect.Value).String", func(in *Interp, fn *ssa.Function, args []Value) Value {
		d := in.decRV(args[0])
		if d.t == nil {
			return StrOf("<invalid Value>")
		}
		if kindOf(d.t) == kString {
			return in.load(d.c)
		}
		return StrOf("<" + d.t.String() + " Value>")
	})
	// setters
	regV("Set", func(in *Interp, d rvDec, args []Value) Value {
		in.rvSettable(d, "reflect.Value.Set")
		xd := in.rvMust(args[1], "reflect.Value.Set")
		in.store(d.c, in.rvAssignable(xd, d.t))
		return nil
	})
	regV("SetInt", func(in *Interp, d rvDec, args []Value) Value {
		in.rvSettable(d, "reflect.Value.SetInt")
		s, _ := sortOf(d.t)
		k := kindOf(d.t)
		if k < kInt || k > kInt64 {
			panic(in.reflPanic("reflect: call of reflect.Value.SetInt on " + kindNames[k] + " Value"))
		}
		in.store(d.c, term.Extract(tt(args[1]), s.W-1, 0))
		return nil
	})
	regV("SetUint", func(in *Interp, d rvDec, args []Value) Value {
		in.rvSettable(d, "reflect.Value.SetUint")
		s, _ := sortOf(d.t)
		k := kindOf(d.t)
		if k < kUint || k > kUintptr {
			panic(in.reflPanic("reflect: call of reflect.Value.SetUint on " + kindNames[k] + " Value"))
		}
		in.store(d.c, term.Extract(tt(args[1]), s.W-1, 0))
		return nil
	})
	regV("SetFloat", func(in *Interp, d rvDec, args []Value) Value {
		in.rvSettable(d, "reflect.Value.SetFloat")
		switch kindOf(d.t) {
		case kFloat32:
			in.store(d.c, term.FToF(tt(args[1]), 32))
		case kFloat64:
			in.store(d.c, args[1])
		default:
			panic(in.reflPanic("reflect: call of reflect.Value.SetFloat on " + kindNames[kindOf(d.t)] + " Value"))
		}
		return nil
	})
	regV("SetBool", func(in *Interp, d rvDec, args []Value) Value {
		in.rvSettable(d, "reflect.Value.SetBool")
		if kindOf(d.t) != kBool {
			panic(in.reflPanic("reflect: call of reflect.Value.SetBool on non-bool Value"))
		}
		in.store(d.c, args[1])
		return nil
	})
	regV("SetString", func(in *Interp, d rvDec, args []Value) Value {
		in.rvSettable(d, "reflect.Value.SetString")
		if kindOf(d.t) != kString {
			panic(in.reflPanic("reflect: call of reflect.Value.SetString on non-string Value"))
		}
		in.store(d.c, args[1])
		return nil
	})
	regV("SetLen", func(in *Interp, d rvDec, args []Value) Value {
		in.rvSettable(d, "reflect.Value.SetLen")
		s := in.load(d.c).(Slice)
		n := concreteInt(in, args[1], "SetLen")
		if n < 0 || n > cap(s.Cells) {
			panic(in.reflPanic("reflect: slice length out of range in SetLen"))
		}
		in.store(d.c, Slice{s.Cells[:n]})
		return nil
	})
	ovf := func(name string, signed bool) {
		regV(name, func(in *Interp, d rvDec, args []Value) Value {
			s, ok := sortOf(d.t)
			if !ok || s.K != term.KBV {
				panic(in.reflPanic("reflect: call of reflect.Value." + name + " on " + kindNames[kindOf(d.t)] + " Value"))
			}
			x := tt(args[1])
			if s.W >= 64 {
				return term.False
			}
			lo := term.Extract(x, s.W-1, 0)
			if signed {
				return term.Not(term.Eq(term.SExt(lo, 64), x))
			}
			return term.Not(term.Eq(term.ZExt(lo, 64), x))
		})
	}
	ovf("OverflowInt", true)
	ovf("OverflowUint", false)
	regV("OverflowFloat", func(in *Interp, d rvDec, args []Value) Value {
		x := tt(args[1])
		switch kindOf(d.t) {
		case kFloat64:
			return term.False
		case kFloat32:
			// overflow iff finite x rounds to an infinite float32
			y := term.FToF(x, 32)
			return term.And(term.FIsInf(y), term.Not(term.FIsInf(x)))
		}
		panic(in.reflPanic("reflect: call of reflect.Value.OverflowFloat on " + kindNames[kindOf(d.t)] + " Value"))
	})
	regV("Convert", func(in *Interp, d rvDec, args []Value) Value {
		t := in.rtypeArg(args[1])
		return in.rvOfValue(t, in.convert(in.load(d.c), d.t, t))
	})
}

func isOpaqueT(t types.Type) bool {
	n, ok := t.(*types.Named)
	return ok && n.Obj().Pkg() == nil && len(n.Obj().Name()) > 7 && n.Obj().Name()[:7] == "opaque:"
}

func (in *Interp) structValueType() (types.Type, *types.Struct) {
	p := in.Prog.ImportedPackage("reflect")
	if p == nil {
		panic(in.bug("package reflect not loaded"))
	}
	nt := p.Type("Value").Type()
	return nt, nt.Underlying().(*types.Struct)
}

// rvAssignable returns the data of d as a value assignable to type t
// (wrapping into an interface when t is an interface type).
func (in *Interp) rvAssignable(d rvDec, t types.Type) Value {
	v := in.load(d.c)
	if _, isI := t.Underlying().(*types.Interface); isI {
		if _, srcI := d.t.Underlying().(*types.Interface); srcI {
			return v
		}
		return Iface{T: d.t, V: v}
	}
	if !types.AssignableTo(d.t, t) {
		panic(in.reflPanic(fmt.Sprintf("reflect.Set: value of type %s is not assignable to type %s", d.t, t)))
	}
	return v
}

func (in *Interp) equalOrNil(a, b Value) (r *term.Term) {
	defer func() {
		if recover() != nil {
			r = term.False
		}
	}()
	return in.equal(a, b)
}
