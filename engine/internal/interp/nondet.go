package interp

import (
	"fmt"

	"golang.org/x/tools/go/ssa"

	"verif/engine/internal/term"
)

type apiFn func(in *Interp, fn *ssa.Function, args []Value) Value

var nondetAPI map[string]apiFn

func concreteStr(in *Interp, v Value, what string) string {
	s, ok := v.(Str)
	if !ok {
		panic(in.bug("%s: expected string", what))
	}
	c, ok := s.Concrete()
	if !ok {
		panic(in.bug("%s: string must be concrete", what))
	}
	return c
}

func concreteInt(in *Interp, v Value, what string) int {
	t, ok := v.(*term.Term)
	if !ok || !t.IsConst() {
		panic(in.bug("%s: int must be concrete", what))
	}
	return int(t.SignedVal())
}

func freshOf(w int) apiFn {
	return func(in *Interp, fn *ssa.Function, args []Value) Value {
		return in.Eng.Fresh(concreteStr(in, args[0], fn.Name()), term.BV(w))
	}
}

type goroutineCrash struct{ gp *GoPanic }

func init() {
	nondetAPI = map[string]apiFn{
		"verifInt":    freshOf(64),
		"verifInt64":  freshOf(64),
		"verifUint64": freshOf(64),
		"verifInt32":  freshOf(32),
		"verifUint32": freshOf(32),
		"verifInt16":  freshOf(16),
		"verifUint16": freshOf(16),
		"verifInt8":   freshOf(8),
		"verifUint8":  freshOf(8),
		"verifByte":   freshOf(8),
		"verifBool": func(in *Interp, fn *ssa.Function, args []Value) Value {
			return in.Eng.Fresh(concreteStr(in, args[0], "verifBool"), term.Bool)
		},
		"verifFloat64": func(in *Interp, fn *ssa.Function, args []Value) Value {
			return in.Eng.Fresh(concreteStr(in, args[0], "verifFloat64"), term.F64)
		},
		"verifFloat32": func(in *Interp, fn *ssa.Function, args []Value) Value {
			return in.Eng.Fresh(concreteStr(in, args[0], "verifFloat32"), term.F32)
		},
		// verifString(name, maxLen): length 0..maxLen (fork), bytes symbolic
		"verifString": func(in *Interp, fn *ssa.Function, args []Value) Value {
			name := concreteStr(in, args[0], "verifString")
			max := concreteInt(in, args[1], "verifString")
			n := in.Eng.NamedChoose(name+".len", max+1)
			b := make([]*term.Term, n)
			for i := range b {
				b[i] = in.Eng.Fresh(fmt.Sprintf("%s[%d]", name, i), term.BV(8))
			}
			return Str{b}
		},
		// verifStringN(name, n): exactly n symbolic bytes
		"verifStringN": func(in *Interp, fn *ssa.Function, args []Value) Value {
			name := concreteStr(in, args[0], "verifStringN")
			n := concreteInt(in, args[1], "verifStringN")
			b := make([]*term.Term, n)
			for i := range b {
				b[i] = in.Eng.Fresh(fmt.Sprintf("%s[%d]", name, i), term.BV(8))
			}
			return Str{b}
		},
		"verifChoose": func(in *Interp, fn *ssa.Function, args []Value) Value {
			name := concreteStr(in, args[0], "verifChoose")
			n := concreteInt(in, args[1], "verifChoose")
			return intC(in.Eng.NamedChoose(name, n))
		},
		"verifCase": func(in *Interp, fn *ssa.Function, args []Value) Value {
			n := concreteInt(in, args[0], "verifCase")
			e := in.Eng
			if !e.caseUsed && e.Opt.Cases > 1 {
				e.caseUsed = true
				if n != e.Opt.Cases {
					panic(in.bug("verifCase(%d) but harness.json declares %d cases", n, e.Opt.Cases))
				}
				e.nondets = append(e.nondets, NondetRec{Name: e.uniqueName("verif.case"), Kind: "choose", Val: e.Opt.Case})
				return intC(e.Opt.Case)
			}
			e.caseUsed = true
			return intC(e.NamedChoose("verif.case", n))
		},
		"verifParam": func(in *Interp, fn *ssa.Function, args []Value) Value {
			name := concreteStr(in, args[0], "verifParam")
			v, ok := in.Cfg.Params[name]
			if !ok {
				panic(in.bug("verifParam(%q): no such parameter in harness.json", name))
			}
			return intC(v)
		},
		"verifAssume": func(in *Interp, fn *ssa.Function, args []Value) Value {
			in.Eng.Assume(args[0].(*term.Term))
			return nil
		},
		"verifAssert": func(in *Interp, fn *ssa.Function, args []Value) Value {
			in.Eng.Assert(args[0].(*term.Term), concreteStr(in, args[1], "verifAssert label"))
			return nil
		},
		"verifReach": func(in *Interp, fn *ssa.Function, args []Value) Value {
			in.Eng.ReachTag(concreteStr(in, args[0], "verifReach"))
			return nil
		},
		"verifTrace": func(in *Interp, fn *ssa.Function, args []Value) Value {
			in.Eng.Tracef("%s", concreteStr(in, args[0], "verifTrace"))
			return nil
		},
		"verifYield": func(in *Interp, fn *ssa.Function, args []Value) Value {
			in.yield()
			return nil
		},
		// verifExpectPanic(f func()) (v any, panicked bool)
		"verifExpectPanic": func(in *Interp, fn *ssa.Function, args []Value) (ret Value) {
			f := args[0].(FuncV)
			g := in.cur
			fr := g.fr
			depth := in.depth
			defer func() {
				if r := recover(); r != nil {
					gp, ok := r.(*GoPanic)
					if !ok {
						panic(r)
					}
					g.fr = fr
					in.depth = depth
					v, isI := gp.V.(Iface)
					if !isI {
						v = Iface{}
					}
					if v.T == nil {
						v = Iface{T: opaqueType("panicvalue"), V: StrOf(gp.Msg)}
					}
					ret = Tuple{v, term.True}
				}
			}()
			in.callValue(f, nil, nil)
			return Tuple{Iface{}, term.False}
		},
		// verifConcrete(x int) int: concretise by forking over small values
		"verifConcreteSmall": func(in *Interp, fn *ssa.Function, args []Value) Value {
			return intC(in.concLen(args[0].(*term.Term), "verifConcreteSmall"))
		},
		// verifIte(c, a, b int) int — value-level select without forking
		"verifIte": func(in *Interp, fn *ssa.Function, args []Value) Value {
			return term.Ite(args[0].(*term.Term), args[1].(*term.Term), args[2].(*term.Term))
		},
		"verifAnd": func(in *Interp, fn *ssa.Function, args []Value) Value {
			return term.And(args[0].(*term.Term), args[1].(*term.Term))
		},
		"verifOr": func(in *Interp, fn *ssa.Function, args []Value) Value {
			return term.Or(args[0].(*term.Term), args[1].(*term.Term))
		},
		"verifImplies": func(in *Interp, fn *ssa.Function, args []Value) Value {
			return term.Implies(args[0].(*term.Term), args[1].(*term.Term))
		},
		"verifSymbolic": func(in *Interp, fn *ssa.Function, args []Value) Value {
			return term.True
		},
	}
}
