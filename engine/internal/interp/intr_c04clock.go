package interp

// time.Now for code that reads the wall clock directly (standard library: no
// //verif:stub trampoline is possible). Within one path every call returns
// the same instant: `now` seconds after the Unix epoch, a symbolic value with
// 0 <= now < 2^40, wall nanoseconds 0, no monotonic reading, UTC. Harnesses
// relate their inputs to time.Now().Unix() read through the same function, so
// the native twin (real clock) agrees up to a one-second tick between two reads.
// Calls made while package initialisers run return a fixed instant.
// (If another time.Now model is registered later by init order, harnesses
// written this way work with it unchanged.)

import (
	"golang.org/x/tools/go/ssa"
)


func init() {
	reg("internal/stringslite.Clone", func(in *Interp, fn *ssa.Function, args []Value) Value { return args[0] })
}
