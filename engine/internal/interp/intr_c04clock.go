package interp

// time.Now for code that reads the wall clock directly (standard library: no
// //verif:stub trampoline is possible). Within one path every call returns
// the same instant: `now` seconds after the Unix epoch, a symbolic value with
// 0 <= now < 2^40, wall nanoseconds 0, no monotonic reading, UTC. Harnesses
// relate their inputs to time.Now().Unix() read through the same function, so
// the native twin (real clock) agrees up to a one-second tick between two reads.
// Calls made while package initialisers run return a fixed instant.
// (If another time.Now model is registered later by init order, harnesses
// written this way work with it unchanged.)

import (
	"golang.org/x/tools/go/ssa"

	"verif/engine/internal/term"
)

const c04UnixToInternal = (1969*365 + 1969/4 - 1969/100 + 1969/400) * 86400

func init() {
	reg("time.Now", func(in *Interp, fn *ssa.Function, args []Value) Value {
		if in.inInit > 0 {
			// package initialisers (timex.initTime, ...) get a fixed instant: nothing under test depends on it,
			// and calendar arithmetic on a symbolic instant would only burden every path condition
			return StructV{[]Value{term.BVC(64, 0), term.BVC(64, 1257894000+c04UnixToInternal), Ptr{}}}
		}
		now, ok := in.sideTab["c04clock.now"].(*term.Term)
		if !ok {
			now = in.Eng.Fresh("time.Now.unix", term.BV(64))
			in.Eng.addPC(term.SLe(term.BVC(64, 0), now))
			in.Eng.addPC(term.SLt(now, term.BVC(64, 1<<40)))
			in.sideTab["c04clock.now"] = now
		}
		return StructV{[]Value{term.BVC(64, 0), term.Add(now, term.BVC(64, c04UnixToInternal)), Ptr{}}}
	})
	reg("internal/stringslite.Clone", func(in *Interp, fn *ssa.Function, args []Value) Value { return args[0] })
}
