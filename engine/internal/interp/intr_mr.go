package interp

import (
	"go/types"

	"golang.org/x/tools/go/ssa"
)

// Intrinsics needed by the C07 (lib/mr) harnesses.

func init() {
	// runtime.NumGoroutine: the goroutines of the program under test that
	// have not finished (the harness goroutine included), as natively.
	reg("runtime.NumGoroutine", func(in *Interp, fn *ssa.Function, args []Value) Value {
		n := 0
		for _, g := range in.gs {
			if !g.done {
				n++
			}
		}
		return intC(n)
	})
	reg("runtime.NumCPU", func(in *Interp, fn *ssa.Function, args []Value) Value { return intC(4) })
	// context.closedchan: the package's reusable closed channel (context's
	// init, which closes it, is not run).
	foreignGlobals["context.closedchan"] = func(in *Interp, elem types.Type) Value {
		return ChanV{&ChanObj{Cap: 0, Closed: true, ID: in.newID(), ElemT: elem.Underlying().(*types.Chan).Elem()}}
	}
}
