// Package interp is a path-forking symbolic interpreter over go/ssa.
package interp

import (
	"fmt"
	"go/types"
	"strings"

	"golang.org/x/tools/go/ssa"

	"verif/engine/internal/term"
)

type Value interface{}

// Scalars (bool, ints, floats) are *term.Term.

// Str is a Go string: concrete length, one 8-bit term per byte.
type Str struct{ B []*term.Term }

// Ptr is a pointer (also unsafe.Pointer). C == nil is the nil pointer.
type Ptr struct{ C *Cell }

type StructV struct{ F []Value }
type ArrayV struct{ E []Value }

// Slice shares backing cells through the host slice (len/cap are concrete).
type Slice struct{ Cells []*Cell }

type MapV struct{ M *MapObj }
type ChanV struct{ C *ChanObj }

// Iface is an interface value; T == nil is the nil interface.
type Iface struct {
	T types.Type
	V Value
}

// FuncV is a function value; nil iff Fn == nil && Native == nil && Builtin == nil.
type FuncV struct {
	Fn      *ssa.Function
	Bind    []Value
	Builtin *ssa.Builtin
	Native  func(in *Interp, args []Value) Value
	Name    string
}

type Tuple []Value

// Opaque is an unmodelled foreign object with identity only.
type Opaque struct {
	ID int
	T  types.Type
}

type Cell struct {
	T  types.Type
	V  Value
	F  []*Cell // struct fields / array elements
	ID int
	// parent array for pointer arithmetic-free slicing of arrays
}

type mapEntry struct {
	K, V Value
	Dead bool
}

type MapObj struct {
	KT, VT  types.Type
	Entries []*mapEntry
	ID      int
}

type RangeIter struct {
	Str   *Str
	Map   *MapObj
	Snap  []*mapEntry
	Pos   int
	IsStr bool
}

func (in *Interp) newID() int { in.idGen++; return in.idGen }

func (in *Interp) newCell(t types.Type) *Cell {
	c := &Cell{T: t, ID: in.newID()}
	switch u := t.Underlying().(type) {
	case *types.Struct:
		c.F = make([]*Cell, u.NumFields())
		for i := range c.F {
			c.F[i] = in.newCell(u.Field(i).Type())
		}
	case *types.Array:
		n := int(u.Len())
		c.F = make([]*Cell, n)
		for i := range c.F {
			c.F[i] = in.newCell(u.Elem())
		}
	default:
		c.V = in.zero(t)
	}
	return c
}

func isAgg(t types.Type) bool {
	switch t.Underlying().(type) {
	case *types.Struct, *types.Array:
		return true
	}
	return false
}

func (in *Interp) load(c *Cell) Value {
	switch c.T.Underlying().(type) {
	case *types.Struct:
		fs := make([]Value, len(c.F))
		for i, f := range c.F {
			fs[i] = in.load(f)
		}
		return StructV{fs}
	case *types.Array:
		es := make([]Value, len(c.F))
		for i, f := range c.F {
			es[i] = in.load(f)
		}
		return ArrayV{es}
	}
	return c.V
}

func (in *Interp) store(c *Cell, v Value) {
	switch c.T.Underlying().(type) {
	case *types.Struct:
		sv, ok := v.(StructV)
		if !ok {
			panic(in.bug("store struct: got %T into %s", v, c.T))
		}
		for i, f := range c.F {
			in.store(f, sv.F[i])
		}
		return
	case *types.Array:
		av, ok := v.(ArrayV)
		if !ok {
			panic(in.bug("store array: got %T into %s", v, c.T))
		}
		for i, f := range c.F {
			in.store(f, av.E[i])
		}
		return
	}
	c.V = v
}

func bvWidth(b *types.Basic) (w int, signed bool, ok bool) {
	switch b.Kind() {
	case types.Int, types.Int64, types.UntypedInt:
		return 64, true, true
	case types.Int32, types.UntypedRune:
		return 32, true, true
	case types.Int16:
		return 16, true, true
	case types.Int8:
		return 8, true, true
	case types.Uint, types.Uint64, types.Uintptr:
		return 64, false, true
	case types.Uint32:
		return 32, false, true
	case types.Uint16:
		return 16, false, true
	case types.Uint8:
		return 8, false, true
	}
	return 0, false, false
}

func sortOf(t types.Type) (term.Sort, bool) {
	if b, ok := t.Underlying().(*types.Basic); ok {
		if w, _, ok := bvWidth(b); ok {
			return term.BV(w), true
		}
		switch b.Kind() {
		case types.Bool, types.UntypedBool:
			return term.Bool, true
		case types.Float64, types.UntypedFloat:
			return term.F64, true
		case types.Float32:
			return term.F32, true
		}
	}
	return term.Sort{}, false
}

func isSigned(t types.Type) bool {
	if b, ok := t.Underlying().(*types.Basic); ok {
		_, s, _ := bvWidth(b)
		return s
	}
	return false
}

func (in *Interp) zero(t types.Type) Value {
	switch u := t.Underlying().(type) {
	case *types.Basic:
		if s, ok := sortOf(t); ok {
			switch s.K {
			case term.KBool:
				return term.False
			case term.KBV:
				return term.BVC(s.W, 0)
			case term.KFP:
				return term.FC(s.W, 0)
			}
		}
		switch u.Kind() {
		case types.String, types.UntypedString:
			return Str{}
		case types.UnsafePointer:
			return Ptr{}
		case types.UntypedNil:
			return Ptr{}
		case types.Complex128, types.Complex64:
			return Opaque{T: t}
		}
		panic(in.bug("zero: basic %s", t))
	case *types.Pointer:
		return Ptr{}
	case *types.Struct:
		fs := make([]Value, u.NumFields())
		for i := range fs {
			fs[i] = in.zero(u.Field(i).Type())
		}
		return StructV{fs}
	case *types.Array:
		es := make([]Value, int(u.Len()))
		for i := range es {
			es[i] = in.zero(u.Elem())
		}
		return ArrayV{es}
	case *types.Slice:
		return Slice{}
	case *types.Map:
		return MapV{}
	case *types.Chan:
		return ChanV{}
	case *types.Interface:
		return Iface{}
	case *types.Signature:
		return FuncV{}
	case *types.Tuple:
		tv := make(Tuple, u.Len())
		for i := range tv {
			tv[i] = in.zero(u.At(i).Type())
		}
		return tv
	}
	panic(in.bug("zero: type %s (%T)", t, t.Underlying()))
}

// ---- strings ----

func StrOf(s string) Str {
	b := make([]*term.Term, len(s))
	for i := 0; i < len(s); i++ {
		b[i] = term.BVC(8, uint64(s[i]))
	}
	return Str{b}
}

func (s Str) Concrete() (string, bool) {
	var b strings.Builder
	for _, t := range s.B {
		if !t.IsConst() {
			return "", false
		}
		b.WriteByte(byte(t.U))
	}
	return b.String(), true
}

func (s Str) String() string {
	if c, ok := s.Concrete(); ok {
		return fmt.Sprintf("%q", c)
	}
	var b strings.Builder
	b.WriteString("\"")
	for _, t := range s.B {
		if t.IsConst() {
			b.WriteByte(byte(t.U))
		} else {
			b.WriteString("{" + t.String() + "}")
		}
	}
	b.WriteString("\"")
	return b.String()
}

func strEq(a, b Str) *term.Term {
	if len(a.B) != len(b.B) {
		return term.False
	}
	cs := make([]*term.Term, len(a.B))
	for i := range a.B {
		cs[i] = term.Eq(a.B[i], b.B[i])
	}
	return term.And(cs...)
}

// strLess: lexicographic a < b.
func strLess(a, b Str) *term.Term {
	n := len(a.B)
	if len(b.B) < n {
		n = len(b.B)
	}
	// result if all common bytes are equal
	res := term.BoolC(len(a.B) < len(b.B))
	for i := n - 1; i >= 0; i-- {
		res = term.Ite(term.ULt(a.B[i], b.B[i]), term.True,
			term.Ite(term.ULt(b.B[i], a.B[i]), term.False, res))
	}
	return res
}

// ---- equality ----

func (in *Interp) isNilValue(v Value) bool {
	switch x := v.(type) {
	case Ptr:
		return x.C == nil
	case Slice:
		return x.Cells == nil
	case MapV:
		return x.M == nil
	case ChanV:
		return x.C == nil
	case Iface:
		return x.T == nil
	case FuncV:
		return x.Fn == nil && x.Native == nil && x.Builtin == nil
	}
	return false
}

// equal returns the symbolic equality of two values of the same static type.
func (in *Interp) equal(a, b Value) *term.Term {
	switch x := a.(type) {
	case *term.Term:
		y, ok := b.(*term.Term)
		if !ok {
			panic(in.bug("equal: term vs %T", b))
		}
		if x.Sort.K == term.KFP {
			return term.FEq(x, y)
		}
		return term.Eq(x, y)
	case Str:
		y, ok := b.(Str)
		if !ok {
			return term.False
		}
		return strEq(x, y)
	case Ptr:
		switch y := b.(type) {
		case Ptr:
			return term.BoolC(x.C == y.C)
		case Opaque:
			return term.False
		}
		return term.False
	case Opaque:
		if y, ok := b.(Opaque); ok {
			return term.BoolC(x.ID == y.ID)
		}
		return term.False
	case StructV:
		y := b.(StructV)
		cs := make([]*term.Term, len(x.F))
		for i := range x.F {
			cs[i] = in.equal(x.F[i], y.F[i])
		}
		return term.And(cs...)
	case ArrayV:
		y := b.(ArrayV)
		cs := make([]*term.Term, len(x.E))
		for i := range x.E {
			cs[i] = in.equal(x.E[i], y.E[i])
		}
		return term.And(cs...)
	case Iface:
		y, ok := b.(Iface)
		if !ok {
			panic(in.bug("equal: iface vs %T", b))
		}
		if x.T == nil || y.T == nil {
			return term.BoolC(x.T == nil && y.T == nil)
		}
		if !types.Identical(x.T, y.T) {
			return term.False
		}
		return in.equal(x.V, y.V)
	case ChanV:
		return term.BoolC(x.C == b.(ChanV).C)
	case MapV:
		y := b.(MapV)
		return term.BoolC(x.M == y.M) // only nil comparisons are legal
	case Slice:
		y := b.(Slice)
		return term.BoolC(x.Cells == nil && y.Cells == nil)
	case FuncV:
		return term.BoolC(in.isNilValue(a) && in.isNilValue(b))
	case ReflectV:
		return term.BoolC(false)
	case RType:
		y, ok := b.(RType)
		return term.BoolC(ok && types.Identical(x.T, y.T))
	}
	panic(in.bug("equal: unsupported %T", a))
}

func (in *Interp) showValue(v Value) string {
	switch x := v.(type) {
	case nil:
		return "<nil-value>"
	case *term.Term:
		if x.IsConst() {
			switch x.Sort.K {
			case term.KBool:
				return fmt.Sprint(x.U != 0)
			case term.KBV:
				return fmt.Sprint(x.SignedVal())
			case term.KFP:
				return fmt.Sprint(x.F)
			}
		}
		s := x.String()
		if len(s) > 80 {
			s = s[:80] + "…"
		}
		return s
	case Str:
		return x.String()
	case Ptr:
		if x.C == nil {
			return "nil"
		}
		return fmt.Sprintf("&cell%d(%s)", x.C.ID, x.C.T)
	case Iface:
		if x.T == nil {
			return "nil-iface"
		}
		return fmt.Sprintf("iface(%s: %s)", x.T, in.showValue(x.V))
	case StructV:
		var parts []string
		for _, f := range x.F {
			parts = append(parts, in.showValue(f))
		}
		return "{" + strings.Join(parts, ", ") + "}"
	case Tuple:
		var parts []string
		for _, f := range x {
			parts = append(parts, in.showValue(f))
		}
		return "(" + strings.Join(parts, ", ") + ")"
	case Slice:
		if x.Cells == nil {
			return "nil-slice"
		}
		var parts []string
		for _, c := range x.Cells {
			parts = append(parts, in.showValue(in.load(c)))
		}
		return "[" + strings.Join(parts, ", ") + "]"
	case Opaque:
		return fmt.Sprintf("opaque#%d(%s)", x.ID, x.T)
	case FuncV:
		if x.Fn != nil {
			return "func " + x.Fn.String()
		}
		return "func?"
	}
	return fmt.Sprintf("%T", v)
}
