package interp

import "verif/engine/internal/term"

// Order closure over the path condition (companion of the interval analysis
// in absint.go). Conjuncts of the path condition that compare two bit-vector
// terms are recorded as edges a<b / a<=b (one graph per signedness) and as
// disequalities; a later comparison of two terms is answered without a solver
// call when it follows by transitivity. As with the intervals, only facts that
// are conjuncts of the current path condition are used and every solver query
// carries that path condition, so pruning by these answers is sound.
//
// This is what keeps harnesses over totally ordered symbolic values (C13: the
// ring positions) affordable: once a path has fixed the order of n values,
// the O(n^2) implied comparisons of later searches/lookups cost nothing.

type ordEdge struct {
	to     int
	strict bool
}

type ordState struct {
	g   [2]map[int][]ordEdge // 0 unsigned, 1 signed
	neq map[[2]int]bool
}

func newOrd() *ordState {
	return &ordState{g: [2]map[int][]ordEdge{{}, {}}, neq: map[[2]int]bool{}}
}

func ordKey(a, b int) [2]int {
	if a > b {
		a, b = b, a
	}
	return [2]int{a, b}
}

func (o *ordState) addLe(a, b *term.Term, strict, signed bool) {
	if a.Sort.K != term.KBV || a.ID == b.ID {
		return
	}
	k := 0
	if signed {
		k = 1
	}
	o.g[k][a.ID] = append(o.g[k][a.ID], ordEdge{b.ID, strict})
}

func (o *ordState) addNeq(a, b *term.Term) {
	if a.Sort.K != term.KBV {
		return
	}
	o.neq[ordKey(a.ID, b.ID)] = true
}

// reach: 0 = b not reachable from a; 1 = reachable through <= edges only;
// 2 = reachable through a path with at least one strict edge.
func (o *ordState) reach(k, a, b int) int {
	if len(o.g[k]) == 0 {
		return 0
	}
	// best[n]: 1 reached non-strictly, 2 reached strictly
	best := map[int]int{a: 1}
	stack := []int{a}
	for len(stack) > 0 {
		n := stack[len(stack)-1]
		stack = stack[:len(stack)-1]
		lv := best[n]
		for _, e := range o.g[k][n] {
			nl := lv
			if e.strict {
				nl = 2
			}
			if best[e.to] < nl {
				best[e.to] = nl
				stack = append(stack, e.to)
			}
		}
	}
	if a == b {
		// a reaches itself strictly only on an inconsistent path condition
		return 1
	}
	return best[b]
}

// lt: a < b follows; le: a <= b follows.
func (o *ordState) lt(k int, a, b *term.Term) bool {
	switch o.reach(k, a.ID, b.ID) {
	case 2:
		return true
	case 1:
		return o.neq[ordKey(a.ID, b.ID)]
	}
	return false
}

func (o *ordState) le(k int, a, b *term.Term) bool {
	return a.ID == b.ID || o.reach(k, a.ID, b.ID) > 0
}

// cmp answers a comparison term: 1 implied, -1 refuted, 0 unknown.
func (o *ordState) cmp(t *term.Term) int {
	if len(t.Args) != 2 || t.Args[0].Sort.K != term.KBV {
		return 0
	}
	a, b := t.Args[0], t.Args[1]
	switch t.Op {
	case term.OEq:
		if o.neq[ordKey(a.ID, b.ID)] {
			return -1
		}
		for k := 0; k < 2; k++ {
			if o.lt(k, a, b) || o.lt(k, b, a) {
				return -1
			}
			if o.le(k, a, b) && o.le(k, b, a) {
				return 1
			}
		}
	case term.OULt, term.OSLt:
		k := 0
		if t.Op == term.OSLt {
			k = 1
		}
		if o.lt(k, a, b) {
			return 1
		}
		if o.le(k, b, a) {
			return -1
		}
	case term.OULe, term.OSLe:
		k := 0
		if t.Op == term.OSLe {
			k = 1
		}
		if o.le(k, a, b) {
			return 1
		}
		if o.lt(k, b, a) {
			return -1
		}
	}
	return 0
}

// learn records the order facts of one path-condition conjunct.
func (o *ordState) learn(c *term.Term) {
	switch c.Op {
	case term.OAnd:
		for _, a := range c.Args {
			o.learn(a)
		}
	case term.ONot:
		x := c.Args[0]
		switch x.Op {
		case term.OULt: // !(a<b) => b<=a
			o.addLe(x.Args[1], x.Args[0], false, false)
		case term.OULe:
			o.addLe(x.Args[1], x.Args[0], true, false)
		case term.OSLt:
			o.addLe(x.Args[1], x.Args[0], false, true)
		case term.OSLe:
			o.addLe(x.Args[1], x.Args[0], true, true)
		case term.OEq:
			o.addNeq(x.Args[0], x.Args[1])
		case term.OOr:
			for _, a := range x.Args {
				o.learn(term.Not(a))
			}
		}
	case term.OULt:
		o.addLe(c.Args[0], c.Args[1], true, false)
	case term.OULe:
		o.addLe(c.Args[0], c.Args[1], false, false)
	case term.OSLt:
		o.addLe(c.Args[0], c.Args[1], true, true)
	case term.OSLe:
		o.addLe(c.Args[0], c.Args[1], false, true)
	case term.OEq:
		if c.Args[0].Sort.K == term.KBV {
			for _, s := range []bool{false, true} {
				o.addLe(c.Args[0], c.Args[1], false, s)
				o.addLe(c.Args[1], c.Args[0], false, s)
			}
		}
	}
}
