package interp

// Models of the parts of package time that reach the runtime (the rest of the
// package - Duration/Time arithmetic, Unix, Zone on a fixed zone, FixedZone -
// is executed from its own SSA).
//
//   time.Now()         a wall-clock reading without a monotonic part, located
//                      in whatever the global time.Local currently holds.
//                      * If the harness package defines
//                            func verifTimeNow() (sec, nsec int64)
//                        the reading is time.Unix(sec, nsec): a harness-driven
//                        clock (the harness draws sec/nsec with verifInt64 and
//                        assumes their ranges BEFORE the code under test runs,
//                        so the range facts narrow its div/mod).
//                      * Otherwise each call is a fresh symbolic reading
//                        (nondets "time.Now.sec"/"time.Now.nsec", numbered per
//                        call); successive readings on one path are
//                        non-decreasing (steady wall clock: model assumption).
//                      A harness that needs Zone() must set
//                      time.Local = time.FixedZone(name, offset) first (natively
//                      the same assignment works); with an unset time.Local the
//                      zone lookup hits the unmodelled localLoc => INCONCLUSIVE.
//                      The reading cannot be imposed on a native run (time.Now
//                      is not in the repository, no trampoline): natively a
//                      harness observes the real reading by bracketing the call
//                      under test between two readings of its own, so the native
//                      replay checks the oracle at the real current time.
//   time.Sleep(d)      time is abstracted: the sleeper yields until every other
//                      goroutine is blocked.
//   time.NewTicker(d)  a ticker whose channel (capacity 1, as in the runtime)
//                      offers a tick whenever it is empty, until Stop: "the next
//                      tick always arrives eventually", with no relation between
//                      ticks and other events except their order. Implemented as
//                      an engine goroutine "time.Ticker" that refills the channel.
//   (*Ticker).Stop     stops the refill; the channel is not closed (as in Go).

import (
	"fmt"
	"go/types"

	"golang.org/x/tools/go/ssa"

	"verif/engine/internal/term"
)

const unixToInternalFresh int64 = (1969*365 + 1969/4 - 1969/100 + 1969/400) * 86400

type tickerState struct {
	stopped bool
	ch      *ChanObj
}

func fieldIndex(in *Interp, t types.Type, name string) int {
	st, ok := t.Underlying().(*types.Struct)
	if ok {
		for i := 0; i < st.NumFields(); i++ {
			if st.Field(i).Name() == name {
				return i
			}
		}
	}
	panic(in.bug("type %s has no field %s", t, name))
}

// timeNowFresh is the "clock:fresh" model (also chosen when the harness
// package defines verifTimeNow): see the comment at the top of this file.
func timeNowFresh(in *Interp, fn *ssa.Function, args []Value) Value {
	{
		c := func(v int64) *term.Term { return term.BVC(64, uint64(v)) }
		var sec, nsec *term.Term
		if hook := in.harnessPkg.Func("verifTimeNow"); hook != nil {
			r, ok := in.callFunction(hook, nil, nil).(Tuple)
			if !ok || len(r) != 2 {
				panic(in.bug("verifTimeNow must be func() (sec, nsec int64)"))
			}
			sec, nsec = tt(r[0]), tt(r[1])
			if !in.Eng.Branch(term.And(term.SLe(c(0), nsec), term.SLt(nsec, c(1000000000)))) {
				panic(in.inconclusive("verifTimeNow: nsec outside [0, 1e9) (the harness must assume the range)"))
			}
		} else {
			sec = in.Eng.Fresh("time.Now.sec", term.BV(64))
			nsec = in.Eng.Fresh("time.Now.nsec", term.BV(64))
			in.Eng.addPC(term.And(term.SLe(c(0), nsec), term.SLt(nsec, c(1000000000))))
			in.Eng.addPC(term.And(term.SLt(c(-(1<<40)), sec), term.SLt(sec, c(1<<40))))
			if prev, ok := in.sideTab["time.Now.prev"].([2]*term.Term); ok {
				in.Eng.addPC(term.Or(term.SLt(prev[0], sec), term.And(term.Eq(prev[0], sec), term.SLe(prev[1], nsec))))
			}
			in.sideTab["time.Now.prev"] = [2]*term.Term{sec, nsec}
		}
		tt := fn.Signature.Results().At(0).Type()
		v := in.zero(tt).(StructV)
		v.F[fieldIndex(in, tt, "wall")] = nsec
		v.F[fieldIndex(in, tt, "ext")] = term.Add(sec, c(unixToInternalFresh))
		lg, ok := fn.Pkg.Members["Local"].(*ssa.Global)
		if !ok {
			panic(in.bug("time.Local not found"))
		}
		v.F[fieldIndex(in, tt, "loc")] = in.load(in.globalCell(lg))
		return v
	}
}

func init() {

	reg("time.Sleep", func(in *Interp, fn *ssa.Function, args []Value) Value {
		if in.inInit > 0 {
			return nil
		}
		if in.timersOn() {
			in.timerSleep(tt(args[0])) // "clock:timers": intr_timer.go
		}
		in.yield()
		return nil
	})

	reg("time.NewTicker", func(in *Interp, fn *ssa.Function, args []Value) Value {
		d := tt(args[0])
		if in.Eng.Branch(term.SLe(d, term.BVC(64, 0))) {
			panic(&GoPanic{V: Iface{T: opaqueType("errors.errorString"), V: StrOf("non-positive interval for NewTicker")}, Msg: "non-positive interval for NewTicker", Stack: in.where()})
		}
		pt := fn.Signature.Results().At(0).Type().(*types.Pointer)
		cell := in.newCell(pt.Elem())
		ci := fieldIndex(in, pt.Elem(), "C")
		timeT := cell.F[ci].T.Underlying().(*types.Chan).Elem()
		ch := &ChanObj{Cap: 1, ID: in.newID(), ElemT: timeT}
		cell.F[ci].V = ChanV{ch}
		st := &tickerState{ch: ch}
		in.sideTab[fmt.Sprintf("ticker:%d", cell.ID)] = st
		if in.inInit > 0 {
			return Ptr{cell}
		}
		tick := in.zero(timeT)
		in.spawn(in.cur.fr, FuncV{Name: "time.Ticker", Native: func(in *Interp, _ []Value) Value {
			for {
				in.block(func() bool { return st.stopped || len(ch.Buf) < ch.Cap }, "ticker waiting for its channel to drain")
				if st.stopped {
					return nil
				}
				in.doSend(ch, tick)
			}
		}}, nil, nil)
		return Ptr{cell}
	})

	reg("(*time.Ticker).Stop", func(in *Interp, fn *ssa.Function, args []Value) Value {
		cell := cellArg(in, args[0])
		if st, ok := in.sideTab[fmt.Sprintf("ticker:%d", cell.ID)].(*tickerState); ok {
			st.stopped = true
		}
		return nil
	})
}
