package interp

import "golang.org/x/tools/go/ssa"

// verifChildFirst(): the next `go` statement executed by the calling goroutine
// lets the new goroutine run first (until it blocks or finishes) before the
// spawner continues - the other legal order of a `go` statement. Natively a
// no-op (the schedule cannot be forced there).
func init() {
	nondetAPI["verifChildFirst"] = func(in *Interp, fn *ssa.Function, args []Value) Value {
		in.sideTab["sched.childFirst"] = true
		return nil
	}
}
