package interp

import "verif/engine/internal/term"

// Lemma adds c to the path condition without a feasibility query and without
// recording a decision. Only for facts the caller knows to be IMPLIED by the
// current path condition (a redundant constraint): it changes no verdict, it
// only spares the interval analysis and the solver a derivation.
func (e *Engine) Lemma(c *term.Term) {
	if c.IsTrue() {
		return
	}
	e.addPC(c)
}
