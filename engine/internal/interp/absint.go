package interp

import (
	"math"
	"math/bits"

	"verif/engine/internal/term"
)

// Interval analysis over the path condition. It is used for two sound
// optimisations: (1) pruning fork alternatives that the path condition's
// range facts already refute/imply, without a solver call; (2) evaluating
// div/rem/mul on operands with small known non-negative ranges in a narrow
// bit-width (x/y == zext(x[k:0] / y[k:0]) when 0 <= x,y < 2^k), which keeps
// 64-bit dividers out of the solver. Both rely only on facts that are
// conjuncts of the current path condition, and every query carries that path
// condition, so the rewritten terms are equal to the originals on every model
// the solver considers.

type ival struct{ lo, hi int64 }

func fullIval(w int) ival {
	if w >= 64 {
		return ival{math.MinInt64, math.MaxInt64}
	}
	return ival{-(1 << uint(w-1)), (1 << uint(w-1)) - 1}
}

func (a ival) meet(b ival) ival {
	if b.lo > a.lo {
		a.lo = b.lo
	}
	if b.hi < a.hi {
		a.hi = b.hi
	}
	return a
}

func (a ival) join(b ival) ival {
	if b.lo < a.lo {
		a.lo = b.lo
	}
	if b.hi > a.hi {
		a.hi = b.hi
	}
	return a
}

func (a ival) empty() bool { return a.lo > a.hi }

type absState struct {
	facts map[int]ival
	cache map[int]ival
	ord   *ordState // order closure over comparison conjuncts (absorder.go)
}

func newAbs() *absState {
	return &absState{facts: map[int]ival{}, cache: map[int]ival{}, ord: newOrd()}
}

func addOv(a, b int64) (int64, bool) {
	c := a + b
	if (a > 0 && b > 0 && c < 0) || (a < 0 && b < 0 && c >= 0) {
		return 0, true
	}
	return c, false
}

func mulOv(a, b int64) (int64, bool) {
	if a == 0 || b == 0 {
		return 0, false
	}
	neg := (a < 0) != (b < 0)
	ua, ub := uint64(a), uint64(b)
	if a < 0 {
		ua = uint64(-a)
	}
	if b < 0 {
		ub = uint64(-b)
	}
	hi, lo := bits.Mul64(ua, ub)
	if hi != 0 || lo > uint64(math.MaxInt64) {
		return 0, true
	}
	if neg {
		return -int64(lo), false
	}
	return int64(lo), false
}

func fits(v ival, w int) bool {
	f := fullIval(w)
	return v.lo >= f.lo && v.hi <= f.hi
}

func (s *absState) iv(t *term.Term) ival {
	if t.Sort.K != term.KBV {
		return ival{0, 0}
	}
	if v, ok := s.cache[t.ID]; ok {
		return v
	}
	w := t.Sort.W
	full := fullIval(w)
	r := full
	switch t.Op {
	case term.OConst:
		v := t.SignedVal()
		r = ival{v, v}
	case term.OAdd, term.OSub:
		a, b := s.iv(t.Args[0]), s.iv(t.Args[1])
		if t.Op == term.OSub {
			if b.lo == math.MinInt64 {
				break
			}
			b = ival{-b.hi, -b.lo}
		}
		lo, o1 := addOv(a.lo, b.lo)
		hi, o2 := addOv(a.hi, b.hi)
		if !o1 && !o2 && fits(ival{lo, hi}, w) {
			r = ival{lo, hi}
		}
	case term.ONeg:
		a := s.iv(t.Args[0])
		if a.lo != math.MinInt64 && fits(ival{-a.hi, -a.lo}, w) && a.lo != full.lo {
			r = ival{-a.hi, -a.lo}
		}
	case term.OMul:
		a, b := s.iv(t.Args[0]), s.iv(t.Args[1])
		ps := [4][2]int64{{a.lo, b.lo}, {a.lo, b.hi}, {a.hi, b.lo}, {a.hi, b.hi}}
		ok := true
		lo, hi := int64(math.MaxInt64), int64(math.MinInt64)
		for _, p := range ps {
			v, ov := mulOv(p[0], p[1])
			if ov {
				ok = false
				break
			}
			if v < lo {
				lo = v
			}
			if v > hi {
				hi = v
			}
		}
		if ok && fits(ival{lo, hi}, w) {
			r = ival{lo, hi}
		}
	case term.OSDiv, term.OUDiv:
		a, b := s.iv(t.Args[0]), s.iv(t.Args[1])
		if t.Op == term.OUDiv && (a.lo < 0 || b.lo < 0) {
			break
		}
		if b.lo > 0 {
			if a.lo >= 0 {
				r = ival{a.lo / b.hi, a.hi / b.lo}
			} else if b.lo == b.hi {
				r = ival{a.lo / b.lo, a.hi / b.lo}
			} else {
				// |x/y| <= |x|
				m := a.hi
				if a.lo != math.MinInt64 && -a.lo > m {
					m = -a.lo
				}
				if a.lo != math.MinInt64 {
					r = ival{-m, m}
				}
			}
		}
	case term.OSRem, term.OURem:
		a, b := s.iv(t.Args[0]), s.iv(t.Args[1])
		if t.Op == term.OURem && (a.lo < 0 || b.lo < 0) {
			break
		}
		if b.lo > 0 {
			m := b.hi - 1
			if a.lo >= 0 {
				if a.hi < b.lo {
					r = a
				} else if b.lo == b.hi && a.lo/b.lo == a.hi/b.lo {
					// same quotient over the whole range: remainder is monotone
					r = ival{a.lo % b.lo, a.hi % b.lo}
				} else {
					r = ival{0, min64(m, a.hi)}
				}
			} else {
				r = ival{-m, m}
			}
		}
	case term.OBAnd:
		a, b := s.iv(t.Args[0]), s.iv(t.Args[1])
		if a.lo >= 0 && b.lo >= 0 {
			r = ival{0, min64(a.hi, b.hi)}
		} else if a.lo >= 0 {
			r = ival{0, a.hi}
		} else if b.lo >= 0 {
			r = ival{0, b.hi}
		}
	case term.OBOr, term.OBXor:
		a, b := s.iv(t.Args[0]), s.iv(t.Args[1])
		if a.lo >= 0 && b.lo >= 0 {
			m := uint64(a.hi) | uint64(b.hi)
			n := bits.Len64(m)
			if n < 63 {
				r = ival{0, int64(1)<<uint(n) - 1}
			}
		}
	case term.OLShr, term.OAShr:
		a, b := s.iv(t.Args[0]), s.iv(t.Args[1])
		if a.lo >= 0 && b.lo >= 0 {
			sh := b.lo
			if sh > 63 {
				sh = 63
			}
			r = ival{0, a.hi >> uint(sh)}
			if b.lo == b.hi {
				r.lo = a.lo >> uint(sh)
			}
		}
	case term.OShl:
		a, b := s.iv(t.Args[0]), s.iv(t.Args[1])
		if a.lo >= 0 && b.lo >= 0 && b.hi < 62 {
			hi, ov := mulOv(a.hi, int64(1)<<uint(b.hi))
			lo, _ := mulOv(a.lo, int64(1)<<uint(b.lo))
			if !ov && fits(ival{lo, hi}, w) {
				r = ival{lo, hi}
			}
		}
	case term.OZExt:
		a := s.iv(t.Args[0])
		aw := t.Args[0].Sort.W
		if a.lo >= 0 {
			r = a
		} else if aw < 63 {
			r = ival{0, int64(1)<<uint(aw) - 1}
		}
	case term.OSExt:
		r = s.iv(t.Args[0])
	case term.OExtract:
		lo := int(t.U & 0xff)
		a := s.iv(t.Args[0])
		if lo == 0 && fits(a, w) {
			r = a
		}
	case term.OIte:
		a, b := s.iv(t.Args[1]), s.iv(t.Args[2])
		switch s.abool(t.Args[0]) {
		case 1:
			r = a
		case -1:
			r = b
		default:
			r = a.join(b)
		}
	}
	if f, ok := s.facts[t.ID]; ok {
		r = r.meet(f)
	}
	r = r.meet(full)
	s.cache[t.ID] = r
	return r
}

func min64(a, b int64) int64 {
	if a < b {
		return a
	}
	return b
}

// abool: 1 = implied true, -1 = implied false, 0 = unknown.
func (s *absState) abool(t *term.Term) int {
	switch t.Op {
	case term.OConst:
		if t.U != 0 {
			return 1
		}
		return -1
	case term.ONot:
		return -s.abool(t.Args[0])
	case term.OAnd:
		all := 1
		for _, a := range t.Args {
			switch s.abool(a) {
			case -1:
				return -1
			case 0:
				all = 0
			}
		}
		return all
	case term.OOr:
		all := -1
		for _, a := range t.Args {
			switch s.abool(a) {
			case 1:
				return 1
			case 0:
				all = 0
			}
		}
		return all
	case term.OEq:
		if t.Args[0].Sort.K != term.KBV {
			return 0
		}
		a, b := s.iv(t.Args[0]), s.iv(t.Args[1])
		if a.empty() || b.empty() {
			return 0
		}
		if a.hi < b.lo || b.hi < a.lo {
			return -1
		}
		if a.lo == a.hi && b.lo == b.hi && a.lo == b.lo {
			return 1
		}
		return s.ord.cmp(t)
	case term.OSLt, term.OSLe, term.OULt, term.OULe:
		a, b := s.iv(t.Args[0]), s.iv(t.Args[1])
		if a.empty() || b.empty() {
			return 0
		}
		if t.Op == term.OULt || t.Op == term.OULe {
			if a.lo < 0 || b.lo < 0 {
				return s.ord.cmp(t)
			}
		}
		strict := t.Op == term.OSLt || t.Op == term.OULt
		if strict {
			if a.hi < b.lo {
				return 1
			}
			if a.lo >= b.hi {
				return -1
			}
		} else {
			if a.hi <= b.lo {
				return 1
			}
			if a.lo > b.hi {
				return -1
			}
		}
		return s.ord.cmp(t)
	}
	return 0
}

func (s *absState) setFact(t *term.Term, v ival) {
	if t.Op == term.OConst {
		return
	}
	cur, ok := s.facts[t.ID]
	if !ok {
		cur = fullIval(t.Sort.W)
	}
	n := cur.meet(v)
	if n != cur || !ok {
		s.facts[t.ID] = n
		s.cache = map[int]ival{}
	}
}

// learn records range facts implied by a path-condition conjunct.
func (s *absState) learn(c *term.Term) {
	switch c.Op {
	case term.OAnd:
		for _, a := range c.Args {
			s.learn(a)
		}
	case term.ONot:
		x := c.Args[0]
		switch x.Op {
		case term.OSLt: // !(a<b) => b<=a
			s.le(x.Args[1], x.Args[0], false, true)
		case term.OSLe:
			s.le(x.Args[1], x.Args[0], true, true)
		case term.OULt:
			s.le(x.Args[1], x.Args[0], false, false)
		case term.OULe:
			s.le(x.Args[1], x.Args[0], true, false)
		case term.OOr:
			for _, a := range x.Args {
				s.learn(term.Not(a))
			}
		}
	case term.OSLt:
		s.le(c.Args[0], c.Args[1], true, true)
	case term.OSLe:
		s.le(c.Args[0], c.Args[1], false, true)
	case term.OULt:
		s.le(c.Args[0], c.Args[1], true, false)
	case term.OULe:
		s.le(c.Args[0], c.Args[1], false, false)
	case term.OEq:
		if c.Args[0].Sort.K == term.KBV {
			a, b := s.iv(c.Args[0]), s.iv(c.Args[1])
			m := a.meet(b)
			if !m.empty() {
				s.setFact(c.Args[0], m)
				s.setFact(c.Args[1], m)
			}
		}
	}
}

// le learns a <= b (or a < b when strict), signed or unsigned.
func (s *absState) le(a, b *term.Term, strict, signed bool) {
	ia, ib := s.iv(a), s.iv(b)
	if !signed {
		// unsigned comparison: usable when the larger side is known < 2^63
		if ib.lo < 0 {
			return
		}
		// a <=u b with b in [0,hi] implies a in [0,hi] as signed too
		hi := ib.hi
		if strict {
			hi--
		}
		s.setFact(a, ival{0, hi})
		if ia.lo >= 0 {
			lo := ia.lo
			if strict {
				lo++
			}
			s.setFact(b, ival{lo, math.MaxInt64})
		}
		return
	}
	hi := ib.hi
	lo := ia.lo
	if strict {
		if hi != math.MinInt64 {
			hi--
		}
		if lo != math.MaxInt64 {
			lo++
		}
	}
	s.setFact(a, ival{math.MinInt64, hi})
	s.setFact(b, ival{lo, math.MaxInt64})
}

// narrowBits returns k such that 0 <= v < 2^k for all v in the interval, or
// -1 if the interval has negative members.
func narrowBits(v ival) int {
	if v.lo < 0 || v.empty() {
		return -1
	}
	return bits.Len64(uint64(v.hi))
}
