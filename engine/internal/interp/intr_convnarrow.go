package interp

// convNarrowEnabled: opt-in marker "conv:narrow" in a harness's execute list
// (interval-narrowed int->float conversions, see convert in ops.go).
func (in *Interp) convNarrowEnabled() bool {
	for _, e := range in.Cfg.Execute {
		if e == "conv:narrow" {
			return true
		}
	}
	return false
}
