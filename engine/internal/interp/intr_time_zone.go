package interp

// A local time zone other than UTC for the frozen clock.
//
// Opt-in: "execute": ["clock:frozen", "zone:local"] in harness.json. The
// harness assigns
//
//	time.Local = time.FixedZone(name, secondsEastOfUTC)
//
// before the code under test reads the clock (the same assignment takes effect
// in the native replay: time.Now() locates its reading in the variable
// time.Local). With the marker the frozen time.Now() is {wall: 0, ext: the fixed
// second, loc: the current value of time.Local} instead of loc nil (UTC), so
// the zone is an ordinary harness dimension (verifChoose / verifCase).
//
// What is modelled for such times (CONCRETE instants only):
//   - Format, String: computed by the host in time.FixedZone(name, offset),
//     name and offset read back from the Location object the program built;
//   - AddDate: computed by the host in that zone (its source needs the
//     unmodelled table time.daysBefore); result in the same location;
//   - Date, Year, Month, Day, YearDay: computed by the host likewise;
//   - UTC, Local, In(time.UTC | time.Local), Add, Sub, Before/After/Equal,
//     Unix, Nanosecond, Clock, Hour/Minute/Second, Weekday, Truncate, Zone,
//     Location, time.Since run from package time's own SSA: they only touch the
//     Location's cacheZone, which FixedZone fills for all instants.
// Only fixed zones (one zone, one transition - the shape FixedZone builds) are
// accepted; anything else is INCONCLUSIVE. Without the marker nothing changes:
// the reading stays in UTC and a non-UTC location is refused by Format/String.
//
// The AddDate and calendar intrinsics also serve harnesses without the marker (UTC times);
// package initialisers keep running the library's own code so that what is
// havoc'ed there (lib/timex.initTime) stays as it was.

import (
	"go/types"
	"time"

	"golang.org/x/tools/go/ssa"

	"verif/engine/internal/term"
)

func zoneLocal(in *Interp) bool {
	for _, e := range in.Cfg.Execute {
		if e == "zone:local" {
			return true
		}
	}
	return false
}

// timeLocalValue is the current value of the global time.Local.
func timeLocalValue(in *Interp, timeFn *ssa.Function) Value {
	lg, ok := timeFn.Pkg.Members["Local"].(*ssa.Global)
	if !ok {
		panic(in.bug("time.Local not found"))
	}
	v := in.load(in.globalCell(lg))
	p, ok := v.(Ptr)
	if !ok || p.C == nil {
		panic(in.inconclusive("zone:local: time.Local is nil"))
	}
	if _, bad := p.C.V.(poison); bad {
		panic(in.inconclusive("zone:local: the harness must set time.Local = time.FixedZone(name, offset) before the clock is read"))
	}
	return v
}

// hostLocation turns the loc field of a time.Time value into a host location:
// nil is UTC, a pointer to a Location of FixedZone's shape is that fixed zone.
func hostLocation(in *Interp, loc Value) *time.Location {
	p, ok := loc.(Ptr)
	if !ok {
		panic(in.bug("time.Time.loc: pointer expected, got %T", loc))
	}
	if p.C == nil {
		return time.UTC
	}
	if po, bad := p.C.V.(poison); bad {
		panic(in.inconclusive("time.Time located in the unmodelled %s", po.name))
	}
	c := p.C
	st, ok := c.T.Underlying().(*types.Struct)
	if !ok || len(c.F) != st.NumFields() {
		panic(in.inconclusive("time.Time with an unexpected location object %s", c.T))
	}
	field := func(name string) Value { return in.load(c.F[fieldIndex(in, c.T, name)]) }
	name, okn := field("name").(Str)
	zones, okz := field("zone").(Slice)
	tx, okt := field("tx").(Slice)
	if !okn || !okz || !okt || len(zones.Cells) != 1 || len(tx.Cells) != 1 {
		panic(in.inconclusive("time.Time in a location that is not a fixed zone is not modelled"))
	}
	nm, ok := name.Concrete()
	if !ok {
		panic(in.inconclusive("time zone with a symbolic name is not modelled"))
	}
	zc := zones.Cells[0]
	off, ok := in.load(zc.F[fieldIndex(in, zc.T, "offset")]).(*term.Term)
	if !ok || !off.IsConst() {
		panic(in.inconclusive("time zone with a symbolic offset is not modelled (choose it with verifChoose/verifCase)"))
	}
	if dst, ok := in.load(zc.F[fieldIndex(in, zc.T, "isDST")]).(*term.Term); !ok || !dst.IsConst() || dst.U != 0 {
		panic(in.inconclusive("time zone with daylight-saving time is not modelled"))
	}
	return time.FixedZone(nm, int(off.SignedVal()))
}

// concreteTimeParts: wall nanoseconds, seconds since the Unix epoch and loc of
// a concrete time.Time value without monotonic reading; ok=false otherwise.
func concreteTimeParts(v Value) (nsec, unix int64, loc Value, ok bool) {
	s, isS := v.(StructV)
	if !isS || len(s.F) != 3 {
		return 0, 0, nil, false
	}
	wall, ok1 := s.F[0].(*term.Term)
	ext, ok2 := s.F[1].(*term.Term)
	if !ok1 || !ok2 || !wall.IsConst() || !ext.IsConst() || wall.U>>63 != 0 {
		return 0, 0, nil, false
	}
	return int64(wall.U & (1<<30 - 1)), ext.SignedVal() - unixToInternal, s.F[2], true
}

func hostTimeZoned(in *Interp, v Value) time.Time {
	s, ok := v.(StructV)
	if !ok || len(s.F) != 3 {
		panic(in.bug("time.Time value expected"))
	}
	nsec, unix, loc, ok := concreteTimeParts(v)
	if !ok {
		wall, _ := s.F[0].(*term.Term)
		if wall != nil && wall.IsConst() && wall.U>>63 != 0 {
			panic(in.inconclusive("time.Time with a monotonic reading is not modelled"))
		}
		panic(in.inconclusive("formatting of a symbolic time.Time is not modelled"))
	}
	return time.Unix(unix, nsec).In(hostLocation(in, loc))
}

func init() {
	// time.UTC is &time.utcLoc (package time's init is not run), so that
	// t.In(time.UTC) is recognised as UTC by the library's own code. Only with
	// the marker; otherwise the global stays an unreadable foreign object.
	foreignGlobals["time.UTC"] = func(in *Interp, elem types.Type) Value {
		if zoneLocal(in) {
			if tp := in.Prog.ImportedPackage("time"); tp != nil {
				if g, ok := tp.Members["utcLoc"].(*ssa.Global); ok {
					return Ptr{in.globalCell(g)}
				}
			}
		}
		return Ptr{&Cell{T: elem.Underlying().(*types.Pointer).Elem(), V: poison{"time.UTC"}, ID: in.newID()}}
	}
	// calendar getters: their source needs the table time.daysBefore
	calendar := func(name string, get func(t time.Time) Value) {
		reg("(time.Time)."+name, func(in *Interp, fn *ssa.Function, args []Value) Value {
			nsec, unix, loc, ok := concreteTimeParts(args[0])
			if p, isP := loc.(Ptr); ok && (!isP || (p.C != nil && !zoneLocal(in))) {
				ok = false
			}
			if !ok || in.inInit > 0 {
				if fn.Blocks == nil && fn.Pkg != nil {
					fn.Pkg.Build()
				}
				return in.runFunction(fn, args, nil)
			}
			return get(time.Unix(unix, nsec).In(hostLocation(in, loc)))
		})
	}
	calendar("Date", func(t time.Time) Value {
		y, m, d := t.Date()
		return Tuple{intC(y), intC(int(m)), intC(d)}
	})
	calendar("Year", func(t time.Time) Value { return intC(t.Year()) })
	calendar("Month", func(t time.Time) Value { return intC(int(t.Month())) })
	calendar("Day", func(t time.Time) Value { return intC(t.Day()) })
	calendar("YearDay", func(t time.Time) Value { return intC(t.YearDay()) })
	reg("(time.Time).AddDate", func(in *Interp, fn *ssa.Function, args []Value) Value {
		fromSource := func() Value {
			if fn.Blocks == nil && fn.Pkg != nil {
				fn.Pkg.Build()
			}
			return in.runFunction(fn, args, nil)
		}
		if in.inInit > 0 {
			return fromSource()
		}
		nsec, unix, loc, ok := concreteTimeParts(args[0])
		var ymd [3]int
		for i := 0; ok && i < 3; i++ {
			t, isT := args[1+i].(*term.Term)
			if !isT || !t.IsConst() {
				ok = false
				break
			}
			ymd[i] = int(t.SignedVal())
		}
		if p, isP := loc.(Ptr); ok && (!isP || (p.C != nil && !zoneLocal(in))) {
			ok = false
		}
		if !ok {
			return fromSource()
		}
		r := time.Unix(unix, nsec).In(hostLocation(in, loc)).AddDate(ymd[0], ymd[1], ymd[2])
		return StructV{[]Value{term.BVC(64, uint64(r.Nanosecond())), term.BVC(64, uint64(r.Unix()+unixToInternal)), loc}}
	})
}
