package interp

// Exact decimal rendering of SYMBOLIC integers by fmt.Sprint/Sprintf (%v, %d).
//
// Opt-in: "execute": ["fmt:decimal"] in harness.json. Without it a symbolic
// integer formats to an opaque string (intrinsics.go), which is what logging
// and error-message code wants. With it the path forks on the sign and on the
// number of digits (1..fmtDecimalMaxDigits) and the digits are the terms
// '0' + (|x| / 10^i) % 10, computed in a bit-width just wide enough for the
// digit count, so the text a client writes (httpc.fillPath / buildFormQuery /
// fillHeader use fmt.Sprint) can be parsed back by the real strconv code.
// Magnitudes of more digits fall back to the opaque string.

import (
	"fmt"
	"go/types"

	"verif/engine/internal/term"
)

const fmtDecimalMaxDigits = 6

func (in *Interp) fmtDecimalEnabled() bool {
	for _, e := range in.Cfg.Execute {
		if e == "fmt:decimal" {
			return true
		}
	}
	return false
}

// fmtDecimal returns the decimal text of x (t: its static type, nil = signed).
func (in *Interp) fmtDecimal(x *term.Term, t types.Type) (Str, bool) {
	if x.Sort.K != term.KBV || x.Sort.W < 8 || !in.fmtDecimalEnabled() {
		return Str{}, false
	}
	w := x.Sort.W
	signed := t == nil || isSigned(t)
	neg := false
	mag := x
	if signed && in.Eng.Branch(term.SLt(x, term.BVC(w, 0))) {
		neg = true
		mag = term.Neg(x)
		// the most negative value is its own negation: not below any 10^k, falls out below
		if in.Eng.Branch(term.SLt(mag, term.BVC(w, 0))) {
			return Str{}, false
		}
	}
	pow := uint64(1)
	digits := 0
	for k := 1; k <= fmtDecimalMaxDigits; k++ {
		pow *= 10
		if w < 64 && pow >= uint64(1)<<uint(w) {
			digits = k // every value of this width has at most k digits
			break
		}
		if in.Eng.Branch(term.ULt(mag, term.BVC(w, pow))) {
			digits = k
			break
		}
	}
	if digits == 0 {
		return Str{}, false
	}
	// narrow width: 10^digits < 2^nb
	nb := 4
	for (uint64(1) << uint(nb)) <= pow {
		nb++
	}
	if nb > w {
		nb = w
	}
	m := mag
	if nb < w {
		m = term.Extract(mag, nb-1, 0)
	}
	var out []*term.Term
	if neg {
		out = append(out, term.BVC(8, '-'))
	}
	p := pow
	for i := 0; i < digits; i++ {
		p /= 10
		d := m
		if p > 1 {
			d = term.UDiv(m, term.BVC(nb, p))
		}
		if i > 0 {
			d = term.URem(d, term.BVC(nb, 10))
		}
		var d8 *term.Term
		if nb >= 8 {
			d8 = term.Extract(d, 7, 0)
		} else {
			d8 = term.ZExt(d, 8)
		}
		ch := term.Add(d8, term.BVC(8, '0'))
		// implied by mag < 10^digits: every character is a decimal digit. Stated as a
		// path fact so that code parsing the text back need not rediscover it through div/rem.
		in.Eng.Lemma(term.And(term.ULe(term.BVC(8, '0'), ch), term.ULe(ch, term.BVC(8, '9'))))
		out = append(out, ch)
	}
	return Str{out}, true
}

// fmtPointer: %v of a pointer prints its address ("0xc000012345"). Under the
// same opt-in a non-nil pointer renders as one fixed representative address
// derived from the pointee's identity - an under-approximation (real addresses
// vary from run to run) that is only good for exposing code that sends an
// address where a value was meant; a nil pointer prints "<nil>".
func (in *Interp) fmtPointer(p Ptr) (Str, bool) {
	if !in.fmtDecimalEnabled() {
		return Str{}, false
	}
	if p.C == nil {
		return StrOf("<nil>"), true
	}
	return StrOf(fmt.Sprintf("0xc000%06x", uint64(p.C.ID)&0xffffff)), true
}
