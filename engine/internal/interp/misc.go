package interp

import (
	"go/types"
	"math"

	"golang.org/x/tools/go/ssa"
)

func nanF() float64          { return math.NaN() }
func infF(s int) float64     { return math.Inf(s) }
func f64bits(f float64) uint64 { return math.Float64bits(f) }
func hostExp(f float64) float64 { return math.Exp(f) }

// ReflectV is the engine's model of reflect.Value over an engine cell.
type ReflectV struct {
	T     types.Type
	C     *Cell // addressable storage (may be nil for non-addressable)
	V     Value
	Valid bool
}

// findMethod returns the exported method name of T (nil if T has none).
func (in *Interp) findMethod(T types.Type, name string) *ssa.Function {
	sel := in.Prog.MethodSets.MethodSet(T).Lookup(nil, name)
	if sel == nil {
		return nil
	}
	return in.Prog.MethodValue(sel)
}
