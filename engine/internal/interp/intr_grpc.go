package interp

// Models of google.golang.org/grpc/status (third party, protobuf-backed, not
// executable from SSA): a status error is an opaque error object that carries
// its code (uint32 term) and message in the side table. status.Code recovers
// the code exactly as the library does: nil -> OK, a status error -> its code,
// an error type with a GRPCStatus method -> unmodelled (inconclusive), any
// other error -> Unknown.

import (
	"fmt"

	"golang.org/x/tools/go/ssa"

	"verif/engine/internal/term"
)

type grpcStatusObj struct {
	code *term.Term // 32-bit
	msg  Str
}

var grpcCodeNames = []string{"OK", "Canceled", "Unknown", "InvalidArgument", "DeadlineExceeded", "NotFound",
	"AlreadyExists", "PermissionDenied", "ResourceExhausted", "FailedPrecondition", "Aborted", "OutOfRange",
	"Unimplemented", "Internal", "Unavailable", "DataLoss", "Unauthenticated"}

func (in *Interp) grpcStatusError(code *term.Term, msg Str) Value {
	if code.IsConst() {
		if code.U == 0 {
			return Iface{}
		}
	} else if in.Eng.Branch(term.Eq(code, term.BVC(code.Sort.W, 0))) {
		return Iface{}
	}
	id := in.newID()
	t := opaqueType("grpc.statusError")
	in.sideTab[fmt.Sprintf("grpcst:%d", id)] = &grpcStatusObj{code: code, msg: msg}
	// message as the library prints it (only for concrete codes; nobody may branch on the other form)
	name := "Code(?)"
	if code.IsConst() {
		if int(code.U) < len(grpcCodeNames) {
			name = grpcCodeNames[code.U]
		} else {
			name = fmt.Sprintf("Code(%d)", code.U)
		}
	}
	full := Str{append(append([]*term.Term{}, StrOf("rpc error: code = "+name+" desc = ").B...), msg.B...)}
	in.sideTab[fmt.Sprintf("err:%d", id)] = &errObj{msg: full}
	return Iface{T: t, V: Opaque{ID: id, T: t}}
}

func (in *Interp) grpcStatusOf(iv Iface) *grpcStatusObj {
	if o, ok := iv.V.(Opaque); ok {
		if s, ok := in.sideTab[fmt.Sprintf("grpcst:%d", o.ID)].(*grpcStatusObj); ok {
			return s
		}
	}
	return nil
}

func init() {
	reg("google.golang.org/grpc/status.Error", func(in *Interp, fn *ssa.Function, args []Value) Value {
		return in.grpcStatusError(tt(args[0]), args[1].(Str))
	})
	reg("google.golang.org/grpc/status.Errorf", func(in *Interp, fn *ssa.Function, args []Value) Value {
		return in.grpcStatusError(tt(args[0]), in.sprintf(args[1].(Str), args[2].(Slice)))
	})
	reg("google.golang.org/grpc/status.Code", func(in *Interp, fn *ssa.Function, args []Value) Value {
		err := args[0].(Iface)
		if err.T == nil {
			return term.BVC(32, 0)
		}
		if s := in.grpcStatusOf(err); s != nil {
			return s.code
		}
		if _, isOpaque := err.V.(Opaque); !isOpaque {
			if in.findMethod(err.T, "GRPCStatus") != nil {
				panic(in.inconclusive("status.Code of a user type with a GRPCStatus method is not modelled: %s", err.T))
			}
		}
		return term.BVC(32, 2) // codes.Unknown
	})
}
