package interp

import (
	"fmt"
	"go/types"
	"strconv"
	"strings"

	"golang.org/x/tools/go/ssa"

	"verif/engine/internal/term"
)

var intrinsics = map[string]apiFn{}

func reg(name string, f apiFn) { intrinsics[name] = f }

func cellArg(in *Interp, v Value) *Cell { return in.ptrOf(v) }

func tt(v Value) *term.Term { return v.(*term.Term) }

func init() {
	// ---- sync.Mutex / RWMutex ----
	lock := func(in *Interp, fn *ssa.Function, args []Value) Value {
		s := in.syncOf(cellArg(in, args[0]))
		in.block(func() bool { return !s.locked && s.readers == 0 }, "mutex.Lock")
		s.locked = true
		return nil
	}
	unlock := func(in *Interp, fn *ssa.Function, args []Value) Value {
		s := in.syncOf(cellArg(in, args[0]))
		if !s.locked {
			panic(&GoPanic{V: Iface{T: types.Typ[types.String], V: StrOf("sync: unlock of unlocked mutex")}, Msg: "fatal error: sync: unlock of unlocked mutex", Stack: in.where()})
		}
		s.locked = false
		return nil
	}
	reg("(*sync.Mutex).Lock", lock)
	reg("(*sync.Mutex).Unlock", unlock)
	reg("(*sync.Mutex).TryLock", func(in *Interp, fn *ssa.Function, args []Value) Value {
		s := in.syncOf(cellArg(in, args[0]))
		if s.locked {
			return term.False
		}
		s.locked = true
		return term.True
	})
	reg("(*sync.RWMutex).Lock", lock)
	reg("(*sync.RWMutex).Unlock", unlock)
	reg("(*sync.RWMutex).RLock", func(in *Interp, fn *ssa.Function, args []Value) Value {
		s := in.syncOf(cellArg(in, args[0]))
		in.block(func() bool { return !s.locked }, "rwmutex.RLock")
		s.readers++
		return nil
	})
	reg("(*sync.RWMutex).RUnlock", func(in *Interp, fn *ssa.Function, args []Value) Value {
		s := in.syncOf(cellArg(in, args[0]))
		if s.readers <= 0 {
			panic(&GoPanic{V: Iface{T: types.Typ[types.String], V: StrOf("sync: RUnlock of unlocked RWMutex")}, Msg: "fatal error: sync: RUnlock of unlocked RWMutex", Stack: in.where()})
		}
		s.readers--
		return nil
	})
	// ---- sync.WaitGroup ----
	reg("(*sync.WaitGroup).Add", func(in *Interp, fn *ssa.Function, args []Value) Value {
		s := in.syncOf(cellArg(in, args[0]))
		s.counter += concreteInt(in, args[1], "WaitGroup.Add")
		if s.counter < 0 {
			panic(&GoPanic{V: Iface{T: types.Typ[types.String], V: StrOf("sync: negative WaitGroup counter")}, Msg: "sync: negative WaitGroup counter", Stack: in.where()})
		}
		return nil
	})
	reg("(*sync.WaitGroup).Done", func(in *Interp, fn *ssa.Function, args []Value) Value {
		s := in.syncOf(cellArg(in, args[0]))
		s.counter--
		if s.counter < 0 {
			panic(&GoPanic{V: Iface{T: types.Typ[types.String], V: StrOf("sync: negative WaitGroup counter")}, Msg: "sync: negative WaitGroup counter", Stack: in.where()})
		}
		return nil
	})
	reg("(*sync.WaitGroup).Wait", func(in *Interp, fn *ssa.Function, args []Value) Value {
		s := in.syncOf(cellArg(in, args[0]))
		in.block(func() bool { return s.counter == 0 }, "WaitGroup.Wait")
		return nil
	})
	// ---- sync.Once ----
	reg("(*sync.Once).Do", func(in *Interp, fn *ssa.Function, args []Value) Value {
		s := in.syncOf(cellArg(in, args[0]))
		in.block(func() bool { return !s.locked }, "Once.Do")
		if s.done {
			return nil
		}
		s.locked = true
		defer func() { s.done = true; s.locked = false }()
		in.callValue(args[1].(FuncV), nil, nil)
		return nil
	})
	// ---- sync.Cond ----
	reg("sync.NewCond", func(in *Interp, fn *ssa.Function, args []Value) Value {
		c := in.newCell(fn.Signature.Results().At(0).Type().(*types.Pointer).Elem())
		// field L is index 1 in sync.Cond {noCopy, L, notify, checker}
		st := c.T.Underlying().(*types.Struct)
		for i := 0; i < st.NumFields(); i++ {
			if st.Field(i).Name() == "L" {
				c.F[i].V = args[0]
			}
		}
		return Ptr{c}
	})
	condL := func(in *Interp, c *Cell) Iface {
		st := c.T.Underlying().(*types.Struct)
		for i := 0; i < st.NumFields(); i++ {
			if st.Field(i).Name() == "L" {
				return c.F[i].V.(Iface)
			}
		}
		panic(in.bug("sync.Cond without L"))
	}
	callLocker := func(in *Interp, l Iface, m string) {
		fn := in.findMethod(l.T, m)
		if fn == nil {
			panic(in.bug("Locker method %s not found on %s", m, l.T))
		}
		in.callFunction(fn, []Value{l.V}, nil)
	}
	reg("(*sync.Cond).Wait", func(in *Interp, fn *ssa.Function, args []Value) Value {
		c := cellArg(in, args[0])
		s := in.syncOf(c)
		l := condL(in, c)
		callLocker(in, l, "Unlock")
		s.waiters++
		in.block(func() bool { return s.signals > 0 }, "Cond.Wait")
		s.signals--
		s.waiters--
		callLocker(in, l, "Lock")
		return nil
	})
	reg("(*sync.Cond).Signal", func(in *Interp, fn *ssa.Function, args []Value) Value {
		s := in.syncOf(cellArg(in, args[0]))
		if s.waiters > s.signals {
			s.signals++
		}
		return nil
	})
	reg("(*sync.Cond).Broadcast", func(in *Interp, fn *ssa.Function, args []Value) Value {
		s := in.syncOf(cellArg(in, args[0]))
		s.signals = s.waiters
		return nil
	})
	// ---- sync.Map ----
	smap := func(in *Interp, v Value) *MapObj {
		s := in.syncOf(cellArg(in, v))
		if s.m == nil {
			s.m = &MapObj{ID: in.newID()}
		}
		return s.m
	}
	reg("(*sync.Map).Load", func(in *Interp, fn *ssa.Function, args []Value) Value {
		v, ok := in.mapGet(smap(in, args[0]), args[1])
		if !ok {
			return Tuple{Iface{}, term.False}
		}
		return Tuple{v, term.True}
	})
	reg("(*sync.Map).Store", func(in *Interp, fn *ssa.Function, args []Value) Value {
		in.mapSet(smap(in, args[0]), args[1], args[2])
		return nil
	})
	reg("(*sync.Map).LoadOrStore", func(in *Interp, fn *ssa.Function, args []Value) Value {
		m := smap(in, args[0])
		if v, ok := in.mapGet(m, args[1]); ok {
			return Tuple{v, term.True}
		}
		in.mapSet(m, args[1], args[2])
		return Tuple{args[2], term.False}
	})
	reg("(*sync.Map).LoadAndDelete", func(in *Interp, fn *ssa.Function, args []Value) Value {
		m := smap(in, args[0])
		if v, ok := in.mapGet(m, args[1]); ok {
			in.mapDelete(m, args[1])
			return Tuple{v, term.True}
		}
		return Tuple{Iface{}, term.False}
	})
	reg("(*sync.Map).Delete", func(in *Interp, fn *ssa.Function, args []Value) Value {
		in.mapDelete(smap(in, args[0]), args[1])
		return nil
	})
	reg("(*sync.Map).Range", func(in *Interp, fn *ssa.Function, args []Value) Value {
		m := smap(in, args[0])
		snap := append([]*mapEntry{}, m.Entries...)
		for _, e := range snap {
			if e.Dead {
				continue
			}
			r := in.callValue(args[1].(FuncV), []Value{e.K, e.V}, nil)
			if !in.Eng.Branch(tt(r)) {
				break
			}
		}
		return nil
	})
	// ---- sync.Pool ----
	// sync.Pool: Put keeps the item; Get may hand back a kept item (most recent
	// first, as the per-P private slot does) or a fresh one from New — both are
	// legal behaviours of the real pool, so Get forks when an item is available.
	poolNew := func(in *Interp, c *Cell) Value {
		st := c.T.Underlying().(*types.Struct)
		for i := 0; i < st.NumFields(); i++ {
			if st.Field(i).Name() == "New" {
				f := c.F[i].V.(FuncV)
				if in.isNilValue(f) {
					return Iface{}
				}
				return in.callValue(f, nil, nil)
			}
		}
		return Iface{}
	}
	reg("(*sync.Pool).Get", func(in *Interp, fn *ssa.Function, args []Value) Value {
		c := cellArg(in, args[0])
		s := in.syncOf(c)
		if len(s.pool) > 0 && in.Eng.Choose(2, "sync.Pool.Get") == 0 {
			v := s.pool[len(s.pool)-1]
			s.pool = s.pool[:len(s.pool)-1]
			return v
		}
		return poolNew(in, c)
	})
	reg("(*sync.Pool).Put", func(in *Interp, fn *ssa.Function, args []Value) Value {
		s := in.syncOf(cellArg(in, args[0]))
		if !in.isNilValue(args[1]) {
			s.pool = append(s.pool, args[1])
		}
		return nil
	})

	// ---- sync/atomic functions ----
	for _, ty := range []string{"Int32", "Int64", "Uint32", "Uint64", "Uintptr", "Pointer"} {
		reg("sync/atomic.Load"+ty, func(in *Interp, fn *ssa.Function, args []Value) Value {
			return in.load(cellArg(in, args[0]))
		})
		reg("sync/atomic.Store"+ty, func(in *Interp, fn *ssa.Function, args []Value) Value {
			in.store(cellArg(in, args[0]), args[1])
			return nil
		})
		reg("sync/atomic.Swap"+ty, func(in *Interp, fn *ssa.Function, args []Value) Value {
			c := cellArg(in, args[0])
			old := in.load(c)
			in.store(c, args[1])
			return old
		})
		reg("sync/atomic.CompareAndSwap"+ty, func(in *Interp, fn *ssa.Function, args []Value) Value {
			c := cellArg(in, args[0])
			eq := in.equal(in.load(c), args[1])
			if in.Eng.Branch(eq) {
				in.store(c, args[2])
				return term.True
			}
			return term.False
		})
		if ty != "Pointer" {
			reg("sync/atomic.Add"+ty, func(in *Interp, fn *ssa.Function, args []Value) Value {
				c := cellArg(in, args[0])
				nv := term.Add(tt(in.load(c)), tt(args[1]))
				in.store(c, nv)
				return nv
			})
		}
	}
	// atomic.Value
	reg("(*sync/atomic.Value).Load", func(in *Interp, fn *ssa.Function, args []Value) Value {
		s := in.syncOf(cellArg(in, args[0]))
		if !s.has {
			return Iface{}
		}
		return s.val
	})
	reg("(*sync/atomic.Value).Store", func(in *Interp, fn *ssa.Function, args []Value) Value {
		s := in.syncOf(cellArg(in, args[0]))
		if in.isNilValue(args[1]) {
			panic(&GoPanic{V: Iface{T: types.Typ[types.String], V: StrOf("sync/atomic: store of nil value into Value")}, Msg: "sync/atomic: store of nil value into Value"})
		}
		// as the real one: every Store must carry the same concrete type
		if s.has {
			if ov, ok := s.val.(Iface); ok {
				if nv, ok2 := args[1].(Iface); ok2 && ov.T != nil && nv.T != nil && !types.Identical(ov.T, nv.T) {
					msg := "sync/atomic: store of inconsistently typed value into Value"
					panic(&GoPanic{V: Iface{T: types.Typ[types.String], V: StrOf(msg)}, Msg: msg, Stack: in.where()})
				}
			}
		}
		s.val, s.has = args[1], true
		return nil
	})

	// ---- runtime ----
	reg("runtime.Gosched", func(in *Interp, fn *ssa.Function, args []Value) Value { in.yield(); return nil })
	reg("runtime.KeepAlive", func(in *Interp, fn *ssa.Function, args []Value) Value { return nil })
	reg("runtime.SetFinalizer", func(in *Interp, fn *ssa.Function, args []Value) Value { return nil })
	reg("runtime/debug.Stack", func(in *Interp, fn *ssa.Function, args []Value) Value {
		return in.convert(StrOf("<stack>"), types.Typ[types.String], types.NewSlice(types.Typ[types.Uint8]))
	})

	// ---- errors ----
	reg("errors.Is", func(in *Interp, fn *ssa.Function, args []Value) Value {
		return term.BoolC(in.errorsIs(args[0].(Iface), args[1].(Iface), 0))
	})

	// ---- math ----
	f1 := func(name string, f func(*term.Term) *term.Term) {
		reg("math."+name, func(in *Interp, fn *ssa.Function, args []Value) Value { return f(tt(args[0])) })
	}
	f1("Ceil", func(x *term.Term) *term.Term { return term.FRound(x, 1) })
	f1("Floor", func(x *term.Term) *term.Term { return term.FRound(x, 2) })
	f1("Trunc", func(x *term.Term) *term.Term { return term.FRound(x, 3) })
	f1("Round", func(x *term.Term) *term.Term { return term.FRound(x, 4) })
	f1("RoundToEven", func(x *term.Term) *term.Term { return term.FRound(x, 0) })
	f1("Sqrt", term.FSqrt)
	f1("Abs", term.FAbs)
	reg("math.IsNaN", func(in *Interp, fn *ssa.Function, args []Value) Value { return term.FIsNaN(tt(args[0])) })
	reg("math.IsInf", func(in *Interp, fn *ssa.Function, args []Value) Value {
		x, sign := tt(args[0]), tt(args[1])
		inf := term.FIsInf(x)
		pos := term.FLt(term.FC(64, 0), x)
		sz := term.Eq(sign, term.BVC(64, 0))
		sp := term.SLt(term.BVC(64, 0), sign)
		return term.And(inf, term.Or(sz, term.And(sp, pos), term.And(term.Not(sz), term.Not(sp), term.Not(pos))))
	})
	reg("math.Max", func(in *Interp, fn *ssa.Function, args []Value) Value {
		x, y := tt(args[0]), tt(args[1])
		// NaN handling as in Go: any NaN -> NaN; +Inf dominates
		nan := term.Or(term.FIsNaN(x), term.FIsNaN(y))
		return term.Ite(nan, term.FC(64, nanF()), term.Ite(term.FLt(x, y), y, x))
	})
	reg("math.Min", func(in *Interp, fn *ssa.Function, args []Value) Value {
		x, y := tt(args[0]), tt(args[1])
		nan := term.Or(term.FIsNaN(x), term.FIsNaN(y))
		return term.Ite(nan, term.FC(64, nanF()), term.Ite(term.FLt(y, x), y, x))
	})
	reg("math.Float64frombits", func(in *Interp, fn *ssa.Function, args []Value) Value { return term.BitsF(tt(args[0])) })
	reg("math.Float64bits", func(in *Interp, fn *ssa.Function, args []Value) Value {
		x := tt(args[0])
		if x.IsConst() {
			return term.BVC(64, f64bits(x.F))
		}
		b := in.Eng.Fresh("float64bits", term.BV(64))
		in.Eng.addPC(term.Eq(term.BitsF(b), x))
		return b
	})
	reg("math.Inf", func(in *Interp, fn *ssa.Function, args []Value) Value {
		s := tt(args[0])
		return term.Ite(term.SLe(term.BVC(64, 0), s), term.FC(64, infF(1)), term.FC(64, infF(-1)))
	})
	reg("math.NaN", func(in *Interp, fn *ssa.Function, args []Value) Value { return term.FC(64, nanF()) })
	// math.Exp: uninterpreted (harness constrains it through a stub when needed)
	reg("math.Exp", func(in *Interp, fn *ssa.Function, args []Value) Value {
		x := tt(args[0])
		if x.IsConst() {
			return term.FC(64, hostExp(x.F))
		}
		return term.UF("math.Exp", term.F64, x)
	})

	// ---- strings.Builder ----
	sbBuf := func(in *Interp, v Value) *Cell {
		c := cellArg(in, v)
		st := c.T.Underlying().(*types.Struct)
		for i := 0; i < st.NumFields(); i++ {
			if st.Field(i).Name() == "buf" {
				return c.F[i]
			}
		}
		panic(in.bug("strings.Builder without buf"))
	}
	sbAppend := func(in *Interp, v Value, bs []*term.Term) {
		bc := sbBuf(in, v)
		s, _ := bc.V.(Slice)
		cells := append([]*Cell{}, s.Cells...)
		for _, b := range bs {
			cells = append(cells, &Cell{T: types.Typ[types.Uint8], V: b, ID: in.newID()})
		}
		bc.V = Slice{cells}
	}
	reg("(*strings.Builder).WriteString", func(in *Interp, fn *ssa.Function, args []Value) Value {
		s := args[1].(Str)
		sbAppend(in, args[0], s.B)
		return Tuple{intC(len(s.B)), Iface{}}
	})
	reg("(*strings.Builder).Write", func(in *Interp, fn *ssa.Function, args []Value) Value {
		s := args[1].(Slice)
		var bs []*term.Term
		for _, c := range s.Cells {
			bs = append(bs, tt(c.V))
		}
		sbAppend(in, args[0], bs)
		return Tuple{intC(len(bs)), Iface{}}
	})
	reg("(*strings.Builder).WriteByte", func(in *Interp, fn *ssa.Function, args []Value) Value {
		sbAppend(in, args[0], []*term.Term{tt(args[1])})
		return Iface{}
	})
	reg("(*strings.Builder).WriteRune", func(in *Interp, fn *ssa.Function, args []Value) Value {
		bs := in.runeBytes(tt(args[1]))
		sbAppend(in, args[0], bs)
		return Tuple{intC(len(bs)), Iface{}}
	})
	reg("(*strings.Builder).String", func(in *Interp, fn *ssa.Function, args []Value) Value {
		s, _ := sbBuf(in, args[0]).V.(Slice)
		bs := make([]*term.Term, len(s.Cells))
		for i, c := range s.Cells {
			bs[i] = tt(c.V)
		}
		return Str{bs}
	})
	reg("(*strings.Builder).Len", func(in *Interp, fn *ssa.Function, args []Value) Value {
		s, _ := sbBuf(in, args[0]).V.(Slice)
		return intC(len(s.Cells))
	})
	reg("(*strings.Builder).Reset", func(in *Interp, fn *ssa.Function, args []Value) Value {
		sbBuf(in, args[0]).V = Slice{}
		return nil
	})
	reg("(*strings.Builder).Grow", func(in *Interp, fn *ssa.Function, args []Value) Value { return nil })

	// ---- internal/bytealg leaf functions (assembly in the real build) ----
	indexByte := func(in *Interp, bs []*term.Term, c *term.Term) Value {
		for i, b := range bs {
			if in.Eng.Branch(term.Eq(b, c)) {
				return intC(i)
			}
		}
		return intC(-1)
	}
	sliceBytes := func(v Value) []*term.Term {
		switch x := v.(type) {
		case Str:
			return x.B
		case Slice:
			bs := make([]*term.Term, len(x.Cells))
			for i, c := range x.Cells {
				bs[i] = tt(c.V)
			}
			return bs
		}
		panic("sliceBytes")
	}
	reg("internal/bytealg.IndexByteString", func(in *Interp, fn *ssa.Function, args []Value) Value {
		return indexByte(in, sliceBytes(args[0]), tt(args[1]))
	})
	reg("internal/bytealg.IndexByte", func(in *Interp, fn *ssa.Function, args []Value) Value {
		return indexByte(in, sliceBytes(args[0]), tt(args[1]))
	})
	reg("internal/bytealg.LastIndexByteString", func(in *Interp, fn *ssa.Function, args []Value) Value {
		bs := sliceBytes(args[0])
		for i := len(bs) - 1; i >= 0; i-- {
			if in.Eng.Branch(term.Eq(bs[i], tt(args[1]))) {
				return intC(i)
			}
		}
		return intC(-1)
	})
	count := func(in *Interp, fn *ssa.Function, args []Value) Value {
		n := term.BVC(64, 0)
		for _, b := range sliceBytes(args[0]) {
			n = term.Add(n, term.Ite(term.Eq(b, tt(args[1])), term.BVC(64, 1), term.BVC(64, 0)))
		}
		return n
	}
	reg("internal/bytealg.CountString", count)
	reg("internal/bytealg.Count", count)
	reg("internal/bytealg.Equal", func(in *Interp, fn *ssa.Function, args []Value) Value {
		return strEq(Str{sliceBytes(args[0])}, Str{sliceBytes(args[1])})
	})
	reg("bytes.Equal", func(in *Interp, fn *ssa.Function, args []Value) Value {
		return strEq(Str{sliceBytes(args[0])}, Str{sliceBytes(args[1])})
	})
	cmpF := func(in *Interp, fn *ssa.Function, args []Value) Value {
		a, b := Str{sliceBytes(args[0])}, Str{sliceBytes(args[1])}
		return term.Ite(strLess(a, b), term.BVC(64, ^uint64(0)), term.Ite(strEq(a, b), term.BVC(64, 0), term.BVC(64, 1)))
	}
	reg("internal/bytealg.Compare", cmpF)
	reg("internal/bytealg.CompareString", cmpF)
	reg("strings.Compare", cmpF)
	indexStr := func(in *Interp, fn *ssa.Function, args []Value) Value {
		h, n := sliceBytes(args[0]), sliceBytes(args[1])
		for i := 0; i+len(n) <= len(h); i++ {
			if in.Eng.Branch(strEq(Str{h[i : i+len(n)]}, Str{n})) {
				return intC(i)
			}
		}
		return intC(-1)
	}
	reg("internal/bytealg.IndexString", indexStr)
	reg("internal/bytealg.Index", indexStr)
	reg("strings.Index", indexStr)
	reg("internal/bytealg.MakeNoZero", func(in *Interp, fn *ssa.Function, args []Value) Value {
		n := concreteInt(in, args[0], "MakeNoZero")
		cells := make([]*Cell, n)
		for i := range cells {
			cells[i] = in.newCell(types.Typ[types.Uint8])
		}
		return Slice{cells}
	})
	reg("internal/stringslite.Index", indexStr)
	reg("internal/stringslite.IndexByte", func(in *Interp, fn *ssa.Function, args []Value) Value {
		return indexByte(in, sliceBytes(args[0]), tt(args[1]))
	})
	reg("strings.IndexByte", func(in *Interp, fn *ssa.Function, args []Value) Value {
		return indexByte(in, sliceBytes(args[0]), tt(args[1]))
	})
	reg("strings.Clone", func(in *Interp, fn *ssa.Function, args []Value) Value { return args[0] })
	// ASCII case mapping (harnesses assume ASCII)
	reg("strings.ToUpper", func(in *Interp, fn *ssa.Function, args []Value) Value { return in.asciiMap(args[0].(Str), true) })
	reg("strings.ToLower", func(in *Interp, fn *ssa.Function, args []Value) Value { return in.asciiMap(args[0].(Str), false) })
	reg("strings.EqualFold", func(in *Interp, fn *ssa.Function, args []Value) Value {
		return strEq(in.asciiMap(args[0].(Str), false), in.asciiMap(args[1].(Str), false))
	})
	reg("strings.Join", func(in *Interp, fn *ssa.Function, args []Value) Value {
		s := args[0].(Slice)
		sep := args[1].(Str)
		var out []*term.Term
		for i, c := range s.Cells {
			if i > 0 {
				out = append(out, sep.B...)
			}
			out = append(out, c.V.(Str).B...)
		}
		return Str{out}
	})
	reg("strings.Repeat", func(in *Interp, fn *ssa.Function, args []Value) Value {
		n := concreteInt(in, args[1], "strings.Repeat")
		var out []*term.Term
		for i := 0; i < n; i++ {
			out = append(out, args[0].(Str).B...)
		}
		return Str{out}
	})

	// ---- strconv on concrete values ----
	reg("strconv.Itoa", func(in *Interp, fn *ssa.Function, args []Value) Value {
		t := tt(args[0])
		if !t.IsConst() {
			if s, ok := in.fmtDecimal(t, nil); ok { // opt-in "fmt:decimal": exact digits (intr_fmtdecimal.go)
				return s
			}
			return in.decimalString(t, "strconv.Itoa")
		}
		return StrOf(strconv.FormatInt(t.SignedVal(), 10))
	})
	reg("strconv.FormatInt", func(in *Interp, fn *ssa.Function, args []Value) Value {
		t, b := tt(args[0]), tt(args[1])
		if !t.IsConst() && b.IsConst() && b.U == 10 {
			if s, ok := in.fmtDecimal(t, nil); ok { // opt-in "fmt:decimal": exact digits (intr_fmtdecimal.go)
				return s
			}
			return in.decimalString(t, "strconv.FormatInt")
		}
		if !t.IsConst() || !b.IsConst() {
			return in.opaqueString("strconv.FormatInt")
		}
		return StrOf(strconv.FormatInt(t.SignedVal(), int(b.SignedVal())))
	})

	// ---- fmt ----
	reg("fmt.Sprintf", func(in *Interp, fn *ssa.Function, args []Value) Value {
		return in.sprintf(args[0].(Str), args[1].(Slice))
	})
	reg("fmt.Sprint", func(in *Interp, fn *ssa.Function, args []Value) Value {
		return in.sprint(args[0].(Slice), false)
	})
	reg("fmt.Sprintln", func(in *Interp, fn *ssa.Function, args []Value) Value {
		return in.sprint(args[0].(Slice), true)
	})
	reg("fmt.Errorf", func(in *Interp, fn *ssa.Function, args []Value) Value {
		msg := in.sprintf(args[0].(Str), args[1].(Slice))
		var wrapped Iface
		f, _ := args[0].(Str).Concrete()
		if strings.Contains(f, "%w") {
			for _, c := range args[1].(Slice).Cells {
				if iv, ok := c.V.(Iface); ok && iv.T != nil {
					if types.Implements(iv.T, errorIface()) || strings.HasPrefix(iv.T.String(), "opaque:") {
						wrapped = iv
					}
				}
			}
		}
		return in.newError(msg, wrapped)
	})
	reg("fmt.Println", func(in *Interp, fn *ssa.Function, args []Value) Value { return Tuple{intC(0), Iface{}} })
	reg("fmt.Printf", func(in *Interp, fn *ssa.Function, args []Value) Value { return Tuple{intC(0), Iface{}} })
	reg("fmt.Print", func(in *Interp, fn *ssa.Function, args []Value) Value { return Tuple{intC(0), Iface{}} })
	// fmt.Fprint*: the text goes to the writer's Write method when the writer is
	// a program object (e.g. *strings.Builder); other writers (os.Stderr, havoc
	// objects) swallow it.
	fprint := func(in *Interp, w Value, s Str) Value {
		if iv, ok := w.(Iface); ok && iv.T != nil && !strings.HasPrefix(iv.T.String(), "opaque:") {
			if p, isPtr := iv.V.(Ptr); isPtr && iv.T.String() == "*os.File" {
				// os.Stdout/os.Stderr (not opened through the model file system): swallow
				if p.C == nil || in.sideTab[fmt.Sprintf("os:file:%d", p.C.ID)] == nil {
					return Tuple{intC(len(s.B)), Iface{}}
				}
			}
			if _, isOpaque := iv.V.(Opaque); !isOpaque {
				if wf := in.findMethod(iv.T, "Write"); wf != nil {
					cells := make([]*Cell, len(s.B))
					for i, b := range s.B {
						cells[i] = &Cell{T: types.Typ[types.Uint8], V: b, ID: in.newID()}
					}
					return in.callFunction(wf, []Value{iv.V, Slice{cells}}, nil)
				}
			}
		}
		return Tuple{intC(len(s.B)), Iface{}}
	}
	reg("fmt.Fprintf", func(in *Interp, fn *ssa.Function, args []Value) Value {
		return fprint(in, args[0], in.sprintf(args[1].(Str), args[2].(Slice)))
	})
	reg("fmt.Fprintln", func(in *Interp, fn *ssa.Function, args []Value) Value {
		return fprint(in, args[0], in.sprint(args[1].(Slice), true))
	})
	reg("fmt.Fprint", func(in *Interp, fn *ssa.Function, args []Value) Value {
		return fprint(in, args[0], in.sprint(args[1].(Slice), false))
	})
}

var errIface *types.Interface

func errorIface() *types.Interface {
	if errIface == nil {
		errIface = types.Universe.Lookup("error").Type().Underlying().(*types.Interface)
	}
	return errIface
}

func (in *Interp) opaqueString(what string) Str {
	// a string nobody may branch on: 3 fresh bytes
	b := make([]*term.Term, 3)
	for i := range b {
		b[i] = in.Eng.Fresh("opaque:"+what, term.BV(8))
	}
	return Str{b}
}

func (in *Interp) asciiMap(s Str, upper bool) Str {
	if c, ok := s.Concrete(); ok {
		// concrete string: the host's implementation is exact (also for non-ASCII)
		if upper {
			return StrOf(strings.ToUpper(c))
		}
		return StrOf(strings.ToLower(c))
	}
	out := make([]*term.Term, len(s.B))
	for i, b := range s.B {
		if b.IsConst() {
			c := byte(b.U)
			if upper && c >= 'a' && c <= 'z' {
				c -= 32
			} else if !upper && c >= 'A' && c <= 'Z' {
				c += 32
			}
			if b.U >= 0x80 {
				panic(in.inconclusive("ASCII case mapping of non-ASCII byte"))
			}
			out[i] = term.BVC(8, uint64(c))
			continue
		}
		if !in.Eng.Branch(term.ULt(b, term.BVC(8, 0x80))) {
			panic(in.inconclusive("ASCII case mapping of symbolic non-ASCII byte"))
		}
		if upper {
			isL := term.And(term.ULe(term.BVC(8, 'a'), b), term.ULe(b, term.BVC(8, 'z')))
			out[i] = term.Ite(isL, term.Sub(b, term.BVC(8, 32)), b)
		} else {
			isU := term.And(term.ULe(term.BVC(8, 'A'), b), term.ULe(b, term.BVC(8, 'Z')))
			out[i] = term.Ite(isU, term.Add(b, term.BVC(8, 32)), b)
		}
	}
	return Str{out}
}

// verifError is the engine's model of errors created by fmt.Errorf.
type errObj struct {
	msg     Str
	wrapped Iface
}

func (in *Interp) newError(msg Str, wrapped Iface) Value {
	id := in.newID()
	t := opaqueType("fmt.error")
	in.sideTab[fmt.Sprintf("err:%d", id)] = &errObj{msg, wrapped}
	return Iface{T: t, V: Opaque{ID: id, T: t}}
}

func (in *Interp) errObjOf(iv Iface) *errObj {
	if o, ok := iv.V.(Opaque); ok {
		if e, ok := in.sideTab[fmt.Sprintf("err:%d", o.ID)].(*errObj); ok {
			return e
		}
	}
	return nil
}

func (in *Interp) errorsIs(err, target Iface, depth int) bool {
	if depth > 20 {
		return false
	}
	if err.T == nil || target.T == nil {
		return err.T == nil && target.T == nil
	}
	eq := in.equal(err, target)
	if !eq.IsConst() {
		if in.Eng.Branch(eq) {
			return true
		}
	} else if eq.IsTrue() {
		return true
	}
	if eo := in.errObjOf(err); eo != nil {
		if eo.wrapped.T != nil {
			return in.errorsIs(eo.wrapped, target, depth+1)
		}
		return false
	}
	if strings.HasPrefix(err.T.String(), "opaque:") {
		return false
	}
	// Unwrap() error
	if fn := in.findMethod(err.T, "Unwrap"); fn != nil && fn.Signature.Results().Len() == 1 {
		if _, ok := fn.Signature.Results().At(0).Type().Underlying().(*types.Interface); ok {
			r := in.callFunction(fn, []Value{err.V}, nil)
			return in.errorsIs(r.(Iface), target, depth+1)
		}
	}
	return false
}

func (in *Interp) errorString(iv Iface) Str {
	if iv.T == nil {
		return StrOf("<nil>")
	}
	if eo := in.errObjOf(iv); eo != nil {
		return eo.msg
	}
	if s, ok := iv.V.(Str); ok && strings.HasPrefix(iv.T.String(), "opaque:") {
		return s
	}
	if strings.HasPrefix(iv.T.String(), "opaque:") {
		return StrOf("<" + iv.T.String() + ">")
	}
	if fn := in.findMethod(iv.T, "Error"); fn != nil {
		return in.callFunction(fn, []Value{iv.V}, nil).(Str)
	}
	if fn := in.findMethod(iv.T, "String"); fn != nil {
		return in.callFunction(fn, []Value{iv.V}, nil).(Str)
	}
	return StrOf("<" + iv.T.String() + ">")
}

func (in *Interp) fmtArg(v Value, verb byte) Str {
	switch x := v.(type) {
	case Iface:
		if x.T == nil {
			return StrOf("<nil>")
		}
		if verb != 'd' && verb != 'T' {
			if strings.HasPrefix(x.T.String(), "opaque:") || types.Implements(x.T, errorIface()) {
				return in.errorString(x)
			}
			if fn := in.findMethod(x.T, "String"); fn != nil && fn.Signature.Params().Len() == 0 && fn.Signature.Results().Len() == 1 {
				if r, ok := in.callFunction(fn, []Value{x.V}, nil).(Str); ok {
					return r
				}
			}
		}
		if verb == 'T' {
			return StrOf(x.T.String())
		}
		return in.fmtArgT(x.V, x.T, verb)
	}
	return in.fmtArgT(v, nil, verb)
}

// hexBytes renders bytes as lower/upper-case hex digits (term-level, no forking).
func hexBytes(bs []*term.Term, upper bool) Str {
	out := make([]*term.Term, 0, 2*len(bs))
	a := uint64('a')
	if upper {
		a = 'A'
	}
	digit := func(n *term.Term) *term.Term { // n: 8-bit term holding 0..15
		return term.Ite(term.ULt(n, term.BVC(8, 10)), term.Add(n, term.BVC(8, '0')), term.Add(n, term.BVC(8, a-10)))
	}
	for _, b := range bs {
		out = append(out, digit(term.LShr(b, term.BVC(8, 4))), digit(term.BAnd(b, term.BVC(8, 15))))
	}
	return Str{out}
}

func (in *Interp) fmtArgT(v Value, t types.Type, verb byte) Str {
	if verb == 'x' || verb == 'X' {
		switch x := v.(type) {
		case Str:
			return hexBytes(x.B, verb == 'X')
		case Slice:
			bs := make([]*term.Term, 0, len(x.Cells))
			ok := true
			for _, c := range x.Cells {
				bt, isT := c.V.(*term.Term)
				if !isT || bt.Sort != term.BV(8) {
					ok = false
					break
				}
				bs = append(bs, bt)
			}
			if ok {
				return hexBytes(bs, verb == 'X')
			}
		case *term.Term:
			if x.IsConst() && x.Sort.K == term.KBV {
				if verb == 'X' {
					return StrOf(strings.ToUpper(strconv.FormatUint(x.U, 16)))
				}
				return StrOf(strconv.FormatUint(x.U, 16))
			}
		}
	}
	switch x := v.(type) {
	case Str:
		if verb == 'q' {
			if c, ok := x.Concrete(); ok {
				return StrOf(strconv.Quote(c))
			}
			out := append([]*term.Term{term.BVC(8, '"')}, x.B...)
			return Str{append(out, term.BVC(8, '"'))}
		}
		return x
	case *term.Term:
		if x.IsConst() {
			switch x.Sort.K {
			case term.KBool:
				return StrOf(strconv.FormatBool(x.U != 0))
			case term.KBV:
				if verb == 'c' {
					return StrOf(string(rune(x.U)))
				}
				if t != nil && !isSigned(t) {
					return StrOf(strconv.FormatUint(x.U, 10))
				}
				return StrOf(strconv.FormatInt(x.SignedVal(), 10))
			case term.KFP:
				return StrOf(strconv.FormatFloat(x.F, 'g', -1, 64))
			}
		}
		if verb == 'c' && x.Sort.K == term.KBV {
			return Str{[]*term.Term{term.Extract(x, 7, 0)}}
		}
		if verb == 'v' || verb == 'd' {
			if s, ok := in.fmtDecimal(x, t); ok { // opt-in "fmt:decimal" (intr_fmtdecimal.go)
				return s
			}
		}
		return in.opaqueString("fmt")
	case Ptr:
		if s, ok := in.fmtPointer(x); ok { // opt-in "fmt:decimal" (intr_fmtdecimal.go)
			return s
		}
	}
	return in.opaqueString("fmt")
}

func (in *Interp) sprintf(format Str, args Slice) Str {
	f, ok := format.Concrete()
	if !ok {
		return in.opaqueString("fmt.Sprintf(symbolic format)")
	}
	var out []*term.Term
	ai := 0
	for i := 0; i < len(f); i++ {
		if f[i] != '%' {
			out = append(out, term.BVC(8, uint64(f[i])))
			continue
		}
		i++
		if i >= len(f) {
			break
		}
		// skip flags/width
		for i < len(f) && strings.ContainsRune("+-# 0123456789.", rune(f[i])) {
			i++
		}
		if i >= len(f) {
			break
		}
		if f[i] == '%' {
			out = append(out, term.BVC(8, '%'))
			continue
		}
		if ai >= len(args.Cells) {
			out = append(out, StrOf("%!"+string(f[i])+"(MISSING)").B...)
			continue
		}
		out = append(out, in.fmtArg(in.load(args.Cells[ai]), f[i]).B...)
		ai++
	}
	return Str{out}
}

func (in *Interp) sprint(args Slice, ln bool) Str {
	var out []*term.Term
	for i, c := range args.Cells {
		if i > 0 && ln {
			out = append(out, term.BVC(8, ' '))
		}
		out = append(out, in.fmtArg(in.load(c), 'v').B...)
	}
	if ln {
		out = append(out, term.BVC(8, '\n'))
	}
	return Str{out}
}
