package interp

// strconv.ParseInt as the inverse of strconv.Itoa/FormatInt(x, 10) on symbolic
// integers. The engine does not build decimal digits of a symbolic integer:
// Itoa/FormatInt return an opaque string (fresh bytes nobody may branch on) and
// remember which integer it denotes (decimalString, called from the two
// intrinsics in intrinsics.go). ParseInt(s, 10|0, 64) of exactly that string
// yields the integer and a nil error - the round-trip law of the real
// functions. Every other argument runs the real strconv.ParseInt from its SSA.

import (
	"fmt"

	"golang.org/x/tools/go/ssa"

	"verif/engine/internal/term"
)

type decimalRec struct {
	val *term.Term // 64-bit
	str Str
}

func (in *Interp) decimalString(t *term.Term, what string) Str {
	s := in.opaqueString(what)
	if t.Sort.K == term.KBV && t.Sort.W == 64 {
		in.sideTab[fmt.Sprintf("dec:%d", s.B[0].ID)] = &decimalRec{val: t, str: s}
	}
	return s
}

func init() {
	reg("strconv.ParseInt", func(in *Interp, fn *ssa.Function, args []Value) Value {
		s := args[0].(Str)
		base, bits := tt(args[1]), tt(args[2])
		if len(s.B) > 0 && base.IsConst() && (base.U == 10 || base.U == 0) && bits.IsConst() && (bits.U == 64 || bits.U == 0) {
			if rec, ok := in.sideTab[fmt.Sprintf("dec:%d", s.B[0].ID)].(*decimalRec); ok && len(rec.str.B) == len(s.B) {
				same := true
				for i := range s.B {
					if s.B[i] != rec.str.B[i] {
						same = false
					}
				}
				if same {
					return Tuple{rec.val, Iface{}}
				}
			}
		}
		if fn.Blocks == nil && fn.Pkg != nil {
			fn.Pkg.Build()
		}
		return in.runFunction(fn, args, nil)
	})
}
