package interp

import (
	"strings"
	"unicode"

	"golang.org/x/tools/go/ssa"

	"verif/engine/internal/term"
)

// ASCII models of the unicode predicates/mappings and of the strings functions
// built on them.  The real implementations read the Unicode range tables
// (package-level data the engine does not initialise).  A concrete rune is
// evaluated with the host's unicode package (exact for every rune); a symbolic
// rune must be ASCII: the harness assumes it, otherwise the path is INCONCLUSIVE.

// asciiRune forces the symbolic rune/byte r below 0x80 (fork; the other side is inconclusive).
func (in *Interp) asciiRune(r *term.Term, what string) {
	if !in.Eng.Branch(term.ULt(r, term.BVC(r.Sort.W, 0x80))) {
		panic(in.inconclusive("%s on a symbolic non-ASCII rune (harness must assume ASCII)", what))
	}
}

func between(r *term.Term, lo, hi byte) *term.Term {
	w := r.Sort.W
	return term.And(term.ULe(term.BVC(w, uint64(lo)), r), term.ULe(r, term.BVC(w, uint64(hi))))
}

func asciiUpperT(r *term.Term) *term.Term { return between(r, 'A', 'Z') }
func asciiLowerT(r *term.Term) *term.Term { return between(r, 'a', 'z') }
func asciiDigitT(r *term.Term) *term.Term { return between(r, '0', '9') }
func asciiSpaceT(r *term.Term) *term.Term {
	w := r.Sort.W
	return term.Or(between(r, '\t', '\r'), term.Eq(r, term.BVC(w, ' ')))
}
func asciiToUpperT(r *term.Term) *term.Term {
	return term.Ite(asciiLowerT(r), term.Sub(r, term.BVC(r.Sort.W, 32)), r)
}
func asciiToLowerT(r *term.Term) *term.Term {
	return term.Ite(asciiUpperT(r), term.Add(r, term.BVC(r.Sort.W, 32)), r)
}

// asciiSepT: strings.isSeparator restricted to ASCII (letters, digits, '_' are not separators).
func asciiSepT(r *term.Term) *term.Term {
	return term.Not(term.Or(asciiUpperT(r), asciiLowerT(r), asciiDigitT(r), term.Eq(r, term.BVC(r.Sort.W, '_'))))
}

func init() {
	pred := func(name string, host func(rune) bool, sym func(*term.Term) *term.Term) {
		reg("unicode."+name, func(in *Interp, fn *ssa.Function, args []Value) Value {
			r := tt(args[0])
			if r.IsConst() {
				return term.BoolC(host(rune(int32(r.U))))
			}
			in.asciiRune(r, "unicode."+name)
			return sym(r)
		})
	}
	pred("IsUpper", unicode.IsUpper, asciiUpperT)
	pred("IsLower", unicode.IsLower, asciiLowerT)
	pred("IsLetter", unicode.IsLetter, func(r *term.Term) *term.Term { return term.Or(asciiUpperT(r), asciiLowerT(r)) })
	pred("IsDigit", unicode.IsDigit, asciiDigitT)
	pred("IsNumber", unicode.IsNumber, asciiDigitT)
	pred("IsSpace", unicode.IsSpace, asciiSpaceT)
	conv := func(name string, host func(rune) rune, sym func(*term.Term) *term.Term) {
		reg("unicode."+name, func(in *Interp, fn *ssa.Function, args []Value) Value {
			r := tt(args[0])
			if r.IsConst() {
				return term.BVC(32, uint64(uint32(host(rune(int32(r.U))))))
			}
			in.asciiRune(r, "unicode."+name)
			return sym(r)
		})
	}
	conv("ToUpper", unicode.ToUpper, asciiToUpperT)
	conv("ToTitle", unicode.ToTitle, asciiToUpperT)
	conv("ToLower", unicode.ToLower, asciiToLowerT)

	// strings.Title: upper-case every letter that follows a separator (or starts the string).
	reg("strings.Title", func(in *Interp, fn *ssa.Function, args []Value) Value {
		s := args[0].(Str)
		if c, ok := s.Concrete(); ok {
			return StrOf(strings.Title(c)) //nolint:staticcheck // the function under test calls it
		}
		out := make([]*term.Term, len(s.B))
		prevSep := term.True
		for i, b := range s.B {
			if b.IsConst() && b.U >= 0x80 {
				panic(in.inconclusive("strings.Title: non-ASCII byte in a partly symbolic string"))
			}
			if !b.IsConst() {
				in.asciiRune(b, "strings.Title")
			}
			out[i] = term.Ite(prevSep, asciiToUpperT(b), b)
			prevSep = asciiSepT(b)
		}
		return Str{out}
	})

	// strings.TrimSpace: forks on the number of leading and trailing blanks.
	reg("strings.TrimSpace", func(in *Interp, fn *ssa.Function, args []Value) Value {
		s := args[0].(Str)
		if c, ok := s.Concrete(); ok {
			return StrOf(strings.TrimSpace(c))
		}
		isSpace := func(b *term.Term) bool {
			if b.IsConst() {
				if b.U >= 0x80 {
					panic(in.inconclusive("strings.TrimSpace: non-ASCII byte in a partly symbolic string"))
				}
				return unicode.IsSpace(rune(b.U))
			}
			in.asciiRune(b, "strings.TrimSpace")
			return in.Eng.Branch(asciiSpaceT(b))
		}
		lo, hi := 0, len(s.B)
		for lo < hi && isSpace(s.B[lo]) {
			lo++
		}
		for hi > lo && isSpace(s.B[hi-1]) {
			hi--
		}
		return Str{s.B[lo:hi:hi]}
	})
}
