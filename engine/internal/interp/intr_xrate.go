package interp

// Abstract model of golang.org/x/time/rate (third party, not executed):
//
//   rate.Every(d)            exact: d <= 0 ? Inf : 1/d.Seconds() in IEEE float64
//                            (constant-folded for a concrete d)
//   rate.NewLimiter(r, b)    a Limiter object remembering r and b
//   (*Limiter).Limit/Burst   the remembered constructor arguments
//   (*Limiter).AllowN(t, n)  an UNCONSTRAINED boolean (nondet "xrate.AllowN"),
//                            with the one property the real limiter has that
//                            harnesses rely on: it is a deterministic function
//                            of the constructor arguments and of the sequence of
//                            (t, n) arguments received so far. Two Limiter objects
//                            built from the same (r, b) terms and fed the same
//                            sequence of (t.wall, t.ext, n) terms answer with the
//                            same boolean term; any difference in an argument
//                            (compared structurally, which can only over-
//                            approximate) yields an independent boolean.
//
// This lets a harness state "the answer is the one an in-process bucket of the
// same rate and burst gives" by running a twin limiter next to the code under
// test: natively the twin is the real x/time/rate limiter (deterministic in its
// arguments), symbolically both sides range over every possible behaviour.

import (
	"crypto/sha1"
	"fmt"
	"go/types"
	"math"

	"golang.org/x/tools/go/ssa"

	"verif/engine/internal/term"
)

type xrateState struct{ key string }

func xrateKey(prev string, ts ...*term.Term) string {
	s := prev
	for _, t := range ts {
		s += fmt.Sprintf("|%d", t.ID)
	}
	return fmt.Sprintf("%x", sha1.Sum([]byte(s)))
}

func init() {
	const pkg = "golang.org/x/time/rate"
	limState := func(in *Interp, v Value) (*Cell, *xrateState) {
		c := cellArg(in, v)
		st, ok := in.sideTab[fmt.Sprintf("xrate:%d", c.ID)].(*xrateState)
		if !ok {
			panic(in.inconclusive("x/time/rate Limiter not created by rate.NewLimiter (zero-value limiters are not modelled)"))
		}
		return c, st
	}

	reg(pkg+".Every", func(in *Interp, fn *ssa.Function, args []Value) Value {
		d := tt(args[0])
		e9 := term.BVC(64, 1000000000)
		secs := term.FAdd(term.SBVToF(term.SDiv(d, e9), 64), term.FDiv(term.SBVToF(term.SRem(d, e9), 64), term.FC(64, 1e9)))
		return term.Ite(term.SLe(d, term.BVC(64, 0)), term.FC(64, math.MaxFloat64), term.FDiv(term.FC(64, 1), secs))
	})

	reg(pkg+".NewLimiter", func(in *Interp, fn *ssa.Function, args []Value) Value {
		pt := fn.Signature.Results().At(0).Type().(*types.Pointer)
		c := in.newCell(pt.Elem())
		c.F[fieldIndex(in, pt.Elem(), "limit")].V = args[0]
		c.F[fieldIndex(in, pt.Elem(), "burst")].V = args[1]
		in.sideTab[fmt.Sprintf("xrate:%d", c.ID)] = &xrateState{key: xrateKey("new", tt(args[0]), tt(args[1]))}
		return Ptr{c}
	})

	reg("(*"+pkg+".Limiter).Limit", func(in *Interp, fn *ssa.Function, args []Value) Value {
		c, _ := limState(in, args[0])
		return c.F[fieldIndex(in, c.T, "limit")].V
	})
	reg("(*"+pkg+".Limiter).Burst", func(in *Interp, fn *ssa.Function, args []Value) Value {
		c, _ := limState(in, args[0])
		return c.F[fieldIndex(in, c.T, "burst")].V
	})

	reg("(*"+pkg+".Limiter).AllowN", func(in *Interp, fn *ssa.Function, args []Value) Value {
		_, st := limState(in, args[0])
		t := args[1].(StructV)
		tT := fn.Signature.Params().At(0).Type()
		wall := tt(t.F[fieldIndex(in, tT, "wall")])
		ext := tt(t.F[fieldIndex(in, tT, "ext")])
		st.key = xrateKey(st.key, wall, ext, tt(args[2]))
		mk := "xrate.memo:" + st.key
		if r, ok := in.sideTab[mk].(*term.Term); ok {
			return r
		}
		r := in.Eng.Fresh("xrate.AllowN", term.Bool)
		in.sideTab[mk] = r
		return r
	})
}
